(* one entry point for the extracted model: first integer = property / function selector *)
From Coq Require Import ZArith List.
Import ListNotations.
Require Import EV.model.Cfg EV.model.Enc EV.model.ChanFileRun EV.gen.Facts.
Open Scope Z_scope.

Definition dispatch (inp : list Z) : list Z :=
  match inp with
  | 19 :: r => run_chanfile cf_newline r
  | _ => [-999]
  end.
