(* one entry point for the extracted model: first integer = property / function selector *)
From Coq Require Import ZArith List.
Import ListNotations.
Require Import EV.model.Cfg EV.model.Enc EV.model.ChanFileRun EV.model.GroupIds EV.model.C20Run EV.model.FrameRun EV.model.CodecRun EV.model.PoolRun EV.model.Exec EV.model.ExecRun EV.model.ExecRelRun EV.model.Chan EV.model.ChanRun EV.model.Link EV.model.LinkRun EV.model.Ids EV.model.IdsRun EV.model.RSync EV.model.RSyncRun EV.model.ProxyRun EV.model.FdTable EV.model.FdRun EV.model.Term EV.model.TermRun EV.model.Reconf EV.model.ReconfRun EV.gen.Facts.
Open Scope Z_scope.

Definition dispatch (inp : list Z) : list Z :=
  match inp with
  | 1 :: 0 :: r => run_dumps int_lo_checked r
  | 1 :: 1 :: r => run_loads r
  | 5 :: 0 :: r => run_safe_terminate r
  | 5 :: 1 :: r => run_rounds r
  | 5 :: 2 :: r => run_terminate {| joins_pending := term_loop_joins_pending; vias_count_tojoin := term_vias_count_tojoin |} r
  | 11 :: r => run_ladder (Z.of_nat ladder_t1 :: Z.of_nat ladder_t2 :: r)
  | 6 :: r => run_fd init_popen_ops r
  | 8 :: 0 :: r => run_frames r
  | 8 :: 1 :: r => run_decode r
  | 8 :: 2 :: r => run_writers r
  | 9 :: 0 :: r => run_pool_explore (pool_keep_pending, pool_mailbox_first) r
  | 14 :: r => run_exec {| set_on_error := exec_sets_complete_always; set_on_interrupt := exec_sets_complete_always |} r
  | 21 :: r => run_exec_rel {| ExecRel.set_on_error := exec_sets_complete_always; ExecRel.set_on_interrupt := exec_sets_complete_always |} r
  | 2 :: r => run_chan {| setcb_atomic := chan_setcb_atomic && chan_receiver_locked |} r
  | 3 :: r => run_link {| setcb_atomic := chan_setcb_atomic && chan_receiver_locked |} r
  | 16 :: r => run_proxy r
  | 17 :: r => run_rsync r
  | 18 :: r => run_ids ids_cfg r
  | 19 :: r => run_chanfile cf_newline r
  | 22 :: r => run_reconf reconf_handler_creates_object r
  | 20 :: 0 :: r => run_xspec xspec_env_dup_checked r
  | 20 :: 1 :: r => run_group group_cfg r
  | 20 :: 2 :: r => run_group_all group_cfg r
  | _ => [-999]
  end.
