From Coq Require Import Extraction ExtrOcamlBasic.
Require Import EV.extract.Dispatch.
(* coqc is run with cwd = ocaml/gen, where model.ml / model.mli are written *)
Extraction "model.ml" dispatch.
