
type nat =
| O
| S of nat

(** val option_map : ('a1 -> 'a2) -> 'a1 option -> 'a2 option **)

let option_map f = function
| Some a -> Some (f a)
| None -> None

(** val length : 'a1 list -> nat **)

let rec length = function
| [] -> O
| _ :: l' -> S (length l')

(** val app : 'a1 list -> 'a1 list -> 'a1 list **)

let rec app l m =
  match l with
  | [] -> m
  | a :: l1 -> a :: (app l1 m)

(** val add : nat -> nat -> nat **)

let rec add n m =
  match n with
  | O -> m
  | S p -> S (add p m)

type positive =
| XI of positive
| XO of positive
| XH

type z =
| Z0
| Zpos of positive
| Zneg of positive

module Nat =
 struct
  (** val leb : nat -> nat -> bool **)

  let rec leb n m =
    match n with
    | O -> true
    | S n' -> (match m with
               | O -> false
               | S m' -> leb n' m')
 end

module Pos =
 struct
  (** val succ : positive -> positive **)

  let rec succ = function
  | XI p -> XO (succ p)
  | XO p -> XI p
  | XH -> XO XH

  (** val eqb : positive -> positive -> bool **)

  let rec eqb p q =
    match p with
    | XI p0 -> (match q with
                | XI q0 -> eqb p0 q0
                | _ -> false)
    | XO p0 -> (match q with
                | XO q0 -> eqb p0 q0
                | _ -> false)
    | XH -> (match q with
             | XH -> true
             | _ -> false)

  (** val iter_op : ('a1 -> 'a1 -> 'a1) -> positive -> 'a1 -> 'a1 **)

  let rec iter_op op0 p a =
    match p with
    | XI p0 -> op0 a (iter_op op0 p0 (op0 a a))
    | XO p0 -> iter_op op0 p0 (op0 a a)
    | XH -> a

  (** val to_nat : positive -> nat **)

  let to_nat x =
    iter_op add x (S O)

  (** val of_succ_nat : nat -> positive **)

  let rec of_succ_nat = function
  | O -> XH
  | S x -> succ (of_succ_nat x)
 end

module Z =
 struct
  (** val eqb : z -> z -> bool **)

  let eqb x y =
    match x with
    | Z0 -> (match y with
             | Z0 -> true
             | _ -> false)
    | Zpos p -> (match y with
                 | Zpos q -> Pos.eqb p q
                 | _ -> false)
    | Zneg p -> (match y with
                 | Zneg q -> Pos.eqb p q
                 | _ -> false)

  (** val to_nat : z -> nat **)

  let to_nat = function
  | Zpos p -> Pos.to_nat p
  | _ -> O

  (** val of_nat : nat -> z **)

  let of_nat = function
  | O -> Z0
  | S n0 -> Zpos (Pos.of_succ_nat n0)
 end

(** val rev : 'a1 list -> 'a1 list **)

let rec rev = function
| [] -> []
| x :: l' -> app (rev l') (x :: [])

(** val concat : 'a1 list list -> 'a1 list **)

let rec concat = function
| [] -> []
| x :: l0 -> app x (concat l0)

(** val map : ('a1 -> 'a2) -> 'a1 list -> 'a2 list **)

let rec map f = function
| [] -> []
| a :: t -> (f a) :: (map f t)

(** val firstn : nat -> 'a1 list -> 'a1 list **)

let rec firstn n l =
  match n with
  | O -> []
  | S n0 -> (match l with
             | [] -> []
             | a :: l0 -> a :: (firstn n0 l0))

(** val skipn : nat -> 'a1 list -> 'a1 list **)

let rec skipn n l =
  match n with
  | O -> l
  | S n0 -> (match l with
             | [] -> []
             | _ :: l0 -> skipn n0 l0)

type nl_kind =
| NlStrLiteral
| NlByBufferType
| NlUnknown

(** val zhd : z list -> z **)

let zhd = function
| [] -> Z0
| x :: _ -> x

(** val ztl : z list -> z list **)

let ztl = function
| [] -> []
| _ :: r -> r

(** val get_lp : z list -> z list * z list **)

let get_lp l =
  let n = Z.to_nat (zhd l) in ((firstn n (ztl l)), (skipn n (ztl l)))

(** val get_lps : nat -> z list -> z list list * z list **)

let rec get_lps k l =
  match k with
  | O -> ([], l)
  | S k' ->
    let (x, r) = get_lp l in let (xs, r') = get_lps k' r in ((x :: xs), r')

(** val put_lp : z list -> z list **)

let put_lp l =
  (Z.of_nat (length l)) :: l

type 'sym cf = { buf : 'sym list option; items : 'sym list list }

(** val fill :
    'a1 list -> 'a1 list list -> nat -> 'a1 list * 'a1 list list **)

let rec fill b its n =
  if Nat.leb n (length b)
  then (b, its)
  else (match its with
        | [] -> (b, [])
        | it :: rest -> fill (app b it) rest n)

(** val cf_read : nat -> 'a1 cf -> 'a1 list * 'a1 cf **)

let cf_read n s =
  match s.buf with
  | Some b0 ->
    let (b, its) = fill b0 s.items n in
    ((firstn n b), { buf = (Some (skipn n b)); items = its })
  | None ->
    (match s.items with
     | [] -> ([], s)
     | it :: rest ->
       let (b, its) = fill it rest n in
       ((firstn n b), { buf = (Some (skipn n b)); items = its }))

(** val find_nl : ('a1 -> bool) -> 'a1 list -> nat option **)

let rec find_nl is_nl = function
| [] -> None
| c :: r ->
  if is_nl c then Some O else option_map (fun x -> S x) (find_nl is_nl r)

(** val last_is_nl : ('a1 -> bool) -> 'a1 list -> bool **)

let last_is_nl is_nl l =
  match rev l with
  | [] -> false
  | c :: _ -> is_nl c

(** val rl_loop :
    ('a1 -> bool) -> nat -> 'a1 list -> 'a1 cf -> 'a1 list * 'a1 cf **)

let rec rl_loop is_nl fuel line s =
  match fuel with
  | O -> (line, s)
  | S f ->
    (match line with
     | [] -> (line, s)
     | _ :: _ ->
       if last_is_nl is_nl line
       then (line, s)
       else let (c, s') = cf_read (S O) s in
            (match c with
             | [] -> (line, s')
             | _ :: _ -> rl_loop is_nl f (app line c) s'))

(** val total_len : 'a1 cf -> nat **)

let total_len s =
  add (length (match s.buf with
               | Some b -> b
               | None -> [])) (length (concat s.items))

(** val cf_readline : ('a1 -> bool) -> 'a1 cf -> 'a1 list * 'a1 cf **)

let cf_readline is_nl s =
  match s.buf with
  | Some b ->
    (match find_nl is_nl b with
     | Some i -> cf_read (add i (S O)) s
     | None ->
       let (line, s') = cf_read (add (length b) (S O)) s in
       rl_loop is_nl (S (total_len s')) line s')
  | None ->
    let (line, s') = cf_read (S O) s in
    rl_loop is_nl (S (total_len s')) line s'

type op =
| Read of nat
| Readline

(** val cf_step : ('a1 -> bool) -> op -> 'a1 cf -> 'a1 list * 'a1 cf **)

let cf_step is_nl o s =
  match o with
  | Read n -> cf_read n s
  | Readline -> cf_readline is_nl s

(** val cf_run : ('a1 -> bool) -> op list -> 'a1 cf -> 'a1 list list **)

let rec cf_run is_nl ops s =
  match ops with
  | [] -> []
  | o :: os -> let (x, s') = cf_step is_nl o s in x :: (cf_run is_nl os s')

(** val cf_init : 'a1 list list -> 'a1 cf **)

let cf_init its =
  { buf = None; items = its }

(** val is_nl_for : nl_kind -> bool -> z -> bool **)

let is_nl_for k bytes_stream c =
  match k with
  | NlStrLiteral ->
    if bytes_stream then false else Z.eqb c (Zpos (XO (XI (XO XH))))
  | NlByBufferType -> Z.eqb c (Zpos (XO (XI (XO XH))))
  | NlUnknown -> false

(** val get_ops : nat -> z list -> op list **)

let rec get_ops k l =
  match k with
  | O -> []
  | S k' ->
    (match l with
     | [] -> []
     | z0 :: r ->
       (match z0 with
        | Z0 ->
          (match r with
           | [] -> Readline :: (get_ops k' r)
           | n :: r0 -> (Read (Z.to_nat n)) :: (get_ops k' r0))
        | _ -> Readline :: (get_ops k' r)))

(** val run_chanfile : nl_kind -> z list -> z list **)

let run_chanfile k inp =
  let bytes_stream = Z.eqb (zhd inp) (Zpos XH) in
  let r1 = ztl inp in
  let (its, r2) = get_lps (Z.to_nat (zhd r1)) (ztl r1) in
  let ops = get_ops (Z.to_nat (zhd r2)) (ztl r2) in
  concat (map put_lp (cf_run (is_nl_for k bytes_stream) ops (cf_init its)))

(** val cf_newline : nl_kind **)

let cf_newline =
  NlStrLiteral

(** val dispatch : z list -> z list **)

let dispatch = function
| [] -> (Zneg (XI (XI (XI (XO (XO (XI (XI (XI (XI XH)))))))))) :: []
| z0 :: r ->
  (match z0 with
   | Zpos p ->
     (match p with
      | XI p0 ->
        (match p0 with
         | XI p1 ->
           (match p1 with
            | XO p2 ->
              (match p2 with
               | XO p3 ->
                 (match p3 with
                  | XH -> run_chanfile cf_newline r
                  | _ ->
                    (Zneg (XI (XI (XI (XO (XO (XI (XI (XI (XI
                      XH)))))))))) :: [])
               | _ ->
                 (Zneg (XI (XI (XI (XO (XO (XI (XI (XI (XI XH)))))))))) :: [])
            | _ ->
              (Zneg (XI (XI (XI (XO (XO (XI (XI (XI (XI XH)))))))))) :: [])
         | _ -> (Zneg (XI (XI (XI (XO (XO (XI (XI (XI (XI XH)))))))))) :: [])
      | _ -> (Zneg (XI (XI (XI (XO (XO (XI (XI (XI (XI XH)))))))))) :: [])
   | _ -> (Zneg (XI (XI (XI (XO (XO (XI (XI (XI (XI XH)))))))))) :: [])
