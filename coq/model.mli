
type nat =
| O
| S of nat

val option_map : ('a1 -> 'a2) -> 'a1 option -> 'a2 option

val length : 'a1 list -> nat

val app : 'a1 list -> 'a1 list -> 'a1 list

val add : nat -> nat -> nat

type positive =
| XI of positive
| XO of positive
| XH

type z =
| Z0
| Zpos of positive
| Zneg of positive

module Nat :
 sig
  val leb : nat -> nat -> bool
 end

module Pos :
 sig
  val succ : positive -> positive

  val eqb : positive -> positive -> bool

  val iter_op : ('a1 -> 'a1 -> 'a1) -> positive -> 'a1 -> 'a1

  val to_nat : positive -> nat

  val of_succ_nat : nat -> positive
 end

module Z :
 sig
  val eqb : z -> z -> bool

  val to_nat : z -> nat

  val of_nat : nat -> z
 end

val rev : 'a1 list -> 'a1 list

val concat : 'a1 list list -> 'a1 list

val map : ('a1 -> 'a2) -> 'a1 list -> 'a2 list

val firstn : nat -> 'a1 list -> 'a1 list

val skipn : nat -> 'a1 list -> 'a1 list

type nl_kind =
| NlStrLiteral
| NlByBufferType
| NlUnknown

val zhd : z list -> z

val ztl : z list -> z list

val get_lp : z list -> z list * z list

val get_lps : nat -> z list -> z list list * z list

val put_lp : z list -> z list

type 'sym cf = { buf : 'sym list option; items : 'sym list list }

val fill : 'a1 list -> 'a1 list list -> nat -> 'a1 list * 'a1 list list

val cf_read : nat -> 'a1 cf -> 'a1 list * 'a1 cf

val find_nl : ('a1 -> bool) -> 'a1 list -> nat option

val last_is_nl : ('a1 -> bool) -> 'a1 list -> bool

val rl_loop : ('a1 -> bool) -> nat -> 'a1 list -> 'a1 cf -> 'a1 list * 'a1 cf

val total_len : 'a1 cf -> nat

val cf_readline : ('a1 -> bool) -> 'a1 cf -> 'a1 list * 'a1 cf

type op =
| Read of nat
| Readline

val cf_step : ('a1 -> bool) -> op -> 'a1 cf -> 'a1 list * 'a1 cf

val cf_run : ('a1 -> bool) -> op list -> 'a1 cf -> 'a1 list list

val cf_init : 'a1 list list -> 'a1 cf

val is_nl_for : nl_kind -> bool -> z -> bool

val get_ops : nat -> z list -> op list

val run_chanfile : nl_kind -> z list -> z list

val cf_newline : nl_kind

val dispatch : z list -> z list
