(* C15: what the units of source code that execnet ships to the other side import and refer to.
   The tables are regenerated from the source by tools/gen_facts.py (gen/Facts.v); here are the types
   and the checker, proofs/BootP.v lifts the computed check to a statement about every unit, import and name. *)
From Coq Require Import List Bool String Ascii.
Import ListNotations.
Open Scope string_scope.

Inductive guard :=
| GTop                          (* executed when the unit is executed *)
| GFunc                         (* inside a function or method: executed when that is called *)
| GTypeChecking                 (* under `if TYPE_CHECKING:` -- never executed *)
| GTry                          (* in a try body that has an `except ImportError` handler *)
| GExcept                       (* in an `except ImportError` handler: the fallback *)
| GMain                         (* under `if __name__ == "__main__":` -- the unit run as a script *)
| GExecModel (cls : string).    (* inside a method of an execution-model class *)

Record bunit := {
  uname : string;
  imports : list (string * guard);     (* module name as written (dots for relative imports), where *)
  uses : list string;                  (* names looked up in the unit's global namespace at run time *)
  defs : list string;                  (* names the unit (or the source shipped before it) binds at its top level *)
  prelude : list string                (* names the bootstrap line / remote_exec provides *)
}.

Fixpoint top_pkg_aux (s : string) : string :=
  match s with
  | EmptyString => EmptyString
  | String c r => if Ascii.eqb c "."%char then EmptyString else String c (top_pkg_aux r)
  end.
Definition top_pkg (s : string) : string := top_pkg_aux s.
Definition mem (x : string) (l : list string) : bool := existsb (String.eqb x) l.

(* execution models that need a third-party package; they are chosen by the caller, never by default *)
Definition optional_models : list string := ["EventletExecModel"; "GeventExecModel"].

Definition import_ok (stdlib : list string) (i : string * guard) : bool :=
  let m := fst i in
  match snd i with
  | GTypeChecking => true
  | GTry => true
  | GExcept => mem (top_pkg m) stdlib || String.eqb m "__main__"
  | GExecModel c => mem (top_pkg m) stdlib || (mem c optional_models && negb (String.eqb (top_pkg m) "execnet") && negb (String.eqb (top_pkg m) ""))
  | GTop | GFunc | GMain => mem (top_pkg m) stdlib
  end.
Definition use_ok (builtins : list string) (u : bunit) (n : string) : bool :=
  mem n (defs u) || mem n builtins || mem n (prelude u).
Definition unit_ok (stdlib builtins : list string) (u : bunit) : bool :=
  forallb (import_ok stdlib) (imports u) && forallb (use_ok builtins u) (uses u).
Definition all_ok (stdlib builtins : list string) (us : list bunit) : bool := forallb (unit_ok stdlib builtins) us.
