(* executable entry points of the XSpec / GroupIds models for the correspondence check *)
From Coq Require Import ZArith List Bool.
Import ListNotations.
Require Import EV.model.Enc EV.model.XSpec EV.model.GroupIds.
Open Scope Z_scope.

Definition enc_value (v : value) : list Z :=
  match v with VTrue => [0] | VStr s => 1 :: put_lp s end.
Definition enc_kvs (l : list (str * value)) : list Z :=
  Z.of_nat (length l) :: concat (map (fun e => put_lp (fst e) ++ enc_value (snd e)) l).

(* input: code points of the spec string; output: 0 attrs env | 1 exn *)
Definition run_xspec (env_dup_checked : bool) (inp : list Z) : list Z :=
  match parse env_dup_checked inp with
  | inl x => 0 :: enc_kvs (attrs x) ++ enc_kvs (env x)
  | inr ValueError => [1; 1]
  | inr AttributeError => [1; 2]
  | inr IndexError => [1; 3]
  end.

Definition pc_code (p : pc) : list Z :=
  match p with
  | Idle _ => [0; 0] | ReadCnt n => [1; n] | HasId i => [2; i] | Checked i => [3; i]
  | Done i => [4; i] | Failed l => [5; if l then 1 else 0] | Gone => [6; 0]
  end.

Definition finished (p : pc) : bool :=
  match p with Done _ | Failed _ | Gone => true | _ => false end.

(* run thread t until its makegateway call has returned or raised (at most 4 micro-steps) *)
Fixpoint run_make (c : gcfg) (fuel : nat) (t : nat) (s : gstate) : gstate :=
  match fuel with
  | O => s
  | S f => match nth_error (thr s) t with
           | Some p => if finished p then s else
                       match tstep c s t with Some s' => run_make c f t s' | None => s end
           | None => s
           end
  end.

(* ops: 0 t = makegateway of thread t to completion; 1 t = one micro-step of t; 2 t = exit of t *)
Fixpoint run_ops (c : gcfg) (ops : list Z) (s : gstate) : gstate :=
  match ops with
  | 0 :: t :: r => run_ops c r (run_make c 4 (Z.to_nat t) s)
  | 1 :: t :: r => run_ops c r (match tstep c s (Z.to_nat t) with Some s' => s' | None => s end)
  | 2 :: t :: r =>
      run_ops c r (match nth_error (thr s) (Z.to_nat t) with
                   | Some (Done _) => match tstep c s (Z.to_nat t) with Some s' => s' | None => s end
                   | _ => s end)
  | _ => s
  end.

Fixpoint get_wants (k : nat) (l : list Z) : list (option Z) * list Z :=
  match k with
  | O => ([], l)
  | S k' => match l with
            | 0 :: r => let '(w, r') := get_wants k' r in (None :: w, r')
            | _ :: i :: r => let '(w, r') := get_wants k' r in (Some i :: w, r')
            | _ => ([], [])
            end
  end.

(* input: nthreads wants ops...   output: lp gws, lp handed, counter, pcs *)
Definition run_group (c : gcfg) (inp : list Z) : list Z :=
  let '(wants, ops) := get_wants (Z.to_nat (zhd inp)) (ztl inp) in
  let s := run_ops c ops (init wants) in
  put_lp (gws s) ++ put_lp (handed s) ++ [counter s] ++ concat (map pc_code (thr s)).

(* all terminal states reachable under any interleaving (for trace inclusion of observed runs);
   Done threads exit only if allow_exit *)
Fixpoint explore (c : gcfg) (allow_exit : bool) (fuel : nat) (s : gstate) : list gstate :=
  match fuel with
  | O => [s]
  | S f =>
      let succs := flat_map (fun t =>
                     match nth_error (thr s) t with
                     | Some (Done _) => if allow_exit then match tstep c s t with Some s' => [s'] | None => [] end else []
                     | _ => match tstep c s t with Some s' => [s'] | None => [] end
                     end) (seq 0 (length (thr s))) in
      match succs with
      | [] => [s]
      | _ => flat_map (explore c allow_exit f) succs
      end
  end.

(* input: allow_exit nthreads wants   output: nfinals (lp gws, lp pcs)* *)
Definition run_group_all (c : gcfg) (inp : list Z) : list Z :=
  let allow_exit := zhd inp =? 1 in
  let r := ztl inp in
  let '(wants, _) := get_wants (Z.to_nat (zhd r)) (ztl r) in
  let finals := explore c allow_exit (5 * length wants) (init wants) in
  Z.of_nat (length finals) :: concat (map (fun s => put_lp (gws s) ++ put_lp (concat (map pc_code (thr s)))) finals).
