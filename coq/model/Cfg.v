(* Types of the facts that tools/gen_facts.py extracts from /repo/src on every run.
   gen/Facts.v instantiates them; models and lemmas are generic in them. *)
From Coq Require Import ZArith List String.
Import ListNotations.

(* how ChannelFileRead.readline recognises the line end *)
Inductive nl_kind := NlStrLiteral | NlByBufferType | NlUnknown.

(* comparison operators as they appear in the source *)
Inductive cmp := CLt | CLe | CGt | CGe | CEq | CNe | CUnknown.
