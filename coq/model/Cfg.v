(* Types of the facts that tools/gen_facts.py extracts from /repo/src on every run.
   gen/Facts.v instantiates them; models and lemmas are generic in them. *)
From Coq Require Import ZArith List String.
Import ListNotations.

(* how ChannelFileRead.readline recognises the line end *)
Inductive nl_kind := NlStrLiteral | NlByBufferType | NlUnknown.

(* comparison operators as they appear in the source *)
Inductive cmp := CLt | CLe | CGt | CGe | CEq | CNe | CUnknown.

(* how an IO class writes one frame to its transport *)
Inductive wshape :=
| WFileWrite          (* one call of a buffered file object's write + flush (atomic: A-bufw) *)
| WSendallLocked      (* sock.sendall inside `with <lock>` *)
| WSendallUnlocked    (* bare sock.sendall: may interleave with another thread's sendall *)
| WOther.
Definition wshape_atomic (w : wshape) : bool :=
  match w with WFileWrite | WSendallLocked => true | _ => false end.

(* the frame header format of the execnet wire protocol: signed byte, two signed 32-bit ints, network order *)
Definition HEADER_FMT : string := "!bii"%string.
