(* Model of the receiving side of the channel layer (gateway_base.py: BaseGateway._thread_receiver,
   ChannelFactory._local_receive / _local_close / _no_longer_opened, Channel.receive / setcallback)
   for one direction of a gateway: the peer appends frames to a FIFO wire (frame integrity: C08), the
   single receiver thread handles them one at a time under the receive lock, any number of consumer
   threads call receive() (queue get, ENDMARKER re-put), setcallback runs under the receive lock.
   Channels are a total map id -> state.  Ghost history: what the peer sent / what consumers obtained. *)
From Coq Require Import List Bool Arith.
Import ListNotations.

Definition item := nat.
Inductive qitem := Item (x : item) | End.
Inductive endkind := KClose | KCloseErr | KLast.
Inductive frame := FData (id : nat) (x : item) | FEnd (id : nat) (k : endkind).

Record chan := {
  alive : bool;                 (* a Channel object is registered under this id *)
  q : option (list qitem);      (* its item queue; None = a callback took over (_items is None) *)
  closed : bool; rclosed : bool;
  errs : nat;                   (* pending RemoteErrors (_remoteerrors) *)
  cb : option bool              (* registered callback: Some endmarker_wanted *)
}.
Definition chan0 : chan := {| alive := false; q := None; closed := false; rclosed := false; errs := 0; cb := None |}.

Inductive cpc := CIdle | CHold (id : nat).          (* a thread in receive(): holding the ENDMARKER it took *)

Record ccfg := { setcb_atomic : bool }.             (* setcallback's whole body runs under the receive lock *)

Record cst := {
  wire : list frame;
  cs : nat -> chan;
  thr : list cpc;
  (* ghost *)
  sent : nat -> list item; got : nat -> list item; lossless : nat -> bool;
  ends : nat -> nat; regs : nat -> nat;            (* endmarker callbacks fired / callback registrations *)
  errs_in : nat -> nat; errs_out : nat -> nat;     (* CLOSE_ERROR frames handled / RemoteErrors raised to a consumer *)
  eofs : nat -> nat;                               (* EOFErrors raised *)
  fin : bool                                       (* the receiver thread ran its epilogue (connection over) *)
}.

Inductive clab :=
| LPeerSend (id : nat) (x : item) | LPeerEnd (id : nat) (k : endkind)
| LNew (id : nat) | LDrop (id : nat)
| LRecv | LGet (t id : nat) | LReput (t : nat) | LSetCb (id : nat) (wanted : bool) | LFinish
| LClose (id : nat).                 (* Channel.close() called locally on a Channel object that is still held *)

Definition fupd {A} (f : nat -> A) (i : nat) (v : A) : nat -> A := fun j => if Nat.eqb j i then v else f j.
Fixpoint upd {A} (l : list A) (i : nat) (x : A) : list A :=
  match l, i with [], _ => [] | _ :: r, O => x :: r | y :: r, S j => y :: upd r j x end.

Definition qitems (l : list qitem) : list item := flat_map (fun e => match e with Item x => [x] | End => [] end) l.
Definition qends (l : list qitem) : nat := length (filter (fun e => match e with End => true | _ => false end) l).
Definition witems (id : nat) (w : list frame) : list item :=
  flat_map (fun f => match f with FData j x => if Nat.eqb j id then [x] else [] | _ => [] end) w.

(* _no_longer_opened + the rest of _local_close for one channel state *)
Definition local_close (c : chan) (k : endkind) : chan :=
  if alive c then
    {| alive := false;
       q := match q c with Some l => Some (l ++ [End]) | None => None end;
       closed := match k with KLast => closed c | _ => true end;
       rclosed := true;
       errs := match k with KCloseErr => S (errs c) | _ => errs c end;
       cb := None |}
  else {| alive := false; q := q c; closed := closed c; rclosed := rclosed c; errs := errs c; cb := None |}.
(* a Channel object that user code can still hold: registered, or closed by the peer (a dropped object is neither) *)
Definition held (c : chan) : bool := alive c || rclosed c.
Definition fires (c : chan) : nat := match cb c with Some true => 1 | _ => 0 end.

Definition set_cs (s : cst) (f : nat -> chan) : cst :=
  {| wire := wire s; cs := f; thr := thr s; sent := sent s; got := got s; lossless := lossless s;
     ends := ends s; regs := regs s; errs_in := errs_in s; errs_out := errs_out s; eofs := eofs s; fin := fin s |}.

Definition cstep (c : ccfg) (s : cst) (l : clab) : option cst :=
  match l with
  | LPeerSend id x =>
      Some {| wire := wire s ++ [FData id x]; cs := cs s; thr := thr s; sent := fupd (sent s) id (sent s id ++ [x]); got := got s;
              lossless := lossless s; ends := ends s; regs := regs s; errs_in := errs_in s; errs_out := errs_out s; eofs := eofs s; fin := fin s |}
  | LPeerEnd id k =>
      Some {| wire := wire s ++ [FEnd id k]; cs := cs s; thr := thr s; sent := sent s; got := got s;
              lossless := lossless s; ends := ends s; regs := regs s; errs_in := errs_in s; errs_out := errs_out s; eofs := eofs s; fin := fin s |}
  | LNew id =>
      (* ChannelFactory.new(id) with no live object under that id: a fresh Channel (items still queued in a
         forgotten object are out of the accounting) *)
      let ch := cs s id in
      if fin s || alive ch || existsb (fun p => match p with CHold j => Nat.eqb j id | _ => false end) (thr s)
         || (match cb ch with Some _ => true | None => false end) then None
      else Some {| wire := wire s; cs := fupd (cs s) id {| alive := true; q := Some []; closed := false; rclosed := false; errs := 0; cb := cb ch |};
                   thr := thr s; sent := sent s; got := got s;
                   lossless := (match q ch with Some (_ :: _) => fupd (lossless s) id false | _ => lossless s end);
                   ends := ends s; regs := regs s; errs_in := errs_in s; errs_out := errs_out s; eofs := eofs s; fin := fin s |}
  | LDrop id =>
      (* the last reference to the Channel object goes away *)
      let ch := cs s id in
      if alive ch then Some {| wire := wire s; cs := fupd (cs s) id {| alive := false; q := q ch; closed := closed ch; rclosed := rclosed ch; errs := errs ch; cb := cb ch |};
                               thr := thr s; sent := sent s; got := got s; lossless := lossless s;
                               ends := ends s; regs := regs s; errs_in := errs_in s; errs_out := errs_out s; eofs := eofs s; fin := fin s |}
      else None
  | LRecv =>
      match (if fin s then [] else wire s) with
      | [] => None
      | FData id x :: w =>
          let ch := cs s id in
          match cb ch with
          | Some _ => (* callback(data), even if the channel object is gone *)
              Some {| wire := w; cs := cs s; thr := thr s; sent := sent s; got := fupd (got s) id (got s id ++ [x]);
                      lossless := lossless s; ends := ends s; regs := regs s; errs_in := errs_in s; errs_out := errs_out s; eofs := eofs s; fin := fin s |}
          | None =>
              match (if alive ch then q ch else None) with
              | Some lq => Some {| wire := w; cs := fupd (cs s) id {| alive := alive ch; q := Some (lq ++ [Item x]); closed := closed ch; rclosed := rclosed ch; errs := errs ch; cb := cb ch |};
                                   thr := thr s; sent := sent s; got := got s;
                                   lossless := lossless s; ends := ends s; regs := regs s; errs_in := errs_in s; errs_out := errs_out s; eofs := eofs s; fin := fin s |}
              | None => (* drop data *)
                  Some {| wire := w; cs := cs s; thr := thr s; sent := sent s; got := got s;
                          lossless := fupd (lossless s) id false; ends := ends s; regs := regs s; errs_in := errs_in s; errs_out := errs_out s; eofs := eofs s; fin := fin s |}
              end
          end
      | FEnd id k :: w =>
          let ch := cs s id in
          Some {| wire := w; cs := fupd (cs s) id (local_close ch k); thr := thr s; sent := sent s; got := got s;
                  lossless := lossless s; ends := fupd (ends s) id (ends s id + fires ch); regs := regs s;
                  errs_in := (match k with KCloseErr => fupd (errs_in s) id (S (errs_in s id)) | _ => errs_in s end);
                  errs_out := errs_out s; eofs := eofs s; fin := fin s |}
      end
  | LGet t id =>
      match nth_error (thr s) t, (if held (cs s id) then q (cs s id) else None) with
      | Some CIdle, Some (Item x :: lq) =>
          let ch := cs s id in
          Some {| wire := wire s; cs := fupd (cs s) id {| alive := alive ch; q := Some lq; closed := closed ch; rclosed := rclosed ch; errs := errs ch; cb := cb ch |};
                  thr := thr s; sent := sent s; got := fupd (got s) id (got s id ++ [x]);
                  lossless := lossless s; ends := ends s; regs := regs s; errs_in := errs_in s; errs_out := errs_out s; eofs := eofs s; fin := fin s |}
      | Some CIdle, Some (End :: lq) =>
          let ch := cs s id in
          Some {| wire := wire s; cs := fupd (cs s) id {| alive := alive ch; q := Some lq; closed := closed ch; rclosed := rclosed ch; errs := errs ch; cb := cb ch |};
                  thr := upd (thr s) t (CHold id); sent := sent s; got := got s;
                  lossless := lossless s; ends := ends s; regs := regs s; errs_in := errs_in s; errs_out := errs_out s; eofs := eofs s; fin := fin s |}
      | _, _ => None
      end
  | LReput t =>
      match nth_error (thr s) t with
      | Some (CHold id) =>
          let ch := cs s id in
          (* itemqueue.put(ENDMARKER); raise self._getremoteerror() or EOFError() *)
          Some {| wire := wire s;
                  cs := fupd (cs s) id {| alive := alive ch; q := (match q ch with Some lq => Some (lq ++ [End]) | None => None end);
                                          closed := closed ch; rclosed := rclosed ch; errs := pred (errs ch); cb := cb ch |};
                  thr := upd (thr s) t CIdle; sent := sent s; got := got s; lossless := lossless s; ends := ends s; regs := regs s;
                  errs_in := errs_in s;
                  errs_out := (match errs ch with O => errs_out s | S _ => fupd (errs_out s) id (S (errs_out s id)) end);
                  eofs := (match errs ch with O => fupd (eofs s) id (S (eofs s id)) | S _ => eofs s end); fin := fin s |}
      | _ => None
      end
  | LSetCb id wanted =>
      let ch := cs s id in
      if negb (setcb_atomic c) then None (* the non-atomic variant is not part of the verified configuration *)
      else
      match (if held ch then q ch else None) with
      | None => None                                  (* "has callback already registered" *)
      | Some lq =>
          let hasend := negb (Nat.eqb (qends lq) 0) in
          if hasend then
            (* queued items up to the ENDMARKER go to the callback, the ENDMARKER is re-put, the endmarker fires *)
            Some {| wire := wire s; cs := fupd (cs s) id {| alive := alive ch; q := None; closed := closed ch; rclosed := rclosed ch; errs := errs ch; cb := None |};
                    thr := thr s; sent := sent s; got := fupd (got s) id (got s id ++ qitems lq);
                    lossless := lossless s; ends := fupd (ends s) id (ends s id + (if wanted then 1 else 0)); regs := fupd (regs s) id (regs s id + (if wanted then 1 else 0));
                    errs_in := errs_in s; errs_out := errs_out s; eofs := eofs s; fin := fin s |}
          else
            (* queue drained without meeting an ENDMARKER: register -- or, when the channel was closed meanwhile (a receiver
               holds the ENDMARKER), deliver the endmarker at once *)
            Some {| wire := wire s;
                    cs := fupd (cs s) id {| alive := alive ch; q := None; closed := closed ch; rclosed := rclosed ch; errs := errs ch;
                                            cb := if closed ch || rclosed ch then None else Some wanted |};
                    thr := thr s; sent := sent s; got := fupd (got s) id (got s id ++ qitems lq);
                    lossless := lossless s;
                    ends := (if closed ch || rclosed ch then fupd (ends s) id (ends s id + (if wanted then 1 else 0)) else ends s);
                    regs := fupd (regs s) id (regs s id + (if wanted then 1 else 0));
                    errs_in := errs_in s; errs_out := errs_out s; eofs := eofs s; fin := fin s |}
      end
  | LClose id =>
      (* Channel.close(): nothing when already closed; otherwise (a CLOSE frame goes to the peer unless it closed first --
         the outgoing direction is not part of this model) closed, receive-closed, ENDMARKER queued, unregistered and the
         callback's endmarker delivered *)
      let ch := cs s id in
      if negb (held ch) || closed ch then None
      else Some {| wire := wire s;
                   cs := fupd (cs s) id {| alive := false; q := (match q ch with Some lq => Some (lq ++ [End]) | None => None end);
                                           closed := true; rclosed := true; errs := errs ch; cb := None |};
                   thr := thr s; sent := sent s; got := got s; lossless := lossless s;
                   ends := fupd (ends s) id (ends s id + fires ch); regs := regs s;
                   errs_in := errs_in s; errs_out := errs_out s; eofs := eofs s; fin := fin s |}
  | LFinish =>
      (* the receiver thread's epilogue, ChannelFactory._finished_receiving: finished = True, every registered
         channel _local_close(id, sendonly=True), every registered callback unregistered (endmarker fires) *)
      if fin s then None
      else Some {| wire := wire s; cs := fun id => local_close (cs s id) KLast; thr := thr s; sent := sent s; got := got s;
                   lossless := lossless s; ends := fun id => ends s id + fires (cs s id); regs := regs s;
                   errs_in := errs_in s; errs_out := errs_out s; eofs := eofs s; fin := true |}
  end.

Fixpoint crun (c : ccfg) (ls : list clab) (s : cst) : cst :=
  match ls with [] => s | l :: r => match cstep c s l with Some s' => crun c r s' | None => crun c r s end end.

Definition cinit (nthreads : nat) : cst :=
  {| wire := []; cs := fun _ => chan0; thr := repeat CIdle nthreads; sent := fun _ => []; got := fun _ => []; lossless := fun _ => true;
     ends := fun _ => 0; regs := fun _ => 0; errs_in := fun _ => 0; errs_out := fun _ => 0; eofs := fun _ => 0; fin := false |}.
