(* Model of ChannelFileRead.read / readline (gateway_base.py) over an abstract
   symbol type, and of the reference "file over the concatenation". No proofs here. *)
From Coq Require Import List Arith Bool.
Import ListNotations.

Section ChanFile.
Variable sym : Type.
Variable is_nl : sym -> bool.

(* state of a ChannelFileRead on a channel whose remaining items are [items];
   when [items] is exhausted channel.receive() raises EOFError (repeatably: C03) *)
Record cf := { buf : option (list sym); items : list (list sym) }.

(* while len(self._buffer) < n: self._buffer += receive()   (EOFError ends it) *)
Fixpoint fill (b : list sym) (its : list (list sym)) (n : nat) : list sym * list (list sym) :=
  if n <=? length b then (b, its) else
  match its with
  | [] => (b, [])
  | it :: rest => fill (b ++ it) rest n
  end.

Definition cf_read (n : nat) (s : cf) : list sym * cf :=
  match buf s with
  | None =>
      match items s with
      | [] => ([], s)                                   (* EOFError on first receive: ret "" *)
      | it :: rest =>
          let '(b, its) := fill it rest n in
          (firstn n b, {| buf := Some (skipn n b); items := its |})
      end
  | Some b0 =>
      let '(b, its) := fill b0 (items s) n in
      (firstn n b, {| buf := Some (skipn n b); items := its |})
  end.

Fixpoint find_nl (l : list sym) : option nat :=
  match l with
  | [] => None
  | c :: r => if is_nl c then Some 0 else option_map S (find_nl r)
  end.

Definition last_is_nl (l : list sym) : bool :=
  match rev l with [] => false | c :: _ => is_nl c end.

(* while line and line[-1] != "\n": c = read(1); if not c: break; line += c *)
Fixpoint rl_loop (fuel : nat) (line : list sym) (s : cf) : list sym * cf :=
  match fuel with
  | O => (line, s)
  | S f =>
      match line with
      | [] => (line, s)
      | _ => if last_is_nl line then (line, s) else
             let '(c, s') := cf_read 1 s in
             match c with
             | [] => (line, s')
             | _ => rl_loop f (line ++ c) s'
             end
      end
  end.

Definition total_len (s : cf) : nat :=
  length (match buf s with None => [] | Some b => b end) + length (concat (items s)).

Definition cf_readline (s : cf) : list sym * cf :=
  match buf s with
  | Some b =>
      match find_nl b with
      | Some i => cf_read (i + 1) s
      | None =>
          let '(line, s') := cf_read (length b + 1) s in
          rl_loop (S (total_len s')) line s'
      end
  | None =>
      let '(line, s') := cf_read 1 s in
      rl_loop (S (total_len s')) line s'
  end.

(* reference: a file object positioned on [rest] *)
Definition f_read (n : nat) (rest : list sym) : list sym * list sym := (firstn n rest, skipn n rest).

Fixpoint f_line (rest : list sym) : list sym * list sym :=
  match rest with
  | [] => ([], [])
  | c :: r => if is_nl c then ([c], r) else let '(l, r') := f_line r in (c :: l, r')
  end.

Inductive op := Read (n : nat) | Readline.

Definition cf_step (o : op) (s : cf) := match o with Read n => cf_read n s | Readline => cf_readline s end.
Definition f_step (o : op) (r : list sym) := match o with Read n => f_read n r | Readline => f_line r end.

Fixpoint cf_run (ops : list op) (s : cf) : list (list sym) :=
  match ops with [] => [] | o :: os => let '(x, s') := cf_step o s in x :: cf_run os s' end.
Fixpoint f_run (ops : list op) (r : list sym) : list (list sym) :=
  match ops with [] => [] | o :: os => let '(x, r') := f_step o r in x :: f_run os r' end.

Definition cf_init (its : list (list sym)) : cf := {| buf := None; items := its |}.
Definition abs (s : cf) : list sym :=
  (match buf s with None => [] | Some b => b end) ++ concat (items s).

End ChanFile.

Arguments buf {sym}. Arguments items {sym}.
