(* executable entry point of the ChanFile model for the correspondence check *)
From Coq Require Import ZArith List Bool.
Import ListNotations.
Require Import EV.model.Cfg EV.model.Enc EV.model.ChanFile.
Open Scope Z_scope.

(* symbols are code points / byte values; the newline test depends on the stream kind
   (0 = text, 1 = bytes) and on the fact extracted from readline's source *)
Definition is_nl_for (k : nl_kind) (bytes_stream : bool) (c : Z) : bool :=
  match k with
  | NlByBufferType => c =? 10
  | NlStrLiteral => if bytes_stream then false else c =? 10
  | NlUnknown => false
  end.

Fixpoint get_ops (k : nat) (l : list Z) : list op :=
  match k with
  | O => []
  | S k' => match l with
            | 0 :: n :: r => Read (Z.to_nat n) :: get_ops k' r
            | _ :: r => Readline :: get_ops k' r
            | [] => []
            end
  end.

(* input: kind nitems (lp item)* nops (0 n | 1)*     output: (lp result)* *)
Definition run_chanfile (k : nl_kind) (inp : list Z) : list Z :=
  let bytes_stream := zhd inp =? 1 in
  let r1 := ztl inp in
  let '(its, r2) := get_lps (Z.to_nat (zhd r1)) (ztl r1) in
  let ops := get_ops (Z.to_nat (zhd r2)) (ztl r2) in
  concat (map put_lp (cf_run Z (is_nl_for k bytes_stream) ops (cf_init Z its))).
