(* executable entry point of the Chan model: a sequence of operations as the harness performs them on a
   real (thread-less) gateway, then a digest of the final state *)
From Coq Require Import ZArith List Bool Arith.
Import ListNotations.
Require Import EV.model.Enc EV.model.Chan.

Definition ek (z : Z) : endkind := match z with 0%Z => KClose | 1%Z => KCloseErr | _ => KLast end.
Definition onestep (c : ccfg) (s : cst) (l : clab) : cst := match cstep c s l with Some s' => s' | None => s end.

(* ops: 0 id x = DATA frame arrives; 1 id k = end frame arrives; 2 id = new(id); 3 id = drop;
        4 id = receive() by thread 0 (get, and put back + raise if it was the ENDMARKER); 5 id w = setcallback; 6 = the receiver's epilogue; 7 id = close() *)
Fixpoint run_ops (c : ccfg) (fuel : nat) (ops : list Z) (s : cst) : cst :=
  match fuel with
  | O => s
  | S f =>
    match ops with
    | 0%Z :: id :: x :: r => run_ops c f r (onestep c (onestep c s (LPeerSend (Z.to_nat id) (Z.to_nat x))) LRecv)
    | 1%Z :: id :: k :: r => run_ops c f r (onestep c (onestep c s (LPeerEnd (Z.to_nat id) (ek k))) LRecv)
    | 2%Z :: id :: r => run_ops c f r (onestep c s (LNew (Z.to_nat id)))
    | 3%Z :: id :: r => run_ops c f r (onestep c s (LDrop (Z.to_nat id)))
    | 4%Z :: id :: r => run_ops c f r (onestep c (onestep c s (LGet 0 (Z.to_nat id))) (LReput 0))
    | 6%Z :: r => run_ops c f r (onestep c s LFinish)
    | 7%Z :: id :: r => run_ops c f r (onestep c s (LClose (Z.to_nat id)))
    | 5%Z :: id :: w :: r => run_ops c f r (onestep c s (LSetCb (Z.to_nat id) (negb (w =? 0)%Z)))
    | _ => s
    end
  end.

Definition zb (b : bool) : Z := if b then 1%Z else 0%Z.
Definition enc_q (o : option (list qitem)) : list Z :=
  match o with
  | None => [(-1)%Z]
  | Some l => Z.of_nat (length l) :: map (fun e => match e with Item x => Z.of_nat x | End => (-2)%Z end) l
  end.
Definition digest (s : cst) (id : nat) : list Z :=
  let ch := cs s id in
  [zb (alive ch)] ++ enc_q (if alive ch then q ch else None) ++ [zb (closed ch); zb (rclosed ch); Z.of_nat (errs ch);
   (match cb ch with None => 0 | Some false => 1 | Some true => 2 end)%Z]
  ++ put_lp (map Z.of_nat (got s id)) ++ [Z.of_nat (ends s id); Z.of_nat (errs_out s id); Z.of_nat (eofs s id); zb (lossless s id)].

Definition run_chan (c : ccfg) (inp : list Z) : list Z :=
  let s := run_ops c (length inp) inp (cinit 1) in
  concat (map (digest s) [1%nat; 2%nat; 3%nat; 4%nat]).
