(* executable entry points of the codec model for the correspondence check (value <-> integer list) *)
From Coq Require Import ZArith List Bool.
Import ListNotations.
Require Import EV.model.Enc EV.model.Value EV.model.Frame EV.model.Ser EV.model.Unser.
Open Scope Z_scope.

Definition digits_val (ds : list Z) : Z := fold_left (fun a d => a * 10 + d) ds 0.
Definition u64 (hi lo : Z) : Z := hi * 4294967296 + lo.

Fixpoint get_value (fuel : nat) (l : list Z) : option (value * list Z) :=
  match fuel with
  | O => None
  | S f =>
    match l with
    | 0 :: r => Some (VNone, r)
    | 1 :: b :: r => Some (VBool (negb (b =? 0)), r)
    | 2 :: sg :: r => let '(ds, r') := get_lp r in Some (VInt (if sg =? 0 then digits_val ds else - digits_val ds), r')
    | 3 :: hi :: lo :: r => Some (VFloat (u64 hi lo), r)
    | 4 :: a :: b :: c :: d :: r => Some (VComplex (u64 a b) (u64 c d), r)
    | 5 :: r => let '(x, r') := get_lp r in Some (VBytes x, r')
    | 6 :: r => let '(x, r') := get_lp r in Some (VStr x, r')
    | 7 :: n :: r => match get_n f (Z.to_nat n) r with Some (vs, r') => Some (VList vs, r') | None => None end
    | 8 :: n :: r => match get_n f (Z.to_nat n) r with Some (vs, r') => Some (VTuple vs, r') | None => None end
    | 9 :: n :: r => match get_n f (2 * Z.to_nat n) r with
                     | Some (vs, r') => Some (VDict ((fix pairs (l : list value) := match l with k :: v :: t => (k, v) :: pairs t | _ => [] end) vs), r')
                     | None => None end
    | 10 :: n :: r => match get_n f (Z.to_nat n) r with Some (vs, r') => Some (VSet vs, r') | None => None end
    | 11 :: n :: r => match get_n f (Z.to_nat n) r with Some (vs, r') => Some (VFrozenset vs, r') | None => None end
    | 12 :: i :: r => Some (VChannel i, r)
    | 13 :: t :: r => Some (VOther t, r)
    | _ => None
    end
  end
with get_n (fuel : nat) (n : nat) (l : list Z) : option (list value * list Z) :=
  match fuel with
  | O => None
  | S f =>
    match n with
    | O => Some ([], l)
    | S k => match get_value f l with
             | Some (v, r) => match get_n f k r with Some (vs, r') => Some (v :: vs, r') | None => None end
             | None => None
             end
    end
  end.

(* decimal digits of |z| for the way back (plain repeated division; fuel from the bit length) *)
Fixpoint digits_of (fuel : nat) (z : Z) (acc : list Z) : list Z :=
  match fuel with
  | O => acc
  | S f => if z <? 10 then z :: acc else digits_of f (z / 10) (z mod 10 :: acc)
  end.

Fixpoint put_value (v : value) : list Z :=
  match v with
  | VNone => [0]
  | VBool b => [1; if b then 1 else 0]
  | VInt z => 2 :: (if z <? 0 then 1 else 0) :: put_lp (digits_of (S (Z.to_nat (Z.log2 (Z.abs z)))) (Z.abs z) [])
  | VFloat f => [3; f / 4294967296; f mod 4294967296]
  | VComplex a b => [4; a / 4294967296; a mod 4294967296; b / 4294967296; b mod 4294967296]
  | VBytes x => 5 :: put_lp x
  | VStr x => 6 :: put_lp x
  | VList l => 7 :: Z.of_nat (length l) :: concat (map put_value l)
  | VTuple l => 8 :: Z.of_nat (length l) :: concat (map put_value l)
  | VDict d => 9 :: Z.of_nat (length d) :: concat (map (fun '(k, x) => put_value k ++ put_value x) d)
  | VSet l => 10 :: Z.of_nat (length l) :: concat (map put_value l)
  | VFrozenset l => 11 :: Z.of_nat (length l) :: concat (map put_value l)
  | VChannel i => [12; i]
  | VOther t => [13; t]
  end.

Definition exn_code (e : exn) : Z :=
  match e with DumpError => 1 | LoadError => 2 | EOFError => 3 | MemoryDemand => 4 | StructError => 5 end.

(* mode 0: internal? value -> 0 lp(bytes) | 1 exn *)
Definition run_dumps (lo : bool) (inp : list Z) : list Z :=
  let internal := negb (zhd inp =? 0) in
  match get_value (S (length inp)) (ztl inp) with
  | None => [-1]
  | Some (v, _) => match (if internal then dumps_internal lo v else dumps lo v) with
                   | Ok b => 0 :: put_lp b
                   | Err e => [1; exn_code e]
                   end
  end.

(* mode 1: kind py2as3 py3as2 factory lp(bytes) -> 0 value restlen | 1 exn     kind 0 = loads, 1 = loads_internal *)
Definition run_loads (inp : list Z) : list Z :=
  match inp with
  | kind :: a :: b :: fac :: r =>
      let '(bs, _) := get_lp r in
      let sc := {| py2str_as_py3str := negb (a =? 0); py3str_as_py2str := negb (b =? 0) |} in
      match (if kind =? 0 then loads_r MAXALLOC sc bs else load_internal MAXALLOC sc (negb (fac =? 0)) bs) with
      | Ok (v, rest) => 0 :: put_value v ++ [Z.of_nat (length rest)]
      | Err e => [1; exn_code e]
      end
  | _ => [-1]
  end.
