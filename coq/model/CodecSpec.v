(* execnet dump format version 2 -- literal constants, written down from the format
   description (not extracted from the code): one fixed opcode letter per type, big-endian
   4-byte lengths and small ints, decimal text for big ints, IEEE-754 big-endian doubles,
   post-order containers, STOP terminator. *)
From Coq Require Import ZArith List String.
Import ListNotations.
Open Scope Z_scope.

Definition OP_BUILDTUPLE := 64.  (* "@" *)
Definition OP_BYTES := 65.       (* "A" *)
Definition OP_CHANNEL := 66.     (* "B" *)
Definition OP_FALSE := 67.       (* "C" *)
Definition OP_FLOAT := 68.       (* "D" *)
Definition OP_FROZENSET := 69.   (* "E" *)
Definition OP_INT := 70.         (* "F" *)
Definition OP_LONG := 71.        (* "G" *)
Definition OP_LONGINT := 72.     (* "H" *)
Definition OP_LONGLONG := 73.    (* "I" *)
Definition OP_NEWDICT := 74.     (* "J" *)
Definition OP_NEWLIST := 75.     (* "K" *)
Definition OP_NONE := 76.        (* "L" *)
Definition OP_PY2STRING := 77.   (* "M" *)
Definition OP_PY3STRING := 78.   (* "N" *)
Definition OP_SET := 79.         (* "O" *)
Definition OP_SETITEM := 80.     (* "P" *)
Definition OP_STOP := 81.        (* "Q" *)
Definition OP_TRUE := 82.        (* "R" *)
Definition OP_UNICODE := 83.     (* "S" *)
Definition OP_COMPLEX := 84.     (* "T" *)
Definition VERSION := 2.
Definition INT_MAX := 2147483647.
Definition INT_MIN := -2147483648.

Open Scope string_scope.
(* the opcode table as the translator prints it: (name, byte) in source order *)
Definition OPCODE_TABLE : list (string * Z) :=
  [("BUILDTUPLE", 64%Z); ("BYTES", 65%Z); ("CHANNEL", 66%Z); ("FALSE", 67%Z); ("FLOAT", 68%Z);
   ("FROZENSET", 69%Z); ("INT", 70%Z); ("LONG", 71%Z); ("LONGINT", 72%Z); ("LONGLONG", 73%Z);
   ("NEWDICT", 74%Z); ("NEWLIST", 75%Z); ("NONE", 76%Z); ("PY2STRING", 77%Z); ("PY3STRING", 78%Z);
   ("SET", 79%Z); ("SETITEM", 80%Z); ("STOP", 81%Z); ("TRUE", 82%Z); ("UNICODE", 83%Z); ("COMPLEX", 84%Z)].
(* which loader each opcode is registered to (aliases resolved): (opcode name, loader) *)
Definition LOADER_TABLE : list (string * string) :=
  [("BUILDTUPLE", "load_buildtuple"); ("BYTES", "load_bytes"); ("CHANNEL", "load_channel");
   ("COMPLEX", "load_complex"); ("FALSE", "load_false"); ("FLOAT", "load_float");
   ("FROZENSET", "load_frozenset"); ("INT", "load_int"); ("LONG", "load_int");
   ("LONGINT", "load_longint"); ("LONGLONG", "load_longint"); ("NEWDICT", "load_newdict");
   ("NEWLIST", "load_newlist"); ("NONE", "load_none"); ("PY2STRING", "load_py2string");
   ("PY3STRING", "load_py3string"); ("SET", "load_set"); ("SETITEM", "load_setitem");
   ("STOP", "load_stop"); ("TRUE", "load_true"); ("UNICODE", "load_unicode")].
(* which opcode each save_<type> method writes: (method, opcodes in the order they occur) *)
Definition SAVER_TABLE : list (string * list string) :=
  [("save_Channel", ["CHANNEL"]); ("save_NoneType", ["NONE"]); ("save_bool", ["TRUE"; "FALSE"]);
   ("save_bytes", ["BYTES"]); ("save_complex", ["COMPLEX"]); ("save_dict", ["NEWDICT"]);
   ("save_float", ["FLOAT"]); ("save_frozenset", ["FROZENSET"]); ("save_int", ["INT"; "LONGINT"]);
   ("save_list", ["NEWLIST"]); ("save_long", ["LONG"; "LONGLONG"]); ("save_set", ["SET"]);
   ("save_str", ["PY3STRING"]); ("save_tuple", ["BUILDTUPLE"])].
Definition FLOAT_FORMATS : string * string := ("!d", "!dd").
