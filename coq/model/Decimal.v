(* Model of Python's str(int).encode('ascii') and int(bytes) (base 10).
   Bytes are Z.  No proofs here. *)
From Coq Require Import ZArith List Bool.
Import ListNotations.
Open Scope Z_scope.

(* ---- str(int) ---- *)

(* least significant digit first into the accumulator; for 0 <= z < 2^fuel the
   loop ends through the [z <? 10] branch *)
Fixpoint digits_aux (fuel : nat) (z : Z) (acc : list Z) : list Z :=
  match fuel with
  | O => acc
  | S f => if z <? 10 then (48 + z) :: acc
           else digits_aux f (z / 10) ((48 + z mod 10) :: acc)
  end.

(* decimal digits of a non-negative z *)
Definition digits (z : Z) : list Z := digits_aux (S (Z.to_nat (Z.log2 z))) z [].

Definition to_dec (z : Z) : list Z :=
  if z <? 0 then 45 :: digits (- z) else digits z.

(* ---- int(bytes) ---- *)

(* Py_ISSPACE: ' ' \t \n \v \f \r *)
Definition is_ws (b : Z) : bool := (b =? 32) || ((9 <=? b) && (b <=? 13)).
Definition is_digit (b : Z) : bool := (48 <=? b) && (b <=? 57).

Fixpoint strip_l (bs : list Z) : list Z :=
  match bs with
  | b :: r => if is_ws b then strip_l r else bs
  | [] => []
  end.

(* digits with single underscores between digits, then optional trailing
   whitespace.  [prev] = the previous byte was a digit (false initially and
   right after an underscore); [acc] = value so far. *)
Fixpoint parse_digits (bs : list Z) (acc : Z) (prev : bool) : option Z :=
  match bs with
  | [] => if prev then Some acc else None
  | b :: r =>
    if is_digit b then parse_digits r (acc * 10 + (b - 48)) true
    else if b =? 95 then (if prev then parse_digits r acc false else None)
    else if is_ws b then (if prev && forallb is_ws r then Some acc else None)
    else None
  end.

(* None models ValueError *)
Definition pyint (bs : list Z) : option Z :=
  match strip_l bs with
  | [] => None
  | b :: r =>
    if b =? 43 then parse_digits r 0 false
    else if b =? 45 then option_map Z.opp (parse_digits r 0 false)
    else parse_digits (b :: r) 0 false
  end.
