(* End to end: Channel.send(item) on one gateway ... the item obtained on the other.
   Composition of the serializer (C01), the frame codec (C08) and -- through the items handed to the channel
   machine -- the channel layer (C02).  No new mechanism, only the glue that BaseGateway._send / Message /
   ChannelFactory._local_receive provide. *)
From Coq Require Import ZArith List Bool.
Import ListNotations.
Require Import EV.model.Cfg EV.model.Value EV.model.Ser EV.model.Unser EV.model.Frame.
Open Scope Z_scope.

Definition CHANNEL_DATA : Z := 4.

(* Channel.send(v) on channel id: gateway._send(Message.CHANNEL_DATA, id, dumps_internal(v)) *)
Definition send_frame (id : Z) (v : value) : res msg :=
  match dumps_internal true v with
  | Ok b => Ok {| mty := CHANNEL_DATA; mcid := id; mdata := b |}
  | Err e => Err e
  end.
Fixpoint frames_of (sends : list (Z * value)) : res (list msg) :=
  match sends with
  | [] => Ok []
  | (id, v) :: r => match send_frame id v, frames_of r with
                    | Ok m, Ok ms => Ok (m :: ms)
                    | Err e, _ => Err e
                    | _, Err e => Err e
                    end
  end.
Definition wire_of (sends : list (Z * value)) : res bytes :=
  match frames_of sends with Ok ms => Ok (concat (map enc ms)) | Err e => Err e end.

(* the receiving gateway: frames for whatever chunking the transport delivers, then loads_internal of each payload *)
Definition received (ma : Z) (sc : strconfig) (bs : bytes) (orc : list Z) : list (Z * res (value * bytes)) :=
  map (fun m => (mcid m, load_internal ma sc true (mdata m))) (fst (decode bs orc)).
