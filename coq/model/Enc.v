(* Decoders for the integer-list case encoding used between the Python harness and the
   extracted model (ocaml/modelrun.ml). Pure glue; any mistake here shows up as a
   model/implementation disagreement. *)
From Coq Require Import ZArith List.
Import ListNotations.
Open Scope Z_scope.

Definition zhd (l : list Z) : Z := match l with [] => 0 | x :: _ => x end.
Definition ztl (l : list Z) : list Z := match l with [] => [] | _ :: r => r end.

(* a length-prefixed list of integers *)
Definition get_lp (l : list Z) : list Z * list Z :=
  let n := Z.to_nat (zhd l) in (firstn n (ztl l), skipn n (ztl l)).

(* [k] length-prefixed lists *)
Fixpoint get_lps (k : nat) (l : list Z) : list (list Z) * list Z :=
  match k with
  | O => ([], l)
  | S k' => let '(x, r) := get_lp l in let '(xs, r') := get_lps k' r in (x :: xs, r')
  end.

Definition put_lp (l : list Z) : list Z := Z.of_nat (length l) :: l.
