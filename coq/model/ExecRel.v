(* Exec.v extended with RELEASE: a blocked body (channel.receive()) can be let go by the initiator (it sends the item the body waits for)
   and then ends like a returning one.
   Model of the main_thread_only execution path of a worker gateway:
   WorkerGateway._local_schedulexec (receiver thread: wait(1 s) for the previous task's completion
   event, deadlock error otherwise; clear; hand the task to the primary thread) and
   WorkerGateway.executetask (main thread: run the body, close the channel, set the event).
   Scheduling assumption A-sched is built into LRecvTimeout: the 1 s wait can only expire while the
   main thread cannot make progress (it is inside a blocked body, or idle with nothing handed over). *)
From Coq Require Import List Bool Arith.
Import ListNotations.

Inductive outcome := ORet | ORaise | OExit | OInt | OBlock.    (* how a remote_exec body ends *)
Record ecfg := { set_on_error : bool; set_on_interrupt : bool }. (* which exits of executetask set the event *)
Definition sets (c : ecfg) (o : outcome) : bool :=
  match o with ORet => true | ORaise | OExit => set_on_error c | OInt => set_on_interrupt c | OBlock => false end.

Inductive mpc := MIdle | MRun (k : nat) | MClose (k : nat) | MSet (k : nat).
Inductive rpc := RIdle | RWait (k : nat).
Inductive ev := Started (k : nat) | Closed (k : nat) | Deadlock (k : nat).

Record est := { prog : list outcome; submitted : nat; rnext : nat; rp : rpc; mp : mpc;
                pending : option nat; complete : bool; log : list ev; released : list nat }.

Inductive elab := LSubmit | LRecvBegin | LRecvOk | LRecvTimeout | LPick | LFinish | LClose | LSet | LRelease (j : nat).

Definition is_released (s : est) (j : nat) : bool := existsb (Nat.eqb j) (released s).
Definition blocked_body (s : est) : bool :=
  match mp s with MRun j => match nth_error (prog s) j with Some OBlock => negb (is_released s j) | _ => false end | _ => false end.
(* a released blocked body ends like a returning one *)
Definition eff (o : outcome) : outcome := match o with OBlock => ORet | _ => o end.
Definition stuck (s : est) : bool :=
  blocked_body s || (match mp s, pending s with MIdle, None => true | _, _ => false end).

Definition estep (c : ecfg) (s : est) (l : elab) : option est :=
  match l with
  | LSubmit => if submitted s <? length (prog s)
               then Some {| prog := prog s; submitted := S (submitted s); rnext := rnext s; rp := rp s; mp := mp s; pending := pending s; complete := complete s; log := log s; released := released s |}
               else None
  | LRecvBegin => match rp s with
                  | RIdle => if rnext s <? submitted s
                             then Some {| prog := prog s; submitted := submitted s; rnext := rnext s; rp := RWait (rnext s); mp := mp s; pending := pending s; complete := complete s; log := log s; released := released s |}
                             else None
                  | _ => None end
  | LRecvOk => match rp s with
               | RWait k => if complete s
                            then Some {| prog := prog s; submitted := submitted s; rnext := S k; rp := RIdle; mp := mp s; pending := Some k; complete := false; log := log s; released := released s |}
                            else None
               | _ => None end
  | LRecvTimeout => match rp s with
                    | RWait k => if negb (complete s) && stuck s
                                 then Some {| prog := prog s; submitted := submitted s; rnext := S k; rp := RIdle; mp := mp s; pending := pending s; complete := complete s; log := Deadlock k :: log s; released := released s |}
                                 else None
                    | _ => None end
  | LPick => match mp s, pending s with
             | MIdle, Some k => Some {| prog := prog s; submitted := submitted s; rnext := rnext s; rp := rp s; mp := MRun k; pending := None; complete := complete s; log := Started k :: log s; released := released s |}
             | _, _ => None end
  | LFinish => match mp s with
               | MRun k => match nth_error (prog s) k with
                           | None => None
                           | Some o => if (match o with OBlock => negb (is_released s k) | _ => false end) then None else Some {| prog := prog s; submitted := submitted s; rnext := rnext s; rp := rp s; mp := MClose k; pending := pending s; complete := complete s; log := log s; released := released s |}
                           end
               | _ => None end
  | LClose => match mp s with
              | MClose k => Some {| prog := prog s; submitted := submitted s; rnext := rnext s; rp := rp s;
                                    mp := (match nth_error (prog s) k with Some o => if sets c (eff o) then MSet k else MIdle | None => MIdle end);
                                    pending := pending s; complete := complete s; log := Closed k :: log s; released := released s |}
              | _ => None end
  | LRelease j => match nth_error (prog s) j with
                 | Some OBlock => if j <? submitted s
                                  then Some {| prog := prog s; submitted := submitted s; rnext := rnext s; rp := rp s; mp := mp s; pending := pending s; complete := complete s; log := log s; released := j :: released s |}
                                  else None
                 | _ => None end
  | LSet => match mp s with
            | MSet k => Some {| prog := prog s; submitted := submitted s; rnext := rnext s; rp := rp s; mp := MIdle; pending := pending s; complete := true; log := log s; released := released s |}
            | _ => None end
  end.

Fixpoint erun (c : ecfg) (ls : list elab) (s : est) : est :=
  match ls with [] => s | l :: r => match estep c s l with Some s' => erun c r s' | None => erun c r s end end.
Definition einit (p : list outcome) : est :=
  {| prog := p; submitted := 0; rnext := 0; rp := RIdle; mp := MIdle; pending := None; complete := true; log := []; released := [] |}.

(* the execution the implementation shows under a fair scheduler: submissions sequential or all at once *)
Definition started_of (l : list ev) : list nat := flat_map (fun e => match e with Started k => [k] | _ => [] end) (rev l).
Definition deadlocks_of (l : list ev) : list nat := flat_map (fun e => match e with Deadlock k => [k] | _ => [] end) (rev l).
