(* executable entry point of the ExecRel model: the initiator's script (submissions right away or after the previous channel closed,
   releases of blocked bodies) under a fair scheduler: the 1 s wait only expires when nothing else can move *)
From Coq Require Import ZArith List Bool Arith.
Import ListNotations.
Require Import EV.model.Enc EV.model.ExecRel.

Definition has_closed (l : list ev) (k : nat) : bool :=
  existsb (fun e => match e with Closed j | Deadlock j => Nat.eqb j k | _ => false end) l.

(* one step of the worker, in priority order; the time-out last *)
Definition worker_step (c : ecfg) (s : est) : option est :=
  match estep c s LPick with Some s' => Some s' | None =>
  match estep c s LFinish with Some s' => Some s' | None =>
  match estep c s LClose with Some s' => Some s' | None =>
  match estep c s LSet with Some s' => Some s' | None =>
  match estep c s LRecvOk with Some s' => Some s' | None =>
  match estep c s LRecvBegin with Some s' => Some s' | None =>
  estep c s LRecvTimeout end end end end end end.
(* the worker runs until `stop` holds or nothing can move *)
Fixpoint run_worker (c : ecfg) (fuel : nat) (stop : est -> bool) (s : est) : est :=
  match fuel with
  | O => s
  | S f => if stop s then s else match worker_step c s with Some s' => run_worker c f stop s' | None => s end
  end.
Definition step_or_stay (c : ecfg) (s : est) (l : elab) : est := match estep c s l with Some s' => s' | None => s end.

Inductive entry := ESubmit (o : outcome) (wait : bool) | ERelease (j : nat).
Definition oc (z : Z) : outcome :=
  match z with 0%Z => ORet | 1%Z => ORaise | 2%Z => OExit | 3%Z => OInt | _ => OBlock end.
Fixpoint parse_entries (fuel : nat) (l : list Z) : list entry :=
  match fuel with O => [] | S f =>
  match l with
  | 0%Z :: o :: w :: r => ESubmit (oc o) (negb (w =? 0)%Z) :: parse_entries f r
  | 1%Z :: j :: _ :: r => ERelease (Z.to_nat j) :: parse_entries f r
  | _ => []
  end end.
Definition prog_of (es : list entry) : list outcome := flat_map (fun e => match e with ESubmit o _ => [o] | _ => [] end) es.

Fixpoint play (c : ecfg) (es : list entry) (s : est) : est :=
  match es with
  | [] => run_worker c 200 (fun _ => false) s
  | ESubmit o w :: r =>
      let k := submitted s in
      let s1 := match k with
                | S j => if w then run_worker c 200 (fun t => has_closed (log t) j) s else s
                | O => s end in
      play c r (step_or_stay c s1 LSubmit)
  | ERelease j :: r =>
      let s1 := run_worker c 200 (fun _ => false) s in            (* everything submitted so far gets its answer *)
      let s2 := step_or_stay c s1 (LRelease j) in
      play c r (run_worker c 200 (fun t => has_closed (log t) j) s2)
  end.

(* input: entries (kind a b)*; output: per exec 0 = ran, 1 = deadlock error, 2 = never handled; -1; the start order *)
Definition run_exec_rel (c : ecfg) (inp : list Z) : list Z :=
  let es := parse_entries (length inp) inp in
  let p := prog_of es in
  let s := play c es (einit p) in
  let n := length p in
  map (fun k => if existsb (fun e => match e with Started j => Nat.eqb j k | _ => false end) (log s) then 0%Z
                else if existsb (fun e => match e with Deadlock j => Nat.eqb j k | _ => false end) (log s) then 1%Z else 2%Z) (seq 0 n)
  ++ (-1)%Z :: map Z.of_nat (started_of (log s)).
