(* executable entry point of the Exec model: the execution under a fair scheduler (the 1 s wait only
   expires when nothing else can move), submissions either right away or after the previous channel closed *)
From Coq Require Import ZArith List Bool Arith.
Import ListNotations.
Require Import EV.model.Enc EV.model.Exec.

Definition has_closed (l : list ev) (k : nat) : bool :=
  existsb (fun e => match e with Closed j | Deadlock j => Nat.eqb j k | _ => false end) l.

(* waits : for exec k, submit only after exec k-1's channel has closed *)
Definition may_submit (waits : list bool) (s : est) : bool :=
  let k := submitted s in
  match k with O => true | S j => negb (nth k waits false) || has_closed (log s) j end.

Fixpoint fair (c : ecfg) (waits : list bool) (fuel : nat) (s : est) : est :=
  match fuel with
  | O => s
  | S f =>
      let try_ := fun l => estep c s l in
      match try_ LPick with Some s' => fair c waits f s' | None =>
      match try_ LFinish with Some s' => fair c waits f s' | None =>
      match try_ LClose with Some s' => fair c waits f s' | None =>
      match try_ LSet with Some s' => fair c waits f s' | None =>
      match try_ LRecvOk with Some s' => fair c waits f s' | None =>
      match try_ LRecvBegin with Some s' => fair c waits f s' | None =>
      match (if may_submit waits s then try_ LSubmit else None) with Some s' => fair c waits f s' | None =>
      match try_ LRecvTimeout with Some s' => fair c waits f s' | None => s
      end end end end end end end end
  end.

Definition oc (z : Z) : outcome :=
  match z with 0%Z => ORet | 1%Z => ORaise | 2%Z => OExit | 3%Z => OInt | _ => OBlock end.

(* input: n (outcome wait)*   output: per exec 0 = ran, 1 = deadlock error, 2 = never handled; then the start order *)
Definition run_exec (c : ecfg) (inp : list Z) : list Z :=
  let n := Z.to_nat (zhd inp) in
  let fix pairs (k : nat) (l : list Z) : list outcome * list bool :=
    match k with O => ([], []) | S k' => match l with o :: w :: r => let '(a, b) := pairs k' r in (oc o :: a, negb (w =? 0)%Z :: b) | _ => ([], []) end end in
  let '(p, waits) := pairs n (ztl inp) in
  let s := fair c waits (20 * (S n)) (einit p) in
  map (fun k => if existsb (fun e => match e with Started j => Nat.eqb j k | _ => false end) (log s) then 0%Z
                else if existsb (fun e => match e with Deadlock j => Nat.eqb j k | _ => false end) (log s) then 1%Z else 2%Z) (seq 0 n)
  ++ (-1)%Z :: map Z.of_nat (started_of (log s)).
