From Coq Require Import ZArith List Bool Arith.
Import ListNotations.
Require Import EV.model.FdTable.

Definition is_d (o : option desc) (d : desc) : Z :=
  match o, d with
  | Some PipeIn, PipeIn | Some PipeOut, PipeOut | Some NullR, NullR | Some NullW, NullW => 1%Z
  | _, _ => 0%Z
  end.
(* input: k, then k descriptors that are open besides 0 and 1; the op list is the one read off the source *)
Definition run_fd (ops : list fdop) (inp : list Z) : list Z :=
  match inp with
  | _ :: extra =>
      let t0 := set_fd (set_fd [] 0 (Some PipeIn)) 1 (Some PipeOut) in
      let t := fold_left (fun t fd => set_fd t (Z.to_nat fd) (Some (Other 0))) extra t0 in
      let '(t', e) := run ops t in
      [Z.of_nat (e 0%nat); Z.of_nat (e 1%nat); is_d (get_fd t' 0) NullR; is_d (get_fd t' 1) NullW; is_d (get_fd t' (e 0%nat)) PipeIn; is_d (get_fd t' (e 1%nat)) PipeOut]
  | [] => [(-999)%Z]
  end.
