(* C06 (stdio isolation): the file-descriptor table of a worker while gateway_base.init_popen_io runs.
   A table is a list of slots (fd = index; beyond the list every fd is free); dup/open return the lowest
   free descriptor, as POSIX specifies. *)
From Coq Require Import List Bool Arith.
Import ListNotations.

Inductive desc := PipeIn | PipeOut | NullR | NullW | Other (k : nat).
Definition fdt := list (option desc).

Fixpoint lowest_free (t : fdt) : nat :=
  match t with [] => 0 | None :: _ => 0 | Some _ :: r => S (lowest_free r) end.
Fixpoint set_fd (t : fdt) (fd : nat) (v : option desc) : fdt :=
  match fd, t with
  | O, [] => [v]
  | O, _ :: r => v :: r
  | S k, [] => None :: set_fd [] k v
  | S k, x :: r => x :: set_fd r k v
  end.
Definition get_fd (t : fdt) (fd : nat) : option desc := nth fd t None.

(* the operations init_popen_io performs; results of dup/open are bound to variables (numbered) *)
Inductive arg := Lit (fd : nat) | Var (v : nat).
Inductive fdop :=
| ODup (src : arg) (dst : nat)          (* dst := os.dup(src) *)
| OOpenNull (w : bool) (dst : nat)      (* dst := os.open(devnull, O_WRONLY if w else O_RDONLY) *)
| ODup2 (src dst : arg)                 (* os.dup2(src, dst) *)
| OClose (a : arg).

Definition env := nat -> nat.
Definition ev (e : env) (a : arg) : nat := match a with Lit n => n | Var v => e v end.
Definition bind (e : env) (v n : nat) : env := fun w => if Nat.eqb w v then n else e w.

Definition step (st : fdt * env) (o : fdop) : fdt * env :=
  let '(t, e) := st in
  match o with
  | ODup s d => let n := lowest_free t in (set_fd t n (get_fd t (ev e s)), bind e d n)
  | OOpenNull w d => let n := lowest_free t in (set_fd t n (Some (if w then NullW else NullR)), bind e d n)
  | ODup2 s d => (set_fd t (ev e d) (get_fd t (ev e s)), e)
  | OClose a => (set_fd t (ev e a) None, e)
  end.
Definition run (ops : list fdop) (t : fdt) : fdt * env := fold_left step ops (t, fun _ => 0).

(* init_popen_io, POSIX branch: variables 0 = the dup of stdin, 1 = the dup of stdout, 2 = the devnull fd *)
Definition canon_ops : list fdop :=
  [ODup (Lit 0) 0; OOpenNull false 2; ODup2 (Var 2) (Lit 0); OClose (Var 2);
   ODup (Lit 1) 1; OOpenNull true 2; ODup2 (Var 2) (Lit 1); OClose (Var 2)].
