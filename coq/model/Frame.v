(* Model of the message wire format (Message.to_io / from_io, struct "!bii") and of the
   read-until-n loops of Popen2IO.read / SocketIO.read over an arbitrary chunking. No proofs. *)
From Coq Require Import ZArith List Bool.
Import ListNotations.
Open Scope Z_scope.

Definition bytes := list Z.

(* unsigned big-endian 4 bytes of 0 <= u < 2^32 *)
Definition be32 (u : Z) : bytes :=
  [u / 16777216 mod 256; u / 65536 mod 256; u / 256 mod 256; u mod 256].
Definition de32 (b : bytes) : Z :=
  match b with
  | [b0; b1; b2; b3] => b0 * 16777216 + b1 * 65536 + b2 * 256 + b3
  | _ => 0
  end.
(* two's complement *)
Definition enc_i32 (z : Z) : bytes := be32 (z mod 4294967296).
Definition dec_i32 (b : bytes) : Z := let u := de32 b in if u <? 2147483648 then u else u - 4294967296.
Definition enc_i8 (z : Z) : bytes := [z mod 256].
Definition dec_i8 (b : bytes) : Z := match b with [u] => if u <? 128 then u else u - 256 | _ => 0 end.

Record msg := { mty : Z; mcid : Z; mdata : bytes }.

(* Message.to_io: header + payload *)
Definition enc (m : msg) : bytes :=
  enc_i8 (mty m) ++ enc_i32 (mcid m) ++ enc_i32 (Z.of_nat (length (mdata m))) ++ mdata m.

(* a stream end-point: the bytes that will still arrive, and the chunk-size oracle of the
   low-level read calls (each returns between 1 and min(requested, oracle) bytes; once the
   oracle list is exhausted reads return everything requested) *)
Record rstate := { avail : bytes; oracle : list Z }.

(* read exactly [need] bytes: while numbytes > len(buf): data = _read(numbytes-len(buf));
   if not data: raise EOFError.  None = EOFError *)
Fixpoint read_exact (fuel need : nat) (s : rstate) : option (bytes * rstate) :=
  match need with
  | O => Some ([], s)
  | S _ =>
      match fuel with
      | O => None
      | S f =>
          let k := match oracle s with [] => need | o :: _ => Z.to_nat (Z.max 1 (Z.min o (Z.of_nat need))) end in
          let data := firstn k (avail s) in
          match data with
          | [] => None
          | _ => match read_exact f (need - length data) {| avail := skipn k (avail s); oracle := tl (oracle s) |} with
                 | None => None
                 | Some (rest, s') => Some (data ++ rest, s')
                 end
          end
      end
  end.
Definition read_n (n : nat) (s : rstate) := read_exact n n s.

Inductive ending := CleanEOF | TruncEOF.

(* Message.from_io: 9 header bytes, then the payload (a negative length reads nothing) *)
Definition from_io (s : rstate) : option (msg * rstate) :=
  match read_n 9 s with
  | None => None
  | Some (h, s1) =>
      let ty := dec_i8 (firstn 1 h) in
      let cid := dec_i32 (firstn 4 (skipn 1 h)) in
      let len := dec_i32 (skipn 5 h) in
      (* the guard only short-cuts the read loop's EOFError for absurd length fields
         (read_n_eof); it keeps the model executable on 2^31-1 *)
      match (if Z.of_nat (length (avail s1)) <? len then None else read_n (Z.to_nat len) s1) with
      | None => None
      | Some (p, s2) => Some ({| mty := ty; mcid := cid; mdata := p |}, s2)
      end
  end.

(* the receiver loop: frames until EOFError *)
Fixpoint decode_all (fuel : nat) (s : rstate) : list msg * ending :=
  match fuel with
  | O => ([], TruncEOF)
  | S f =>
      match avail s with
      | [] => ([], CleanEOF)
      | _ => match from_io s with
             | None => ([], TruncEOF)
             | Some (m, s') => let '(ms, e) := decode_all f s' in (m :: ms, e)
             end
      end
  end.
Definition decode (bs : bytes) (orc : list Z) := decode_all (S (length bs)) {| avail := bs; oracle := orc |}.

Definition byte_ok (b : Z) : Prop := 0 <= b < 256.
(* the header fields must be representable; the payload is opaque to the frame layer (no condition on its bytes) *)
Definition msg_wf (m : msg) : Prop :=
  -128 <= mty m < 128 /\ -2147483648 <= mcid m < 2147483648 /\
  Z.of_nat (length (mdata m)) < 2147483648.

(* ---- concurrent senders: each thread has a list of messages to send; a step of thread t
   appends one whole frame (atomic write, shape SingleCall / under a lock) *)
Record wstate := { wire : bytes; todo : list (list msg); sentlog : list (nat * msg) }.

Fixpoint upd {A} (l : list A) (i : nat) (x : A) : list A :=
  match l, i with
  | [], _ => []
  | _ :: r, O => x :: r
  | y :: r, S j => y :: upd r j x
  end.

Definition wstep (s : wstate) (t : nat) : option wstate :=
  match nth_error (todo s) t with
  | Some (m :: rest) => Some {| wire := wire s ++ enc m; todo := upd (todo s) t rest; sentlog := sentlog s ++ [(t, m)] |}
  | _ => None
  end.
Fixpoint wrun (sched : list nat) (s : wstate) : wstate :=
  match sched with
  | [] => s
  | t :: r => match wstep s t with Some s' => wrun r s' | None => wrun r s end
  end.
Definition winit (progs : list (list msg)) : wstate := {| wire := []; todo := progs; sentlog := [] |}.
Definition sent_by (t : nat) (log : list (nat * msg)) : list msg :=
  map snd (filter (fun e => Nat.eqb (fst e) t) log).

(* a writer that is NOT atomic: header and payload are separate appends *)
Inductive part := PHeader (m : msg) | PPayload (m : msg).
Definition part_bytes (p : part) : bytes :=
  match p with
  | PHeader m => enc_i8 (mty m) ++ enc_i32 (mcid m) ++ enc_i32 (Z.of_nat (length (mdata m)))
  | PPayload m => mdata m
  end.
