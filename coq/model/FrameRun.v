(* executable entry points of the Frame model for the correspondence check *)
From Coq Require Import ZArith List Bool.
Import ListNotations.
Require Import EV.model.Enc EV.model.Frame.
Open Scope Z_scope.

Fixpoint get_msgs (k : nat) (l : list Z) : list msg * list Z :=
  match k with
  | O => ([], l)
  | S k' => match l with
            | ty :: cid :: r => let '(p, r1) := get_lp r in
                                let '(ms, r2) := get_msgs k' r1 in
                                ({| mty := ty; mcid := cid; mdata := p |} :: ms, r2)
            | _ => ([], [])
            end
  end.

Definition put_msgs (ms : list msg) : list Z :=
  Z.of_nat (length ms) :: concat (map (fun m => mty m :: mcid m :: put_lp (mdata m)) ms).
Definition put_end (e : ending) : Z := match e with CleanEOF => 0 | TruncEOF => 1 end.

(* mode 0: nmsgs msgs cut oracle...  -> lp(wire after cut) msgs ending *)
Definition run_frames (inp : list Z) : list Z :=
  let '(ms, r) := get_msgs (Z.to_nat (zhd inp)) (ztl inp) in
  let cut := zhd r in
  let orc := ztl r in
  let wire0 := concat (map enc ms) in
  let wire := if cut <? 0 then wire0 else firstn (Z.to_nat cut) wire0 in
  let '(dec, e) := decode wire orc in
  put_lp wire ++ put_msgs dec ++ [put_end e].

(* mode 1: lp(bytes) oracle... -> msgs ending *)
Definition run_decode (inp : list Z) : list Z :=
  let '(bs, r) := get_lp inp in
  let '(dec, e) := decode bs r in
  put_msgs dec ++ [put_end e].

Fixpoint get_progs (k : nat) (l : list Z) : list (list msg) * list Z :=
  match k with
  | O => ([], l)
  | S k' => let '(ms, r) := get_msgs (Z.to_nat (zhd l)) (ztl l) in
            let '(ps, r') := get_progs k' r in (ms :: ps, r')
  end.

(* mode 2: nthreads (nmsgs msgs)* schedule... -> lp(wire) *)
Definition run_writers (inp : list Z) : list Z :=
  let '(progs, r) := get_progs (Z.to_nat (zhd inp)) (ztl inp) in
  put_lp (wire (wrun (map Z.to_nat r) (winit progs))).
