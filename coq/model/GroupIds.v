(* Model of Group id allocation / registration (multi.py: allocate_id, _register, _unregister)
   as a labelled transition system over an unbounded list of makegateway threads. No proofs here.
   Ids are integers: the automatic id "gw<n>" is n >= 0; any other explicit id string is a
   negative number; an explicit id spelled "gw<n>" is the same integer n as the automatic one. *)
From Coq Require Import ZArith List Bool.
Import ListNotations.
Open Scope Z_scope.

Record gcfg := {
  alloc_read_locked : bool;   (* "gw"+str(counter) is read inside `with self._autoidlock` *)
  explicit_checked : bool;    (* allocate_id rejects an explicit id that is already registered *)
  register_atomic : bool      (* _register's membership test and append cannot be interleaved *)
}.

Inductive pc :=
| Idle (want : option Z)      (* makegateway(spec) called; spec.id = want *)
| ReadCnt (n : Z)             (* counter read outside the lock, not yet incremented *)
| HasId (i : Z)               (* allocate_id done; the worker process exists from here on *)
| Checked (i : Z)             (* _register: assert passed, append not yet done *)
| Done (i : Z)                (* registered *)
| Failed (leaked : bool)      (* the call raised; leaked = a process had already been started *)
| Gone.                       (* exited / unregistered *)

Record gstate := { gws : list Z; counter : Z; handed : list Z (* ghost: auto ids handed out *); thr : list pc }.

Definition zmem (x : Z) (l : list Z) : bool := existsb (Z.eqb x) l.
Fixpoint remove1 (x : Z) (l : list Z) : list Z :=
  match l with [] => [] | y :: r => if x =? y then r else y :: remove1 x r end.

Fixpoint upd {A} (l : list A) (i : nat) (x : A) : list A :=
  match l, i with
  | [], _ => []
  | _ :: r, O => x :: r
  | y :: r, S j => y :: upd r j x
  end.

Definition set_pc (s : gstate) (t : nat) (p : pc) : gstate :=
  {| gws := gws s; counter := counter s; handed := handed s; thr := upd (thr s) t p |}.

(* one step of thread t (deterministic given t); None = thread cannot move *)
Definition tstep (c : gcfg) (s : gstate) (t : nat) : option gstate :=
  match nth_error (thr s) t with
  | None => None
  | Some p =>
    match p with
    | Idle None =>
        if alloc_read_locked c then
          let n := counter s in
          if zmem n (gws s)
          then Some {| gws := gws s; counter := n + 1; handed := handed s; thr := upd (thr s) t (Failed false) |}
          else Some {| gws := gws s; counter := n + 1; handed := n :: handed s; thr := upd (thr s) t (HasId n) |}
        else Some (set_pc s t (ReadCnt (counter s)))
    | ReadCnt n =>
        if zmem n (gws s)
        then Some {| gws := gws s; counter := counter s + 1; handed := handed s; thr := upd (thr s) t (Failed false) |}
        else Some {| gws := gws s; counter := counter s + 1; handed := n :: handed s; thr := upd (thr s) t (HasId n) |}
    | Idle (Some i) =>
        if explicit_checked c && zmem i (gws s) then Some (set_pc s t (Failed false))
        else Some (set_pc s t (HasId i))
    | HasId i =>
        if zmem i (gws s) then Some (set_pc s t (Failed true))
        else if register_atomic c
             then Some {| gws := gws s ++ [i]; counter := counter s; handed := handed s; thr := upd (thr s) t (Done i) |}
             else Some (set_pc s t (Checked i))
    | Checked i =>
        Some {| gws := gws s ++ [i]; counter := counter s; handed := handed s; thr := upd (thr s) t (Done i) |}
    | Done i =>
        Some {| gws := remove1 i (gws s); counter := counter s; handed := handed s; thr := upd (thr s) t Gone |}
    | Failed _ => None
    | Gone => None
    end
  end.

(* run a schedule (list of thread indices); threads that cannot move are skipped *)
Fixpoint run (c : gcfg) (sched : list nat) (s : gstate) : gstate :=
  match sched with
  | [] => s
  | t :: r => match tstep c s t with Some s' => run c r s' | None => run c r s end
  end.

Definition init (wants : list (option Z)) : gstate :=
  {| gws := []; counter := 0; handed := []; thr := map Idle wants |}.

(* Group.__getitem__(id) : index of the first gateway with that id *)
Fixpoint index_of (x : Z) (l : list Z) : option nat :=
  match l with [] => None | y :: r => if x =? y then Some O else option_map S (index_of x r) end.
