(* Model of channel-id allocation on the two sides of one gateway (gateway_base.py: ChannelFactory.new,
   count; Gateway.__init__ _startcount=1; WorkerGateway serve _startcount=2).  Any number of threads per
   side allocate concurrently (read count / write count+step, under the factory's _writelock when the
   source says so); ids announced by the peer are adopted with new(id). *)
From Coq Require Import List Bool Arith.
Import ListNotations.

Record icfg := { alloc_locked : bool; adopt_keeps_count : bool; startA : nat; startB : nat; step : nat }.

Record side := { count : nat; lock : bool; pcs : list (option nat); out : list nat }.  (* out: newest first *)
Record ist := { sa : side; sb : side }.
Inductive ilab := IRead (b : bool) (t : nat) | IWrite (b : bool) (t : nat) | IAdopt (b : bool) (id : nat).

Fixpoint upd {A} (l : list A) (i : nat) (x : A) : list A :=
  match l, i with [], _ => [] | _ :: r, O => x :: r | y :: r, S j => y :: upd r j x end.

Definition sstep (c : icfg) (s : side) (l : ilab) : option side :=
  match l with
  | IRead _ t =>
      match nth_error (pcs s) t with
      | Some None =>
          if alloc_locked c && lock s then None
          else Some {| count := count s; lock := alloc_locked c; pcs := upd (pcs s) t (Some (count s)); out := out s |}
      | _ => None
      end
  | IWrite _ t =>
      match nth_error (pcs s) t with
      | Some (Some v) => Some {| count := v + step c; lock := false; pcs := upd (pcs s) t None; out := v :: out s |}
      | _ => None
      end
  | IAdopt _ id =>
      if alloc_locked c && lock s then None
      else if adopt_keeps_count c then Some s
      else Some {| count := (if count s <=? id then id + step c else count s); lock := lock s; pcs := pcs s; out := out s |}
  end.

Definition lab_side (l : ilab) : bool := match l with IRead b _ | IWrite b _ | IAdopt b _ => b end.
Definition istep (c : icfg) (s : ist) (l : ilab) : option ist :=
  if lab_side l then match sstep c (sb s) l with Some x => Some {| sa := sa s; sb := x |} | None => None end
  else match sstep c (sa s) l with Some x => Some {| sa := x; sb := sb s |} | None => None end.
Fixpoint irun (c : icfg) (ls : list ilab) (s : ist) : ist :=
  match ls with [] => s | l :: r => match istep c s l with Some s' => irun c r s' | None => irun c r s end end.
Definition iinit (c : icfg) (na nb : nat) : ist :=
  {| sa := {| count := startA c; lock := false; pcs := repeat None na; out := [] |};
     sb := {| count := startB c; lock := false; pcs := repeat None nb; out := [] |} |}.
