From Coq Require Import ZArith List Bool Arith.
Import ListNotations.
Require Import EV.model.Enc EV.model.Ids.

Definition one (c : icfg) (s : ist) (l : ilab) : ist := match istep c s l with Some s' => s' | None => s end.
(* ops: 0 side = allocate a fresh id on that side (thread 0: read, write); 1 side id = adopt a peer id *)
Fixpoint run_iops (c : icfg) (fuel : nat) (ops : list Z) (s : ist) : ist :=
  match fuel with
  | O => s
  | S f =>
    match ops with
    | 0%Z :: sd :: r => let b := negb (sd =? 0)%Z in run_iops c f r (one c (one c s (IRead b 0)) (IWrite b 0))
    | 1%Z :: sd :: id :: r => run_iops c f r (one c s (IAdopt (negb (sd =? 0)%Z) (Z.to_nat id)))
    | _ => s
    end
  end.
Definition run_ids (c : icfg) (inp : list Z) : list Z :=
  let s := run_iops c (length inp) inp (iinit c 1 1) in
  put_lp (map Z.of_nat (rev (out (sa s)))) ++ put_lp (map Z.of_nat (rev (out (sb s)))).
