(* The SENDING side of the channel layer composed with the receiving machine of Chan.v: one direction of a gateway pair.

   Side A owns Channel objects; its threads call send() (Channel.send: the isclosed() test, then gateway._send -- two
   steps, other threads may run in between), close() (Channel.close: the `_closed` test, the CLOSE / CLOSE_ERROR message,
   then the local tail: _closed, _receiveclosed, ENDMARKER, _no_longer_opened -- three steps) and drop their last
   reference (Channel.__del__: CLOSE or LAST_MESSAGE unless closed / receiving over).  The frames go to side B's wire,
   where B's receiver thread and consumers run the machine of Chan.v.

   A's own Channel objects live in a second Chan machine `a` (their _closed / _receiveclosed / queue / callback are the
   fields of its chan records); the frames THAT machine receives come from an arbitrary peer (any LPeerSend / LPeerEnd at
   any time), which over-approximates side B's sending.  B's wire is fed by A's sender steps only. *)
From Coq Require Import List Bool Arith.
Import ListNotations.
Require Import EV.model.Chan.

Inductive spc := PIdle | PSend (id : nat) (x : item) | PClose (id : nat) (err : bool) | PTail (id : nat).

Record lst := {
  a : cst; b : cst;
  pcs : list spc;
  (* ghost *)
  ret : nat -> list item;          (* items whose send() returned, per channel id *)
  refused : nat -> nat;            (* send() calls that raised OSError *)
  pre : nat -> option nat;         (* how many sends had returned when the first close() / __del__ of that id began *)
  gone : nat -> bool               (* the Channel object of side A was deleted *)
}.

Inductive llab :=
| KA (l : clab)                     (* a step of A's own receiving machine (its peer is arbitrary) *)
| KB (l : clab)                     (* a step of B's receiving machine (receiver thread, consumers, callbacks, close, drop) *)
| KSendBegin (t id : nat) (x : item)
| KSendEmit (t : nat)
| KSendFail (t : nat)               (* gateway._send raised OSError (connection gone): nothing goes out *)
| KCloseBegin (t id : nat) (err : bool)
| KCloseEmit (t : nat)
| KCloseTail (t : nat)
| KDel (id : nat).

(* the local tail of Channel.close(): unconditional once the `not self._closed` test was passed *)
Definition close_tail (s : cst) (id : nat) : cst :=
  let ch := cs s id in
  {| wire := wire s;
     cs := fupd (cs s) id {| alive := false; q := (match q ch with Some lq => Some (lq ++ [End]) | None => None end);
                             closed := true; rclosed := true; errs := errs ch; cb := None |};
     thr := thr s; sent := sent s; got := got s; lossless := lossless s;
     ends := fupd (ends s) id (ends s id + fires ch); regs := regs s;
     errs_in := errs_in s; errs_out := errs_out s; eofs := eofs s; fin := fin s |}.

Definition a_label_ok (l : clab) : bool := match l with LDrop _ | LClose _ => false | _ => true end.
Definition b_label_ok (l : clab) : bool := match l with LPeerSend _ _ | LPeerEnd _ _ => false | _ => true end.
Definition pc_mentions (id : nat) (p : spc) : bool :=
  match p with PIdle => false | PSend j _ => Nat.eqb j id | PClose j _ => Nat.eqb j id | PTail j => Nat.eqb j id end.
Definition opt_step (c : ccfg) (s : cst) (l : clab) : cst := match cstep c s l with Some s' => s' | None => s end.
Definition set_pre (p : nat -> option nat) (id k : nat) : nat -> option nat :=
  match p id with None => fupd p id (Some k) | Some _ => p end.
(* what Channel.close() puts on the wire: nothing when the peer closed first and receiving is over *)
Definition close_emits (s : cst) (id : nat) : bool := negb (rclosed (cs s id)) || negb (fin s).
(* what Channel.__del__ puts on the wire *)
Definition del_emits (s : cst) (id : nat) : option endkind :=
  let ch := cs s id in
  if closed ch then None else if rclosed ch && fin s then None
  else Some (match q ch with None => KLast | Some _ => KClose end).

Definition lstep (c : ccfg) (s : lst) (l : llab) : option lst :=
  match l with
  | KA la =>
      if a_label_ok la then
        match cstep c (a s) la with
        | Some a' => Some {| a := a'; b := b s; pcs := pcs s; ret := ret s; refused := refused s; pre := pre s;
                             gone := (match la with LNew id => fupd (gone s) id false | _ => gone s end) |}
        | None => None end
      else None
  | KB lb =>
      if b_label_ok lb then
        match cstep c (b s) lb with
        | Some b' => Some {| a := a s; b := b'; pcs := pcs s; ret := ret s; refused := refused s; pre := pre s; gone := gone s |}
        | None => None end
      else None
  | KSendBegin t id x =>
      match nth_error (pcs s) t with
      | Some PIdle =>
          if held (cs (a s) id) && negb (gone s id) then
            if closed (cs (a s) id)
            then Some {| a := a s; b := b s; pcs := pcs s; ret := ret s; refused := fupd (refused s) id (S (refused s id)); pre := pre s; gone := gone s |}
            else Some {| a := a s; b := b s; pcs := upd (pcs s) t (PSend id x); ret := ret s; refused := refused s; pre := pre s; gone := gone s |}
          else None
      | _ => None end
  | KSendEmit t =>
      match nth_error (pcs s) t with
      | Some (PSend id x) =>
          Some {| a := a s; b := opt_step c (b s) (LPeerSend id x); pcs := upd (pcs s) t PIdle;
                  ret := fupd (ret s) id (ret s id ++ [x]); refused := refused s; pre := pre s; gone := gone s |}
      | _ => None end
  | KSendFail t =>
      match nth_error (pcs s) t with
      | Some (PSend id x) =>
          Some {| a := a s; b := b s; pcs := upd (pcs s) t PIdle; ret := ret s; refused := fupd (refused s) id (S (refused s id)); pre := pre s; gone := gone s |}
      | _ => None end
  | KCloseBegin t id err =>
      match nth_error (pcs s) t with
      | Some PIdle =>
          if held (cs (a s) id) && negb (gone s id) then
            if closed (cs (a s) id) then Some s      (* "ignoring redundant call to close()" *)
            else Some {| a := a s; b := b s; pcs := upd (pcs s) t (PClose id err); ret := ret s; refused := refused s;
                         pre := set_pre (pre s) id (length (ret s id)); gone := gone s |}
          else None
      | _ => None end
  | KCloseEmit t =>
      match nth_error (pcs s) t with
      | Some (PClose id err) =>
          Some {| a := a s;
                  b := (if close_emits (a s) id then opt_step c (b s) (LPeerEnd id (if err then KCloseErr else KClose)) else b s);
                  pcs := upd (pcs s) t (PTail id); ret := ret s; refused := refused s; pre := pre s; gone := gone s |}
      | _ => None end
  | KCloseTail t =>
      match nth_error (pcs s) t with
      | Some (PTail id) =>
          Some {| a := close_tail (a s) id; b := b s; pcs := upd (pcs s) t PIdle; ret := ret s; refused := refused s; pre := pre s; gone := gone s |}
      | _ => None end
  | KDel id =>
      (* the last reference goes away: no thread is inside a method of that object *)
      if held (cs (a s) id) && negb (gone s id) && negb (existsb (pc_mentions id) (pcs s))
         && negb (existsb (fun p => match p with CHold j => Nat.eqb j id | _ => false end) (thr (a s)))
      then Some {| a := opt_step c (a s) (LDrop id);
                   b := (match del_emits (a s) id with Some k => opt_step c (b s) (LPeerEnd id k) | None => b s end);
                   pcs := pcs s; ret := ret s; refused := refused s;
                   pre := set_pre (pre s) id (length (ret s id)); gone := fupd (gone s) id true |}
      else None
  end.

Fixpoint lrun (c : ccfg) (ls : list llab) (s : lst) : lst :=
  match ls with [] => s | l :: r => match lstep c s l with Some s' => lrun c r s' | None => lrun c r s end end.

Definition linit (nthreads nconsumers_a nconsumers_b : nat) : lst :=
  {| a := cinit nconsumers_a; b := cinit nconsumers_b; pcs := repeat PIdle nthreads;
     ret := fun _ => []; refused := fun _ => 0; pre := fun _ => None; gone := fun _ => false |}.

(* the End frames for one id, and whether a wire holds one *)
Definition is_end (id : nat) (f : frame) : bool := match f with FEnd j _ => Nat.eqb j id | _ => false end.
