(* executable entry point of the Link model: the operations of ChanRun on side A's machine plus send() / close(error) /
   __del__ with what they put on the wire; every operation runs to completion (one sender thread) *)
From Coq Require Import ZArith List Bool Arith.
Import ListNotations.
Require Import EV.model.Enc EV.model.Chan EV.model.ChanRun EV.model.Link.

Definition lone (c : ccfg) (s : lst) (l : llab) : lst := match lstep c s l with Some s' => s' | None => s end.

(* ops as in ChanRun (0 data arrives, 1 end arrives, 2 new, 4 receive, 5 setcallback, 6 epilogue) and
   3 id = the last reference goes away (__del__), 7 id = close(), 9 id = close(error), 8 id x = send(x) *)
Fixpoint lrun_ops (c : ccfg) (fuel : nat) (ops : list Z) (s : lst) : lst :=
  match fuel with
  | O => s
  | S f =>
    match ops with
    | 0%Z :: id :: x :: r => lrun_ops c f r (lone c (lone c s (KA (LPeerSend (Z.to_nat id) (Z.to_nat x)))) (KA LRecv))
    | 1%Z :: id :: k :: r => lrun_ops c f r (lone c (lone c s (KA (LPeerEnd (Z.to_nat id) (ek k)))) (KA LRecv))
    | 2%Z :: id :: r => lrun_ops c f r (lone c s (KA (LNew (Z.to_nat id))))
    | 3%Z :: id :: r => lrun_ops c f r (lone c s (KDel (Z.to_nat id)))
    | 4%Z :: id :: r => lrun_ops c f r (lone c (lone c s (KA (LGet 0 (Z.to_nat id)))) (KA (LReput 0)))
    | 5%Z :: id :: w :: r => lrun_ops c f r (lone c s (KA (LSetCb (Z.to_nat id) (negb (w =? 0)%Z))))
    | 6%Z :: r => lrun_ops c f r (lone c s (KA LFinish))
    | 7%Z :: id :: r => lrun_ops c f r (lone c (lone c (lone c s (KCloseBegin 0 (Z.to_nat id) false)) (KCloseEmit 0)) (KCloseTail 0))
    | 9%Z :: id :: r => lrun_ops c f r (lone c (lone c (lone c s (KCloseBegin 0 (Z.to_nat id) true)) (KCloseEmit 0)) (KCloseTail 0))
    | 8%Z :: id :: x :: r => lrun_ops c f r (lone c (lone c s (KSendBegin 0 (Z.to_nat id) (Z.to_nat x))) (KSendEmit 0))
    | _ => s
    end
  end.

Definition enc_frame (f : frame) : list Z :=
  match f with
  | FData id x => [0%Z; Z.of_nat id; Z.of_nat x]
  | FEnd id k => [1%Z; Z.of_nat id; (match k with KClose => 0 | KCloseErr => 1 | KLast => 2 end)%Z]
  end.

(* output: the digests of A's machine for ids 1..4, the refused-send counts, then the frames A put on the wire *)
Definition run_link (c : ccfg) (inp : list Z) : list Z :=
  let s := lrun_ops c (length inp) inp (linit 1 1 0) in
  concat (map (digest (a s)) [1%nat; 2%nat; 3%nat; 4%nat])
  ++ map (fun id => Z.of_nat (refused s id)) [1%nat; 2%nat; 3%nat; 4%nat]
  ++ Z.of_nat (length (wire (b s))) :: concat (map enc_frame (wire (b s))).
