(* Model of WorkerPool (gateway_base.py): spawn / _try_send_to_primary_thread /
   integrate_as_primary_thread / trigger_shutdown / _perform_spawn / waitall as a labelled
   transition system.  One step = one shared access that the code does not make atomic with its
   neighbours; statements that run under _running_lock and only touch data that is only touched
   under that lock are merged with the acquisition / release next to them.  Any number of spawner
   threads, worker threads, shutdown callers and waitall callers; at most one integrated primary
   thread.  All nondeterminism is the choice of the label (= the scheduler).  No proofs here. *)
From Coq Require Import List Bool Arith.
Import ListNotations.

Definition task := nat.

Record pcfg := {
  mto : bool;            (* execmodel.backend == "main_thread_only" *)
  keep_pending : bool;   (* trigger_shutdown leaves the mailbox alone when the ready event is set *)
  mailbox_first : bool;  (* the primary loop compares the mailbox before it tests _shuttingdown *)
  protocol : bool        (* spawn is only called when every accepted task's function has returned *)
}.

Inductive owner := OSp (i : nat) | OSh (j : nat).

Inductive spc :=                       (* a thread calling spawn() for each task of a list *)
| S0 (ts : list task)                  (* outside spawn; ts still to be submitted *)
| S2 (t : task) (ts : list task)       (* lock held, t added to _running; about to read ready.is_set() *)
| S3a (t : task) (ts : list task)      (* ready was unset: about to write the mailbox *)
| S3b (t : task) (ts : list task)      (* mailbox written: about to set ready and release *)
| S4 (t r : task) (ts : list task)     (* main_thread_only: waiting for the mailbox task r to finish *)
| S3c (ts : list task)                 (* main_thread_only: mailbox overwritten; about to set ready (no-op) and release *)
| S5 (t : task) (ts : list task).      (* about to start a worker thread and release *)

Inductive wpc := W0 (t : task) | W1 (t : task) | W2 (t : task) | WDone.   (* start run | finish run | remove+wake | gone *)

Inductive ppc :=                       (* integrate_as_primary_thread *)
| PNone                                (* the pool has no primary thread *)
| P0                                   (* ready.wait() *)
| P1                                   (* reply = self._primary_thread_task *)
| P2 (r : task) | P3 (r : task)        (* start / finish of reply.run() *)
| P4 (r : task)                        (* _perform_spawn's locked section: remove, wake *)
| P7 (r : task)                        (* the loop's locked section: shutdown test, mailbox compare, clear *)
| PExit.

Inductive tpc := T0 | T2 | T3 | TDone.                                   (* trigger_shutdown *)
Inductive apc := A0 (timed : bool) | A3 (timed : bool) (snap : list task) (flag : bool) | ARet (res : bool) (snap : list task).

Record st := {
  lock : option owner; running : list task; shut : bool; mailbox : option task; ready : bool;
  fresh : bool;                        (* ghost: the mailbox holds a task nobody has picked up yet *)
  acc : list task; refused : list task; started : list task; fin : list task;   (* ghost history *)
  sp : list spc; wk : list wpc; pr : ppc; sh : list tpc; wa : list apc }.

Inductive lab := LSp (i : nat) | LWk (i : nat) | LPr | LSh (j : nat) | LWa (k : nat) | LTimeout (k : nat).

Fixpoint upd {A} (l : list A) (i : nat) (x : A) : list A :=
  match l, i with
  | [], _ => []
  | _ :: r, O => x :: r
  | y :: r, S j => y :: upd r j x
  end.
Definition mem (x : task) (l : list task) : bool := existsb (Nat.eqb x) l.
Fixpoint remove1 (x : task) (l : list task) : list task :=
  match l with [] => [] | y :: r => if Nat.eqb x y then r else y :: remove1 x r end.
Definition wake (wa : list apc) : list apc :=
  map (fun a => match a with A3 tm snap _ => A3 tm snap true | x => x end) wa.
Definition lock_free (s : st) : bool := match lock s with None => true | Some _ => false end.
Definition subset (a b : list task) : bool := forallb (fun x => mem x b) a.

(* setters *)
Definition set_sp (s : st) (i : nat) (p : spc) : st :=
  {| lock := lock s; running := running s; shut := shut s; mailbox := mailbox s; ready := ready s; fresh := fresh s;
     acc := acc s; refused := refused s; started := started s; fin := fin s;
     sp := upd (sp s) i p; wk := wk s; pr := pr s; sh := sh s; wa := wa s |}.

(* remove a finished task from _running and wake the waitall callers if it was the last *)
Definition remove_and_wake (s : st) (t : task) : list task * list apc :=
  let r := remove1 t (running s) in (r, match r with [] => wake (wa s) | _ => wa s end).

Definition tstep (c : pcfg) (s : st) (l : lab) : option st :=
  match l with
  | LSp i =>
    match nth_error (sp s) i with
    | Some (S0 (t :: ts)) =>
        if lock_free s && (negb (protocol c) || subset (acc s) (fin s)) then
          if shut s
          then Some {| lock := lock s; running := running s; shut := shut s; mailbox := mailbox s; ready := ready s; fresh := fresh s;
                       acc := acc s; refused := t :: refused s; started := started s; fin := fin s;
                       sp := upd (sp s) i (S0 ts); wk := wk s; pr := pr s; sh := sh s; wa := wa s |}
          else Some {| lock := Some (OSp i); running := t :: running s; shut := shut s; mailbox := mailbox s; ready := ready s; fresh := fresh s;
                       acc := t :: acc s; refused := refused s; started := started s; fin := fin s;
                       sp := upd (sp s) i (S2 t ts); wk := wk s; pr := pr s; sh := sh s; wa := wa s |}
        else None
    | Some (S2 t ts) =>
        match pr s with
        | PNone => Some (set_sp s i (S5 t ts))
        | _ => if negb (ready s) then Some (set_sp s i (S3a t ts))
               else match mailbox s with
                    | Some r => if mto c then Some (set_sp s i (S4 t r ts)) else Some (set_sp s i (S5 t ts))
                    | None => Some (set_sp s i (S5 t ts))
                    end
        end
    | Some (S3a t ts) =>
        Some {| lock := lock s; running := running s; shut := shut s; mailbox := Some t; ready := ready s; fresh := fresh s;
                acc := acc s; refused := refused s; started := started s; fin := fin s;
                sp := upd (sp s) i (S3b t ts); wk := wk s; pr := pr s; sh := sh s; wa := wa s |}
    | Some (S3b t ts) =>
        Some {| lock := None; running := running s; shut := shut s; mailbox := mailbox s; ready := true; fresh := true;
                acc := acc s; refused := refused s; started := started s; fin := fin s;
                sp := upd (sp s) i (S0 ts); wk := wk s; pr := pr s; sh := sh s; wa := wa s |}
    | Some (S4 t r ts) =>
        if mem r (fin s) then
          Some {| lock := lock s; running := running s; shut := shut s; mailbox := Some t; ready := ready s; fresh := true;
                  acc := acc s; refused := refused s; started := started s; fin := fin s;
                  sp := upd (sp s) i (S3c ts); wk := wk s; pr := pr s; sh := sh s; wa := wa s |}
        else None
    | Some (S3c ts) =>
        Some {| lock := None; running := running s; shut := shut s; mailbox := mailbox s; ready := true; fresh := fresh s;
                acc := acc s; refused := refused s; started := started s; fin := fin s;
                sp := upd (sp s) i (S0 ts); wk := wk s; pr := pr s; sh := sh s; wa := wa s |}
    | Some (S5 t ts) =>
        Some {| lock := None; running := running s; shut := shut s; mailbox := mailbox s; ready := ready s; fresh := fresh s;
                acc := acc s; refused := refused s; started := started s; fin := fin s;
                sp := upd (sp s) i (S0 ts); wk := wk s ++ [W0 t]; pr := pr s; sh := sh s; wa := wa s |}
    | _ => None
    end
  | LWk i =>
    match nth_error (wk s) i with
    | Some (W0 t) =>
        Some {| lock := lock s; running := running s; shut := shut s; mailbox := mailbox s; ready := ready s; fresh := fresh s;
                acc := acc s; refused := refused s; started := t :: started s; fin := fin s;
                sp := sp s; wk := upd (wk s) i (W1 t); pr := pr s; sh := sh s; wa := wa s |}
    | Some (W1 t) =>
        Some {| lock := lock s; running := running s; shut := shut s; mailbox := mailbox s; ready := ready s; fresh := fresh s;
                acc := acc s; refused := refused s; started := started s; fin := t :: fin s;
                sp := sp s; wk := upd (wk s) i (W2 t); pr := pr s; sh := sh s; wa := wa s |}
    | Some (W2 t) =>
        if lock_free s then
          let '(r, w) := remove_and_wake s t in
          Some {| lock := lock s; running := r; shut := shut s; mailbox := mailbox s; ready := ready s; fresh := fresh s;
                  acc := acc s; refused := refused s; started := started s; fin := fin s;
                  sp := sp s; wk := upd (wk s) i WDone; pr := pr s; sh := sh s; wa := w |}
        else None
    | _ => None
    end
  | LPr =>
    match pr s with
    | P0 => if ready s
            then Some {| lock := lock s; running := running s; shut := shut s; mailbox := mailbox s; ready := ready s; fresh := fresh s;
                         acc := acc s; refused := refused s; started := started s; fin := fin s;
                         sp := sp s; wk := wk s; pr := P1; sh := sh s; wa := wa s |}
            else None
    | P1 => Some {| lock := lock s; running := running s; shut := shut s; mailbox := mailbox s; ready := ready s; fresh := false;
                    acc := acc s; refused := refused s; started := started s; fin := fin s;
                    sp := sp s; wk := wk s; pr := match mailbox s with Some r => P2 r | None => PExit end; sh := sh s; wa := wa s |}
    | P2 r => Some {| lock := lock s; running := running s; shut := shut s; mailbox := mailbox s; ready := ready s; fresh := fresh s;
                      acc := acc s; refused := refused s; started := r :: started s; fin := fin s;
                      sp := sp s; wk := wk s; pr := P3 r; sh := sh s; wa := wa s |}
    | P3 r => Some {| lock := lock s; running := running s; shut := shut s; mailbox := mailbox s; ready := ready s; fresh := fresh s;
                      acc := acc s; refused := refused s; started := started s; fin := r :: fin s;
                      sp := sp s; wk := wk s; pr := P4 r; sh := sh s; wa := wa s |}
    | P4 r => if lock_free s then
                let '(rn, w) := remove_and_wake s r in
                Some {| lock := lock s; running := rn; shut := shut s; mailbox := mailbox s; ready := ready s; fresh := fresh s;
                        acc := acc s; refused := refused s; started := started s; fin := fin s;
                        sp := sp s; wk := wk s; pr := P7 r; sh := sh s; wa := w |}
              else None
    | P7 r =>
        if lock_free s then
          let same := match mailbox s with Some x => Nat.eqb x r | None => false end in
          let leave := if mailbox_first c then same && shut s else shut s in
          let clear := same && negb (shut s) in
          Some {| lock := lock s; running := running s; shut := shut s; mailbox := mailbox s;
                  ready := if clear then false else ready s; fresh := fresh s;
                  acc := acc s; refused := refused s; started := started s; fin := fin s;
                  sp := sp s; wk := wk s; pr := if leave then PExit else P0; sh := sh s; wa := wa s |}
        else None
    | _ => None
    end
  | LSh j =>
    match nth_error (sh s) j with
    | Some T0 =>
        if lock_free s then
          match pr s with
          | PNone => Some {| lock := lock s; running := running s; shut := true; mailbox := mailbox s; ready := ready s; fresh := fresh s;
                             acc := acc s; refused := refused s; started := started s; fin := fin s;
                             sp := sp s; wk := wk s; pr := pr s; sh := upd (sh s) j TDone; wa := wa s |}
          | _ => Some {| lock := Some (OSh j); running := running s; shut := true; mailbox := mailbox s; ready := ready s; fresh := fresh s;
                         acc := acc s; refused := refused s; started := started s; fin := fin s;
                         sp := sp s; wk := wk s; pr := pr s; sh := upd (sh s) j T2; wa := wa s |}
          end
        else None
    | Some T2 =>
        if keep_pending c && ready s
        then Some {| lock := None; running := running s; shut := shut s; mailbox := mailbox s; ready := ready s; fresh := fresh s;
                     acc := acc s; refused := refused s; started := started s; fin := fin s;
                     sp := sp s; wk := wk s; pr := pr s; sh := upd (sh s) j TDone; wa := wa s |}
        else Some {| lock := lock s; running := running s; shut := shut s; mailbox := None; ready := ready s; fresh := false;
                     acc := acc s; refused := refused s; started := started s; fin := fin s;
                     sp := sp s; wk := wk s; pr := pr s; sh := upd (sh s) j T3; wa := wa s |}
    | Some T3 =>
        Some {| lock := None; running := running s; shut := shut s; mailbox := mailbox s; ready := true; fresh := fresh s;
                acc := acc s; refused := refused s; started := started s; fin := fin s;
                sp := sp s; wk := wk s; pr := pr s; sh := upd (sh s) j TDone; wa := wa s |}
    | _ => None
    end
  | LWa k =>
    match nth_error (wa s) k with
    | Some (A0 tm) =>
        if lock_free s then
          Some {| lock := lock s; running := running s; shut := shut s; mailbox := mailbox s; ready := ready s; fresh := fresh s;
                  acc := acc s; refused := refused s; started := started s; fin := fin s;
                  sp := sp s; wk := wk s; pr := pr s; sh := sh s;
                  wa := upd (wa s) k (match running s with [] => ARet true (acc s) | _ => A3 tm (acc s) false end) |}
        else None
    | Some (A3 tm snap true) =>
        Some {| lock := lock s; running := running s; shut := shut s; mailbox := mailbox s; ready := ready s; fresh := fresh s;
                acc := acc s; refused := refused s; started := started s; fin := fin s;
                sp := sp s; wk := wk s; pr := pr s; sh := sh s; wa := upd (wa s) k (ARet true snap) |}
    | _ => None
    end
  | LTimeout k =>
    match nth_error (wa s) k with
    | Some (A3 true snap false) =>
        Some {| lock := lock s; running := running s; shut := shut s; mailbox := mailbox s; ready := ready s; fresh := fresh s;
                acc := acc s; refused := refused s; started := started s; fin := fin s;
                sp := sp s; wk := wk s; pr := pr s; sh := sh s; wa := upd (wa s) k (ARet false snap) |}
    | _ => None
    end
  end.

Fixpoint run (c : pcfg) (ls : list lab) (s : st) : st :=
  match ls with
  | [] => s
  | l :: r => match tstep c s l with Some s' => run c r s' | None => run c r s end
  end.

Definition init (progs : list (list task)) (primary : bool) (nshut : nat) (waiters : list bool) : st :=
  {| lock := None; running := []; shut := false; mailbox := None; ready := false; fresh := false;
     acc := []; refused := []; started := []; fin := [];
     sp := map S0 progs; wk := []; pr := if primary then P0 else PNone; sh := repeat T0 nshut; wa := map A0 waiters |}.
