(* executable entry points of the Pool model: run a label sequence; explore every interleaving of a
   small program and list the terminal outcomes (for trace inclusion of observed executions) *)
From Coq Require Import ZArith List Bool Arith FMapPositive.
Import ListNotations.
Require Import EV.model.Enc EV.model.Pool.

Definition zn (n : nat) : Z := Z.of_nat n.
Definition zb (b : bool) : Z := if b then 1%Z else 0%Z.
Definition zl (l : list task) : list Z := zn (length l) :: map zn l.

Definition enc_spc (p : spc) : list Z :=
  match p with
  | S0 ts => 0%Z :: zl ts | S2 t ts => 1%Z :: zn t :: zl ts | S3a t ts => 2%Z :: zn t :: zl ts
  | S3b t ts => 3%Z :: zn t :: zl ts | S4 t r ts => 4%Z :: zn t :: zn r :: zl ts | S3c ts => 5%Z :: zl ts
  | S5 t ts => 6%Z :: zn t :: zl ts
  end.
Definition enc_wpc (p : wpc) : list Z :=
  match p with W0 t => [0; zn t] | W1 t => [1; zn t] | W2 t => [2; zn t] | WDone => [3; 0] end%Z.
Definition enc_ppc (p : ppc) : list Z :=
  match p with PNone => [0; 0] | P0 => [1; 0] | P1 => [2; 0] | P2 r => [3; zn r] | P3 r => [4; zn r]
             | P4 r => [5; zn r] | P7 r => [6; zn r] | PExit => [7; 0] end%Z.
Definition enc_tpc (p : tpc) : list Z := match p with T0 => [0] | T2 => [1] | T3 => [2] | TDone => [3] end%Z.
Definition enc_apc (p : apc) : list Z :=
  match p with
  | A0 tm => [0%Z; zb tm] | A3 tm snap f => 1%Z :: zb tm :: zb f :: zl snap | ARet r snap => 2%Z :: zb r :: zl snap
  end.
Definition enc_owner (o : option owner) : list Z :=
  match o with None => [0; 0] | Some (OSp i) => [1; zn i] | Some (OSh j) => [2; zn j] end%Z.

Definition enc_st (s : st) : list Z :=
  enc_owner (lock s) ++ zl (running s) ++ [zb (shut s)] ++ (match mailbox s with None => [0; 0] | Some t => [1; zn t] end)%Z
  ++ [zb (ready s); zb (fresh s)] ++ zl (acc s) ++ zl (refused s) ++ zl (started s) ++ zl (fin s)
  ++ zn (length (sp s)) :: concat (map enc_spc (sp s)) ++ zn (length (wk s)) :: concat (map enc_wpc (wk s))
  ++ enc_ppc (pr s) ++ zn (length (sh s)) :: concat (map enc_tpc (sh s)) ++ zn (length (wa s)) :: concat (map enc_apc (wa s)).

Definition labels (s : st) : list lab :=
  map LSp (seq 0 (length (sp s))) ++ map LWk (seq 0 (length (wk s))) ++ [LPr] ++ map LSh (seq 0 (length (sh s)))
  ++ map LWa (seq 0 (length (wa s))) ++ map LTimeout (seq 0 (length (wa s))).
Definition succs (c : pcfg) (s : st) : list st :=
  flat_map (fun l => match tstep c s l with Some s' => [s'] | None => [] end) (labels s).

Definition hash (l : list Z) : positive :=
  Z.to_pos (1 + fold_left (fun h x => ((h * 1000003 + x + 7) mod 2305843009213693951)%Z) l 0%Z).

(* depth-first exploration with a visited set keyed by the hash of the state encoding *)
Fixpoint explore (c : pcfg) (fuel : nat) (todo : list st) (seen : PositiveMap.t unit) (terms : list st) (nstates : nat)
  : list st * nat * bool :=
  match fuel with
  | O => (terms, nstates, false)
  | S f =>
    match todo with
    | [] => (terms, nstates, true)
    | s :: rest =>
        let h := hash (enc_st s) in
        match PositiveMap.find h seen with
        | Some _ => explore c f rest seen terms nstates
        | None =>
            let nx := succs c s in
            let seen' := PositiveMap.add h tt seen in
            match nx with
            | [] => explore c f rest seen' (s :: terms) (S nstates)
            | _ => explore c f (nx ++ rest) seen' terms (S nstates)
            end
        end
    end
  end.

(* outcome of a terminal state: accepted, refused, started (with multiplicity), finished,
   per-waiter result (0 false / 1 true / 2 still blocked), primary exited?, shut, |running| *)
Definition outcome (s : st) : list Z :=
  zl (acc s) ++ zl (refused s) ++ zl (started s) ++ zl (fin s)
  ++ zn (length (wa s)) :: map (fun a => match a with ARet true _ => 1 | ARet false _ => 0 | _ => 2 end)%Z (wa s)
  ++ [match pr s with PExit => 1 | PNone => 2 | _ => 0 end; zb (shut s); zn (length (running s))]%Z.

Definition get_cfg (l : list Z) : pcfg * list Z :=
  match l with
  | a :: b :: c :: d :: r => ({| mto := negb (a =? 0)%Z; keep_pending := negb (b =? 0)%Z; mailbox_first := negb (c =? 0)%Z; protocol := negb (d =? 0)%Z |}, r)
  | _ => ({| mto := false; keep_pending := false; mailbox_first := false; protocol := false |}, [])
  end.

(* program: primary nshut nwaiters (timed)* nspawners (lp tasks)* *)
Definition get_prog (l : list Z) : st * list Z :=
  let prim := negb (zhd l =? 0)%Z in
  let nshut := Z.to_nat (zhd (ztl l)) in
  let r := ztl (ztl l) in
  let nw := Z.to_nat (zhd r) in
  let tms := map (fun z => negb (z =? 0)%Z) (firstn nw (ztl r)) in
  let r2 := skipn nw (ztl r) in
  let '(progs, r3) := get_lps (Z.to_nat (zhd r2)) (ztl r2) in
  (init (map (map Z.to_nat) progs) prim nshut tms, r3).

(* mode 0: cfg prog -> complete? nstates nterms (lp outcome)* *)
Definition run_pool_explore (facts : bool * bool) (inp : list Z) : list Z :=
  let '(c0, r) := get_cfg inp in
  let c := {| mto := mto c0; keep_pending := fst facts; mailbox_first := snd facts; protocol := protocol c0 |} in
  let '(s0, _) := get_prog r in
  let '(terms, n, complete) := explore c (Z.to_nat 400000) [s0] (PositiveMap.empty unit) [] 0 in
  zb complete :: zn n :: zn (length terms) :: concat (map (fun s => put_lp (outcome s)) terms).
