(* The proxied transport (gateway_io.py: ProxyIO, serve_proxy_io): the master reads the sub's byte stream
   through a channel file over the items the forwarder sends; the sub reads the concatenation of the items
   the master sends.  The master's receiver, Message.from_io over ProxyIO.read, as a function on the
   channel-file state. *)
From Coq Require Import ZArith List Bool Arith.
Import ListNotations.
Require Import EV.model.Frame EV.model.ChanFile.
Open Scope Z_scope.

Definition isnl (z : Z) : bool := z =? 10.
Notation cfz := (cf Z).

(* Message.from_io(ProxyIO): header = read(9) (empty or short: stop), payload = read(len) *)
Fixpoint pdecode (fuel : nat) (s : cfz) : list msg * cfz :=
  match fuel with
  | O => ([], s)
  | S f =>
      let '(h, s1) := cf_read Z 9 s in
      if (length h <? 9)%nat then ([], s1)     (* empty: EOFError; 1..8 bytes: struct.error -- the receiver ends either way *)
      else
        let len := dec_i32 (skipn 5 h) in
        (* ProxyIO.read returns what is there: a payload cut short by the end of the io channel is handed on as it is;
           the forwarder only ever sends whole frames, so this needs the io channel to end inside an item sequence *)
        let '(p, s2) := cf_read Z (Z.to_nat len) s1 in
        let '(r, s3) := pdecode f s2 in
        ({| mty := dec_i8 (firstn 1 h); mcid := dec_i32 (firstn 4 (skipn 1 h)); mdata := p |} :: r, s3)
  end.

(* what the forwarder puts on the io channel for the sub's output: the bootstrap byte "1", then one item per frame *)
Definition up_items (ms : list msg) : list bytes := [49] :: map enc ms.
(* what the master does with it: bootstrap reads one byte, then the receiver thread decodes frames *)
Definition master_reads (items : list bytes) (nframes : nat) : bytes * list msg :=
  let '(b, s1) := cf_read Z 1 (cf_init Z items) in
  (b, fst (pdecode (S nframes) s1)).

(* ---- the control channel: a strict request / answer protocol (ProxyIO._controll, serve_proxy_io.control) ----
   master: send(event); answer := receive()       forwarder: performs the operation on sub_io, sends one answer.
   The forwarder is modelled as answering every request in arrival order (its callback runs under the receive lock). *)
Inductive cev := EvWait | EvKill | EvAddr | EvCloseWrite.
Inductive cans := AExit (code : Z) | ANone | AAddr.
Definition answer_of (e : cev) (code : Z) : cans :=
  match e with EvWait => AExit code | EvKill => ANone | EvAddr => AAddr | EvCloseWrite => ANone end.

Record pcfg := { every_request_awaits_its_answer : bool }.   (* false: close_write sends RIO_CLOSE_WRITE without receiving *)

(* state: answers queued on the master's side of the control channel, and what each master call returned *)
Record ctl := { pending : list cans; returned : list (cev * cans) }.
Definition ctl_call (c : pcfg) (code : Z) (s : ctl) (e : cev) : ctl :=
  (* the request travels, the forwarder appends its answer; the master then takes the FIRST queued answer -- unless this
     call does not wait at all *)
  let q := pending s ++ [answer_of e code] in
  match e, every_request_awaits_its_answer c with
  | EvCloseWrite, false => {| pending := q; returned := returned s |}
  | _, _ => match q with
            | a :: r => {| pending := r; returned := returned s ++ [(e, a)] |}
            | [] => s
            end
  end.
Definition ctl_run (c : pcfg) (code : Z) (es : list cev) : ctl := fold_left (ctl_call c code) es {| pending := []; returned := [] |}.
