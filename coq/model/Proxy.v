(* The proxied transport (gateway_io.py: ProxyIO, serve_proxy_io): the master reads the sub's byte stream
   through a channel file over the items the forwarder sends; the sub reads the concatenation of the items
   the master sends.  The master's receiver, Message.from_io over ProxyIO.read, as a function on the
   channel-file state. *)
From Coq Require Import ZArith List Bool Arith.
Import ListNotations.
Require Import EV.model.Frame EV.model.ChanFile.
Open Scope Z_scope.

Definition isnl (z : Z) : bool := z =? 10.
Notation cfz := (cf Z).

(* Message.from_io(ProxyIO): header = read(9) (empty or short: stop), payload = read(len) *)
Fixpoint pdecode (fuel : nat) (s : cfz) : list msg * cfz :=
  match fuel with
  | O => ([], s)
  | S f =>
      let '(h, s1) := cf_read Z 9 s in
      if (length h <? 9)%nat then ([], s1)     (* empty: EOFError; 1..8 bytes: struct.error -- the receiver ends either way *)
      else
        let len := dec_i32 (skipn 5 h) in
        (* ProxyIO.read returns what is there: a payload cut short by the end of the io channel is handed on as it is;
           the forwarder only ever sends whole frames, so this needs the io channel to end inside an item sequence *)
        let '(p, s2) := cf_read Z (Z.to_nat len) s1 in
        let '(r, s3) := pdecode f s2 in
        ({| mty := dec_i8 (firstn 1 h); mcid := dec_i32 (firstn 4 (skipn 1 h)); mdata := p |} :: r, s3)
  end.

(* what the forwarder puts on the io channel for the sub's output: the bootstrap byte "1", then one item per frame *)
Definition up_items (ms : list msg) : list bytes := [49] :: map enc ms.
(* what the master does with it: bootstrap reads one byte, then the receiver thread decodes frames *)
Definition master_reads (items : list bytes) (nframes : nat) : bytes * list msg :=
  let '(b, s1) := cf_read Z 1 (cf_init Z items) in
  (b, fst (pdecode (S nframes) s1)).
