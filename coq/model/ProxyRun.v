From Coq Require Import ZArith List Bool Arith.
Import ListNotations.
Require Import EV.model.Enc EV.model.Frame EV.model.ChanFile EV.model.Proxy.
Open Scope Z_scope.

Fixpoint takeb (n : nat) (l : list Z) : list Z * list Z :=
  match n with O => ([], l) | S k => match l with [] => ([], []) | x :: r => let '(a, b) := takeb k r in (x :: a, b) end end.
Fixpoint parse_items (k : nat) (l : list Z) : list (list Z) :=
  match k with O => [] | S k' => match l with [] => [] | len :: r => let '(it, r') := takeb (Z.to_nat len) r in it :: parse_items k' r' end end.

(* input: number of items, then each item as length + bytes; output: the bootstrap read, then the decoded messages *)
Definition run_proxy (inp : list Z) : list Z :=
  match inp with
  | n :: r =>
      let items := parse_items (Z.to_nat n) r in
      let '(b, ms) := master_reads items (length r) in
      put_lp b ++ [Z.of_nat (length ms)] ++ flat_map (fun m => [mty m; mcid m] ++ put_lp (mdata m)) ms
  | [] => [-999]
  end.
