(* C06 (purity check): gateway._source_of_function / _find_non_builtin_globals on the level of name sets.
   A function is described by what the compiler knows about it:
     names    -- the identifiers of all ast.Name nodes in its source (any nesting depth),
     varnames -- co_varnames of its code object,
     gloads   -- the names its code object and all nested code objects look up in the global namespace,
     first    -- its first positional parameter, has_closure, is_lambda,
     module_names -- the names bound in the defining module (function.__globals__), dunder names excluded. *)
From Coq Require Import List Bool String.
Import ListNotations.
Open Scope string_scope.

Record fn := {
  names : list string; varnames : list string; gloads : list string;
  first : option string; has_closure : bool; is_lambda : bool;
  module_names : list string;
  global_decls : list string      (* names listed in `global` statements at any nesting depth *)
}.
Definition mem (x : string) (l : list string) : bool := existsb (String.eqb x) l.

Record pcfg := {
  shadow_checked : bool;       (* a module-level name that shadows a builtin counts as a non-builtin global *)
  global_stmt_checked : bool;  (* every name of a `global` statement counts as a non-builtin global *)
  gloads_checked : bool        (* every name the compiled code (any nesting depth) looks up globally -- read off the code objects with
                                  dis -- must be an unshadowed builtin *)
}.

Definition name_ok (c : pcfg) (builtins : list string) (f : fn) (n : string) : bool :=
  mem n (varnames f) || (mem n builtins && (negb (shadow_checked c) || negb (mem n (module_names f)))).
Definition gname_ok (c : pcfg) (builtins : list string) (f : fn) (n : string) : bool :=
  mem n builtins && (negb (shadow_checked c) || negb (mem n (module_names f))).
Definition accept (c : pcfg) (builtins : list string) (f : fn) : bool :=
  negb (is_lambda f) && (match first f with Some a => String.eqb a "channel" | None => false end) &&
  negb (has_closure f) && forallb (name_ok c builtins f) (names f) &&
  (negb (global_stmt_checked c) || match global_decls f with [] => true | _ => false end) &&
  (negb (gloads_checked c) || forallb (gname_ok c builtins f) (gloads f)).

(* line numbers: the shipped text is (firstlineno - 1) newlines followed by the source *)
Definition shipped_line (firstlineno k : nat) : nat := (firstlineno - 1) + k.   (* line of the k-th source line, k >= 1 *)
