(* Model of RSync (rsync.py: RSync.send / _send_directory_structure / _send_item / _send_link_structure;
   rsync_remote.py: serve_rsync) as the function it computes on ONE target tree:
   what the receiver's decision table, the content phase and the link phase leave at the target, and
   which files' content is transferred.  Names are numbers, file content a byte list, modes the
   permission bits, mtimes abstract values compared by equality (as the code compares st_mtime).
   No proofs here. *)
From Coq Require Import ZArith List Bool Arith.
Import ListNotations.
Open Scope Z_scope.

Inductive comp := Up | Nm (n : nat).
(* the text of a symlink in the source tree *)
Inductive ltarget :=
| LRel (p : list comp)        (* relative text: components, '..' = Up *)
| LAbsIn (p : list nat)       (* absolute: <sourcedir>/p  (p = [] is the source dir itself) *)
| LAbsOut (k : nat).          (* absolute, outside the source dir *)
(* the text of a symlink anywhere: as in the source, or <destdir>/p *)
Inductive rtarget := RText (t : ltarget) | RDest (p : list nat).

Inductive node :=
| File (c : list Z) (mode mtime : Z)
| Dir (mode : Z) (es : list (nat * node))
| Link (t : rtarget).

Record scfg := {
  file_mode_exact : bool;     (* mode-only difference on a file: chmod(path, mode)  (false: mode | 0o700, the pinned tree) *)
  rel_links_asis : bool       (* relative link texts are sent unchanged  (false: os.path.relpath on them, cwd dependent) *)
}.

Fixpoint lookup (n : nat) (es : list (nat * node)) : option node :=
  match es with [] => None | (m, x) :: r => if Nat.eqb m n then Some x else lookup n r end.
Definition names (es : list (nat * node)) : list nat := map fst es.
Definition has (n : nat) (l : list nat) : bool := existsb (Nat.eqb n) l.

(* lexical normalisation of <sourcedir>/c/p : Some components below the source dir, None = escaped *)
Fixpoint norm (stack : list nat) (p : list comp) : option (list nat) :=
  match p with
  | [] => Some (rev stack)
  | Nm n :: r => norm (n :: stack) r
  | Up :: r => match stack with [] => None | _ :: s => norm s r end
  end.

Section Sync.
Variable cf : scfg.
Variable H : list Z -> list Z.            (* md5 *)
Variable delete : bool.
Variable cwd : option (list nat).         (* the caller's working directory: <sourcedir>/c, or elsewhere *)

(* RSync._send_link_structure + the receiver's link loop *)
Definition classify (t : ltarget) : rtarget :=
  match t with
  | LAbsOut _ => RText t
  | LAbsIn [] => RText t
  | LAbsIn p => RDest p
  | LRel p =>
      if rel_links_asis cf then RText t
      else match cwd with
           | None => RText t
           | Some c => match norm (rev c) p with
                       | Some (x :: q) => RDest (x :: q)
                       | _ => RText t
                       end
           end
  end.

(* the receiver's decision for a regular-file message + the content phase; bool = content transferred *)
Definition sync_file (c : list Z) (mode mtime : Z) (tgt : option node) : node * bool :=
  match tgt with
  | Some (File tc tmode tmtime) =>
      if negb (Nat.eqb (length c) (length tc)) then (File c mode mtime, true)
      else if negb (mtime =? tmtime) then
        (if list_eq_dec Z.eq_dec (H c) (H tc) then (File tc mode mtime, false) else (File c mode mtime, true))
      else if negb (mode =? tmode) then (File tc (if file_mode_exact cf then mode else Z.lor mode 448) tmtime, false)
      else (File tc tmode tmtime, false)
  | _ => (File c mode mtime, true)
  end.

Fixpoint sync (rp : list nat) (src : node) (tgt : option node) {struct src} : node * list (list nat) :=
  match src with
  | File c m t => let '(r, tr) := sync_file c m t tgt in (r, if tr then [rev rp] else [])
  | Link (RText t) => (Link (classify t), [])
  | Link (RDest p) => (Link (RDest p), [])
  | Dir m es =>
      let tes := match tgt with Some (Dir _ tes) => tes | _ => [] end in
      let fix go (es : list (nat * node)) : list (nat * node) * list (list nat) :=
        match es with
        | [] => ([], [])
        | (n, s) :: r => let '(x, t1) := sync (n :: rp) s (lookup n tes) in
                         let '(xs, t2) := go r in ((n, x) :: xs, t1 ++ t2)
        end in
      let '(synced, trs) := go es in
      let others := filter (fun e => negb (has (fst e) (names es))) tes in
      (Dir (Z.lor m 448) (synced ++ (if delete then [] else others)), trs)
  end.
End Sync.

(* the same list function, named, for the proofs *)
Fixpoint sync_entries (cf : scfg) (H : list Z -> list Z) (delete : bool) (cwd : option (list nat)) (rp : list nat) (tes : list (nat * node)) (es : list (nat * node))
  : list (nat * node) * list (list nat) :=
  match es with
  | [] => ([], [])
  | (n, s) :: r => let '(x, t1) := sync cf H delete cwd (n :: rp) s (lookup n tes) in
                   let '(xs, t2) := sync_entries cf H delete cwd rp tes r in ((n, x) :: xs, t1 ++ t2)
  end.
