(* The RSync exchange message by message (rsync.py: _send_directory_structure / _send_directory / _send_item;
   rsync_remote.py: receive_directory_structure, the modifiedfiles loop), for one target:
     sender   : the source tree as a pre-order list of structure messages; answers to "send" requests by PATH;
     receiver : consumes the messages while walking its own tree, emits requests (path + optional checksum),
                then applies the answers in request order.
   proofs/RSyncProtoP.v shows that the exchange computes exactly RSync.sync (files and directories; links are
   announced by a marker message here and created in the separate link phase, which RSync.sync models directly). *)
From Coq Require Import ZArith List Bool Arith.
Import ListNotations.
Require Import EV.model.RSync.
Open Scope Z_scope.

Inductive smsg :=
| MDir (mode : Z) (nms : list nat)        (* [mode, *names] *)
| MFile (mode mtime : Z) (size : nat)     (* (st_mode, st_mtime, st_size) *)
| MLink.                                  (* None: a symlink, handled in the link phase *)

(* RSync._send_directory_structure: pre-order *)
Fixpoint structure (x : node) : list smsg :=
  match x with
  | File c m t => [MFile m t (length c)]
  | Link _ => [MLink]
  | Dir m es => MDir m (names es) :: (fix go (es : list (nat * node)) : list smsg :=
                                        match es with [] => [] | e :: r => structure (snd e) ++ go r end) es
  end.
Fixpoint structure_entries (es : list (nat * node)) : list smsg :=
  match es with [] => [] | e :: r => structure (snd e) ++ structure_entries r end.

(* the source file a request names: RSync._send_item opens os.path.join(sourcedir, *relcomponents) *)
Fixpoint get (x : node) (path : list nat) : option node :=
  match path with
  | [] => Some x
  | n :: r => match x with Dir _ es => match lookup n es with Some y => get y r | None => None end | _ => None end
  end.

Record request := { rpath : list nat; rsum : option (list Z); rmode : Z; rmtime : Z }.

Section Proto.
Variable cf : scfg.
Variable H : list Z -> list Z.
Variable delete : bool.

(* what the structure phase leaves at a path, and what it asks for.  A requested file keeps whatever content the target
   had (None: nothing there yet) until the content phase. *)
Inductive pnode :=
| PFile (old : option (list Z)) (mode mtime : Z) (requested : bool)
| PDir (mode : Z) (es : list (nat * pnode)) (others : list (nat * node))
| PLink
| PKeep (x : node).          (* an up-to-date file left as it is *)

(* receive_directory_structure for one message *)
Definition recv_file (m t : Z) (size : nat) (tgt : option node) (rp : list nat) : pnode * list request :=
  match tgt with
  | Some (File tc tm tmt) =>
      if negb (Nat.eqb size (length tc)) then (PFile (Some tc) m t true, [{| rpath := rev rp; rsum := None; rmode := m; rmtime := t |}])
      else if negb (t =? tmt) then (PFile (Some tc) m t true, [{| rpath := rev rp; rsum := Some (H tc); rmode := m; rmtime := t |}])
      else if negb (m =? tm) then (PKeep (File tc (if file_mode_exact cf then m else Z.lor m 448) tmt), [])
      else (PKeep (File tc tm tmt), [])
  | _ => (PFile None m t true, [{| rpath := rev rp; rsum := None; rmode := m; rmtime := t |}])
  end.

Fixpoint recv (fuel : nat) (msgs : list smsg) (tgt : option node) (rp : list nat) : option (pnode * list request * list smsg) :=
  match fuel with O => None | S f =>
  match msgs with
  | [] => None
  | MLink :: r => Some (PLink, [], r)
  | MFile m t size :: r => let '(p, q) := recv_file m t size tgt rp in Some (p, q, r)
  | MDir m nms :: r =>
      let tes := match tgt with Some (Dir _ tes) => tes | _ => [] end in
      let res :=
        (fix go (nms : list nat) (r : list smsg) : option (list (nat * pnode) * list request * list smsg) :=
           match nms with
           | [] => Some ([], [], r)
           | n :: rest =>
               match recv f r (lookup n tes) (n :: rp) with
               | None => None
               | Some (p, q1, r1) =>
                   match go rest r1 with
                   | None => None
                   | Some (ps, q2, r2) => Some ((n, p) :: ps, q1 ++ q2, r2)
                   end
               end
           end) nms r in
      match res with
      | None => None
      | Some (ps, q, r') => Some (PDir (Z.lor m 448) ps (if delete then [] else filter (fun e => negb (has (fst e) nms)) tes), q, r')
      end
  end end.

(* the same loop over the names of a directory, named *)
Fixpoint recv_names (fuel : nat) (tes : list (nat * node)) (rp : list nat) (nms : list nat) (r : list smsg)
  : option (list (nat * pnode) * list request * list smsg) :=
  match nms with
  | [] => Some ([], [], r)
  | n :: rest =>
      match recv fuel r (lookup n tes) (n :: rp) with
      | None => None
      | Some (p, q1, r1) =>
          match recv_names fuel tes rp rest r1 with
          | None => None
          | Some (ps, q2, r2) => Some ((n, p) :: ps, q1 ++ q2, r2)
          end
      end
  end.

(* RSync._send_item: the answer to a request -- None when the checksum matches (or the file is gone) *)
Definition answer (src : node) (q : request) : option (list Z) :=
  match get src (rpath q) with
  | Some (File c _ _) => match rsum q with Some h => if list_eq_dec Z.eq_dec h (H c) then None else Some c | None => Some c end
  | _ => None
  end.

(* RSync._send_link_structure appends (kind, path, text) to _links in the same walk; the receiver's link loop creates each
   link at its PATH *)
Variable cwd : option (list nat).
Fixpoint links_of (x : node) (rp : list nat) : list (list nat * rtarget) :=
  match x with
  | File _ _ _ => []
  | Link (RText t) => [(rev rp, classify cf cwd t)]
  | Link (RDest p) => [(rev rp, RDest p)]
  | Dir _ es => (fix go (es : list (nat * node)) : list (list nat * rtarget) :=
                   match es with [] => [] | e :: r => links_of (snd e) (fst e :: rp) ++ go r end) es
  end.
Fixpoint links_entries (es : list (nat * node)) (rp : list nat) : list (list nat * rtarget) :=
  match es with [] => [] | e :: r => links_of (snd e) (fst e :: rp) ++ links_entries r rp end.
Fixpoint find_link (path : list nat) (ls : list (list nat * rtarget)) : option rtarget :=
  match ls with [] => None | (p, t) :: r => if list_eq_dec Nat.eq_dec p path then Some t else find_link path r end.

(* content phase + link phase: answers arrive in request order (one per requested file); links are looked up by path *)
Fixpoint finish (ls : list (list nat * rtarget)) (rp : list nat) (p : pnode) (answers : list (option (list Z))) : node * list (option (list Z)) :=
  match p with
  | PKeep x => (x, answers)
  | PLink => (Link (match find_link (rev rp) ls with Some t => t | None => RDest [] end), answers)
  | PFile old m t _ =>
      match answers with
      | Some c :: r => (File c m t, r)
      | None :: r => (File (match old with Some c => c | None => [] end) m t, r)
      | [] => (File [] m t, [])
      end
  | PDir m es others =>
      let '(xs, r) := (fix go (es : list (nat * pnode)) (a : list (option (list Z))) : list (nat * node) * list (option (list Z)) :=
                         match es with
                         | [] => ([], a)
                         | e :: rest => let '(x, a1) := finish ls (fst e :: rp) (snd e) a in let '(xs, a2) := go rest a1 in ((fst e, x) :: xs, a2)
                         end) es answers in
      (Dir m (xs ++ others), r)
  end.
Fixpoint finish_entries (ls : list (list nat * rtarget)) (rp : list nat) (es : list (nat * pnode)) (a : list (option (list Z)))
  : list (nat * node) * list (option (list Z)) :=
  match es with
  | [] => ([], a)
  | e :: rest => let '(x, a1) := finish ls (fst e :: rp) (snd e) a in let '(xs, a2) := finish_entries ls rp rest a1 in ((fst e, x) :: xs, a2)
  end.

(* the whole exchange for one target *)
Definition exchange (src : node) (tgt : option node) : option (node * list (list nat)) :=
  let msgs := structure src in
  match recv (S (length msgs)) msgs tgt [] with
  | Some (plan, reqs, []) =>
      let answers := map (answer src) reqs in
      let '(res, _) := finish (links_of src []) [] plan answers in
      Some (res, map rpath (filter (fun q => match answer src q with Some _ => true | None => false end) reqs))
  | _ => None
  end.
End Proto.
