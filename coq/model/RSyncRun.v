(* executable entry point of the RSync model: trees as integer lists *)
From Coq Require Import ZArith List Bool Arith.
Import ListNotations.
Require Import EV.model.RSync EV.model.RSyncProto.
Open Scope Z_scope.

Fixpoint take {A} (n : nat) (l : list A) : option (list A * list A) :=
  match n with O => Some ([], l) | S k => match l with [] => None | x :: r => match take k r with Some (a, b) => Some (x :: a, b) | None => None end end end.

Fixpoint parse_node (fuel : nat) (l : list Z) : option (node * list Z) :=
  match fuel with O => None | S f =>
  match l with
  | 0 :: mode :: mtime :: len :: r => match take (Z.to_nat len) r with Some (c, r') => Some (File c mode mtime, r') | None => None end
  | 1 :: mode :: n :: r =>
      (fix ents (k : nat) (r : list Z) (acc : list (nat * node)) : option (node * list Z) :=
         match k with
         | O => Some (Dir mode (rev acc), r)
         | S k' => match r with
                   | nm :: r1 => match parse_node f r1 with Some (x, r2) => ents k' r2 ((Z.to_nat nm, x) :: acc) | None => None end
                   | [] => None
                   end
         end) (Z.to_nat n) r []
  | 2 :: kind :: k :: r =>
      match kind with
      | 2 => Some (Link (RText (LAbsOut (Z.to_nat k))), r)
      | _ => match take (Z.to_nat k) r with
             | Some (p, r') =>
                 Some (Link (match kind with
                             | 0 => RText (LRel (map (fun z => if z <? 0 then Up else Nm (Z.to_nat z)) p))
                             | 1 => RText (LAbsIn (map Z.to_nat p))
                             | _ => RDest (map Z.to_nat p)
                             end), r')
             | None => None
             end
      end
  | _ => None
  end end.

Definition enc_names (p : list nat) : list Z := Z.of_nat (length p) :: map Z.of_nat p.
Fixpoint enc_node (x : node) : list Z :=
  match x with
  | File c m t => 0 :: m :: t :: Z.of_nat (length c) :: c
  | Dir m es => 1 :: m :: Z.of_nat (length es) :: flat_map (fun e => Z.of_nat (fst e) :: enc_node (snd e)) es
  | Link (RText (LRel p)) => 2 :: 0 :: Z.of_nat (length p) :: map (fun c => match c with Up => -1 | Nm n => Z.of_nat n end) p
  | Link (RText (LAbsIn p)) => 2 :: 1 :: enc_names p
  | Link (RText (LAbsOut k)) => 2 :: 2 :: [Z.of_nat k]
  | Link (RDest p) => 2 :: 3 :: enc_names p
  end.

(* input: file_mode_exact rel_links_asis delete cwd(-1 | k names) src has_tgt [tgt] *)
Definition run_rsync (inp : list Z) : list Z :=
  match inp with
  | fme :: rla :: del :: r =>
      let cf := {| file_mode_exact := negb (fme =? 0); rel_links_asis := negb (rla =? 0) |} in
      let pc := match r with
                | -1 :: r' => Some (None, r')
                | k :: r' => match take (Z.to_nat k) r' with Some (c, r'') => Some (Some (map Z.to_nat c), r'') | None => None end
                | [] => None
                end in
      match pc with
      | Some (cwd, r1) =>
          match parse_node (length r1) r1 with
          | Some (src, has :: r2) =>
              let tgt := if has =? 0 then Some None else match parse_node (length r2) r2 with Some (t, _) => Some (Some t) | None => None end in
              match tgt with
              | Some tg =>
                  (* the message-level exchange (proved equal to RSync.sync for well-formed sources: exchange_is_sync) *)
                  match exchange cf (fun c => c) (negb (del =? 0)) cwd src tg with
                  | Some (res, trs) => enc_node res ++ [Z.of_nat (length trs)] ++ flat_map enc_names trs
                  | None => [-995]
                  end
              | None => [-997]
              end
          | _ => [-998]
          end
      | None => [-996]
      end
  | _ => [-999]
  end.
