(* One channel id on the side that RECEIVES a per-channel RECONFIGURE (Channel.reconfigure() on the peer).
   What that side keeps for an id: the live Channel object (weak table _channels) with its own string
   coercion and with or without an item queue, the callback registration (_callbacks: strconfig captured),
   and -- since the repair f2c0a30 -- a remembered setting for an id without object and callback.
   Operations: the RECONFIGURE message, the channel arriving inside an item (load_channel -> new(id), the
   user keeps the object), the user dropping the object (__del__ tells the peer), setcallback, the gateway
   wide RECONFIGURE, a data item (which coercion is applied, or that it is dropped).
   handler_creates_object = the pinned handler `factory.new(id)._strconfig = strconfig`. *)
From Coq Require Import List Bool.
Import ListNotations.

Definition strcfg := (bool * bool)%type.
Inductive emit := ECLOSE | ELAST.                       (* CHANNEL_CLOSE / CHANNEL_LAST_MESSAGE sent to the peer *)
Inductive used := Dropped | ToQueue (c : strcfg) | ToCallback (c : strcfg).

Record rstate := {
  alive : bool;                (* a Channel object for the id exists *)
  obj_cfg : strcfg;            (* its _strconfig *)
  obj_queue : bool;            (* its _items is a queue (false after setcallback on THIS object) *)
  cb : option strcfg;          (* _callbacks[id] = (callback, endmarker, strconfig) *)
  pending : option strcfg;     (* _strconfigs[id] *)
  gw_cfg : strcfg;             (* gateway._strconfig: what a new Channel object starts with *)
}.

Inductive rop := RReconf (c : strcfg) | RArrive | RDrop | RSetcb | RGwReconf (c : strcfg) | RData.

Definition rinit (g : strcfg) : rstate :=
  {| alive := false; obj_cfg := g; obj_queue := true; cb := None; pending := None; gw_cfg := g |}.

(* ChannelFactory.new(id): a new object starts with the remembered setting, else with the setting of the callback
   registration the channel lives on through, else with the gateway's; the object of a channel that has a callback has no queue
   (items keep going to the callback; dropping it says LAST_MESSAGE, not CLOSE) *)
Definition r_new (s : rstate) : rstate :=
  if alive s then s
  else {| alive := true; obj_cfg := match pending s with Some c => c | None => match cb s with Some c => c | None => gw_cfg s end end;
          obj_queue := match cb s with Some _ => false | None => true end;
          cb := cb s; pending := None; gw_cfg := gw_cfg s |}.

(* Channel.__del__ of an open channel: LAST_MESSAGE when the object has a callback (no queue), else CLOSE *)
Definition r_drop (s : rstate) : rstate * list emit :=
  if alive s then
    ({| alive := false; obj_cfg := obj_cfg s; obj_queue := true; cb := cb s; pending := pending s; gw_cfg := gw_cfg s |},
     [if obj_queue s then ECLOSE else ELAST])
  else (s, []).

Definition set_obj_cfg (s : rstate) (c : strcfg) : rstate :=
  {| alive := alive s; obj_cfg := c; obj_queue := obj_queue s; cb := cb s; pending := pending s; gw_cfg := gw_cfg s |}.

Definition r_reconf (handler_creates_object : bool) (s : rstate) (c : strcfg) : rstate * list emit :=
  if handler_creates_object then
    (* new(id)._strconfig = c ; the temporary reference is let go again *)
    let was := alive s in
    let s1 := set_obj_cfg (r_new s) c in
    if was then (s1, []) else r_drop s1
  else
    let s1 := if alive s then set_obj_cfg s c else s in
    let s2 := match cb s1 with
              | Some _ => {| alive := alive s1; obj_cfg := obj_cfg s1; obj_queue := obj_queue s1; cb := Some c; pending := pending s1; gw_cfg := gw_cfg s1 |}
              | None => s1 end in
    let s3 := if negb (alive s) && (match cb s with None => true | Some _ => false end)
              then {| alive := alive s2; obj_cfg := obj_cfg s2; obj_queue := obj_queue s2; cb := cb s2; pending := Some c; gw_cfg := gw_cfg s2 |}
              else s2 in
    (s3, []).

Definition r_data (s : rstate) : used :=
  match cb s with
  | Some c => ToCallback (if alive s then obj_cfg s else c)
  | None => if alive s && obj_queue s then ToQueue (obj_cfg s) else Dropped
  end.

Definition rstep (h : bool) (s : rstate) (o : rop) : rstate * list emit * option used :=
  match o with
  | RReconf c => let '(s', e) := r_reconf h s c in (s', e, None)
  | RArrive => (r_new s, [], None)
  | RDrop => let '(s', e) := r_drop s in (s', e, None)
  | RSetcb =>
      if alive s && obj_queue s
      then ({| alive := true; obj_cfg := obj_cfg s; obj_queue := false; cb := Some (obj_cfg s); pending := pending s; gw_cfg := gw_cfg s |}, [], None)
      else (s, [], None)
  | RGwReconf c => ({| alive := alive s; obj_cfg := obj_cfg s; obj_queue := obj_queue s; cb := cb s; pending := pending s; gw_cfg := c |}, [], None)
  | RData => (s, [], Some (r_data s))
  end.

Fixpoint rrun (h : bool) (s : rstate) (ops : list rop) : rstate * list (list emit * option used) :=
  match ops with
  | [] => (s, [])
  | o :: r => let '(s', e, u) := rstep h s o in let '(s'', t) := rrun h s' r in (s'', (e, u) :: t)
  end.
