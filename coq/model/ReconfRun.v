(* executable entry point of the Reconf model: g_a g_b then ops; per op four numbers [emission; use; a; b] *)
From Coq Require Import ZArith List Bool.
Import ListNotations.
Require Import EV.model.Reconf.
Open Scope Z_scope.

Definition zb (z : Z) : bool := negb (z =? 0).
Definition bz (b : bool) : Z := if b then 1 else 0.

Fixpoint get_rops (fuel : nat) (l : list Z) : list rop :=
  match fuel with
  | O => []
  | S f =>
    match l with
    | 0 :: a :: b :: r => RReconf (zb a, zb b) :: get_rops f r
    | 1 :: r => RArrive :: get_rops f r
    | 2 :: r => RDrop :: get_rops f r
    | 3 :: r => RSetcb :: get_rops f r
    | 4 :: a :: b :: r => RGwReconf (zb a, zb b) :: get_rops f r
    | 5 :: r => RData :: get_rops f r
    | _ => []
    end
  end.

Definition put_res (r : list emit * option used) : list Z :=
  (match fst r with [] => 0 | ECLOSE :: _ => 1 | ELAST :: _ => 2 end) ::
  match snd r with
  | None => [0; 0; 0]
  | Some Dropped => [1; 0; 0]
  | Some (ToQueue (a, b)) => [2; bz a; bz b]
  | Some (ToCallback (a, b)) => [3; bz a; bz b]
  end.

Definition run_reconf (h : bool) (inp : list Z) : list Z :=
  match inp with
  | a :: b :: r => concat (map put_res (snd (rrun h (rinit (zb a, zb b)) (get_rops (length r) r))))
  | _ => [-1]
  end.
