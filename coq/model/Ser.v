(* Model of _Serializer (gateway_base.py): save / dumps. No proofs here. *)
From Coq Require Import ZArith List Bool.
Import ListNotations.
Require Import EV.model.Value EV.model.Frame EV.model.CodecSpec EV.model.Utf8 EV.model.Decimal.
Open Scope Z_scope.

(* struct.pack("!d", f): 8 bytes big-endian of the bit pattern *)
Definition be64 (u : Z) : bytes := be32 (u / 4294967296) ++ be32 (u mod 4294967296).
Definition de64 (b : bytes) : Z := de32 (firstn 4 b) * 4294967296 + de32 (skipn 4 b).

(* _write_int4(i): DumpError above the maximum; struct.pack("!i") below the minimum is a struct.error *)
Definition write_int4 (i : Z) : res bytes :=
  if INT_MAX <? i then Err DumpError else if i <? INT_MIN then Err StructError else Ok (enc_i32 i).
Definition write_len (n : nat) : res bytes := write_int4 (Z.of_nat n).
Definition write_bseq (b : bytes) : res bytes := bind (write_len (length b)) (fun h => Ok (h ++ b)).

(* _save_integral; lo_checked = the short branch also tests the lower bound (fact from the source) *)
Definition save_int (lo_checked : bool) (i : Z) : res bytes :=
  if (i <=? INT_MAX) && (negb lo_checked || (INT_MIN <=? i))
  then bind (write_int4 i) (fun b => Ok (OP_INT :: b))
  else bind (write_bseq (to_dec i)) (fun b => Ok (OP_LONGINT :: b)).

Fixpoint with_index {A} (i : Z) (l : list A) : list (Z * A) :=
  match l with [] => [] | x :: r => (i, x) :: with_index (i + 1) r end.

Fixpoint save (lo : bool) (v : value) : res bytes :=
  match v with
  | VNone => Ok [OP_NONE]
  | VBool b => Ok [if b then OP_TRUE else OP_FALSE]
  | VInt z => save_int lo z
  | VFloat f => Ok (OP_FLOAT :: be64 f)
  | VComplex re im => Ok (OP_COMPLEX :: be64 re ++ be64 im)
  | VBytes b => bind (write_bseq b) (fun x => Ok (OP_BYTES :: x))
  | VStr cps => match utf8_enc cps with
                | None => Err DumpError
                | Some b => bind (write_bseq b) (fun x => Ok (OP_PY3STRING :: x))
                end
  | VList l =>
      bind (write_len (length l)) (fun h =>
      bind (sequence (map (save lo) l)) (fun bl =>
      bind (sequence (map (fun '(i, b) => bind (save_int lo i) (fun bi => Ok (bi ++ b ++ [OP_SETITEM]))) (with_index 0 bl))) (fun items =>
      Ok (OP_NEWLIST :: h ++ concat items))))
  | VDict d =>
      bind (sequence (map (fun '(k, x) => bind (save lo k) (fun bk => bind (save lo x) (fun bx => Ok (bk ++ bx ++ [OP_SETITEM])))) d)) (fun items =>
      Ok (OP_NEWDICT :: concat items))
  | VTuple l =>
      bind (sequence (map (save lo) l)) (fun bl =>
      bind (write_len (length l)) (fun h => Ok (concat bl ++ OP_BUILDTUPLE :: h)))
  | VSet l =>
      bind (sequence (map (save lo) l)) (fun bl =>
      bind (write_len (length l)) (fun h => Ok (concat bl ++ OP_SET :: h)))
  | VFrozenset l =>
      bind (sequence (map (save lo) l)) (fun bl =>
      bind (write_len (length l)) (fun h => Ok (concat bl ++ OP_FROZENSET :: h)))
  | VChannel id => bind (write_int4 id) (fun b => Ok (OP_CHANNEL :: b))
  | VOther _ => Err DumpError
  end.

(* dumps(obj) / dumps_internal(obj) *)
Definition dumps (lo : bool) (v : value) : res bytes := bind (save lo v) (fun b => Ok (VERSION :: b ++ [OP_STOP])).
Definition dumps_internal (lo : bool) (v : value) : res bytes := bind (save lo v) (fun b => Ok (b ++ [OP_STOP])).
