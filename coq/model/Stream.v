(* dump(stream, obj) / load(stream): several records in one byte stream.
   dump appends the record's bytes to the stream; load reads ONE record starting at the stream
   position -- version byte, opcodes up to and including STOP -- and leaves the position right
   behind that STOP (Unserializer.load reads one opcode at a time, loaders read exactly their payload). *)
From Coq Require Import ZArith List Bool.
Import ListNotations.
Require Import EV.model.Value EV.model.Frame EV.model.Ser EV.model.Unser.
Open Scope Z_scope.

Section Stream.
Variable ma : Z. Variable sc : strconfig.

(* n successive load(stream) calls: the values and what is left in the stream *)
Fixpoint load_stream (n : nat) (bs : bytes) : res (list value * bytes) :=
  match n with
  | O => Ok ([], bs)
  | S k => match loads_r ma sc bs with
           | Ok (v, r) => match load_stream k r with Ok (vs, r') => Ok (v :: vs, r') | Err e => Err e end
           | Err e => Err e
           end
  end.

(* successive dump(stream, v) calls *)
Fixpoint dump_stream (lo : bool) (vs : list value) : res bytes :=
  match vs with
  | [] => Ok []
  | v :: t => match dumps lo v with
              | Ok b => match dump_stream lo t with Ok bt => Ok (b ++ bt) | Err e => Err e end
              | Err e => Err e
              end
  end.
End Stream.
