(* Termination: (1) multi.safe_terminate / Group.terminate timing and rounds (C05);
                (2) the worker's escalation ladder after its initiator is gone (C11).
   Time is in ticks (nat); `None` = never. *)
From Coq Require Import List Bool Arith.
Import ListNotations.

Definition otime := option nat.

(* ---------- (1) safe_terminate(timeout = T, pairs) ---------- *)
(* per member: d = when join_wait (receiver thread joined + process waited for) completes if nobody kills,
               k = how long the kill function takes (None: it hangs) *)
Record member := { d : otime; k : otime }.

Definition leb_o (a : otime) (T : nat) : bool := match a with Some x => x <=? T | None => false end.
Definition killed (T : nat) (m : member) : bool := negb (leb_o (d m) T).
(* when the termkill thread of a member is done: termfunc finished within T, or T + kill duration *)
Definition termkill_done (T : nat) (m : member) : otime :=
  if leb_o (d m) T then d m else match k m with Some x => Some (T + x) | None => None end.
(* when the termfunc thread itself is done: by itself, or because the kill made the process go away (A-kill) *)
Definition termfunc_done (T : nat) (m : member) : otime :=
  if leb_o (d m) T then d m else match k m with Some x => Some (T + x) | None => d m end.

(* reply.waitfinish(timeout = w) started at time t on something that completes at f *)
Definition wait_until (t : nat) (f : otime) (w : nat) : nat :=
  match f with
  | Some x => if x <=? t then t else if x <=? t + w then x else t + w
  | None => t + w
  end.
Fixpoint omax (l : list otime) : otime :=
  match l with
  | [] => Some 0
  | None :: _ => None
  | Some x :: r => match omax r with Some y => Some (Nat.max x y) | None => None end
  end.
(* the sequential waitfinish(2T) calls, then waitall(2T) on everything *)
Definition safe_terminate_returns (T : nat) (ms : list member) : nat :=
  let t := fold_left (fun t m => wait_until t (termkill_done T m) (2 * T)) ms 0 in
  wait_until t (omax (map (termkill_done T) ms ++ map (termfunc_done T) ms)) (2 * T).

(* ---------- Group.terminate: rounds over the via forest ---------- *)
(* gateways in creation order; via = index of an EARLIER gateway *)
Record gwnode := { gid : nat; via : option nat }.
Definition is_via (g : list gwnode) (i : nat) : bool := existsb (fun x => match via x with Some j => Nat.eqb j i | None => false end) g.
(* one pass of the while loop: every gateway that is nobody's via exits (and is joined); the others stay *)
Definition round (g : list gwnode) : list gwnode := filter (fun x => is_via g (gid x)) g.
Fixpoint rounds (fuel : nat) (g : list gwnode) : nat :=
  match fuel with O => 0 | S f => match g with [] => 0 | _ => S (rounds f (round g)) end end.

(* the whole loop with the list Group._gateways_to_join: gateways that were exit()ed (by terminate itself or by the user before)
   and are still to be joined / killed -- through their via gateway, if they have one.
   joins_pending = the loop also runs while only such gateways are left;
   vias_count_tojoin = a gateway through which a still-to-be-joined gateway is routed counts as a via (is not exited yet). *)
Record tcfg := { joins_pending : bool; vias_count_tojoin : bool }.
Record gstate := { members : list gwnode; tojoin : list gwnode; joined : list nat }.
Definition via_pool (c : tcfg) (s : gstate) : list gwnode := if vias_count_tojoin c then members s ++ tojoin s else members s.
Definition exiting (c : tcfg) (s : gstate) : list gwnode := filter (fun x => negb (is_via (via_pool c s) (gid x))) (members s).
Definition staying (c : tcfg) (s : gstate) : list gwnode := filter (fun x => is_via (via_pool c s) (gid x)) (members s).
Definition tpass (c : tcfg) (s : gstate) : gstate :=
  {| members := staying c s; tojoin := []; joined := joined s ++ map gid (tojoin s) ++ map gid (exiting c s) |}.
Fixpoint terminate_loop (c : tcfg) (fuel : nat) (s : gstate) : gstate :=
  match fuel with
  | O => s
  | S f => match members s, (if joins_pending c then tojoin s else []) with
           | [], [] => s
           | _, _ => terminate_loop c f (tpass c s)
           end
  end.

(* ---------- (2) the worker after EOF (WorkerGateway._terminate_execution, serve) ---------- *)
Inductive reaction := Unwinds | Swallows.
Record task := { ends : otime; in_main : bool; on_int : reaction }.
Record ladder := { t1 : nat; t2 : nat }.          (* waitall(5.0), waitall(10.0) *)

Definition all_done_by (ts : list task) (T : nat) : bool := forallb (fun x => leb_o (ends x) T) ts.
Definition main_task (ts : list task) : option task := find in_main ts.
(* when the worker process is gone, relative to the moment its receiver saw EOF.
   At t1 the receiver sends SIGINT; KeyboardInterrupt is raised in the main thread:
     - main thread idle in serve() (waiting for a task or joining the receiver): serve() ends, the process exits at t1;
     - main thread inside a task that lets the interrupt unwind: the task ends at t1, but Reply.run catches the
       BaseException, so serve() goes on to join the receiver thread, which is waiting (up to t2 more) for the tasks of
       the OTHER threads;
     - main thread inside a task that swallows the interrupt: nothing changes.
   At t1 + t2 the receiver calls os._exit. *)
Definition others_done (ts : list task) : otime := omax (map ends (filter (fun x => negb (in_main x)) ts)).
Definition exit_time (l : ladder) (ts : list task) : nat :=
  if all_done_by ts (t1 l) then match omax (map ends ts) with Some x => x | None => t1 l end    (* pool drained: serve returns *)
  else match main_task ts with
       | None => t1 l
       | Some m =>
           if leb_o (ends m) (t1 l) then t1 l
           else match on_int m with
                | Unwinds => match others_done ts with
                             | Some x => if x <=? t1 l + t2 l then Nat.max (t1 l) x else t1 l + t2 l
                             | None => t1 l + t2 l
                             end
                | Swallows => if all_done_by ts (t1 l + t2 l)
                              then match omax (map ends ts) with Some x => x | None => t1 l + t2 l end
                              else t1 l + t2 l
                end
       end.
