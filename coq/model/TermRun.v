From Coq Require Import ZArith List Bool Arith.
Import ListNotations.
Require Import EV.model.Term.

Definition ot (z : Z) : otime := if (z <? 0)%Z then None else Some (Z.to_nat z).
Fixpoint parse_tasks (fuel : nat) (l : list Z) : list task :=
  match fuel with O => [] | S f =>
  match l with
  | e :: m :: r :: rest => {| ends := ot e; in_main := negb (m =? 0)%Z; on_int := if (r =? 0)%Z then Unwinds else Swallows |} :: parse_tasks f rest
  | _ => []
  end end.
(* input: t1 t2 then triples (ends | -1, in_main, swallows) *)
Definition run_ladder (inp : list Z) : list Z :=
  match inp with
  | a :: b :: r => [Z.of_nat (exit_time {| t1 := Z.to_nat a; t2 := Z.to_nat b |} (parse_tasks (length r) r))]
  | _ => [(-999)%Z]
  end.
Fixpoint parse_members (fuel : nat) (l : list Z) : list member :=
  match fuel with O => [] | S f =>
  match l with
  | a :: b :: rest => {| d := ot a; k := ot b |} :: parse_members f rest
  | _ => []
  end end.
(* input: T then pairs (d | -1, k | -1); output: return time, kill flags *)
Definition run_safe_terminate (inp : list Z) : list Z :=
  match inp with
  | T :: r => let ms := parse_members (length r) r in
              Z.of_nat (safe_terminate_returns (Z.to_nat T) ms) :: map (fun m => if killed (Z.to_nat T) m then 1%Z else 0%Z) ms
  | _ => [(-999)%Z]
  end.
Fixpoint parse_forest (fuel : nat) (i : nat) (l : list Z) : list gwnode :=
  match fuel with O => [] | S f =>
  match l with
  | v :: rest => {| gid := i; via := if (v <? 0)%Z then None else Some (Z.to_nat v) |} :: parse_forest f (S i) rest
  | [] => []
  end end.
(* input: via index (or -1) per gateway in creation order; output: number of passes of the while loop *)
Definition run_rounds (inp : list Z) : list Z :=
  let g := parse_forest (length inp) 0 inp in [Z.of_nat (rounds (S (length g)) g)].

(* Group.terminate pass by pass: which gateways each pass hands to safe_terminate, in that order *)
Fixpoint terminate_trace (c : tcfg) (fuel : nat) (s : gstate) (acc : list (list nat)) : list (list nat) :=
  match fuel with
  | O => acc
  | S f => match members s, (if joins_pending c then tojoin s else []) with
           | [], [] => acc
           | _, _ => terminate_trace c f (tpass c s) (acc ++ [map gid (tojoin s) ++ map gid (exiting c s)])
           end
  end.
(* input: n, then n via indices (or -1), then n flags (1 = exit()ed by the user before terminate, in index order);
   output: number of passes, then per pass its length and the gateway indices *)
Definition run_terminate (c : tcfg) (inp : list Z) : list Z :=
  match inp with
  | n :: r =>
      let k := Z.to_nat n in
      let g := parse_forest k 0 (firstn k r) in
      let flags := map (fun z => negb (z =? 0)%Z) (firstn k (skipn k r)) in
      let tagged := combine g flags in
      let s := {| members := map fst (filter (fun p => negb (snd p)) tagged); tojoin := map fst (filter snd tagged); joined := [] |} in
      let tr := terminate_trace c (2 * k + 3) s [] in
      Z.of_nat (length tr) :: flat_map (fun p => Z.of_nat (length p) :: map Z.of_nat p) tr
  | _ => [(-999)%Z]
  end.
