(* Model of Unserializer (gateway_base.py): the opcode stack machine. No proofs here.
   Reads are exact (a short read is EOFError, a negative length LoadError) and every other
   failure of a loader is LoadError -- the facts loader_reads_exact / loader_errors_typed,
   regenerated from the source, say whether the current tree is like that. *)
From Coq Require Import ZArith List Bool.
Import ListNotations.
Require Import EV.model.Value EV.model.Frame EV.model.CodecSpec EV.model.Utf8 EV.model.Decimal EV.model.Ser.
Open Scope Z_scope.

Definition MAXALLOC := 1048576.   (* the executable instance reports [None]*n above this as MemoryDemand instead of building it *)

Record strconfig := { py2str_as_py3str : bool; py3str_as_py2str : bool }.

Definition read (n : Z) (bs : bytes) : res (bytes * bytes) :=
  if n <? 0 then Err LoadError else
  if Z.of_nat (length bs) <? n then Err EOFError else
  Ok (firstn (Z.to_nat n) bs, skipn (Z.to_nat n) bs).
Definition read_int4 (bs : bytes) : res (Z * bytes) := bind (read 4 bs) (fun '(d, r) => Ok (dec_i32 d, r)).
Definition read_bstr (bs : bytes) : res (bytes * bytes) := bind (read_int4 bs) (fun '(n, r) => read n r).

Definition stack := list value.    (* head = top *)

(* the items of stack[-n:] (bottom to top) and the stack without them, Python slice semantics *)
Definition take_slice (n : Z) (st : stack) : list value * stack :=
  let len := Z.of_nat (length st) in
  let m := if 0 <? n then Z.min n len else Z.max 0 (len + n) in   (* n<0: stack[-n:] = stack[k:], k=-n *)
  (rev (firstn (Z.to_nat m) st), skipn (Z.to_nat m) st).

Fixpoint set_nth (l : list value) (i : nat) (x : value) : list value :=
  match l, i with
  | [], _ => []
  | _ :: r, O => x :: r
  | y :: r, S j => y :: set_nth r j x
  end.

Inductive stepres := Cont (bs : bytes) (st : stack) | Stop (bs : bytes) (st : stack) | Fail (e : exn).

Definition push_str (dec : option (list Z)) (r : bytes) (st : stack) : stepres :=
  match dec with Some cps => Cont r (VStr cps :: st) | None => Fail LoadError end.

Definition setitem (st : stack) (r : bytes) : stepres :=
  match st with
  | v :: k :: tgt :: rest =>
      match tgt with
      | VList l =>
          match (match k with VInt i => Some i | VBool b => Some (if b then 1 else 0) | _ => None end) with
          | Some i =>
              let len := Z.of_nat (length l) in
              if (- len <=? i) && (i <? len)
              then Cont r (VList (set_nth l (Z.to_nat (if i <? 0 then i + len else i)) v) :: rest)
              else Fail LoadError
          | None => Fail LoadError
          end
      | VDict d => if hashable k then Cont r (VDict (dict_set d k v) :: rest) else Fail LoadError
      | _ => Fail LoadError
      end
  | _ => Fail LoadError
  end.

Definition collection (mk : list value -> option value) (bs : bytes) (st : stack) : stepres :=
  match read_int4 bs with
  | Err e => Fail e
  | Ok (n, r) =>
      let '(items, st') := if n =? 0 then ([], st) else take_slice n st in
      match mk items with Some v => Cont r (v :: st') | None => Fail LoadError end
  end.

Inductive opk := KNone | KTrue | KFalse | KInt | KLongint | KFloat | KComplex | KBytes | KPy3 | KPy2 | KUnicode
  | KNewlist | KNewdict | KSetitem | KTuple | KSet | KFrozenset | KStop | KChannel | KBad.

(* num2func: which loader an opcode byte selects (LONG and LONGLONG are aliases) *)
Definition classify (op : Z) : opk :=
  if op =? OP_NONE then KNone else
  if op =? OP_TRUE then KTrue else
  if op =? OP_FALSE then KFalse else
  if (op =? OP_INT) || (op =? OP_LONG) then KInt else
  if (op =? OP_LONGINT) || (op =? OP_LONGLONG) then KLongint else
  if op =? OP_FLOAT then KFloat else
  if op =? OP_COMPLEX then KComplex else
  if op =? OP_BYTES then KBytes else
  if op =? OP_PY3STRING then KPy3 else
  if op =? OP_PY2STRING then KPy2 else
  if op =? OP_UNICODE then KUnicode else
  if op =? OP_NEWLIST then KNewlist else
  if op =? OP_NEWDICT then KNewdict else
  if op =? OP_SETITEM then KSetitem else
  if op =? OP_BUILDTUPLE then KTuple else
  if op =? OP_SET then KSet else
  if op =? OP_FROZENSET then KFrozenset else
  if op =? OP_STOP then KStop else
  if op =? OP_CHANNEL then KChannel else KBad.

Section Alloc.
(* allocation bound of NEWLIST: the theorems hold for every bound; INT_MAX means no bound *)
Variable ma : Z.

Definition step_k (sc : strconfig) (factory : bool) (k : opk) (bs : bytes) (st : stack) : stepres :=
  match k with
  | KNone => Cont bs (VNone :: st)
  | KTrue => Cont bs (VBool true :: st)
  | KFalse => Cont bs (VBool false :: st)
  | KInt => match read_int4 bs with Ok (i, r) => Cont r (VInt i :: st) | Err e => Fail e end
  | KLongint =>
      match read_bstr bs with
      | Ok (s, r) => match pyint s with Some z => Cont r (VInt z :: st) | None => Fail LoadError end
      | Err e => Fail e end
  | KFloat => match read 8 bs with Ok (d, r) => Cont r (VFloat (de64 d) :: st) | Err e => Fail e end
  | KComplex =>
      match read 16 bs with Ok (d, r) => Cont r (VComplex (de64 (firstn 8 d)) (de64 (skipn 8 d)) :: st) | Err e => Fail e end
  | KBytes => match read_bstr bs with Ok (s, r) => Cont r (VBytes s :: st) | Err e => Fail e end
  | KPy3 =>
      match read_bstr bs with
      | Ok (s, r) => if py3str_as_py2str sc then Cont r (VBytes s :: st) else push_str (utf8_dec s) r st
      | Err e => Fail e end
  | KPy2 =>
      match read_bstr bs with
      | Ok (s, r) => if py2str_as_py3str sc then Cont r (VStr s :: st) (* latin-1 *) else Cont r (VBytes s :: st)
      | Err e => Fail e end
  | KUnicode => match read_bstr bs with Ok (s, r) => push_str (utf8_dec s) r st | Err e => Fail e end
  | KNewlist =>
      match read_int4 bs with
      | Ok (n, r) => if ma <? n then Fail MemoryDemand else Cont r (VList (repeat VNone (Z.to_nat n)) :: st)
      | Err e => Fail e end
  | KNewdict => Cont bs (VDict [] :: st)
  | KSetitem => setitem st bs
  | KTuple => collection (fun l => Some (VTuple l)) bs st
  | KSet => collection (fun l => if forallb hashable l then Some (VSet (set_of_list l)) else None) bs st
  | KFrozenset => collection (fun l => if forallb hashable l then Some (VFrozenset (set_of_list l)) else None) bs st
  | KStop => Stop bs st
  | KChannel =>
      match read_int4 bs with
      | Ok (i, r) => if factory then Cont r (VChannel i :: st) else Fail LoadError
      | Err e => Fail e end
  | KBad => Fail LoadError
  end.

Definition step (sc : strconfig) (factory : bool) (op : Z) (bs : bytes) (st : stack) : stepres :=
  step_k sc factory (classify op) bs st.

Fixpoint run (sc : strconfig) (factory : bool) (fuel : nat) (bs : bytes) (st : stack) : res (value * bytes) :=
  match fuel with
  | O => Err LoadError
  | S f =>
      match bs with
      | [] => Err EOFError
      | op :: r =>
          match step sc factory op r st with
          | Cont b s => run sc factory f b s
          | Stop b s => match s with [v] => Ok (v, b) | _ => Err LoadError end
          | Fail e => Err e
          end
      end
  end.

(* Unserializer.load(versioned=False): loads_internal *)
Definition load_internal (sc : strconfig) (factory : bool) (bs : bytes) : res (value * bytes) :=
  run sc factory (S (length bs)) bs [].
(* loads(bytestring, ...): version byte first; trailing bytes after STOP are ignored *)
Definition loads_r (sc : strconfig) (bs : bytes) : res (value * bytes) :=
  match bs with
  | v :: r => if v =? VERSION then load_internal sc false r else Err LoadError
  | [] => Err LoadError
  end.
Definition loads (sc : strconfig) (bs : bytes) : res value :=
  match loads_r sc bs with Ok (v, _) => Ok v | Err e => Err e end.
End Alloc.
