(* Model of Python's strict str.encode('utf-8') / bytes.decode('utf-8').
   Bytes and code points are Z.  No proofs here. *)
From Coq Require Import ZArith List Bool.
Import ListNotations.
Open Scope Z_scope.

Definition bytes := list Z.

(* Unicode scalar value: 0 <= c < 0x110000 and not a surrogate 0xD800..0xDFFF *)
Definition scalar (c : Z) : bool :=
  (0 <=? c) && (c <? 1114112) && negb ((55296 <=? c) && (c <=? 57343)).

Definition enc_cp (c : Z) : list Z :=
  if c <? 128 then [c]
  else if c <? 2048 then [192 + c / 64; 128 + c mod 64]
  else if c <? 65536 then [224 + c / 4096; 128 + c / 64 mod 64; 128 + c mod 64]
  else [240 + c / 262144; 128 + c / 4096 mod 64; 128 + c / 64 mod 64; 128 + c mod 64].

(* None models UnicodeEncodeError (lone surrogate / out of range) *)
Definition utf8_enc (cps : list Z) : option (list Z) :=
  if forallb scalar cps then Some (concat (map enc_cp cps)) else None.

(* continuation byte 10xxxxxx *)
Definition is_cont (b : Z) : bool := (128 <=? b) && (b <? 192).

(* STRICT decoder: rejects truncated sequences, bad continuation bytes, stray
   continuation / 0xF8.. lead bytes, overlong forms, surrogates, > 0x10FFFF.
   None models UnicodeDecodeError.  Structurally recursive on the input. *)
Fixpoint utf8_dec (bs : list Z) : option (list Z) :=
  match bs with
  | [] => Some []
  | b0 :: r0 =>
    if (0 <=? b0) && (b0 <? 128) then option_map (cons b0) (utf8_dec r0)
    else if (192 <=? b0) && (b0 <? 224) then
      match r0 with
      | b1 :: r1 =>
        let cp := (b0 - 192) * 64 + (b1 - 128) in
        if is_cont b1 && (128 <=? cp) && scalar cp
        then option_map (cons cp) (utf8_dec r1) else None
      | _ => None
      end
    else if (224 <=? b0) && (b0 <? 240) then
      match r0 with
      | b1 :: b2 :: r2 =>
        let cp := (b0 - 224) * 4096 + (b1 - 128) * 64 + (b2 - 128) in
        if is_cont b1 && is_cont b2 && (2048 <=? cp) && scalar cp
        then option_map (cons cp) (utf8_dec r2) else None
      | _ => None
      end
    else if (240 <=? b0) && (b0 <? 248) then
      match r0 with
      | b1 :: b2 :: b3 :: r3 =>
        let cp := (b0 - 240) * 262144 + (b1 - 128) * 4096 + (b2 - 128) * 64 + (b3 - 128) in
        if is_cont b1 && is_cont b2 && is_cont b3 && (65536 <=? cp) && scalar cp
        then option_map (cons cp) (utf8_dec r3) else None
      | _ => None
      end
    else None
  end.
