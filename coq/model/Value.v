(* Values of the execnet serializer, results, and Python equality / hashability as far as the
   loader needs them (dict keys, set members). No proofs here. *)
From Coq Require Import ZArith List Bool String.
Import ListNotations.
Open Scope Z_scope.

Definition bytes := list Z.

Inductive value :=
| VNone
| VBool (b : bool)
| VInt (z : Z)
| VFloat (bits : Z)                 (* IEEE-754 binary64 bit pattern, 0 <= bits < 2^64 *)
| VComplex (re im : Z)              (* two bit patterns *)
| VBytes (bs : bytes)
| VStr (cps : list Z)               (* code points *)
| VList (l : list value)
| VTuple (l : list value)
| VDict (l : list (value * value))  (* insertion order *)
| VSet (l : list value)             (* iteration order at dump time / build order at load time *)
| VFrozenset (l : list value)
| VChannel (id : Z)
| VOther (tyname : Z).              (* an object of any other type; the number identifies type(obj).__name__ *)

Inductive exn := DumpError | LoadError | EOFError | MemoryDemand | StructError.
Inductive res (A : Type) := Ok (a : A) | Err (e : exn).
Arguments Ok {A}. Arguments Err {A}.
Definition bind {A B} (r : res A) (f : A -> res B) : res B := match r with Ok a => f a | Err e => Err e end.

Fixpoint sequence {A} (l : list (res A)) : res (list A) :=
  match l with
  | [] => Ok []
  | x :: r => bind x (fun a => bind (sequence r) (fun ar => Ok (a :: ar)))
  end.

(* ---- floats as bit patterns: just enough arithmetic for == between numbers *)
Definition f_exp (bits : Z) := bits / 4503599627370496 mod 2048.
Definition f_man (bits : Z) := bits mod 4503599627370496.
Definition f_neg (bits : Z) := 9223372036854775808 <=? bits.
Definition f_is_nan (bits : Z) := (f_exp bits =? 2047) && negb (f_man bits =? 0).
Definition f_is_zero (bits : Z) := (f_exp bits =? 0) && (f_man bits =? 0).
(* the integer this float is equal to, if any *)
Definition f_int (bits : Z) : option Z :=
  let e := f_exp bits in let m := f_man bits in
  if e =? 2047 then None else
  if e =? 0 then (if m =? 0 then Some 0 else None) else
  let mant := 4503599627370496 + m in
  let ex := e - 1075 in
  let mag := if 0 <=? ex then Some (mant * 2 ^ ex)
             else if mant mod 2 ^ (- ex) =? 0 then Some (mant / 2 ^ (- ex)) else None in
  match mag with None => None | Some a => Some (if f_neg bits then - a else a) end.
Definition f_eq (a b : Z) : bool :=
  if f_is_nan a || f_is_nan b then false else (a =? b) || (f_is_zero a && f_is_zero b).

Inductive num := NInt (z : Z) | NFloat (b : Z) | NComplex (re im : Z).
Definition num_of (v : value) : option num :=
  match v with
  | VBool b => Some (NInt (if b then 1 else 0))
  | VInt z => Some (NInt z)
  | VFloat b => Some (NFloat b)
  | VComplex re im => Some (NComplex re im)
  | _ => None
  end.
Definition real_eq (a b : num) : bool :=
  match a, b with
  | NInt x, NInt y => x =? y
  | NInt x, NFloat f | NFloat f, NInt x => match f_int f with Some y => x =? y | None => false end
  | NFloat f, NFloat g => f_eq f g
  | _, _ => false
  end.
Definition num_eq (a b : num) : bool :=
  match a, b with
  | NComplex r i, NComplex r' i' => f_eq r r' && f_eq i i'
  | NComplex r i, x | x, NComplex r i => f_is_zero i && real_eq (NFloat r) x
  | x, y => real_eq x y
  end.

Fixpoint zlist_eqb (a b : list Z) : bool :=
  match a, b with
  | [], [] => true
  | x :: a', y :: b' => (x =? y) && zlist_eqb a' b'
  | _, _ => false
  end.

(* Python's == restricted to what can be a dict key / set member *)
Fixpoint py_eq (a b : value) : bool :=
  match a, b with
  | VNone, VNone => true
  | VBytes x, VBytes y => zlist_eqb x y
  | VStr x, VStr y => zlist_eqb x y
  | VChannel x, VChannel y => x =? y
  | VTuple la, VTuple lb =>
      (fix go (la lb : list value) : bool :=
         match la, lb with
         | [], [] => true
         | x :: ra, y :: rb => py_eq x y && go ra rb
         | _, _ => false
         end) la lb
  | VFrozenset la, VFrozenset lb =>
      forallb (fun x => existsb (fun y => py_eq x y) lb) la &&
      (fix all_in (lb : list value) : bool :=
         match lb with [] => true | y :: rb => existsb (fun x => py_eq x y) la && all_in rb end) lb
  | _, _ => match num_of a, num_of b with Some x, Some y => num_eq x y | _, _ => false end
  end.

Fixpoint hashable (v : value) : bool :=
  match v with
  | VList _ | VDict _ | VSet _ | VOther _ => false
  | VTuple l => forallb hashable l
  | _ => true
  end.

(* d[k] = v : an equal key keeps its old key object and position *)
Fixpoint dict_set (d : list (value * value)) (k v : value) : list (value * value) :=
  match d with
  | [] => [(k, v)]
  | (k', v') :: r => if py_eq k' k then (k', v) :: r else (k', v') :: dict_set r k v
  end.
(* set(items): first occurrence wins *)
Fixpoint set_add (s : list value) (x : value) : list value :=
  match s with
  | [] => [x]
  | y :: r => if py_eq y x then s else y :: set_add r x
  end.
Definition set_of_list (l : list value) : list value := fold_left set_add l [].
