(* Model of execnet.xspec.XSpec.__init__ : strings are lists of code points. No proofs here. *)
From Coq Require Import ZArith List Bool.
Import ListNotations.
Open Scope Z_scope.

Definition str := list Z.
Definition SLASH := 47. Definition EQ := 61. Definition USCORE := 95.

Fixpoint str_eqb (a b : str) : bool :=
  match a, b with
  | [], [] => true
  | x :: a', y :: b' => (x =? y) && str_eqb a' b'
  | _, _ => false
  end.

(* Python's s.split("//"): leftmost, non-overlapping *)
Fixpoint split_aux (cur : str) (s : str) : list str :=
  match s with
  | [] => [rev cur]
  | c1 :: t =>
      match t with
      | [] => [rev (c1 :: cur)]
      | c2 :: r => if (c1 =? SLASH) && (c2 =? SLASH) then rev cur :: split_aux [] r
                   else split_aux (c1 :: cur) t
      end
  end.
Definition split2 (s : str) : list str := split_aux [] s.

(* s.find("=") *)
Fixpoint find_eq (s : str) : option nat :=
  match s with [] => None | c :: r => if c =? EQ then Some O else option_map S (find_eq r) end.

Inductive value := VTrue | VStr (s : str).
Inductive exn := ValueError | AttributeError | IndexError.

Definition ENV_PREFIX : str := [101; 110; 118; 58].      (* "env:" *)
Definition S_SPEC : str := [95; 115; 112; 101; 99].      (* "_spec" *)
Definition S_ENV : str := [101; 110; 118].               (* "env" *)

Fixpoint starts_with (p s : str) : bool :=
  match p, s with
  | [], _ => true
  | x :: p', y :: s' => (x =? y) && starts_with p' s'
  | _, [] => false
  end.

Definition mem (k : str) (l : list str) : bool := existsb (str_eqb k) l.

(* dict assignment d[k] = v : overwrite keeps the position of the first insertion *)
Fixpoint dict_set (d : list (str * value)) (k : str) (v : value) : list (str * value) :=
  match d with
  | [] => [(k, v)]
  | (k', v') :: r => if str_eqb k k' then (k', v) :: r else (k', v') :: dict_set r k v
  end.

Record xspec := { attrs : list (str * value); env : list (str * value) }.

Definition split_kv (kv : str) : str * value :=
  match find_eq kv with
  | None => (kv, VTrue)
  | Some i => (firstn i kv, VStr (skipn (S i) kv))
  end.

(* env_dup_checked: fact extracted from the source -- does the duplicate test also cover env: keys *)
Fixpoint parse_loop (env_dup_checked : bool) (pieces : list str) (x : xspec) : xspec + exn :=
  match pieces with
  | [] => inl x
  | kv :: rest =>
      let '(key, v) := split_kv kv in
      match key with
      | [] => inr IndexError                                   (* key[0] on an empty key *)
      | c :: _ =>
          if c =? USCORE then inr AttributeError else
          if mem key (S_SPEC :: S_ENV :: map fst (attrs x)) then inr ValueError else
          if starts_with ENV_PREFIX key then
            let name := skipn 4 key in
            if env_dup_checked && mem name (map fst (env x)) then inr ValueError
            else parse_loop env_dup_checked rest {| attrs := attrs x; env := dict_set (env x) name v |}
          else parse_loop env_dup_checked rest {| attrs := attrs x ++ [(key, v)]; env := env x |}
      end
  end.

Definition parse (env_dup_checked : bool) (s : str) : xspec + exn :=
  parse_loop env_dup_checked (split2 s) {| attrs := []; env := [] |}.

(* ---- the specification side: key/value lists and their text *)
Definition kv := (str * option str)%type.
Definition piece (e : kv) : str := match snd e with None => fst e | Some v => fst e ++ EQ :: v end.
Fixpoint join (ps : list str) : str :=
  match ps with [] => [] | [p] => p | p :: r => p ++ SLASH :: SLASH :: join r end.

Fixpoint no_ss (s : str) : bool :=      (* no "//" inside *)
  match s with
  | c1 :: ((c2 :: _) as t) => negb ((c1 =? SLASH) && (c2 =? SLASH)) && no_ss t
  | _ => true
  end.
Definition ends_slash (s : str) : bool := match rev s with c :: _ => c =? SLASH | [] => false end.
Definition no_eq (s : str) : bool := forallb (fun c => negb (c =? EQ)) s.

Definition key_ok (k : str) : bool :=
  match k with [] => false | c :: _ => negb (c =? USCORE) end && no_eq k && negb (str_eqb k S_ENV).

Definition to_value (o : option str) : value := match o with None => VTrue | Some v => VStr v end.
Definition is_env (k : str) : bool := starts_with ENV_PREFIX k.
Definition attrs_of (kvs : list kv) : xspec :=
  {| attrs := map (fun e => (fst e, to_value (snd e))) (filter (fun e => negb (is_env (fst e))) kvs);
     env := map (fun e => (skipn 4 (fst e), to_value (snd e))) (filter (fun e => is_env (fst e)) kvs) |}.

(* getattr(spec, name) for a public name *)
Fixpoint lookup (name : str) (l : list (str * value)) : option value :=
  match l with [] => None | (k, v) :: r => if str_eqb name k then Some v else lookup name r end.
