From Coq Require Import List Bool String.
Import ListNotations.
Require Import EV.model.Boot.
Open Scope string_scope.

Lemma mem_in : forall x l, mem x l = true -> In x l.
Proof. intros x l H. unfold mem in H. apply existsb_exists in H. destruct H as [y [I E]]. apply String.eqb_eq in E. subst. exact I. Qed.

(* an import that can execute names a standard-library module, unless it is guarded by an ImportError fallback
   (whose own imports are the standard library or __main__) or belongs to an optional execution model *)
Definition effective (g : guard) : bool := match g with GTypeChecking | GTry => false | _ => true end.

Theorem self_contained : forall stdlib builtins us, all_ok stdlib builtins us = true ->
  forall u, In u us ->
    (forall m g, In (m, g) (imports u) -> effective g = true ->
        In (top_pkg m) stdlib \/ (g = GExcept /\ m = "__main__") \/
        (exists c, g = GExecModel c /\ In c optional_models /\ top_pkg m <> "execnet" /\ top_pkg m <> "")) /\
    (forall n, In n (uses u) -> In n (defs u) \/ In n builtins \/ In n (prelude u)).
Proof.
  intros stdlib builtins us A u I. unfold all_ok in A. rewrite forallb_forall in A. specialize (A u I).
  unfold unit_ok in A. apply andb_true_iff in A. destruct A as [A1 A2]. rewrite forallb_forall in A1, A2. split.
  - intros m g Im E. specialize (A1 (m, g) Im). unfold import_ok in A1. cbn [fst snd] in A1.
    destruct g; cbn in E; try discriminate; try (left; apply mem_in; exact A1).
    + apply orb_true_iff in A1. destruct A1 as [A1|A1]; [left; apply mem_in; exact A1|]. right. left. split; auto. apply String.eqb_eq. exact A1.
    + apply orb_true_iff in A1. destruct A1 as [A1|A1]; [left; apply mem_in; exact A1|]. right. right. exists cls.
      apply andb_true_iff in A1. destruct A1 as [A1 A3]. apply andb_true_iff in A1. destruct A1 as [A1 A2'].
      apply negb_true_iff in A3, A2'. apply String.eqb_neq in A3, A2'. repeat split; auto. apply mem_in. exact A1.
  - intros n In'. specialize (A2 n In'). unfold use_ok in A2. apply orb_true_iff in A2. destruct A2 as [A2|A2].
    + apply orb_true_iff in A2. destruct A2 as [A2|A2]; [left|right; left]; apply mem_in; exact A2.
    + right. right. apply mem_in. exact A2.
Qed.

(* no effective import reaches into the execnet package (absolute or relative) *)
Corollary no_execnet_import : forall stdlib builtins us, all_ok stdlib builtins us = true -> ~ In "execnet" stdlib -> ~ In "" stdlib ->
  forall u m g, In u us -> In (m, g) (imports u) -> effective g = true -> top_pkg m <> "execnet" /\ top_pkg m <> "".
Proof.
  intros stdlib builtins us A NE NR u m g I Im E. destruct (self_contained stdlib builtins us A u I) as [S _].
  destruct (S m g Im E) as [X|[[_ X]|[c [_ [_ [X Y]]]]]].
  - split; intro Q; rewrite Q in X; tauto.
  - subst m. split; discriminate.
  - split; assumption.
Qed.

Lemma mem_false_notin : forall x l, mem x l = false -> ~ In x l.
Proof.
  intros x l H I. unfold mem in H. assert (existsb (String.eqb x) l = true) by (apply existsb_exists; exists x; split; auto; apply String.eqb_refl).
  congruence.
Qed.
