From Coq Require Import List Arith Bool Lia.
Import ListNotations.
Require Import EV.model.ChanFile.

Section P.
Variable sym : Type.
Variable is_nl : sym -> bool.
Notation cf := (cf sym).
Notation abs := (abs sym).
Notation cf_read := (cf_read sym).
Notation fill := (fill sym).
Notation f_line := (f_line sym is_nl).
Notation find_nl := (find_nl sym is_nl).
Notation last_is_nl := (last_is_nl sym is_nl).

Lemma fill_spec : forall its b n b' its',
  fill b its n = (b', its') ->
  b' ++ concat its' = b ++ concat its /\ (n <= length b' \/ its' = []).
Proof.
  induction its as [|it rest IH]; intros b n b' its' H; cbn [ChanFile.fill] in H.
  - destruct (n <=? length b) eqn:E; inversion H; subst; (split; [reflexivity|]).
    + left. apply Nat.leb_le; exact E.
    + right; reflexivity.
  - destruct (n <=? length b) eqn:E.
    + inversion H; subst. split; auto. left. apply Nat.leb_le; exact E.
    + apply IH in H. destruct H as [H1 H2]. split; auto.
      rewrite H1. cbn [concat]. rewrite app_assoc. reflexivity.
Qed.

Lemma firstn_skipn_app_enough : forall (b t : list sym) n,
  (n <= length b \/ t = []) ->
  firstn n (b ++ t) = firstn n b /\ skipn n (b ++ t) = skipn n b ++ t.
Proof.
  intros b t n [H|H].
  - split.
    + rewrite firstn_app. replace (n - length b) with 0 by lia. cbn. apply app_nil_r.
    + rewrite skipn_app. replace (n - length b) with 0 by lia. reflexivity.
  - subst. rewrite !app_nil_r. auto.
Qed.

Lemma cf_read_refines : forall n s x s',
  cf_read n s = (x, s') -> (x, abs s') = f_read sym n (abs s).
Proof.
  intros n [b its] x s' H. unfold ChanFile.cf_read in H. cbn [buf items] in H.
  unfold f_read, ChanFile.abs. cbn [buf items].
  destruct b as [b0|].
  - destruct (fill b0 its n) as [b1 its1] eqn:F. inversion H; subst; clear H. cbn [buf items].
    apply fill_spec in F. destruct F as [F1 F2]. rewrite <- F1.
    destruct (firstn_skipn_app_enough b1 (concat its1) n) as [A B].
    { destruct F2; [left|right]; auto. subst; reflexivity. }
    rewrite A, B. reflexivity.
  - destruct its as [|it rest].
    + inversion H; subst. cbn. destruct n; reflexivity.
    + destruct (fill it rest n) as [b1 its1] eqn:F. inversion H; subst; clear H. cbn [buf items].
      apply fill_spec in F. destruct F as [F1 F2]. cbn [concat app]. rewrite <- F1.
      destruct (firstn_skipn_app_enough b1 (concat its1) n) as [A B].
      { destruct F2; [left|right]; auto. subst; reflexivity. }
      rewrite A, B. reflexivity.
Qed.

(* specification of the readline tail loop *)
Definition rl_spec (line r : list sym) : list sym * list sym :=
  match line with
  | [] => (line, r)
  | _ => if last_is_nl line then (line, r) else let '(l, r') := f_line r in (line ++ l, r')
  end.

Lemma last_is_nl_snoc : forall l a, last_is_nl (l ++ [a]) = is_nl a.
Proof. intros. unfold ChanFile.last_is_nl. rewrite rev_app_distr. reflexivity. Qed.

Lemma app_not_nil : forall (l : list sym) a, l ++ [a] <> [].
Proof. intros l a H. apply app_eq_nil in H. destruct H; discriminate. Qed.

Lemma rl_loop_refines : forall fuel line s l' s',
  length (abs s) < fuel ->
  rl_loop sym is_nl fuel line s = (l', s') ->
  (l', abs s') = rl_spec line (abs s).
Proof.
  induction fuel as [|f IH]; intros line s l' s' Hf H; [lia|].
  cbn [rl_loop] in H. unfold rl_spec.
  destruct line as [|c0 line0]; [inversion H; reflexivity|].
  set (line := c0 :: line0) in *.
  destruct (last_is_nl line) eqn:L; [inversion H; reflexivity|].
  destruct (cf_read 1 s) as [c s1] eqn:R.
  apply cf_read_refines in R. unfold f_read in R.
  destruct (abs s) as [|a r1] eqn:A.
  - cbn in R. inversion R; subst c. inversion H; subst. rewrite H2.
    cbn. rewrite app_nil_r. reflexivity.
  - cbn in R. inversion R; subst c. clear R.
    cbn [ChanFile.f_line].
    assert (Hlen : length (abs s1) < f) by (rewrite H2; cbn in Hf; lia).
    specialize (IH (line ++ [a]) s1 l' s' Hlen H).
    rewrite IH. unfold rl_spec.
    destruct (line ++ [a]) as [|z zs] eqn:E; [exfalso; eapply app_not_nil; exact E|]. rewrite <- E.
    rewrite last_is_nl_snoc. rewrite H2.
    destruct (is_nl a); [reflexivity|].
    destruct (f_line r1) as [lx rx]. rewrite <- app_assoc. reflexivity.
Qed.

Lemma find_nl_some : forall b i t, find_nl b = Some i ->
  f_line (b ++ t) = (firstn (i + 1) (b ++ t), skipn (i + 1) (b ++ t)).
Proof.
  induction b as [|c b IH]; intros i t H; cbn in H; [discriminate|].
  cbn [app ChanFile.f_line]. destruct (is_nl c).
  - inversion H; subst. reflexivity.
  - destruct (find_nl b) as [j|] eqn:F; cbn in H; [|discriminate]. inversion H; subst.
    rewrite (IH j t eq_refl). cbn. reflexivity.
Qed.

Lemma find_nl_none_line : forall b t, find_nl b = None ->
  f_line (b ++ t) = let '(l, r') := f_line t in (b ++ l, r').
Proof.
  induction b as [|c b IH]; intros t H.
  - cbn. destruct (f_line t); reflexivity.
  - cbn in H. cbn [app ChanFile.f_line]. destruct (is_nl c); [discriminate|].
    destruct (find_nl b) eqn:F; cbn in H; [discriminate|].
    rewrite (IH t eq_refl). destruct (f_line t). reflexivity.
Qed.

Lemma find_nl_none_last : forall b, find_nl b = None -> b <> [] -> last_is_nl b = false.
Proof.
  intros b. induction b as [|c b IH] using rev_ind; intros H Hn; [congruence|].
  rewrite last_is_nl_snoc. clear IH Hn. induction b as [|d b IH]; cbn in *.
  - destruct (is_nl c); [discriminate|reflexivity].
  - destruct (is_nl d); [discriminate|]. destruct (ChanFile.find_nl sym is_nl (b ++ [c])); [discriminate|].
    apply IH; reflexivity.
Qed.

(* reading |p|+1 symbols where p holds no newline, then running the tail loop, is readline *)
Lemma readline_generic : forall p t,
  find_nl p = None ->
  rl_spec (firstn (length p + 1) (p ++ t)) (skipn (length p + 1) (p ++ t)) = f_line (p ++ t).
Proof.
  intros p t H. rewrite (find_nl_none_line p t H).
  rewrite firstn_app, skipn_app, firstn_all2, skipn_all2 by lia.
  replace (length p + 1 - length p) with 1 by lia. cbn [app].
  destruct t as [|a t1].
  - cbn. rewrite app_nil_r. unfold rl_spec. destruct p as [|c p1]; [reflexivity|].
    rewrite (find_nl_none_last (c :: p1) H) by discriminate. cbn. rewrite app_nil_r. reflexivity.
  - cbn [firstn skipn ChanFile.f_line]. unfold rl_spec.
    destruct (p ++ [a]) as [|z zs] eqn:E; [exfalso; eapply app_not_nil; exact E|]. rewrite <- E.
    rewrite last_is_nl_snoc. destruct (is_nl a); [reflexivity|].
    destruct (f_line t1) as [lx rx]. rewrite <- app_assoc. reflexivity.
Qed.

Lemma cf_readline_refines : forall s x s',
  cf_readline sym is_nl s = (x, s') -> (x, abs s') = f_line (abs s).
Proof.
  intros s x s' H. unfold cf_readline in H.
  destruct (buf s) as [b|] eqn:B.
  - destruct (find_nl b) as [i|] eqn:F.
    + apply cf_read_refines in H. rewrite H. unfold f_read, ChanFile.abs. rewrite B.
      symmetry. apply find_nl_some. exact F.
    + destruct (cf_read (length b + 1) s) as [line s1] eqn:R.
      apply cf_read_refines in R. unfold f_read in R.
      apply rl_loop_refines in H; [|unfold total_len, ChanFile.abs; rewrite app_length; lia].
      rewrite H. inversion R as [[R1 R2]]. rewrite R2.
      unfold ChanFile.abs at 1 2 3. rewrite B. apply readline_generic. exact F.
  - destruct (cf_read 1 s) as [line s1] eqn:R.
    apply cf_read_refines in R. unfold f_read in R.
    apply rl_loop_refines in H; [|unfold total_len, ChanFile.abs; rewrite app_length; lia].
    rewrite H. inversion R as [[R1 R2]]. rewrite R2.
    apply (readline_generic [] (abs s)). reflexivity.
Qed.

Theorem cf_run_refines : forall ops s, cf_run sym is_nl ops s = f_run sym is_nl ops (abs s).
Proof.
  induction ops as [|o ops IH]; intros s; [reflexivity|].
  cbn [cf_run f_run].
  destruct (cf_step sym is_nl o s) as [x s1] eqn:C.
  assert (E : (x, abs s1) = f_step sym is_nl o (abs s)).
  { destruct o; cbn [cf_step f_step] in *; [apply cf_read_refines|apply cf_readline_refines]; exact C. }
  rewrite <- E. rewrite IH. reflexivity.
Qed.

Corollary chanfile_equiv : forall its ops,
  cf_run sym is_nl ops (cf_init sym its) = f_run sym is_nl ops (concat its).
Proof. intros. rewrite cf_run_refines. reflexivity. Qed.

(* after the stream is exhausted every read/readline returns the empty result *)
Lemma f_run_nil : forall ops, Forall (fun x => x = []) (f_run sym is_nl ops []).
Proof.
  induction ops as [|o ops IH]; cbn [f_run]; [constructor|].
  destruct o as [n|]; cbn [f_step f_read ChanFile.f_line].
  - replace (skipn n (@nil sym)) with (@nil sym) by (destruct n; reflexivity).
    constructor; [destruct n; reflexivity|exact IH].
  - constructor; [reflexivity|exact IH].
Qed.

End P.
