(* C04: connection loss.  (1) a byte stream of frames cut at ANY offset decodes to a prefix of the frames
   (complete frames only) and then ends; (2) after the receiver's epilogue (LFinish) the channel tables are
   empty, every endmarker has fired, every receive on a channel object still held ends (ENDMARKER conserved),
   nothing is delivered or registered any more. *)
From Coq Require Import ZArith List Bool Arith Lia.
Import ListNotations.
Require Import EV.model.Frame EV.proofs.FrameP EV.model.Chan EV.proofs.ChanP.
Close Scope Z_scope. Open Scope nat_scope.

Lemma Forall_firstn : forall {A} (P : A -> Prop) l n, Forall P l -> Forall P (firstn n l).
Proof. intros A P l; induction l as [|a l IH]; intros [|n] H; cbn; auto. inversion H; subst. constructor; auto. Qed.

Theorem cut_anywhere : forall ms k o, Forall msg_wf ms -> (k <= length (concat (map enc ms)))%nat ->
  exists j e, decode (firstn k (concat (map enc ms))) o = (firstn j ms, e).
Proof.
  intros ms k o W K. destruct (cut_shape ms k K) as [E|[j [m [r [N [R E]]]]]].
  - rewrite E. exists (length ms), CleanEOF. rewrite firstn_all. apply decode_roundtrip. exact W.
  - rewrite E. exists j. eexists. apply decode_cut.
    + apply Forall_firstn. exact W.
    + rewrite Forall_forall in W. apply W. eapply nth_error_In; eauto.
    + exact R.
Qed.

Definition FInv (s : cst) : Prop := fin s = true -> forall id, alive (cs s id) = false /\ cb (cs s id) = None.

Lemma cstep_finv : forall c s l s', FInv s -> cstep c s l = Some s' -> FInv s'.
Proof.
  intros c s l s' F H. unfold FInv in *. destruct l as [j x|j k|j|j| |t j|t|j w| |j]; simpl in H.
  - injection H as <-. exact F.
  - injection H as <-. exact F.
  - destruct (fin s) eqn:Fs; [discriminate|]. simpl in H. destruct (_ || _ || _); [discriminate|]. injection H as <-. simpl. congruence.
  - destruct (alive (cs s j)) eqn:A; [|discriminate]. injection H as <-. simpl. intros Fn id.
    destruct (F Fn id) as [Fa Fc]. destruct (F Fn j) as [Fa' Fc']. unfold fupd. destruct (Nat.eqb id j); simpl; auto.
  - destruct (fin s) eqn:Fs; [discriminate|]. destruct (wire s) as [|[j x|j k] w]; [discriminate| |].
    + destruct (cb (cs s j)); [injection H as <-; simpl; congruence|].
      destruct (if alive (cs s j) then q (cs s j) else None); injection H as <-; simpl; congruence.
    + injection H as <-. simpl. congruence.
  - destruct (nth_error (thr s) t) as [[|h]|]; try discriminate. destruct (held (cs s j)); try discriminate.
    destruct (q (cs s j)) as [[|[x|] lq]|]; try discriminate; injection H as <-; simpl; intros Fn id;
      destruct (F Fn id) as [Fa Fc]; destruct (F Fn j) as [Fa' Fc']; unfold fupd; destruct (Nat.eqb id j); simpl; auto.
  - destruct (nth_error (thr s) t) as [[|h]|]; try discriminate. injection H as <-; simpl; intros Fn id;
      destruct (F Fn id) as [Fa Fc]; destruct (F Fn h) as [Fa' Fc']; unfold fupd; destruct (Nat.eqb id h); simpl; auto.
  - destruct (negb (setcb_atomic c)); try discriminate. destruct (held (cs s j)) eqn:Hd; try discriminate.
    destruct (q (cs s j)) as [lq|]; try discriminate.
    destruct (negb (Nat.eqb (qends lq) 0)); injection H as <-; simpl; intros Fn id;
      destruct (F Fn id) as [Fa Fc]; destruct (F Fn j) as [Fa' Fc']; unfold fupd; destruct (Nat.eqb id j); simpl; auto.
    unfold held in Hd. rewrite Fa' in Hd. simpl in Hd. rewrite Hd, orb_true_r. auto.
  - destruct (fin s); [discriminate|]. injection H as <-. simpl. intros _ id. unfold local_close.
    destruct (alive (cs s id)); simpl; auto.
  - destruct (negb (held (cs s j)) || closed (cs s j)); [discriminate|]. injection H as <-. simpl. intros Fn id.
    destruct (F Fn id) as [Fa Fc]. unfold fupd. destruct (Nat.eqb id j); simpl; auto.
Qed.
Lemma crun_finv : forall c ls s, FInv s -> FInv (crun c ls s).
Proof. induction ls as [|l r IH]; intros s F; simpl; auto. destruct (cstep c s l) eqn:E; auto. apply IH. eapply cstep_finv; eauto. Qed.
Lemma cinit_finv : forall n, FInv (cinit n). Proof. intros n F. discriminate. Qed.

Lemma fin_stable : forall c s l s', fin s = true -> cstep c s l = Some s' -> fin s' = true.
Proof.
  intros c s l s' F H. destruct l as [j x|j k|j|j| |t j|t|j w| |j]; simpl in H; rewrite ?F in H; simpl in H; try discriminate.
  - injection H as <-; auto.
  - injection H as <-; auto.
  - destruct (alive (cs s j)); try discriminate. injection H as <-; auto.
  - destruct (nth_error (thr s) t) as [[|h]|]; try discriminate. destruct (held (cs s j)); try discriminate.
    destruct (q (cs s j)) as [[|[x|] lq]|]; try discriminate; injection H as <-; auto.
  - destruct (nth_error (thr s) t) as [[|h]|]; try discriminate. injection H as <-; auto.
  - destruct (negb (setcb_atomic c)); try discriminate. destruct (held (cs s j)); try discriminate.
    destruct (q (cs s j)) as [lq|]; try discriminate. destruct (negb (Nat.eqb (qends lq) 0)); injection H as <-; auto.
  - destruct (negb (held (cs s j)) || closed (cs s j)); [discriminate|]. injection H as <-; auto.
Qed.

Section Loss.
Variable c : ccfg.
Hypothesis C : cfg_ok c.
Variable n : nat. Variable ls : list clab.
Let s := crun c ls (cinit n).
Let I : CInv s := crun_inv c C ls (cinit n) (cinit_inv n).
Let F : FInv s := crun_finv c ls (cinit n) (cinit_finv n).
Hypothesis Lost : fin s = true.

Theorem loss_tables_empty : forall id, alive (cs s id) = false /\ cb (cs s id) = None.
Proof. exact (F Lost). Qed.
Theorem loss_endmarkers_all_fired : forall id, ends s id = regs s id.
Proof. intros id. pose proof (c_ends s I id) as E. destruct (F Lost id) as [_ Cb]. rewrite Cb in E. lia. Qed.
Theorem loss_every_receive_ends : forall id l, held (cs s id) = true -> q (cs s id) = Some l -> qends l + holders id (thr s) >= 1.
Proof.
  intros id l H Q. destruct (F Lost id) as [A _]. unfold held in H. rewrite A in H. simpl in H. exact (c_eof s I id l H Q).
Qed.
Theorem loss_nothing_more : cstep c s LRecv = None /\ forall id, cstep c s (LNew id) = None.
Proof. split; [|intros id]; simpl; rewrite Lost; reflexivity. Qed.
Theorem loss_items_are_a_prefix : forall id, lossless s id = true -> exists rest, sent s id = (got s id ++ qitems (oq (q (cs s id)))) ++ rest.
Proof. intros id L. rewrite (c_cons s I id L). rewrite app_assoc. eauto. Qed.
End Loss.
