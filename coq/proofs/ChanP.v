(* Channel layer: invariant of every reachable state and the C02 / C03 / C07 / C10 theorems *)
From Coq Require Import List Bool Arith Lia.
Import ListNotations.
Require Import EV.model.Chan.

Definition oq (o : option (list qitem)) : list qitem := match o with Some l => l | None => [] end.
Definition holders (id : nat) (l : list cpc) : nat :=
  length (filter (fun p => match p with CHold j => Nat.eqb j id | _ => false end) l).
Definition cfg_ok (c : ccfg) : Prop := setcb_atomic c = true.

Lemma fupd_eq : forall {A} (f : nat -> A) i v, fupd f i v i = v.
Proof. intros. unfold fupd. rewrite Nat.eqb_refl. reflexivity. Qed.
Lemma fupd_ne : forall {A} (f : nat -> A) i j v, j <> i -> fupd f i v j = f j.
Proof. intros. unfold fupd. destruct (Nat.eqb j i) eqn:E; [apply Nat.eqb_eq in E; congruence|reflexivity]. Qed.

Lemma qitems_app : forall a b, qitems (a ++ b) = qitems a ++ qitems b.
Proof. intros. unfold qitems. apply flat_map_app. Qed.
Lemma qends_app : forall a b, qends (a ++ b) = qends a + qends b.
Proof. intros. unfold qends. rewrite filter_app, app_length. reflexivity. Qed.
Lemma witems_app : forall id a b, witems id (a ++ b) = witems id a ++ witems id b.
Proof. intros. unfold witems. apply flat_map_app. Qed.

(* a queue holds data first, ENDMARKERs last *)
Definition shaped (l : list qitem) : Prop := exists its k, l = map Item its ++ repeat End k.
Lemma shaped_nil : shaped []. Proof. exists [], 0. reflexivity. Qed.
Lemma shaped_item_noend : forall l x, shaped l -> qends l = 0 -> shaped (l ++ [Item x]).
Proof.
  intros l x [its [k E]] Z. subst l. destruct k.
  - exists (its ++ [x]), 0. cbn [repeat]. rewrite !app_nil_r, map_app. reflexivity.
  - exfalso. rewrite qends_app in Z. cbn in Z. unfold qends in Z. cbn in Z. lia.
Qed.
Lemma shaped_end : forall l, shaped l -> shaped (l ++ [End]).
Proof.
  intros l [its [k E]]. subst l. exists its, (S k). rewrite <- app_assoc. f_equal.
  clear. induction k; cbn; [reflexivity|]. f_equal. exact IHk.
Qed.
Lemma shaped_tail : forall e l, shaped (e :: l) -> shaped l.
Proof.
  intros e l [its [k E]]. destruct its as [|x its]; cbn in E.
  - destruct k; cbn in E; [discriminate|]. inversion E. exists [], k. reflexivity.
  - inversion E. exists its, k. reflexivity.
Qed.
Lemma shaped_end_head : forall l, shaped (End :: l) -> qitems l = [] .
Proof.
  intros l [its [k E]]. destruct its as [|x its]; cbn in E; [|discriminate].
  destruct k; cbn in E; [discriminate|]. inversion E. clear. induction k; cbn; auto.
Qed.

Record CInv (s : cst) : Prop := {
  c_cons : forall id, lossless s id = true -> sent s id = got s id ++ qitems (oq (q (cs s id))) ++ witems id (wire s);
  c_shape : forall id, shaped (oq (q (cs s id)));
  c_alive : forall id, alive (cs s id) = true -> qends (oq (q (cs s id))) = 0 /\ rclosed (cs s id) = false /\ holders id (thr s) = 0;
  c_eof : forall id l, rclosed (cs s id) = true -> q (cs s id) = Some l -> qends l + holders id (thr s) >= 1;
  c_ends : forall id, ends s id + (match cb (cs s id) with Some true => 1 | _ => 0 end) = regs s id;
  c_errs : forall id, errs (cs s id) + errs_out s id <= errs_in s id;
  c_cbq : forall id, cb (cs s id) <> None -> q (cs s id) = None
}.

Lemma holders_upd_idle : forall l t id j, nth_error l t = Some (CHold id) ->
  holders j (upd l t CIdle) + (if Nat.eqb id j then 1 else 0) = holders j l.
Proof.
  induction l as [|p l IH]; intros t id j H; [destruct t; discriminate|].
  destruct t; cbn [upd nth_error] in *.
  - inversion H; subst. unfold holders. cbn. destruct (Nat.eqb id j); cbn; lia.
  - specialize (IH t id j H). unfold holders in *. cbn. destruct (match p with CHold j0 => Nat.eqb j0 j | _ => false end); cbn; lia.
Qed.
Lemma holders_upd_hold : forall l t id j, nth_error l t = Some CIdle ->
  holders j (upd l t (CHold id)) = holders j l + (if Nat.eqb id j then 1 else 0).
Proof.
  induction l as [|p l IH]; intros t id j H; [destruct t; discriminate|].
  destruct t; cbn [upd nth_error] in *.
  - inversion H; subst. unfold holders. cbn. destruct (Nat.eqb id j); cbn; lia.
  - specialize (IH t id j H). unfold holders in *. cbn. destruct (match p with CHold j0 => Nat.eqb j0 j | _ => false end); cbn; lia.
Qed.
Lemma holders_zero : forall l id, existsb (fun p => match p with CHold j => Nat.eqb j id | _ => false end) l = false -> holders id l = 0.
Proof.
  induction l as [|p l IH]; intros id H; [reflexivity|]. cbn in H. apply orb_false_iff in H. destruct H as [H1 H2].
  unfold holders in *. cbn. rewrite H1. apply IH. exact H2.
Qed.

Lemma cinit_inv : forall n, CInv (cinit n).
Proof.
  intro n. constructor; cbn; auto; try (intros; exact shaped_nil); try congruence; try (intros; discriminate).
Qed.

Ltac cproj := cbn [wire cs thr sent got lossless ends regs errs_in errs_out eofs fin alive q closed rclosed errs cb oq] in *.
Ltac fsplit j id := destruct (Nat.eq_dec j id) as [->|?Hne]; [rewrite ?fupd_eq in *|rewrite ?fupd_ne in * by assumption]; cproj.
Ltac crem := match goal with |- ?G => idtac "REM:" G end.

Section Steps.
Variable c : ccfg.
Hypothesis C : cfg_ok c.

Lemma step_peer_send : forall s id x s', CInv s -> cstep c s (LPeerSend id x) = Some s' -> CInv s'.
Proof.
  intros s id x s' I H. cbn in H. inversion H; subst; clear H. destruct I. constructor; cproj; auto.
  intros j L. fsplit j id.
  - rewrite (c_cons0 id L). rewrite witems_app. cbn. rewrite Nat.eqb_refl. cbn. rewrite <- !app_assoc. reflexivity.
  - rewrite (c_cons0 j L). rewrite witems_app. cbn. replace (Nat.eqb id j) with false by (symmetry; apply Nat.eqb_neq; congruence). cbn. rewrite app_nil_r. reflexivity.
Qed.

Lemma step_peer_end : forall s id k s', CInv s -> cstep c s (LPeerEnd id k) = Some s' -> CInv s'.
Proof.
  intros s id k s' I H. cbn in H. inversion H; subst; clear H. destruct I. constructor; cproj; auto.
  intros j L. rewrite (c_cons0 j L). rewrite witems_app. cbn. rewrite app_nil_r. reflexivity.
Qed.

Lemma step_new : forall s id s', CInv s -> cstep c s (LNew id) = Some s' -> CInv s'.
Proof.
  intros s id s' I H. cbn in H.
  destruct (fin s) eqn:F; [discriminate|]. cbn [orb] in H.
  destruct (alive (cs s id)) eqn:A; [discriminate|]. cbn [orb] in H.
  destruct (existsb _ (thr s)) eqn:Ex; [discriminate|]. cbn [orb] in H.
  destruct (cb (cs s id)) eqn:Cb; [discriminate|]. inversion H; subst; clear H. destruct I. constructor; cproj.
  - intros j L. fsplit j id.
    + destruct (q (cs s id)) as [[|e lq]|] eqn:Q; cproj; try (rewrite fupd_eq in L; discriminate);
        pose proof (c_cons0 id L) as E; rewrite Q in E; cproj; exact E.
    + apply c_cons0. destruct (q (cs s id)) as [[|e lq]|]; auto. rewrite fupd_ne in L by assumption. exact L.
  - intros j. fsplit j id; [exact shaped_nil|auto].
  - intros j Aj. fsplit j id; [|auto]. repeat split; auto. apply holders_zero. exact Ex.
  - intros j l R Q. fsplit j id; [discriminate|eauto].
  - intros j. fsplit j id; [rewrite <- (c_ends0 id), Cb; reflexivity|auto].
  - intros j. fsplit j id; [pose proof (c_errs0 id); lia|auto].
  - intros j N. fsplit j id; [congruence|auto].
Qed.

Lemma step_drop : forall s id s', CInv s -> cstep c s (LDrop id) = Some s' -> CInv s'.
Proof.
  intros s id s' I H. cbn in H. destruct (alive (cs s id)) eqn:A; [|discriminate]. inversion H; subst; clear H.
  destruct I. constructor; cproj.
  - intros j L. fsplit j id; auto.
  - intros j. fsplit j id; auto.
  - intros j Aj. fsplit j id; [discriminate|auto].
  - intros j l R Q. fsplit j id; eauto.
  - intros j. fsplit j id; auto.
  - intros j. fsplit j id; auto.
  - intros j N. fsplit j id; auto.
Qed.

Lemma witems_cons_data : forall j id x w, witems j (FData id x :: w) = (if Nat.eqb id j then [x] else []) ++ witems j w.
Proof. reflexivity. Qed.
Lemma witems_cons_end : forall j id k w, witems j (FEnd id k :: w) = witems j w.
Proof. reflexivity. Qed.

Lemma step_recv : forall s s', CInv s -> cstep c s LRecv = Some s' -> CInv s'.
Proof.
  intros s s' I H. cbn in H. destruct (fin s) eqn:F; [discriminate|]. destruct (wire s) as [|[id x|id k] w] eqn:W; [discriminate| |].
  - (* a DATA frame *)
    destruct (cb (cs s id)) as [wanted|] eqn:Cb.
    + (* callback registered: callback(data) *)
      inversion H; subst; clear H. destruct I. constructor; cproj; auto.
      intros j L. pose proof (c_cons0 j L) as E. rewrite W, witems_cons_data in E. fsplit j id.
      * rewrite Nat.eqb_refl in E. rewrite (c_cbq0 id) in E by congruence. rewrite (c_cbq0 id) by congruence.
        cproj. cbn [qitems flat_map app] in *. rewrite E. rewrite <- app_assoc. reflexivity.
      * replace (Nat.eqb id j) with false in E by (symmetry; apply Nat.eqb_neq; congruence). exact E.
    + destruct (alive (cs s id)) eqn:A; [destruct (q (cs s id)) as [lq|] eqn:Q|].
      * (* queued *)
        inversion H; subst; clear H. destruct (c_alive _ I id A) as [Z [Rc Ho]]. rewrite Q in Z. cproj.
        destruct I. constructor; cproj.
        -- intros j L. pose proof (c_cons0 j L) as E. rewrite W, witems_cons_data in E. fsplit j id.
           ++ rewrite Nat.eqb_refl in E. rewrite Q in E. cproj. rewrite qitems_app. cbn [qitems flat_map app]. rewrite E.
              rewrite <- !app_assoc. reflexivity.
           ++ replace (Nat.eqb id j) with false in E by (symmetry; apply Nat.eqb_neq; congruence). exact E.
        -- intros j. fsplit j id; [|auto]. apply shaped_item_noend; [|exact Z]. pose proof (c_shape0 id) as Sh. rewrite Q in Sh. exact Sh.
        -- intros j Aj. fsplit j id; [|auto]. repeat split; auto. rewrite qends_app, Z. reflexivity.
        -- intros j l R Qj. fsplit j id; [congruence|eauto].
        -- intros j. fsplit j id; [rewrite <- (c_ends0 id), Cb; reflexivity|auto].
        -- intros j. fsplit j id; auto.
        -- intros j N. fsplit j id; [congruence|auto].
      * (* alive but the queue was taken over and the callback is gone: drop *)
        inversion H; subst; clear H. destruct I. constructor; cproj; auto.
        intros j L. fsplit j id; [discriminate|]. pose proof (c_cons0 j L) as E. rewrite W, witems_cons_data in E.
        replace (Nat.eqb id j) with false in E by (symmetry; apply Nat.eqb_neq; congruence). exact E.
      * (* no channel object: drop *)
        inversion H; subst; clear H. destruct I. constructor; cproj; auto.
        intros j L. fsplit j id; [discriminate|]. pose proof (c_cons0 j L) as E. rewrite W, witems_cons_data in E.
        replace (Nat.eqb id j) with false in E by (symmetry; apply Nat.eqb_neq; congruence). exact E.
  - (* CLOSE / CLOSE_ERROR / LAST_MESSAGE: _local_close *)
    inversion H; subst; clear H. destruct I. unfold local_close. constructor; cproj.
    + intros j L. pose proof (c_cons0 j L) as E. rewrite W, witems_cons_end in E. fsplit j id; [|exact E].
      destruct (alive (cs s id)); cproj; [|exact E]. destruct (q (cs s id)); cproj; [|exact E].
      rewrite qitems_app. cbn [qitems flat_map]. rewrite app_nil_r. exact E.
    + intros j. fsplit j id; [|auto]. destruct (alive (cs s id)); cproj; [|auto].
      pose proof (c_shape0 id) as Sh. destruct (q (cs s id)); cproj; [apply shaped_end; exact Sh|exact shaped_nil].
    + intros j Aj. fsplit j id; [|auto]. destruct (alive (cs s id)); cproj; discriminate.
    + intros j l R Qj. fsplit j id; [|eauto]. destruct (alive (cs s id)) eqn:A; cproj; [|eauto].
      destruct (q (cs s id)); cproj; [|discriminate]. inversion Qj; subst. rewrite qends_app. cbn. lia.
    + intros j. fsplit j id; [|auto]. pose proof (c_ends0 id) as E. unfold fires.
      destruct (alive (cs s id)); cproj; destruct (cb (cs s id)) as [[|]|]; lia.
    + intros j. pose proof (c_errs0 j) as E. fsplit j id.
      * destruct (alive (cs s id)); cproj; destruct k; rewrite ?fupd_eq; lia.
      * destruct k; rewrite ?fupd_ne by assumption; exact E.
    + intros j N. fsplit j id; [|auto]. destruct (alive (cs s id)); cproj; congruence.
Qed.

Lemma step_get : forall s t id s', CInv s -> cstep c s (LGet t id) = Some s' -> CInv s'.
Proof.
  intros s t id s' I H. cbn in H. destruct (nth_error (thr s) t) as [[|hid]|] eqn:T; try discriminate.
  destruct (held (cs s id)) eqn:Hd; [|discriminate].
  destruct (q (cs s id)) as [[|[x|] lq]|] eqn:Q; try discriminate; inversion H; subst; clear H.
  - (* an item *)
    pose proof (c_shape _ I id) as Sh. rewrite Q in Sh. cproj. destruct I. constructor; cproj; auto.
    + intros j L. pose proof (c_cons0 j L) as E. fsplit j id; [|exact E]. rewrite Q in E. cproj. cbn [qitems flat_map app] in *.
      rewrite E. rewrite <- app_assoc. reflexivity.
    + intros j. fsplit j id; [eapply shaped_tail; eauto|auto].
    + intros j Aj. fsplit j id; [|exact (c_alive0 j Aj)]. pose proof (c_alive0 id Aj) as E. rewrite Q in E. cproj. unfold qends in *. cbn in E. exact E.
    + intros j l R Qj. fsplit j id; [|eauto]. inversion Qj; subst. pose proof (c_eof0 id _ R Q) as E. unfold qends in *. cbn in E. exact E.
    + intros j. fsplit j id; auto.
    + intros j. fsplit j id; auto.
    + intros j N. fsplit j id; [|auto]. rewrite (c_cbq0 id N) in Q. discriminate.
  - (* the ENDMARKER: the thread holds it until it has put it back *)
    assert (Dead : alive (cs s id) = false).
    { destruct (alive (cs s id)) eqn:A; auto. destruct (c_alive _ I id A) as [Z _]. rewrite Q in Z. unfold qends in Z. cbn in Z. discriminate. }
    pose proof (c_shape _ I id) as Sh. rewrite Q in Sh. cproj. destruct I. constructor; cproj; auto.
    + intros j L. pose proof (c_cons0 j L) as E. fsplit j id; [|exact E]. rewrite Q in E. cproj. exact E.
    + intros j. fsplit j id; [eapply shaped_tail; eauto|auto].
    + intros j Aj. fsplit j id; [congruence|]. pose proof (c_alive0 j Aj) as [A1 [A2 A3]]. repeat split; auto.
      rewrite (holders_upd_hold _ _ id j T). replace (Nat.eqb id j) with false by (symmetry; apply Nat.eqb_neq; congruence). lia.
    + intros j l R Qj. rewrite (holders_upd_hold _ _ id j T). fsplit j id.
      * inversion Qj; subst. pose proof (c_eof0 id _ R Q) as E. unfold qends in *. cbn in E. rewrite Nat.eqb_refl. lia.
      * pose proof (c_eof0 j l R Qj). lia.
    + intros j. fsplit j id; auto.
    + intros j. fsplit j id; auto.
    + intros j N. fsplit j id; [|auto]. rewrite (c_cbq0 id N) in Q. discriminate.
Qed.

Lemma step_reput : forall s t s', CInv s -> cstep c s (LReput t) = Some s' -> CInv s'.
Proof.
  intros s t s' I H. cbn in H. destruct (nth_error (thr s) t) as [[|id]|] eqn:T; try discriminate. inversion H; subst; clear H.
  assert (Hh : holders id (thr s) >= 1).
  { pose proof (holders_upd_idle _ _ id id T). rewrite Nat.eqb_refl in H. lia. }
  assert (Dead : alive (cs s id) = false).
  { destruct (alive (cs s id)) eqn:A; auto. destruct (c_alive _ I id A) as [_ [_ Z]]. lia. }
  destruct I. constructor; cproj.
  - intros j L. pose proof (c_cons0 j L) as E. fsplit j id; [|exact E]. destruct (q (cs s id)); cproj; [|exact E].
    rewrite qitems_app. cbn [qitems flat_map]. rewrite app_nil_r. exact E.
  - intros j. fsplit j id; [|auto]. pose proof (c_shape0 id) as Sh. destruct (q (cs s id)); cproj; [apply shaped_end; exact Sh|exact shaped_nil].
  - intros j Aj. fsplit j id; [congruence|]. pose proof (c_alive0 j Aj) as [A1 [A2 A3]]. repeat split; auto.
    pose proof (holders_upd_idle _ _ id j T). lia.
  - intros j l R Qj. pose proof (holders_upd_idle _ _ id j T) as Hu. fsplit j id.
    + destruct (q (cs s id)) as [lq|] eqn:Q; cproj; [|discriminate]. inversion Qj; subst. rewrite qends_app. cbn. lia.
    + replace (Nat.eqb id j) with false in Hu by (symmetry; apply Nat.eqb_neq; congruence). pose proof (c_eof0 j l R Qj). lia.
  - intros j. fsplit j id; auto.
  - intros j. pose proof (c_errs0 j) as E. fsplit j id.
    + destruct (errs (cs s id)); cproj; rewrite ?fupd_eq; lia.
    + destruct (errs (cs s id)); rewrite ?fupd_ne by assumption; exact E.
  - intros j N. fsplit j id; [|auto]. rewrite (c_cbq0 id N). reflexivity.
Qed.

Lemma qitems_shaped_noend : forall l, shaped l -> qends l = 0 -> True. Proof. auto. Qed.

Lemma step_setcb : forall s id wanted s', CInv s -> cstep c s (LSetCb id wanted) = Some s' -> CInv s'.
Proof.
  intros s id wanted s' I H. cbn in H. rewrite C in H. cbn [negb] in H.
  destruct (held (cs s id)) eqn:Hd; [|discriminate].
  destruct (q (cs s id)) as [lq|] eqn:Q; [|discriminate].
  assert (NoCb : cb (cs s id) = None).
  { destruct (cb (cs s id)) eqn:Cb; auto. rewrite (c_cbq _ I id) in Q by congruence. discriminate. }
  destruct (negb (Nat.eqb (qends lq) 0)) eqn:HE; inversion H; subst; clear H; destruct I; constructor; cproj.
  - intros j L. fsplit j id; [|exact (c_cons0 j L)]. pose proof (c_cons0 id L) as E. rewrite Q in E. cproj. cbn [qitems flat_map app]. rewrite E. rewrite <- app_assoc. reflexivity.
  - intros j. fsplit j id; [exact shaped_nil|auto].
  - intros j Aj. fsplit j id; [|exact (c_alive0 j Aj)]. pose proof (c_alive0 id Aj) as [_ [E2 E3]]. repeat split; auto.
  - intros j l R Qj. fsplit j id; [discriminate|eauto].
  - intros j. fsplit j id; [|auto]. pose proof (c_ends0 id) as E. rewrite NoCb in E. destruct wanted; lia.
  - intros j. fsplit j id; auto.
  - intros j N. fsplit j id; [reflexivity|auto].
  - intros j L. fsplit j id; [|exact (c_cons0 j L)]. pose proof (c_cons0 id L) as E. rewrite Q in E. cproj. cbn [qitems flat_map app]. rewrite E. rewrite <- app_assoc. reflexivity.
  - intros j. fsplit j id; [exact shaped_nil|auto].
  - intros j Aj. fsplit j id; [|exact (c_alive0 j Aj)]. pose proof (c_alive0 id Aj) as [_ [E2 E3]]. repeat split; auto.
  - intros j l R Qj. fsplit j id; [discriminate|eauto].
  - intros j. pose proof (c_ends0 j) as E. fsplit j id.
    + rewrite NoCb in E. destruct (closed (cs s id) || rclosed (cs s id)); rewrite ?fupd_eq; destruct wanted; lia.
    + destruct (closed (cs s id) || rclosed (cs s id)); rewrite ?fupd_ne by assumption; exact E.
  - intros j. fsplit j id; auto.
  - intros j N. fsplit j id; [reflexivity|auto].
Qed.

Lemma step_finish : forall s s', CInv s -> cstep c s LFinish = Some s' -> CInv s'.
Proof.
  intros s s' I H. cbn in H. destruct (fin s) eqn:F; [discriminate|]. inversion H; subst; clear H. destruct I.
  unfold local_close. constructor; cproj.
  - intros j L. pose proof (c_cons0 j L) as E. destruct (alive (cs s j)); cproj; [|exact E]. destruct (q (cs s j)); cproj; [|exact E].
    rewrite qitems_app. cbn [qitems flat_map]. rewrite app_nil_r. exact E.
  - intros j. destruct (alive (cs s j)); cproj; [|auto]. pose proof (c_shape0 j) as Sh.
    destruct (q (cs s j)); cproj; [apply shaped_end; exact Sh|exact shaped_nil].
  - intros j Aj. destruct (alive (cs s j)); cproj; discriminate.
  - intros j l R Qj. destruct (alive (cs s j)) eqn:A; cproj; [|eauto]. destruct (q (cs s j)); cproj; [|discriminate].
    inversion Qj; subst. rewrite qends_app. cbn. lia.
  - intros j. pose proof (c_ends0 j) as E. unfold fires. destruct (alive (cs s j)); cproj; destruct (cb (cs s j)) as [[|]|]; lia.
  - intros j. pose proof (c_errs0 j). destruct (alive (cs s j)); cproj; lia.
  - intros j N. destruct (alive (cs s j)); cproj; congruence.
Qed.

Lemma step_close : forall s id s', CInv s -> cstep c s (LClose id) = Some s' -> CInv s'.
Proof.
  intros s id s' I H. cbn in H. destruct (negb (held (cs s id)) || closed (cs s id)) eqn:G; [discriminate|]. inversion H; subst; clear H.
  destruct I. constructor; cproj.
  - intros j L. pose proof (c_cons0 j L) as E. fsplit j id; [|exact E]. destruct (q (cs s id)); cproj; [|exact E].
    rewrite qitems_app. cbn [qitems flat_map]. rewrite app_nil_r. exact E.
  - intros j. fsplit j id; [|auto]. pose proof (c_shape0 id) as Sh. destruct (q (cs s id)); cproj; [apply shaped_end; exact Sh|exact shaped_nil].
  - intros j Aj. fsplit j id; [discriminate|auto].
  - intros j l R Qj. fsplit j id; [|eauto]. destruct (q (cs s id)); cproj; [|discriminate]. inversion Qj; subst. rewrite qends_app. cbn. lia.
  - intros j. fsplit j id; [|auto]. pose proof (c_ends0 id) as E. unfold fires. destruct (cb (cs s id)) as [[|]|]; lia.
  - intros j. fsplit j id; auto.
  - intros j N. fsplit j id; [congruence|auto].
Qed.

Theorem cstep_inv : forall s l s', CInv s -> cstep c s l = Some s' -> CInv s'.
Proof.
  intros s l s' I H. destruct l.
  - eapply step_peer_send; eauto.
  - eapply step_peer_end; eauto.
  - eapply step_new; eauto.
  - eapply step_drop; eauto.
  - eapply step_recv; eauto.
  - eapply step_get; eauto.
  - eapply step_reput; eauto.
  - eapply step_setcb; eauto.
  - eapply step_finish; eauto.
  - eapply step_close; eauto.
Qed.

Theorem crun_inv : forall ls s, CInv s -> CInv (crun c ls s).
Proof.
  induction ls as [|l ls IH]; intros s I; cbn [crun]; [exact I|].
  destruct (cstep c s l) as [s'|] eqn:E; [|apply IH; exact I]. apply IH. eapply cstep_inv; eauto.
Qed.
End Steps.

(* ---------------- the property theorems ---------------- *)
Section Props.
Variable c : ccfg.
Hypothesis C : cfg_ok c.
Variable n : nat. Variable ls : list clab.
Let s := crun c ls (cinit n).
Let I : CInv s := crun_inv c C ls (cinit n) (cinit_inv n).

(* C02: as long as the receiving side has not lost data of channel id (it kept the channel open), what its
   consumers obtained (receive, iteration, callback), followed by what is queued and what is still on the
   wire for that id, is exactly what the peer sent on that id, in order -- no loss, no duplicate, no item
   of another channel *)
Theorem delivery : forall id, lossless s id = true ->
  sent s id = got s id ++ qitems (oq (q (cs s id))) ++ witems id (wire s).
Proof. exact (c_cons s I). Qed.
Corollary obtained_is_prefix_of_sent : forall id, lossless s id = true -> exists rest, sent s id = got s id ++ rest.
Proof. intros id L. rewrite (delivery id L). eauto. Qed.

(* C03: in every queue data comes before the ENDMARKER(s); once the channel is receive-closed an
   ENDMARKER stays available (in the queue or in the hand of a receiver that is putting it back), so every
   receive, by any number of concurrent receivers, ends in EOFError again and again; a receive-closed
   channel is unregistered, so no item is enqueued afterwards *)
Theorem data_before_endmarker : forall id, shaped (oq (q (cs s id))).
Proof. exact (c_shape s I). Qed.
Theorem eof_persists : forall id l, rclosed (cs s id) = true -> q (cs s id) = Some l -> qends l + holders id (thr s) >= 1.
Proof. exact (c_eof s I). Qed.
Theorem receiveclosed_is_unregistered : forall id, rclosed (cs s id) = true -> alive (cs s id) = false.
Proof. intros id R. destruct (alive (cs s id)) eqn:A; auto. destruct (c_alive s I id A) as [_ [X _]]. congruence. Qed.

(* C07: a remote error is handed to at most one receiver (never duplicated, never invented) *)
Theorem errors_at_most_once : forall id, errs (cs s id) + errs_out s id <= errs_in s id.
Proof. exact (c_errs s I). Qed.

(* C10: every callback registration with an endmarker fires that endmarker exactly once -- when the
   callback is unregistered -- and a channel with a callback has no item queue any more *)
Theorem endmarker_exactly_once : forall id, ends s id + (match cb (cs s id) with Some true => 1 | _ => 0 end) = regs s id.
Proof. exact (c_ends s I). Qed.
Theorem callback_owns_the_channel : forall id, cb (cs s id) <> None -> q (cs s id) = None.
Proof. exact (c_cbq s I). Qed.
End Props.

(* C18 (second half): handling the peer's close / last-message for an id removes the id from both tables *)
Lemma close_forgets : forall c s s' id k w, wire s = FEnd id k :: w -> cstep c s LRecv = Some s' ->
  alive (cs s' id) = false /\ cb (cs s' id) = None.
Proof.
  intros c s s' id k w W H. simpl in H. destruct (fin s); [discriminate|]. rewrite W in H. injection H as <-. simpl. unfold fupd. rewrite Nat.eqb_refl.
  unfold local_close. destruct (alive (cs s id)); simpl; auto.
Qed.
(* ... and the only steps that register an id are new(id) and setcallback *)
Lemma registers_only_new_setcb : forall c s l s' id, cstep c s l = Some s' ->
  (alive (cs s id) = false /\ alive (cs s' id) = true -> l = LNew id) /\
  (cb (cs s id) = None /\ cb (cs s' id) <> None -> exists w, l = LSetCb id w).
Proof.
  intros c s l s' id H. destruct l as [j x|j k|j|j| |t j|t|j w| |j]; simpl in H.
  - injection H as <-. simpl. split; intros [A B]; congruence.
  - injection H as <-. simpl. split; intros [A B]; congruence.
  - destruct (_ || _ || _ || _) eqn:G; try discriminate. injection H as <-. simpl. unfold fupd.
    destruct (Nat.eqb id j) eqn:E.
    + apply Nat.eqb_eq in E. subst. split; auto. intros [A B]. simpl in B. congruence.
    + split; intros [A B]; congruence.
  - destruct (alive (cs s j)); try discriminate. injection H as <-. simpl. unfold fupd.
    destruct (Nat.eqb id j) eqn:E; simpl; split; intros [A B]; try congruence.
    apply Nat.eqb_eq in E. subst. congruence.
  - destruct (if fin s then [] else wire s) as [|[j x|j k] w]; try discriminate.
    + destruct (cb (cs s j)) eqn:CB.
      * injection H as <-. simpl. split; intros [A B]; congruence.
      * destruct (if alive (cs s j) then q (cs s j) else None) eqn:Q; injection H as <-; simpl; unfold fupd;
          destruct (Nat.eqb id j) eqn:E; simpl; split; intros [A B]; try congruence;
          apply Nat.eqb_eq in E; subst; congruence.
    + injection H as <-. simpl. unfold fupd. destruct (Nat.eqb id j) eqn:E; simpl; split; intros [A B]; try congruence;
        apply Nat.eqb_eq in E; subst; unfold local_close in *; destruct (alive (cs s j)); simpl in *; congruence.
  - destruct (nth_error (thr s) t) as [[|h]|]; try discriminate. destruct (held (cs s j)); try discriminate. destruct (q (cs s j)) as [[|[x|] lq]|]; try discriminate;
      injection H as <-; simpl; unfold fupd; destruct (Nat.eqb id j) eqn:E; simpl; split; intros [A B]; try congruence;
      apply Nat.eqb_eq in E; subst; congruence.
  - destruct (nth_error (thr s) t) as [[|h]|]; try discriminate. injection H as <-; simpl; unfold fupd;
      destruct (Nat.eqb id h) eqn:E; simpl; split; intros [A B]; try congruence; apply Nat.eqb_eq in E; subst; congruence.
  - destruct (negb (setcb_atomic c)); try discriminate. destruct (held (cs s j)); try discriminate. destruct (q (cs s j)) as [lq|]; try discriminate.
    destruct (negb (Nat.eqb (qends lq) 0)); injection H as <-; simpl; unfold fupd; destruct (Nat.eqb id j) eqn:E; simpl; split; intros [A B]; try congruence;
      apply Nat.eqb_eq in E; subst; try congruence; eauto.
  - destruct (fin s); try discriminate. injection H as <-. simpl. unfold local_close. split; intros [A B]; destruct (alive (cs s id)); simpl in *; congruence.
  - destruct (negb (held (cs s j)) || closed (cs s j)); try discriminate. injection H as <-. simpl. unfold fupd. destruct (Nat.eqb id j) eqn:E; simpl; split; intros [A B]; congruence.
Qed.

(* C03: a local close() completes the transition to "closed" from the open and from the send-only state alike: the
   channel reports closed, is unregistered, its queue ends with an ENDMARKER, a registered callback is gone *)
Lemma close_closes : forall c s id s', cstep c s (LClose id) = Some s' ->
  closed (cs s' id) = true /\ rclosed (cs s' id) = true /\ alive (cs s' id) = false /\ cb (cs s' id) = None /\
  (forall l, q (cs s id) = Some l -> q (cs s' id) = Some (l ++ [End])).
Proof.
  intros c s id s' H. cbn in H. destruct (negb (held (cs s id)) || closed (cs s id)); [discriminate|]. injection H as <-. cbn. rewrite fupd_eq. cbn.
  repeat split; auto. intros l Q. rewrite Q. reflexivity.
Qed.
Lemma close_enabled : forall c s id, held (cs s id) = true -> closed (cs s id) = false -> exists s', cstep c s (LClose id) = Some s'.
Proof. intros c s id Hd Cl. cbn. rewrite Hd, Cl. cbn. eauto. Qed.

(* C07: the CLOSE_ERROR frame for a registered channel records exactly one pending error on THAT channel and on no other;
   the receive() that puts the ENDMARKER back hands a pending error to its caller (RemoteError, not EOFError) and removes it *)
Lemma close_error_recorded : forall c s s' id w, fin s = false -> wire s = FEnd id KCloseErr :: w -> alive (cs s id) = true ->
  cstep c s LRecv = Some s' ->
  errs (cs s' id) = S (errs (cs s id)) /\ (forall j, j <> id -> cs s' j = cs s j) /\ errs_in s' id = S (errs_in s id).
Proof.
  intros c s s' id w F W A H. cbn in H. rewrite F, W in H. injection H as <-. cbn. rewrite !fupd_eq. unfold local_close. rewrite A. cbn.
  repeat split; auto. intros j N. apply fupd_ne. exact N.
Qed.
Lemma reput_hands_over_error : forall c s s' t id k, nth_error (thr s) t = Some (CHold id) -> errs (cs s id) = S k ->
  cstep c s (LReput t) = Some s' ->
  errs_out s' id = S (errs_out s id) /\ errs (cs s' id) = k /\ eofs s' id = eofs s id.
Proof.
  intros c s s' t id k T E H. cbn in H. rewrite T in H. injection H as <-. cbn. rewrite E. rewrite !fupd_eq. cbn. repeat split; reflexivity.
Qed.
Lemma reput_eof_without_error : forall c s s' t id, nth_error (thr s) t = Some (CHold id) -> errs (cs s id) = 0 ->
  cstep c s (LReput t) = Some s' -> eofs s' id = S (eofs s id) /\ errs_out s' id = errs_out s id.
Proof.
  intros c s s' t id T E H. cbn in H. rewrite T in H. injection H as <-. cbn. rewrite E. rewrite !fupd_eq. split; reflexivity.
Qed.
