(* basic lemmas for the codec: byte fields, reads, single machine steps, fuel irrelevance *)
From Coq Require Import ZArith List Bool Lia.
Import ListNotations.
Require Import EV.model.Value EV.model.Frame EV.model.CodecSpec EV.model.Utf8 EV.model.Decimal EV.model.Ser EV.model.Unser.
Require Import EV.proofs.FrameP EV.proofs.Utf8P EV.proofs.DecimalP.
Open Scope Z_scope.

Lemma de64_be64 : forall u, 0 <= u < 18446744073709551616 -> de64 (be64 u) = u.
Proof.
  intros u H. unfold de64, be64.
  change (firstn 4 (be32 (u / 4294967296) ++ be32 (u mod 4294967296))) with (be32 (u / 4294967296)).
  change (skipn 4 (be32 (u / 4294967296) ++ be32 (u mod 4294967296))) with (be32 (u mod 4294967296)).
  rewrite !de32_be32 by (Z.div_mod_to_equations; lia). Z.div_mod_to_equations. lia.
Qed.
Lemma be64_len : forall u, length (be64 u) = 8%nat. Proof. reflexivity. Qed.

(* ---- reads *)
Lemma read_app : forall d rest, read (Z.of_nat (length d)) (d ++ rest) = Ok (d, rest).
Proof.
  intros d rest. unfold read.
  replace (Z.of_nat (length d) <? 0) with false by (symmetry; apply Z.ltb_ge; lia).
  replace (Z.of_nat (length (d ++ rest)) <? Z.of_nat (length d)) with false
    by (symmetry; apply Z.ltb_ge; rewrite app_length; lia).
  rewrite Nat2Z.id, firstn_app_exact, skipn_app_exact. reflexivity.
Qed.

Lemma read_int4_app : forall z rest, -2147483648 <= z < 2147483648 -> read_int4 (enc_i32 z ++ rest) = Ok (z, rest).
Proof.
  intros z rest H. unfold read_int4. change 4 with (Z.of_nat (length (enc_i32 z))).
  rewrite read_app. cbn [bind]. rewrite dec_enc_i32 by exact H. reflexivity.
Qed.

Lemma read_bstr_app : forall d rest, Z.of_nat (length d) < 2147483648 ->
  read_bstr (enc_i32 (Z.of_nat (length d)) ++ d ++ rest) = Ok (d, rest).
Proof.
  intros d rest H. unfold read_bstr. rewrite read_int4_app by lia. cbn [bind]. apply read_app.
Qed.

Lemma read_len : forall n bs d r, read n bs = Ok (d, r) -> (length r <= length bs)%nat.
Proof.
  intros n bs d r H. unfold read in H. destruct (n <? 0); [discriminate|].
  destruct (Z.of_nat (length bs) <? n); [discriminate|]. inversion H; subst. rewrite skipn_length. lia.
Qed.
Lemma read_int4_len : forall bs z r, read_int4 bs = Ok (z, r) -> (length r <= length bs)%nat.
Proof.
  intros bs z r H. unfold read_int4 in H. destruct (read 4 bs) as [[d r']|e] eqn:E; cbn in H; [|discriminate].
  inversion H; subst. eapply read_len; eauto.
Qed.
Lemma read_bstr_len : forall bs d r, read_bstr bs = Ok (d, r) -> (length r <= length bs)%nat.
Proof.
  intros bs d r H. unfold read_bstr in H. destruct (read_int4 bs) as [[n r']|e] eqn:E; cbn in H; [|discriminate].
  apply read_int4_len in E. apply read_len in H. lia.
Qed.

(* extension: a read that succeeds is unaffected by appended bytes *)
Lemma read_ext : forall n bs d r q, read n bs = Ok (d, r) -> read n (bs ++ q) = Ok (d, r ++ q).
Proof.
  intros n bs d r q H. unfold read in *. destruct (n <? 0) eqn:N; [discriminate|].
  destruct (Z.of_nat (length bs) <? n) eqn:L; [discriminate|]. apply Z.ltb_ge in L. apply Z.ltb_ge in N.
  replace (Z.of_nat (length (bs ++ q)) <? n) with false by (symmetry; apply Z.ltb_ge; rewrite app_length; lia).
  inversion H; subst. f_equal. f_equal.
  - rewrite firstn_app. replace (Z.to_nat n - length bs)%nat with 0%nat by lia. cbn. apply app_nil_r.
  - rewrite skipn_app. replace (Z.to_nat n - length bs)%nat with 0%nat by lia. reflexivity.
Qed.
Lemma read_int4_ext : forall bs z r q, read_int4 bs = Ok (z, r) -> read_int4 (bs ++ q) = Ok (z, r ++ q).
Proof.
  intros bs z r q H. unfold read_int4 in *. destruct (read 4 bs) as [[d r']|e] eqn:E; cbn in H; [|discriminate].
  rewrite (read_ext _ _ _ _ q E). cbn. inversion H; subst. reflexivity.
Qed.
Lemma read_bstr_ext : forall bs d r q, read_bstr bs = Ok (d, r) -> read_bstr (bs ++ q) = Ok (d, r ++ q).
Proof.
  intros bs d r q H. unfold read_bstr in *. destruct (read_int4 bs) as [[n r']|e] eqn:E; cbn in H; [|discriminate].
  rewrite (read_int4_ext _ _ _ q E). cbn. apply read_ext. exact H.
Qed.

(* ---- single steps on the opcodes the serializer writes *)
Section Steps.
Variable ma : Z. Variable sc : strconfig. Variable fac : bool.
Lemma step_none : forall r st, step ma sc fac OP_NONE r st = Cont r (VNone :: st). Proof. reflexivity. Qed.
Lemma step_true : forall r st, step ma sc fac OP_TRUE r st = Cont r (VBool true :: st). Proof. reflexivity. Qed.
Lemma step_false : forall r st, step ma sc fac OP_FALSE r st = Cont r (VBool false :: st). Proof. reflexivity. Qed.
Lemma step_int : forall bs st, step ma sc fac OP_INT bs st =
  match read_int4 bs with Ok (i, r) => Cont r (VInt i :: st) | Err e => Fail e end. Proof. reflexivity. Qed.
Lemma step_longint : forall bs st, step ma sc fac OP_LONGINT bs st =
  match read_bstr bs with
  | Ok (s, r) => match pyint s with Some z => Cont r (VInt z :: st) | None => Fail LoadError end
  | Err e => Fail e end. Proof. reflexivity. Qed.
Lemma step_float : forall bs st, step ma sc fac OP_FLOAT bs st =
  match read 8 bs with Ok (d, r) => Cont r (VFloat (de64 d) :: st) | Err e => Fail e end. Proof. reflexivity. Qed.
Lemma step_complex : forall bs st, step ma sc fac OP_COMPLEX bs st =
  match read 16 bs with Ok (d, r) => Cont r (VComplex (de64 (firstn 8 d)) (de64 (skipn 8 d)) :: st) | Err e => Fail e end.
Proof. reflexivity. Qed.
Lemma step_bytes : forall bs st, step ma sc fac OP_BYTES bs st =
  match read_bstr bs with Ok (s, r) => Cont r (VBytes s :: st) | Err e => Fail e end. Proof. reflexivity. Qed.
Lemma step_py3string : forall bs st, step ma sc fac OP_PY3STRING bs st =
  match read_bstr bs with
  | Ok (s, r) => if py3str_as_py2str sc then Cont r (VBytes s :: st) else push_str (utf8_dec s) r st
  | Err e => Fail e end. Proof. reflexivity. Qed.
Lemma step_newlist : forall bs st, step ma sc fac OP_NEWLIST bs st =
  match read_int4 bs with
  | Ok (n, r) => if ma <? n then Fail MemoryDemand else Cont r (VList (repeat VNone (Z.to_nat n)) :: st)
  | Err e => Fail e end. Proof. reflexivity. Qed.
Lemma step_newdict : forall bs st, step ma sc fac OP_NEWDICT bs st = Cont bs (VDict [] :: st). Proof. reflexivity. Qed.
Lemma step_setitem : forall bs st, step ma sc fac OP_SETITEM bs st = setitem st bs. Proof. reflexivity. Qed.
Lemma step_buildtuple : forall bs st, step ma sc fac OP_BUILDTUPLE bs st = collection (fun l => Some (VTuple l)) bs st.
Proof. reflexivity. Qed.
Lemma step_set : forall bs st, step ma sc fac OP_SET bs st =
  collection (fun l => if forallb hashable l then Some (VSet (set_of_list l)) else None) bs st. Proof. reflexivity. Qed.
Lemma step_frozenset : forall bs st, step ma sc fac OP_FROZENSET bs st =
  collection (fun l => if forallb hashable l then Some (VFrozenset (set_of_list l)) else None) bs st. Proof. reflexivity. Qed.
Lemma step_stop : forall bs st, step ma sc fac OP_STOP bs st = Stop bs st. Proof. reflexivity. Qed.

Lemma run_S : forall f op r st, run ma sc fac (S f) (op :: r) st =
  match step ma sc fac op r st with
  | Cont b s => run ma sc fac f b s
  | Stop b s => match s with [v] => Ok (v, b) | _ => Err LoadError end
  | Fail e => Err e
  end.
Proof. reflexivity. Qed.
End Steps.
