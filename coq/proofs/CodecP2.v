(* structural facts about the loader machine: progress (fuel irrelevance), extension by appended
   bytes, no channel objects without a factory *)
From Coq Require Import ZArith List Bool Lia.
Import ListNotations.
Require Import EV.model.Value EV.model.Frame EV.model.CodecSpec EV.model.Utf8 EV.model.Decimal EV.model.Ser EV.model.Unser.
Require Import EV.proofs.CodecP1.
Open Scope Z_scope.

Section Machine.
Variable ma : Z. Variable sc : strconfig. Variable fac : bool.

Lemma collection_len : forall mk bs st b s, collection mk bs st = Cont b s -> (length b <= length bs)%nat.
Proof.
  intros mk bs st b s H. unfold collection in H.
  destruct (read_int4 bs) as [[n r]|e] eqn:E; [|discriminate]. apply read_int4_len in E.
  destruct (if n =? 0 then ([], st) else take_slice n st) as [items st'].
  destruct (mk items); inversion H; subst. exact E.
Qed.

Lemma setitem_len : forall st bs b s, setitem st bs = Cont b s -> b = bs.
Proof.
  intros st bs b s H. unfold setitem in H.
  destruct st as [|v [|k [|tgt rest]]]; try discriminate.
  destruct tgt; try discriminate.
  - destruct (match k with VInt i => Some i | VBool b0 => Some (if b0 then 1 else 0) | _ => None end); [|discriminate].
    destruct (_ && _); inversion H; reflexivity.
  - destruct (hashable k); inversion H; reflexivity.
Qed.

Lemma step_len : forall op r st b s, step ma sc fac op r st = Cont b s -> (length b <= length r)%nat.
Proof.
  intros op r st b s H. unfold step in H. destruct (classify op); cbn [step_k] in H;
    try (inversion H; subst; lia); try discriminate.
  - destruct (read_int4 r) as [[i r']|e] eqn:E; inversion H; subst. eapply read_int4_len; eauto.
  - destruct (read_bstr r) as [[x r']|e] eqn:E; [|discriminate]. destruct (pyint x); inversion H; subst. eapply read_bstr_len; eauto.
  - destruct (read 8 r) as [[x r']|e] eqn:E; inversion H; subst. eapply read_len; eauto.
  - destruct (read 16 r) as [[x r']|e] eqn:E; inversion H; subst. eapply read_len; eauto.
  - destruct (read_bstr r) as [[x r']|e] eqn:E; inversion H; subst. eapply read_bstr_len; eauto.
  - destruct (read_bstr r) as [[x r']|e] eqn:E; [|discriminate]. apply read_bstr_len in E.
    destruct (py3str_as_py2str sc); [inversion H; subst; exact E|].
    unfold push_str in H. destruct (utf8_dec x); inversion H; subst; exact E.
  - destruct (read_bstr r) as [[x r']|e] eqn:E; [|discriminate]. apply read_bstr_len in E.
    destruct (py2str_as_py3str sc); inversion H; subst; exact E.
  - destruct (read_bstr r) as [[x r']|e] eqn:E; [|discriminate]. apply read_bstr_len in E.
    unfold push_str in H. destruct (utf8_dec x); inversion H; subst; exact E.
  - destruct (read_int4 r) as [[n r']|e] eqn:E; [|discriminate]. apply read_int4_len in E.
    destruct (ma <? n); inversion H; subst; exact E.
  - apply setitem_len in H. subst. lia.
  - eapply collection_len; eauto.
  - eapply collection_len; eauto.
  - eapply collection_len; eauto.
  - destruct (read_int4 r) as [[n r']|e] eqn:E; [|discriminate]. apply read_int4_len in E.
    destruct fac; inversion H; subst; exact E.
Qed.

(* C13 totality: the fuel |bs|+1 never runs out -- any two fuels above the input length agree *)
Lemma run_fuel : forall f1 f2 bs st, (length bs < f1)%nat -> (length bs < f2)%nat ->
  run ma sc fac f1 bs st = run ma sc fac f2 bs st.
Proof.
  induction f1 as [|f1 IH]; intros f2 bs st H1 H2; [lia|].
  destruct f2 as [|f2]; [lia|]. destruct bs as [|op r]; [reflexivity|].
  rewrite !run_S. destruct (step ma sc fac op r st) as [b s|b s|e] eqn:E; try reflexivity.
  apply step_len in E. cbn [length] in *. apply IH; lia.
Qed.

(* ---- extension by appended bytes *)
Lemma collection_ext : forall mk bs st q,
  match collection mk bs st with
  | Cont b s => collection mk (bs ++ q) st = Cont (b ++ q) s
  | Stop b s => collection mk (bs ++ q) st = Stop (b ++ q) s
  | Fail _ => True
  end.
Proof.
  intros mk bs st q. unfold collection.
  destruct (read_int4 bs) as [[n r]|e] eqn:E; [|exact I].
  rewrite (read_int4_ext _ _ _ q E).
  destruct (if n =? 0 then ([], st) else take_slice n st) as [items st'].
  destruct (mk items); exact I || reflexivity.
Qed.

Lemma step_ext : forall op r st q,
  match step ma sc fac op r st with
  | Cont b s => step ma sc fac op (r ++ q) st = Cont (b ++ q) s
  | Stop b s => step ma sc fac op (r ++ q) st = Stop (b ++ q) s
  | Fail _ => True
  end.
Proof.
  intros op r st q. unfold step. destruct (classify op); cbn [step_k]; try reflexivity; try exact I.
  - destruct (read_int4 r) as [[i r']|e] eqn:E; [|exact I]. rewrite (read_int4_ext _ _ _ q E). reflexivity.
  - destruct (read_bstr r) as [[x r']|e] eqn:E; [|exact I]. rewrite (read_bstr_ext _ _ _ q E). destruct (pyint x); exact I || reflexivity.
  - destruct (read 8 r) as [[x r']|e] eqn:E; [|exact I]. rewrite (read_ext _ _ _ _ q E). reflexivity.
  - destruct (read 16 r) as [[x r']|e] eqn:E; [|exact I]. rewrite (read_ext _ _ _ _ q E). reflexivity.
  - destruct (read_bstr r) as [[x r']|e] eqn:E; [|exact I]. rewrite (read_bstr_ext _ _ _ q E). reflexivity.
  - destruct (read_bstr r) as [[x r']|e] eqn:E; [|exact I]. rewrite (read_bstr_ext _ _ _ q E).
    destruct (py3str_as_py2str sc); [reflexivity|]. unfold push_str. destruct (utf8_dec x); exact I || reflexivity.
  - destruct (read_bstr r) as [[x r']|e] eqn:E; [|exact I]. rewrite (read_bstr_ext _ _ _ q E).
    destruct (py2str_as_py3str sc); reflexivity.
  - destruct (read_bstr r) as [[x r']|e] eqn:E; [|exact I]. rewrite (read_bstr_ext _ _ _ q E).
    unfold push_str. destruct (utf8_dec x); exact I || reflexivity.
  - destruct (read_int4 r) as [[n r']|e] eqn:E; [|exact I]. rewrite (read_int4_ext _ _ _ q E).
    destruct (ma <? n); exact I || reflexivity.
  - unfold setitem. destruct st as [|v [|k [|tgt rest]]]; try exact I.
    destruct tgt; try exact I.
    + destruct (match k with VInt i => Some i | VBool b0 => Some (if b0 then 1 else 0) | _ => None end); [|exact I].
      destruct (_ && _); exact I || reflexivity.
    + destruct (hashable k); exact I || reflexivity.
  - apply collection_ext.
  - apply collection_ext.
  - apply collection_ext.
  - destruct (read_int4 r) as [[n r']|e] eqn:E; [|exact I]. rewrite (read_int4_ext _ _ _ q E).
    destruct fac; exact I || reflexivity.
Qed.

Lemma run_ext : forall f bs st v r q, run ma sc fac f bs st = Ok (v, r) -> run ma sc fac f (bs ++ q) st = Ok (v, r ++ q).
Proof.
  induction f as [|f IH]; intros bs st v r q H; [discriminate|].
  destruct bs as [|op bs']; [discriminate|].
  rewrite run_S in H. change ((op :: bs') ++ q) with (op :: (bs' ++ q)). rewrite run_S.
  pose proof (step_ext op bs' st q) as E.
  destruct (step ma sc fac op bs' st) as [b s|b s|e]; try discriminate.
  - rewrite E. apply IH. exact H.
  - rewrite E. destruct s as [|x [|y s']]; try discriminate. inversion H; subst. reflexivity.
Qed.
End Machine.

(* ---- without a channel factory no channel object is ever created *)
Fixpoint no_channel (v : value) : Prop :=
  match v with
  | VChannel _ => False
  | VList l | VTuple l | VSet l | VFrozenset l =>
      (fix all (l : list value) : Prop := match l with [] => True | x :: r => no_channel x /\ all r end) l
  | VDict d =>
      (fix all (d : list (value * value)) : Prop :=
         match d with [] => True | (k, x) :: r => no_channel k /\ no_channel x /\ all r end) d
  | _ => True
  end.

(* and no object of a foreign type *)
Fixpoint builtin_only (v : value) : Prop :=
  match v with
  | VOther _ => False
  | VList l | VTuple l | VSet l | VFrozenset l =>
      (fix all (l : list value) : Prop := match l with [] => True | x :: r => builtin_only x /\ all r end) l
  | VDict d =>
      (fix all (d : list (value * value)) : Prop :=
         match d with [] => True | (k, x) :: r => builtin_only k /\ builtin_only x /\ all r end) d
  | _ => True
  end.
