(* the round trip: running the loader on the saver's output pushes the value *)
From Coq Require Import ZArith List Bool Lia.
Import ListNotations.
Require Import EV.model.Value EV.model.Frame EV.model.CodecSpec EV.model.Utf8 EV.model.Decimal EV.model.Ser EV.model.Unser.
Require Import EV.proofs.FrameP EV.proofs.Utf8P EV.proofs.DecimalP EV.proofs.CodecP1 EV.proofs.CodecP2.
Open Scope Z_scope.

(* ---------- induction principle for the nested type ---------- *)
Section value_ind2.
Variable P : value -> Prop.
Hypothesis HNone : P VNone.
Hypothesis HBool : forall b, P (VBool b).
Hypothesis HInt : forall z, P (VInt z).
Hypothesis HFloat : forall f, P (VFloat f).
Hypothesis HComplex : forall a b, P (VComplex a b).
Hypothesis HBytes : forall b, P (VBytes b).
Hypothesis HStr : forall c, P (VStr c).
Hypothesis HList : forall l, Forall P l -> P (VList l).
Hypothesis HTuple : forall l, Forall P l -> P (VTuple l).
Hypothesis HDict : forall d, Forall (fun kv => P (fst kv) /\ P (snd kv)) d -> P (VDict d).
Hypothesis HSet : forall l, Forall P l -> P (VSet l).
Hypothesis HFrozenset : forall l, Forall P l -> P (VFrozenset l).
Hypothesis HChannel : forall i, P (VChannel i).
Hypothesis HOther : forall t, P (VOther t).
Fixpoint value_ind2 (v : value) : P v :=
  let all := fix all (l : list value) : Forall P l :=
    match l with [] => Forall_nil P | x :: r => Forall_cons x (value_ind2 x) (all r) end in
  match v with
  | VNone => HNone | VBool b => HBool b | VInt z => HInt z | VFloat f => HFloat f
  | VComplex a b => HComplex a b | VBytes b => HBytes b | VStr c => HStr c
  | VList l => HList l (all l)
  | VTuple l => HTuple l (all l)
  | VDict d => HDict d ((fix alld (d : list (value * value)) : Forall (fun kv => P (fst kv) /\ P (snd kv)) d :=
                  match d with [] => Forall_nil _ | (k, x) :: r => Forall_cons (k, x) (conj (value_ind2 k) (value_ind2 x)) (alld r) end) d)
  | VSet l => HSet l (all l)
  | VFrozenset l => HFrozenset l (all l)
  | VChannel i => HChannel i | VOther t => HOther t
  end.
End value_ind2.

(* ---------- well-formed values: everything Python can build from the supported types ---------- *)
Definition fits (n : nat) : bool := Z.of_nat n <? 2147483648.
Definition in_i32 (z : Z) : bool := (-2147483648 <=? z) && (z <? 2147483648).
Definition u64ok (f : Z) : bool := (0 <=? f) && (f <? 18446744073709551616).
(* an earlier member is never == a later one *)
Fixpoint nodup_eq (l : list value) : bool :=
  match l with [] => true | x :: r => forallb (fun y => negb (py_eq x y)) r && nodup_eq r end.

Fixpoint wfb (ac : bool) (v : value) : bool :=
  match v with
  | VNone | VBool _ => true
  | VInt z => in_i32 z || fits (length (to_dec z))
  | VFloat f => u64ok f
  | VComplex a b => u64ok a && u64ok b
  | VBytes b => fits (length b)
  | VStr c => forallb scalar c && fits (length (concat (map enc_cp c)))
  | VList l => fits (length l) && forallb (wfb ac) l
  | VTuple l => fits (length l) && forallb (wfb ac) l
  | VDict d => forallb (fun kv => wfb ac (fst kv) && wfb ac (snd kv) && hashable (fst kv)) d && nodup_eq (map fst d)
  | VSet l => fits (length l) && forallb (wfb ac) l && forallb hashable l && nodup_eq l
  | VFrozenset l => fits (length l) && forallb (wfb ac) l && forallb hashable l && nodup_eq l
  | VChannel i => ac && in_i32 i
  | VOther _ => false
  end.

(* ---------- plumbing ---------- *)
Lemma sequence_ok : forall {A B} (f : A -> res B) l bl, Forall2 (fun x b => f x = Ok b) l bl -> sequence (map f l) = Ok bl.
Proof. intros A B f l bl H. induction H; cbn; [reflexivity|]. rewrite H, IHForall2. reflexivity. Qed.

Lemma write_len_ok : forall n, fits n = true -> write_len n = Ok (enc_i32 (Z.of_nat n)).
Proof.
  intros n H. unfold fits in H. apply Z.ltb_lt in H. unfold write_len, write_int4, INT_MAX, INT_MIN.
  replace (2147483647 <? Z.of_nat n) with false by (symmetry; apply Z.ltb_ge; lia).
  replace (Z.of_nat n <? -2147483648) with false by (symmetry; apply Z.ltb_ge; lia). reflexivity.
Qed.
Lemma write_bseq_ok : forall b, fits (length b) = true -> write_bseq b = Ok (enc_i32 (Z.of_nat (length b)) ++ b).
Proof. intros b H. unfold write_bseq. rewrite write_len_ok by exact H. reflexivity. Qed.
Lemma write_int4_ok : forall z, in_i32 z = true -> write_int4 z = Ok (enc_i32 z).
Proof.
  intros z H. unfold in_i32 in H. apply andb_true_iff in H. destruct H as [H1 H2].
  apply Z.leb_le in H1. apply Z.ltb_lt in H2. unfold write_int4, INT_MAX, INT_MIN.
  replace (2147483647 <? z) with false by (symmetry; apply Z.ltb_ge; lia).
  replace (z <? -2147483648) with false by (symmetry; apply Z.ltb_ge; lia). reflexivity.
Qed.
Lemma save_int_short : forall z, in_i32 z = true -> save_int true z = Ok (OP_INT :: enc_i32 z).
Proof.
  intros z H. unfold save_int. rewrite write_int4_ok by exact H.
  unfold in_i32 in H. apply andb_true_iff in H. destruct H as [H1 H2].
  apply Z.leb_le in H1. apply Z.ltb_lt in H2. unfold INT_MAX, INT_MIN. cbn [negb orb].
  replace (z <=? 2147483647) with true by (symmetry; apply Z.leb_le; lia).
  replace (-2147483648 <=? z) with true by (symmetry; apply Z.leb_le; lia). reflexivity.
Qed.
Lemma save_int_long : forall z, in_i32 z = false -> fits (length (to_dec z)) = true ->
  save_int true z = Ok (OP_LONGINT :: enc_i32 (Z.of_nat (length (to_dec z))) ++ to_dec z).
Proof.
  intros z H F. unfold save_int. unfold in_i32 in H. unfold INT_MAX, INT_MIN. cbn [negb orb].
  replace ((z <=? 2147483647) && (-2147483648 <=? z)) with false.
  - rewrite write_bseq_ok by exact F. reflexivity.
  - symmetry. apply andb_false_iff. apply andb_false_iff in H. destruct H as [H|H].
    + right. apply Z.leb_gt. apply Z.leb_gt in H. lia.
    + left. apply Z.leb_gt. apply Z.ltb_ge in H. lia.
Qed.

Section RT.
Variable ma : Z. Variable sc : strconfig. Variable fac : bool.
Hypothesis Hsc : py3str_as_py2str sc = false.

(* "running b pushes v": for every continuation and stack, after finitely many steps *)
Definition pushes (b : bytes) (v : value) : Prop :=
  forall rest st, exists n, forall f, run ma sc fac (n + f) (b ++ rest) st = run ma sc fac f rest (v :: st).

Lemma run_cont : forall f op r st b s, step ma sc fac op r st = Cont b s -> run ma sc fac (S f) (op :: r) st = run ma sc fac f b s.
Proof. intros. rewrite run_S, H. reflexivity. Qed.

Lemma pushes_1 : forall op payload v,
  (forall rest st, step ma sc fac op (payload ++ rest) st = Cont rest (v :: st)) -> pushes (op :: payload) v.
Proof.
  intros op payload v H rest st. exists 1%nat. intro f. change (1 + f)%nat with (S f).
  cbn [app]. apply run_cont. apply H.
Qed.

Lemma pushes_int : forall z, wfb false (VInt z) = true \/ wfb true (VInt z) = true ->
  exists b, save_int true z = Ok b /\ pushes b (VInt z).
Proof.
  intros z H. assert (W : in_i32 z || fits (length (to_dec z)) = true) by (destruct H; exact H). clear H.
  destruct (in_i32 z) eqn:I.
  - exists (OP_INT :: enc_i32 z). split; [apply save_int_short; exact I|].
    apply pushes_1. intros rest st. rewrite step_int.
    unfold in_i32 in I. apply andb_true_iff in I. destruct I as [I1 I2]. apply Z.leb_le in I1. apply Z.ltb_lt in I2.
    rewrite read_int4_app by lia. reflexivity.
  - cbn in W. exists (OP_LONGINT :: enc_i32 (Z.of_nat (length (to_dec z))) ++ to_dec z).
    split; [apply save_int_long; assumption|].
    apply pushes_1. intros rest st. rewrite step_longint. rewrite <- app_assoc.
    unfold fits in W. apply Z.ltb_lt in W. rewrite read_bstr_app by exact W.
    rewrite pyint_to_dec. reflexivity.
Qed.

(* a sequence of bodies pushes the values in order *)
Lemma pushes_seq : forall l bl, Forall2 (fun x b => pushes b x) l bl ->
  forall rest st, exists n, forall f, run ma sc fac (n + f) (concat bl ++ rest) st = run ma sc fac f rest (rev l ++ st).
Proof.
  intros l bl H. induction H as [|x b l bl Hx Hl IH]; intros rest st.
  - exists 0%nat. intro f. reflexivity.
  - destruct (Hx (concat bl ++ rest) st) as [n1 E1]. destruct (IH rest (x :: st)) as [n2 E2].
    exists (n1 + n2)%nat. intro f. cbn [concat rev]. rewrite <- !app_assoc.
    replace (n1 + n2 + f)%nat with (n1 + (n2 + f))%nat by lia. rewrite E1, E2. reflexivity.
Qed.

Lemma set_nth_app : forall pre (y : value) t x, set_nth (pre ++ y :: t) (length pre) x = pre ++ x :: t.
Proof. induction pre as [|p pre IH]; intros; cbn; [reflexivity|]. rewrite IH. reflexivity. Qed.

Definition list_item (i : Z) (b : bytes) : bytes := (OP_INT :: enc_i32 i) ++ b ++ [OP_SETITEM].
Fixpoint list_items (i : Z) (bl : list bytes) : list bytes :=
  match bl with [] => [] | b :: r => list_item i b :: list_items (i + 1) r end.

Lemma list_items_seq : forall bl i, 0 <= i -> i + Z.of_nat (length bl) <= 2147483648 ->
  sequence (map (fun '(i, b) => bind (save_int true i) (fun bi => Ok (bi ++ b ++ [OP_SETITEM]))) (with_index i bl))
  = Ok (list_items i bl).
Proof.
  induction bl as [|b bl IH]; intros i H0 H1; [reflexivity|].
  cbn [with_index map sequence list_items length] in *.
  rewrite save_int_short by (unfold in_i32; apply andb_true_iff; split; [apply Z.leb_le|apply Z.ltb_lt]; lia).
  cbn [bind]. rewrite IH by lia. reflexivity.
Qed.

Lemma pushes_list_items : forall l bl, Forall2 (fun x b => pushes b x) l bl ->
  forall pre rest st, Z.of_nat (length pre + length l) < 2147483648 ->
  exists n, forall f,
    run ma sc fac (n + f) (concat (list_items (Z.of_nat (length pre)) bl) ++ rest) (VList (pre ++ repeat VNone (length l)) :: st)
    = run ma sc fac f rest (VList (pre ++ l) :: st).
Proof.
  intros l bl H. induction H as [|x b l bl Hx Hl IH]; intros pre rest st Hlen.
  - exists 0%nat. intro f. cbn. reflexivity.
  - cbn [list_items concat length repeat].
    set (i := Z.of_nat (length pre)).
    destruct (Hx (OP_SETITEM :: concat (list_items (i + 1) bl) ++ rest)
                 (VInt i :: VList (pre ++ VNone :: repeat VNone (length l)) :: st)) as [n1 E1].
    destruct (IH (pre ++ [x]) rest st) as [n2 E2].
    { rewrite app_length. cbn [length] in *. lia. }
    exists (1 + (n1 + (1 + n2)))%nat. intro f.
    unfold list_item. rewrite <- !app_assoc. cbn [app].
    replace (1 + (n1 + (1 + n2)) + f)%nat with (S (n1 + (S (n2 + f))))%nat by lia.
    rewrite (run_cont _ OP_INT _ _ (b ++ OP_SETITEM :: concat (list_items (i + 1) bl) ++ rest)
               (VInt i :: VList (pre ++ VNone :: repeat VNone (length l)) :: st)).
    2:{ rewrite step_int. rewrite read_int4_app by (cbn [length] in Hlen; lia). reflexivity. }
    rewrite E1.
    rewrite (run_cont _ OP_SETITEM _ _ (concat (list_items (i + 1) bl) ++ rest) (VList ((pre ++ [x]) ++ repeat VNone (length l)) :: st)).
    2:{ rewrite step_setitem. unfold setitem.
        assert (Hl2 : Z.of_nat (length (pre ++ VNone :: repeat VNone (length l))) = i + 1 + Z.of_nat (length l)).
        { rewrite app_length. cbn [length]. rewrite repeat_length. unfold i. lia. }
        rewrite Hl2.
        replace ((- (i + 1 + Z.of_nat (length l)) <=? i) && (i <? i + 1 + Z.of_nat (length l))) with true
          by (symmetry; apply andb_true_iff; split; [apply Z.leb_le|apply Z.ltb_lt]; lia).
        replace (i <? 0) with false by (symmetry; apply Z.ltb_ge; lia).
        unfold i. rewrite Nat2Z.id. rewrite set_nth_app. rewrite <- app_assoc. reflexivity. }
    replace (i + 1) with (Z.of_nat (length (pre ++ [x]))) by (rewrite app_length; cbn [length]; lia).
    rewrite E2. rewrite <- app_assoc. reflexivity.
Qed.
End RT.
