(* containers with keys / members, and the main round-trip theorem *)
From Coq Require Import ZArith List Bool Lia.
Import ListNotations.
Require Import EV.model.Value EV.model.Frame EV.model.CodecSpec EV.model.Utf8 EV.model.Decimal EV.model.Ser EV.model.Unser.
Require Import EV.proofs.FrameP EV.proofs.Utf8P EV.proofs.DecimalP EV.proofs.CodecP1 EV.proofs.CodecP2 EV.proofs.CodecP3.
Open Scope Z_scope.

Lemma nodup_eq_mid : forall a x b, nodup_eq (a ++ x :: b) = true -> forallb (fun y => negb (py_eq y x)) a = true.
Proof.
  induction a as [|y a IH]; intros x b H; [reflexivity|].
  cbn [app nodup_eq] in H. apply andb_true_iff in H. destruct H as [H1 H2].
  cbn [forallb]. rewrite forallb_app in H1. apply andb_true_iff in H1. destruct H1 as [_ H1].
  cbn [forallb] in H1. apply andb_true_iff in H1. destruct H1 as [H1 _]. rewrite H1. cbn. eapply IH; eauto.
Qed.

Lemma dict_set_fresh : forall pre k v, forallb (fun k' => negb (py_eq k' k)) (map fst pre) = true ->
  dict_set pre k v = pre ++ [(k, v)].
Proof.
  induction pre as [|[k' v'] pre IH]; intros k v H; [reflexivity|].
  cbn [map fst forallb] in H. apply andb_true_iff in H. destruct H as [H1 H2]. apply negb_true_iff in H1.
  cbn [dict_set app]. rewrite H1. rewrite IH by exact H2. reflexivity.
Qed.

Lemma set_add_fresh : forall acc x, forallb (fun y => negb (py_eq y x)) acc = true -> set_add acc x = acc ++ [x].
Proof.
  induction acc as [|y acc IH]; intros x H; [reflexivity|].
  cbn [forallb] in H. apply andb_true_iff in H. destruct H as [H1 H2]. apply negb_true_iff in H1.
  cbn [set_add app]. rewrite H1. rewrite IH by exact H2. reflexivity.
Qed.

Lemma fold_set_add : forall l acc, nodup_eq (acc ++ l) = true -> fold_left set_add l acc = acc ++ l.
Proof.
  induction l as [|x l IH]; intros acc H; cbn [fold_left]; [rewrite app_nil_r; reflexivity|].
  rewrite set_add_fresh by (eapply nodup_eq_mid; eauto).
  rewrite IH by (rewrite <- app_assoc; exact H). rewrite <- app_assoc. reflexivity.
Qed.
Lemma set_of_list_id : forall l, nodup_eq l = true -> set_of_list l = l.
Proof. intros l H. unfold set_of_list. apply (fold_set_add l [] H). Qed.

Lemma forall_exists_F2 : forall {A B} (Q : A -> Prop) (R : A -> B -> Prop) l,
  Forall (fun x => Q x -> exists b, R x b) l -> Forall Q l -> exists bl, Forall2 R l bl.
Proof.
  intros A B Q R l H. induction H as [|x l Hx Hl IH]; intro HQ.
  - exists []. constructor.
  - inversion HQ; subst. destruct (Hx H1) as [b Hb]. destruct (IH H2) as [bl Hbl]. exists (b :: bl). constructor; auto.
Qed.

Lemma Forall2_impl' : forall {A B} (R R' : A -> B -> Prop) l bl,
  (forall a b, R a b -> R' a b) -> Forall2 R l bl -> Forall2 R' l bl.
Proof. intros A B R R' l bl H F. induction F; constructor; auto. Qed.

Lemma Forall2_length' : forall {A B} (R : A -> B -> Prop) l bl, Forall2 R l bl -> length l = length bl.
Proof. intros A B R l bl H. induction H; cbn; auto. Qed.

Section RT2.
Variable ma : Z. Variable sc : strconfig. Variable fac : bool.
Hypothesis Hsc : py3str_as_py2str sc = false.
Hypothesis Hma : 2147483647 <= ma.
Notation pushes := (pushes ma sc fac).

Definition dict_item (bk bv : bytes) : bytes := bk ++ bv ++ [OP_SETITEM].

Lemma pushes_dict_items : forall d bd,
  Forall2 (fun kv b => exists bk bv, b = dict_item bk bv /\ pushes bk (fst kv) /\ pushes bv (snd kv) /\ hashable (fst kv) = true) d bd ->
  forall pre rest st, nodup_eq (map fst (pre ++ d)) = true ->
  exists n, forall f, run ma sc fac (n + f) (concat bd ++ rest) (VDict pre :: st) = run ma sc fac f rest (VDict (pre ++ d) :: st).
Proof.
  intros d bd H. induction H as [|[k v] b d bd Hx Hd IH]; intros pre rest st ND.
  - exists 0%nat. intro f. cbn. rewrite app_nil_r. reflexivity.
  - destruct Hx as [bk [bv [Eb [Pk [Pv Hh]]]]]. cbn [fst snd] in *. subst b.
    destruct (Pk (bv ++ OP_SETITEM :: concat bd ++ rest) (VDict pre :: st)) as [n1 E1].
    destruct (Pv (OP_SETITEM :: concat bd ++ rest) (k :: VDict pre :: st)) as [n2 E2].
    destruct (IH (pre ++ [(k, v)]) rest st) as [n3 E3].
    { rewrite <- app_assoc. exact ND. }
    exists (n1 + (n2 + (1 + n3)))%nat. intro f.
    cbn [concat]. unfold dict_item. rewrite <- !app_assoc. cbn [app].
    replace (n1 + (n2 + (1 + n3)) + f)%nat with (n1 + (n2 + S (n3 + f)))%nat by lia.
    rewrite E1, E2.
    rewrite (run_cont ma sc fac _ OP_SETITEM _ _ (concat bd ++ rest) (VDict (pre ++ [(k, v)]) :: st)).
    2:{ rewrite step_setitem. unfold setitem. rewrite Hh. rewrite dict_set_fresh; [reflexivity|].
        rewrite map_app in ND. cbn [map fst] in ND. eapply nodup_eq_mid; eauto. }
    rewrite E3. rewrite <- app_assoc. reflexivity.
Qed.

Lemma take_slice_exact : forall (l : list value) st, l <> [] -> Z.of_nat (length l) < 2147483648 ->
  take_slice (Z.of_nat (length l)) (rev l ++ st) = (l, st).
Proof.
  intros l st Hn Hl. unfold take_slice.
  assert (Hp : 0 < Z.of_nat (length l)) by (destruct l; [congruence|cbn; lia]).
  replace (0 <? Z.of_nat (length l)) with true by (symmetry; apply Z.ltb_lt; exact Hp).
  rewrite app_length, rev_length.
  replace (Z.min (Z.of_nat (length l)) (Z.of_nat (length l + length st))) with (Z.of_nat (length l)) by lia.
  rewrite Nat2Z.id. rewrite <- (rev_length l) at 1 2.
  rewrite firstn_app_exact, skipn_app_exact, rev_involutive. reflexivity.
Qed.

Lemma pushes_collection : forall op (mk : list value -> option value) (l : list value) bl v,
  (forall bs st, step ma sc fac op bs st = collection mk bs st) ->
  mk l = Some v -> fits (length l) = true ->
  Forall2 (fun x b => pushes b x) l bl ->
  pushes (concat bl ++ op :: enc_i32 (Z.of_nat (length l))) v.
Proof.
  intros op mk l bl v Hop Hmk Hfit HF rest st.
  destruct (pushes_seq ma sc fac l bl HF (op :: enc_i32 (Z.of_nat (length l)) ++ rest) st) as [n E].
  exists (n + 1)%nat. intro f. rewrite <- app_assoc. cbn [app].
  replace (n + 1 + f)%nat with (n + S f)%nat by lia. rewrite E.
  apply run_cont. rewrite Hop. unfold collection.
  unfold fits in Hfit. apply Z.ltb_lt in Hfit.
  rewrite read_int4_app by lia.
  destruct l as [|x l'].
  - cbn [length Z.of_nat]. cbn. rewrite Hmk. reflexivity.
  - replace (Z.of_nat (length (x :: l')) =? 0) with false by (symmetry; apply Z.eqb_neq; cbn [length]; lia).
    rewrite take_slice_exact by (try discriminate; exact Hfit). rewrite Hmk. reflexivity.
Qed.

(* ---------- the main theorem ---------- *)
Theorem save_pushes : forall ac, (ac = true -> fac = true) ->
  forall v, wfb ac v = true -> exists b, save true v = Ok b /\ pushes b v.
Proof.
  intros ac Hac. induction v using value_ind2; intro W; cbn [wfb] in W; try discriminate.
  - exists [OP_NONE]. split; [reflexivity|]. apply (pushes_1 ma sc fac OP_NONE []). intros. apply step_none.
  - exists [if b then OP_TRUE else OP_FALSE]. split; [reflexivity|].
    destruct b; [apply (pushes_1 ma sc fac OP_TRUE [])|apply (pushes_1 ma sc fac OP_FALSE [])]; intros; [apply step_true|apply step_false].
  - apply pushes_int. destruct ac; [right|left]; exact W.
  - exists (OP_FLOAT :: be64 f). split; [reflexivity|]. apply pushes_1. intros rest st.
    rewrite step_float. change 8 with (Z.of_nat (length (be64 f))). rewrite read_app.
    unfold u64ok in W. apply andb_true_iff in W. destruct W as [W1 W2]. apply Z.leb_le in W1. apply Z.ltb_lt in W2.
    rewrite de64_be64 by lia. reflexivity.
  - exists (OP_COMPLEX :: be64 a ++ be64 b). split; [reflexivity|]. apply pushes_1. intros rest st.
    rewrite step_complex. change 16 with (Z.of_nat (length (be64 a ++ be64 b))). rewrite read_app.
    apply andb_true_iff in W. destruct W as [Wa Wb]. unfold u64ok in Wa, Wb.
    apply andb_true_iff in Wa. destruct Wa as [A1 A2]. apply Z.leb_le in A1. apply Z.ltb_lt in A2.
    apply andb_true_iff in Wb. destruct Wb as [B1 B2]. apply Z.leb_le in B1. apply Z.ltb_lt in B2.
    change (firstn 8 (be64 a ++ be64 b)) with (be64 a). change (skipn 8 (be64 a ++ be64 b)) with (be64 b).
    rewrite !de64_be64 by lia. reflexivity.
  - exists (OP_BYTES :: enc_i32 (Z.of_nat (length b)) ++ b). split.
    + cbn [save]. rewrite write_bseq_ok by exact W. reflexivity.
    + apply pushes_1. intros rest st. rewrite step_bytes, <- app_assoc.
      unfold fits in W. apply Z.ltb_lt in W. rewrite read_bstr_app by exact W. reflexivity.
  - apply andb_true_iff in W. destruct W as [W1 W2].
    assert (E : utf8_enc c = Some (concat (map enc_cp c))) by (unfold utf8_enc; rewrite W1; reflexivity).
    exists (OP_PY3STRING :: enc_i32 (Z.of_nat (length (concat (map enc_cp c)))) ++ concat (map enc_cp c)). split.
    + cbn [save]. rewrite E. rewrite write_bseq_ok by exact W2. reflexivity.
    + apply pushes_1. intros rest st. rewrite step_py3string, <- app_assoc.
      unfold fits in W2. apply Z.ltb_lt in W2. rewrite read_bstr_app by exact W2.
      rewrite Hsc. rewrite (utf8_dec_enc c _ E). reflexivity.
  - (* list *)
    apply andb_true_iff in W. destruct W as [Wl Wa].
    destruct (forall_exists_F2 (fun x => wfb ac x = true) (fun x b => save true x = Ok b /\ pushes b x) l H) as [bl F2].
    { apply Forall_forall. rewrite forallb_forall in Wa. exact Wa. }
    assert (F2s : Forall2 (fun x b => save true x = Ok b) l bl) by (eapply Forall2_impl'; [|exact F2]; cbn; tauto).
    assert (F2p : Forall2 (fun x b => pushes b x) l bl) by (eapply Forall2_impl'; [|exact F2]; cbn; tauto).
    pose proof (Forall2_length' _ _ _ F2) as Len.
    unfold fits in Wl. apply Z.ltb_lt in Wl.
    exists (OP_NEWLIST :: enc_i32 (Z.of_nat (length l)) ++ concat (list_items 0 bl)). split.
    + cbn [save]. rewrite write_len_ok by (unfold fits; apply Z.ltb_lt; exact Wl).
      rewrite (sequence_ok _ _ _ F2s). cbn [bind].
      rewrite list_items_seq by (unfold bytes, Value.bytes, Frame.bytes in *; lia). reflexivity.
    + intros rest st.
      destruct (pushes_list_items ma sc fac l bl F2p [] rest st) as [n E]; [cbn; lia|].
      exists (1 + n)%nat. intro f. cbn [app]. rewrite <- app_assoc.
      change (1 + n + f)%nat with (S (n + f)).
      rewrite (run_cont ma sc fac _ OP_NEWLIST _ _ (concat (list_items 0 bl) ++ rest) (VList (repeat VNone (length l)) :: st)).
      2:{ rewrite step_newlist. rewrite read_int4_app by lia.
          replace (ma <? Z.of_nat (length l)) with false by (symmetry; apply Z.ltb_ge; lia).
          rewrite Nat2Z.id. reflexivity. }
      exact (E f).
  - (* tuple *)
    apply andb_true_iff in W. destruct W as [Wl Wa].
    destruct (forall_exists_F2 (fun x => wfb ac x = true) (fun x b => save true x = Ok b /\ pushes b x) l H) as [bl F2].
    { apply Forall_forall. rewrite forallb_forall in Wa. exact Wa. }
    assert (F2s : Forall2 (fun x b => save true x = Ok b) l bl) by (eapply Forall2_impl'; [|exact F2]; cbn; tauto).
    assert (F2p : Forall2 (fun x b => pushes b x) l bl) by (eapply Forall2_impl'; [|exact F2]; cbn; tauto).
    exists (concat bl ++ OP_BUILDTUPLE :: enc_i32 (Z.of_nat (length l))). split.
    + cbn [save]. rewrite (sequence_ok _ _ _ F2s). cbn [bind]. rewrite write_len_ok by exact Wl. reflexivity.
    + apply (pushes_collection OP_BUILDTUPLE (fun l => Some (VTuple l))); [intros; apply step_buildtuple|reflexivity|exact Wl|exact F2p].
  - (* dict *)
    apply andb_true_iff in W. destruct W as [Wa Wn].
    assert (Hex : exists bd, Forall2 (fun kv b => exists bk bv, b = dict_item bk bv /\ save true (fst kv) = Ok bk /\ save true (snd kv) = Ok bv
                    /\ pushes bk (fst kv) /\ pushes bv (snd kv) /\ hashable (fst kv) = true) d bd).
    { clear Wn. induction H as [|[k x] d [Hk Hx] Hd IH]; [exists []; constructor|].
      cbn [forallb fst snd] in Wa. apply andb_true_iff in Wa. destruct Wa as [W1 W2].
      apply andb_true_iff in W1. destruct W1 as [W1 Wh]. apply andb_true_iff in W1. destruct W1 as [Wk Wx].
      destruct (Hk Wk) as [bk [Sk Pk]]. destruct (Hx Wx) as [bx [Sx Px]]. destruct (IH W2) as [bd F].
      exists (dict_item bk bx :: bd). constructor; [|exact F]. exists bk, bx. cbn [fst snd]. repeat split; auto. }
    destruct Hex as [bd F2].
    exists (OP_NEWDICT :: concat bd). split.
    + cbn [save].
      assert (Hs : sequence (map (fun '(k, x) => bind (save true k) (fun bk => bind (save true x) (fun bx => Ok (bk ++ bx ++ [OP_SETITEM])))) d) = Ok bd).
      { clear Wa Wn H. induction F2 as [|[k x] b d bd [bk [bv [E [Sk [Sx _]]]]] F IH]; [reflexivity|].
        cbn [map sequence fst snd] in *. rewrite Sk, Sx. cbn [bind]. rewrite IH. subst b. reflexivity. }
      rewrite Hs. reflexivity.
    + intros rest st.
      assert (F2' : Forall2 (fun kv b => exists bk bv, b = dict_item bk bv /\ pushes bk (fst kv) /\ pushes bv (snd kv) /\ hashable (fst kv) = true) d bd).
      { eapply Forall2_impl'; [|exact F2]. cbn. intros kv b [bk [bv [E [_ [_ [Pk [Pv Hh]]]]]]]. exists bk, bv. auto. }
      destruct (pushes_dict_items d bd F2' [] rest st Wn) as [n E].
      exists (1 + n)%nat. intro f. cbn [app]. change (1 + n + f)%nat with (S (n + f)).
      rewrite (run_cont ma sc fac _ OP_NEWDICT _ _ (concat bd ++ rest) (VDict [] :: st)) by apply step_newdict.
      exact (E f).
  - (* set *)
    apply andb_true_iff in W. destruct W as [W Wn]. apply andb_true_iff in W. destruct W as [W Wh].
    apply andb_true_iff in W. destruct W as [Wl Wa].
    destruct (forall_exists_F2 (fun x => wfb ac x = true) (fun x b => save true x = Ok b /\ pushes b x) l H) as [bl F2].
    { apply Forall_forall. rewrite forallb_forall in Wa. exact Wa. }
    assert (F2s : Forall2 (fun x b => save true x = Ok b) l bl) by (eapply Forall2_impl'; [|exact F2]; cbn; tauto).
    assert (F2p : Forall2 (fun x b => pushes b x) l bl) by (eapply Forall2_impl'; [|exact F2]; cbn; tauto).
    exists (concat bl ++ OP_SET :: enc_i32 (Z.of_nat (length l))). split.
    + cbn [save]. rewrite (sequence_ok _ _ _ F2s). cbn [bind]. rewrite write_len_ok by exact Wl. reflexivity.
    + apply (pushes_collection OP_SET (fun l => if forallb hashable l then Some (VSet (set_of_list l)) else None));
        [intros; apply step_set|rewrite Wh; rewrite set_of_list_id by exact Wn; reflexivity|exact Wl|exact F2p].
  - (* frozenset *)
    apply andb_true_iff in W. destruct W as [W Wn]. apply andb_true_iff in W. destruct W as [W Wh].
    apply andb_true_iff in W. destruct W as [Wl Wa].
    destruct (forall_exists_F2 (fun x => wfb ac x = true) (fun x b => save true x = Ok b /\ pushes b x) l H) as [bl F2].
    { apply Forall_forall. rewrite forallb_forall in Wa. exact Wa. }
    assert (F2s : Forall2 (fun x b => save true x = Ok b) l bl) by (eapply Forall2_impl'; [|exact F2]; cbn; tauto).
    assert (F2p : Forall2 (fun x b => pushes b x) l bl) by (eapply Forall2_impl'; [|exact F2]; cbn; tauto).
    exists (concat bl ++ OP_FROZENSET :: enc_i32 (Z.of_nat (length l))). split.
    + cbn [save]. rewrite (sequence_ok _ _ _ F2s). cbn [bind]. rewrite write_len_ok by exact Wl. reflexivity.
    + apply (pushes_collection OP_FROZENSET (fun l => if forallb hashable l then Some (VFrozenset (set_of_list l)) else None));
        [intros; apply step_frozenset|rewrite Wh; rewrite set_of_list_id by exact Wn; reflexivity|exact Wl|exact F2p].
  - (* channel: only with a factory *)
    apply andb_true_iff in W. destruct W as [Wc Wi]. specialize (Hac Wc). subst fac.
    exists (OP_CHANNEL :: enc_i32 i). split.
    + cbn [save]. rewrite write_int4_ok by exact Wi. reflexivity.
    + apply pushes_1. intros rest st. unfold step. cbn [step_k]. change (classify OP_CHANNEL) with KChannel. cbn [step_k].
      unfold in_i32 in Wi. apply andb_true_iff in Wi. destruct Wi as [I1 I2]. apply Z.leb_le in I1. apply Z.ltb_lt in I2.
      rewrite read_int4_app by lia. reflexivity.
Qed.

Lemma run_stop_one : forall f v, run ma sc fac (S f) [OP_STOP] [v] = Ok (v, []).
Proof. intros. rewrite run_S, step_stop. reflexivity. Qed.
End RT2.

(* success is stable under more fuel *)
Lemma run_mono : forall ma sc fac f bs st x, run ma sc fac f bs st = Ok x -> forall f', (f <= f')%nat -> run ma sc fac f' bs st = Ok x.
Proof.
  induction f as [|f IH]; intros bs st x H f' Hf; [discriminate|].
  destruct f' as [|f']; [lia|]. destruct bs as [|op r]; [discriminate|].
  rewrite run_S in *. destruct (step ma sc fac op r st) as [b s|b s|e]; try exact H. apply IH with (f' := f') in H; [exact H|lia].
Qed.

Section Final.
Variable ma : Z. Variable sc : strconfig.
Hypothesis Hsc : py3str_as_py2str sc = false.
Hypothesis Hma : 2147483647 <= ma.

Lemma load_internal_of_pushes : forall fac b v, pushes ma sc fac b v ->
  load_internal ma sc fac (b ++ [OP_STOP]) = Ok (v, []).
Proof.
  intros fac b v P. unfold load_internal.
  destruct (P [OP_STOP] []) as [n E].
  rewrite (run_fuel ma sc fac (S (length (b ++ [OP_STOP]))) (n + S (length (b ++ [OP_STOP]))) (b ++ [OP_STOP]) []) by lia.
  rewrite E. apply run_stop_one.
Qed.

(* loads(dumps(v)) = v with nothing left over -- the public API has no channel factory *)
Theorem loads_dumps : forall v, wfb false v = true ->
  exists b, dumps true v = Ok b /\ loads_r ma sc b = Ok (v, []).
Proof.
  intros v W.
  destruct (save_pushes ma sc false Hsc Hma false (fun H => match Bool.diff_false_true H with end) v W) as [b [S P]].
  exists (VERSION :: b ++ [OP_STOP]). split; [unfold dumps; rewrite S; reflexivity|].
  unfold loads_r. rewrite Z.eqb_refl. apply load_internal_of_pushes. exact P.
Qed.

(* Channel.send / receive: dumps_internal then loads_internal with the gateway's channel factory;
   channel objects inside the value arrive as channel objects with the same id *)
Theorem loads_dumps_internal : forall v, wfb true v = true ->
  exists b, dumps_internal true v = Ok b /\ load_internal ma sc true b = Ok (v, []).
Proof.
  intros v W.
  destruct (save_pushes ma sc true Hsc Hma true (fun _ => eq_refl) v W) as [b [S P]].
  exists (b ++ [OP_STOP]). split; [unfold dumps_internal; rewrite S; reflexivity|].
  apply load_internal_of_pushes. exact P.
Qed.

(* no strict prefix of a valid dump loads *)
Theorem prefix_never_loads : forall v d p q, wfb false v = true -> dumps true v = Ok d -> d = p ++ q -> q <> [] ->
  forall x, loads_r ma sc p <> Ok x.
Proof.
  intros v d p q W D E Hq x Hx.
  destruct (loads_dumps v W) as [d' [D' L]]. rewrite D in D'. inversion D'; subst d'. clear D'.
  destruct p as [|ver p']; [discriminate|].
  unfold loads_r in Hx. destruct (ver =? VERSION) eqn:Ev; [|discriminate].
  rewrite E in L. cbn [app] in L. unfold loads_r in L. rewrite Ev in L.
  unfold load_internal in *. destruct x as [v' r'].
  apply (run_ext ma sc false _ _ _ _ _ q) in Hx.
  assert (Hx2 := run_mono ma sc false _ _ _ _ Hx (S (length (p' ++ q)))).
  rewrite Hx2 in L by (rewrite app_length; lia). inversion L. destruct r'; [|discriminate]. cbn in H1. contradiction.
Qed.
End Final.
