(* typed errors and clean results of the loader; rejection of unsupported values by the saver *)
From Coq Require Import ZArith List Bool Lia.
Import ListNotations.
Require Import EV.model.Value EV.model.Frame EV.model.CodecSpec EV.model.Utf8 EV.model.Decimal EV.model.Ser EV.model.Unser.
Require Import EV.proofs.Utf8P EV.proofs.CodecP1 EV.proofs.CodecP2 EV.proofs.CodecP3.
Open Scope Z_scope.

Definition typed_exn (e : exn) : Prop := e = LoadError \/ e = EOFError \/ e = MemoryDemand.

Lemma read_err : forall n bs e, read n bs = Err e -> typed_exn e.
Proof.
  intros n bs e H. unfold read in H. destruct (n <? 0); [inversion H; left; reflexivity|].
  destruct (Z.of_nat (length bs) <? n); inversion H. right; left; reflexivity.
Qed.
Lemma read_int4_err : forall bs e, read_int4 bs = Err e -> typed_exn e.
Proof.
  intros bs e H. unfold read_int4 in H. destruct (read 4 bs) as [[d r]|e'] eqn:E; cbn in H; [discriminate|].
  inversion H; subst. eapply read_err; eauto.
Qed.
Lemma read_bstr_err : forall bs e, read_bstr bs = Err e -> typed_exn e.
Proof.
  intros bs e H. unfold read_bstr in H. destruct (read_int4 bs) as [[n r]|e'] eqn:E; cbn in H.
  - eapply read_err; eauto.
  - inversion H; subst. eapply read_int4_err; eauto.
Qed.

Section M.
Variable ma : Z. Variable sc : strconfig. Variable fac : bool.

Lemma collection_fail : forall mk bs st e, collection mk bs st = Fail e -> typed_exn e.
Proof.
  intros mk bs st e H. unfold collection in H. destruct (read_int4 bs) as [[n r]|e'] eqn:E.
  - destruct (if n =? 0 then ([], st) else take_slice n st) as [items st'].
    destruct (mk items); inversion H. left; reflexivity.
  - inversion H; subst. eapply read_int4_err; eauto.
Qed.

Lemma step_fail : forall op r st e, step ma sc fac op r st = Fail e -> typed_exn e.
Proof.
  intros op r st e H. unfold step in H. destruct (classify op); cbn [step_k] in H; try discriminate.
  - destruct (read_int4 r) as [[i r']|e'] eqn:E; inversion H; subst. eapply read_int4_err; eauto.
  - destruct (read_bstr r) as [[x r']|e'] eqn:E.
    + destruct (pyint x); inversion H. left; reflexivity.
    + inversion H; subst. eapply read_bstr_err; eauto.
  - destruct (read 8 r) as [[x r']|e'] eqn:E; inversion H; subst. eapply read_err; eauto.
  - destruct (read 16 r) as [[x r']|e'] eqn:E; inversion H; subst. eapply read_err; eauto.
  - destruct (read_bstr r) as [[x r']|e'] eqn:E; inversion H; subst. eapply read_bstr_err; eauto.
  - destruct (read_bstr r) as [[x r']|e'] eqn:E.
    + destruct (py3str_as_py2str sc); [discriminate|]. unfold push_str in H. destruct (utf8_dec x); inversion H. left; reflexivity.
    + inversion H; subst. eapply read_bstr_err; eauto.
  - destruct (read_bstr r) as [[x r']|e'] eqn:E.
    + destruct (py2str_as_py3str sc); discriminate.
    + inversion H; subst. eapply read_bstr_err; eauto.
  - destruct (read_bstr r) as [[x r']|e'] eqn:E.
    + unfold push_str in H. destruct (utf8_dec x); inversion H. left; reflexivity.
    + inversion H; subst. eapply read_bstr_err; eauto.
  - destruct (read_int4 r) as [[n r']|e'] eqn:E.
    + destruct (ma <? n); inversion H. right; right; reflexivity.
    + inversion H; subst. eapply read_int4_err; eauto.
  - unfold setitem in H. destruct st as [|v [|k [|tgt rest]]]; try (inversion H; left; reflexivity).
    destruct tgt; try (inversion H; left; reflexivity).
    + destruct (match k with VInt i => Some i | VBool b0 => Some (if b0 then 1 else 0) | _ => None end); [|inversion H; left; reflexivity].
      destruct (_ && _); inversion H. left; reflexivity.
    + destruct (hashable k); inversion H. left; reflexivity.
  - eapply collection_fail; eauto.
  - eapply collection_fail; eauto.
  - eapply collection_fail; eauto.
  - destruct (read_int4 r) as [[n r']|e'] eqn:E.
    + destruct fac; inversion H. left; reflexivity.
    + inversion H; subst. eapply read_int4_err; eauto.
  - inversion H. left; reflexivity.
Qed.

(* C13: the loader ends with a value or with LoadError / EOFError / (memory demand) -- nothing else *)
Theorem run_typed : forall f bs st e, run ma sc fac f bs st = Err e -> typed_exn e.
Proof.
  induction f as [|f IH]; intros bs st e H; [inversion H; left; reflexivity|].
  destruct bs as [|op r]; [inversion H; right; left; reflexivity|].
  rewrite run_S in H. destruct (step ma sc fac op r st) as [b s|b s|e'] eqn:E.
  - eapply IH; eauto.
  - destruct s as [|x [|y s']]; inversion H; left; reflexivity.
  - inversion H; subst. eapply step_fail; eauto.
Qed.
End M.

(* ---------- values built only from the supported builtin types, no channel objects ---------- *)
Fixpoint cleanb (v : value) : bool :=
  match v with
  | VChannel _ | VOther _ => false
  | VList l | VTuple l | VSet l | VFrozenset l => forallb cleanb l
  | VDict d => forallb (fun kv => cleanb (fst kv) && cleanb (snd kv)) d
  | _ => true
  end.

Lemma set_nth_clean : forall l i x, forallb cleanb l = true -> cleanb x = true -> forallb cleanb (set_nth l i x) = true.
Proof.
  induction l as [|y l IH]; intros i x H Hx; cbn; [reflexivity|].
  cbn in H. apply andb_true_iff in H. destruct H as [H1 H2]. destruct i; cbn; rewrite ?Hx, ?H1, ?H2; cbn; auto.
Qed.
Lemma dict_set_clean : forall d k x, forallb (fun kv => cleanb (fst kv) && cleanb (snd kv)) d = true ->
  cleanb k = true -> cleanb x = true -> forallb (fun kv => cleanb (fst kv) && cleanb (snd kv)) (dict_set d k x) = true.
Proof.
  induction d as [|[k' x'] d IH]; intros k x H Hk Hx; cbn [dict_set forallb fst snd].
  - rewrite Hk, Hx. reflexivity.
  - cbn [forallb fst snd] in H. apply andb_true_iff in H. destruct H as [H1 H2].
    apply andb_true_iff in H1. destruct H1 as [H1 H1'].
    destruct (py_eq k' k); cbn [forallb fst snd]; rewrite ?H1, ?Hx, ?H1', ?H2; cbn; auto.
Qed.
Lemma set_add_clean : forall s x, forallb cleanb s = true -> cleanb x = true -> forallb cleanb (set_add s x) = true.
Proof.
  induction s as [|y s IH]; intros x H Hx; cbn [set_add forallb]; [rewrite Hx; reflexivity|].
  cbn [forallb] in H. apply andb_true_iff in H. destruct H as [H1 H2].
  destruct (py_eq y x); cbn [forallb]; rewrite H1; cbn; auto.
Qed.
Lemma set_of_list_clean : forall l, forallb cleanb l = true -> forallb cleanb (set_of_list l) = true.
Proof.
  intros l H. unfold set_of_list. assert (G : forall l acc, forallb cleanb l = true -> forallb cleanb acc = true -> forallb cleanb (fold_left set_add l acc) = true).
  { clear. induction l as [|x l IH]; intros acc H Ha; cbn [fold_left]; [exact Ha|].
    cbn [forallb] in H. apply andb_true_iff in H. destruct H as [H1 H2]. apply IH; [exact H2|]. apply set_add_clean; auto. }
  apply G; auto.
Qed.
Lemma forallb_firstn : forall {A} (p : A -> bool) l n, forallb p l = true -> forallb p (firstn n l) = true.
Proof. intros A p l. induction l as [|x l IH]; intros n H; destruct n; cbn in *; auto. apply andb_true_iff in H. destruct H as [H1 H2]. rewrite H1. cbn. auto. Qed.
Lemma forallb_skipn : forall {A} (p : A -> bool) l n, forallb p l = true -> forallb p (skipn n l) = true.
Proof. intros A p l. induction l as [|x l IH]; intros n H; destruct n; cbn in *; auto. apply andb_true_iff in H. destruct H as [H1 H2]. auto. Qed.
Lemma forallb_rev : forall {A} (p : A -> bool) l, forallb p l = true -> forallb p (rev l) = true.
Proof. intros A p l H. rewrite forallb_forall in *. intros x Hx. apply H. apply in_rev. exact Hx. Qed.
Lemma forallb_repeat : forall {A} (p : A -> bool) x n, p x = true -> forallb p (repeat x n) = true.
Proof. intros A p x n H. induction n; cbn; auto. rewrite H. auto. Qed.

Section Clean.
Variable ma : Z. Variable sc : strconfig.

Lemma collection_clean : forall (mk : list value -> option value) bs st b s,
  (forall l v, forallb cleanb l = true -> mk l = Some v -> cleanb v = true) ->
  forallb cleanb st = true -> collection mk bs st = Cont b s -> forallb cleanb s = true.
Proof.
  intros mk bs st b s Hmk Hst H. unfold collection in H.
  destruct (read_int4 bs) as [[n r]|e]; [|discriminate].
  destruct (n =? 0).
  - destruct (mk []) eqn:M; inversion H; subst. cbn [forallb]. rewrite (Hmk [] v eq_refl M). exact Hst.
  - unfold take_slice in H.
    set (m := Z.to_nat (if 0 <? n then Z.min n (Z.of_nat (length st)) else Z.max 0 (Z.of_nat (length st) + n))) in *.
    destruct (mk (rev (firstn m st))) eqn:M; inversion H; subst. cbn [forallb].
    rewrite (Hmk _ v (forallb_rev _ _ (forallb_firstn _ _ m Hst)) M). apply forallb_skipn. exact Hst.
Qed.

Lemma collection_not_stop : forall mk bs st b s, collection mk bs st <> Stop b s.
Proof.
  intros mk bs st b s H. unfold collection in H. destruct (read_int4 bs) as [[n r]|e]; [|discriminate].
  destruct (if n =? 0 then ([], st) else take_slice n st) as [items st']. destruct (mk items); discriminate.
Qed.
Lemma setitem_not_stop : forall st bs b s, setitem st bs <> Stop b s.
Proof.
  intros st bs b s H. unfold setitem in H. destruct st as [|v [|k [|tgt rest]]]; try discriminate. destruct tgt; try discriminate.
  - destruct (match k with VInt i => Some i | VBool b0 => Some (if b0 then 1 else 0) | _ => None end); [|discriminate]. destruct (_ && _); discriminate.
  - destruct (hashable k); discriminate.
Qed.

Lemma step_clean : forall op r st b s, forallb cleanb st = true ->
  (step ma sc false op r st = Cont b s \/ step ma sc false op r st = Stop b s) -> forallb cleanb s = true.
Proof.
  intros op r st b s Hst H. unfold step in H. destruct (classify op); cbn [step_k] in H;
    try (destruct H as [H|H]; inversion H; subst; cbn [forallb cleanb]; exact Hst);
    try (destruct H as [H|H]; discriminate).
  - destruct (read_int4 r) as [[i r']|e]; destruct H as [H|H]; inversion H; subst. exact Hst.
  - destruct (read_bstr r) as [[x r']|e]; [|destruct H as [H|H]; discriminate].
    destruct (pyint x); destruct H as [H|H]; inversion H; subst. exact Hst.
  - destruct (read 8 r) as [[x r']|e]; destruct H as [H|H]; inversion H; subst. exact Hst.
  - destruct (read 16 r) as [[x r']|e]; destruct H as [H|H]; inversion H; subst. exact Hst.
  - destruct (read_bstr r) as [[x r']|e]; destruct H as [H|H]; inversion H; subst. exact Hst.
  - destruct (read_bstr r) as [[x r']|e]; [|destruct H as [H|H]; discriminate].
    destruct (py3str_as_py2str sc); [destruct H as [H|H]; inversion H; subst; exact Hst|].
    unfold push_str in H. destruct (utf8_dec x); destruct H as [H|H]; inversion H; subst. exact Hst.
  - destruct (read_bstr r) as [[x r']|e]; [|destruct H as [H|H]; discriminate].
    destruct (py2str_as_py3str sc); destruct H as [H|H]; inversion H; subst; exact Hst.
  - destruct (read_bstr r) as [[x r']|e]; [|destruct H as [H|H]; discriminate].
    unfold push_str in H. destruct (utf8_dec x); destruct H as [H|H]; inversion H; subst. exact Hst.
  - destruct (read_int4 r) as [[n r']|e]; [|destruct H as [H|H]; discriminate].
    destruct (ma <? n); destruct H as [H|H]; inversion H; subst. cbn [forallb cleanb].
    rewrite forallb_repeat by reflexivity. exact Hst.
  - destruct H as [H|H]; [|exfalso; eapply setitem_not_stop; eauto].
    unfold setitem in H. destruct st as [|v [|k [|tgt rest]]]; try discriminate.
    cbn [forallb] in Hst. apply andb_true_iff in Hst. destruct Hst as [Hv Hst].
    apply andb_true_iff in Hst. destruct Hst as [Hk Hst]. apply andb_true_iff in Hst. destruct Hst as [Ht Hst].
    destruct tgt; try discriminate.
    + destruct (match k with VInt i => Some i | VBool b0 => Some (if b0 then 1 else 0) | _ => None end); [|discriminate].
      destruct (_ && _); inversion H; subst. cbn [forallb cleanb]. cbn [cleanb] in Ht. rewrite set_nth_clean by assumption. exact Hst.
    + destruct (hashable k); inversion H; subst. cbn [forallb cleanb]. cbn [cleanb] in Ht. rewrite dict_set_clean by assumption. exact Hst.
  - destruct H as [H|H]; [|exfalso; eapply collection_not_stop; eauto].
    eapply collection_clean; [|exact Hst|exact H]. intros l v Hl M. inversion M; subst. exact Hl.
  - destruct H as [H|H]; [|exfalso; eapply collection_not_stop; eauto].
    eapply collection_clean; [|exact Hst|exact H]. intros l v Hl M. cbn beta in M. destruct (forallb hashable l); [|discriminate]. inversion M; subst v. cbn [cleanb]. apply set_of_list_clean. exact Hl.
  - destruct H as [H|H]; [|exfalso; eapply collection_not_stop; eauto].
    eapply collection_clean; [|exact Hst|exact H]. intros l v Hl M. cbn beta in M. destruct (forallb hashable l); [|discriminate]. inversion M; subst v. cbn [cleanb]. apply set_of_list_clean. exact Hl.
  - destruct (read_int4 r) as [[n r']|e]; destruct H as [H|H]; discriminate.
Qed.

(* C13: whatever the bytes, a value returned by loads() (no channel factory) contains only the
   supported builtin types -- no channel object, no foreign object *)
Theorem run_clean : forall f bs st v r, forallb cleanb st = true -> run ma sc false f bs st = Ok (v, r) -> cleanb v = true.
Proof.
  induction f as [|f IH]; intros bs st v r Hst H; [discriminate|].
  destruct bs as [|op bs']; [discriminate|]. rewrite run_S in H.
  destruct (step ma sc false op bs' st) as [b s|b s|e] eqn:E; try discriminate.
  - eapply IH; [|exact H]. eapply step_clean; [exact Hst|left; exact E].
  - assert (Hs : forallb cleanb s = true) by (eapply step_clean; [exact Hst|right; exact E]).
    destruct s as [|x [|y s']]; try discriminate. inversion H; subst. cbn in Hs. apply andb_true_iff in Hs. tauto.
Qed.
End Clean.
