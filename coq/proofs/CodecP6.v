(* the saver rejects everything outside the supported grammar with DumpError *)
From Coq Require Import ZArith List Bool Lia.
Import ListNotations.
Require Import EV.model.Value EV.model.Frame EV.model.CodecSpec EV.model.Utf8 EV.model.Decimal EV.model.Ser.
Require Import EV.proofs.CodecP3.
Open Scope Z_scope.

(* some leaf, at any depth, is an object of another type or a string that is not UTF-8 encodable *)
Fixpoint unsupported (v : value) : bool :=
  match v with
  | VOther _ => true
  | VStr c => negb (forallb scalar c)
  | VList l | VTuple l | VSet l | VFrozenset l => existsb unsupported l
  | VDict d => existsb (fun kv => unsupported (fst kv) || unsupported (snd kv)) d
  | _ => false
  end.
Fixpoint chan_free (v : value) : bool :=
  match v with
  | VChannel _ => false
  | VList l | VTuple l | VSet l | VFrozenset l => forallb chan_free l
  | VDict d => forallb (fun kv => chan_free (fst kv) && chan_free (snd kv)) d
  | _ => true
  end.

Lemma write_len_err : forall n e, write_len n = Err e -> e = DumpError.
Proof.
  intros n e H. unfold write_len, write_int4 in H. destruct (INT_MAX <? Z.of_nat n); [inversion H; reflexivity|].
  destruct (Z.of_nat n <? INT_MIN) eqn:E; [|discriminate]. apply Z.ltb_lt in E. unfold INT_MIN in E. lia.
Qed.
Lemma write_bseq_err : forall b e, write_bseq b = Err e -> e = DumpError.
Proof. intros b e H. unfold write_bseq in H. destruct (write_len (length b)) eqn:E; cbn in H; [discriminate|]. inversion H; subst. eapply write_len_err; eauto. Qed.
Lemma save_int_err : forall z e, save_int true z = Err e -> e = DumpError.
Proof.
  intros z e H. unfold save_int in H. cbn [negb orb] in H.
  destruct ((z <=? INT_MAX) && (INT_MIN <=? z)) eqn:R.
  - apply andb_true_iff in R. destruct R as [R1 R2]. apply Z.leb_le in R1. apply Z.leb_le in R2.
    unfold write_int4 in H. replace (INT_MAX <? z) with false in H by (symmetry; apply Z.ltb_ge; lia).
    replace (z <? INT_MIN) with false in H by (symmetry; apply Z.ltb_ge; lia). discriminate.
  - destruct (write_bseq (to_dec z)) eqn:E; cbn in H; [discriminate|]. inversion H; subst. eapply write_bseq_err; eauto.
Qed.

Lemma sequence_err : forall {A B} (f : A -> res B) l e, sequence (map f l) = Err e -> exists x, In x l /\ f x = Err e.
Proof.
  intros A B f l e. induction l as [|x l IH]; intro H; [discriminate|]. cbn in H.
  destruct (f x) eqn:E; cbn in H.
  - destruct (sequence (map f l)) eqn:S; cbn in H; [discriminate|]. inversion H; subst.
    destruct (IH eq_refl) as [y [Y1 Y2]]. exists y. split; [right; exact Y1|exact Y2].
  - inversion H; subst. exists x. split; [left; reflexivity|exact E].
Qed.
Lemma sequence_ok_all : forall {A B} (f : A -> res B) l bl, sequence (map f l) = Ok bl -> forall x, In x l -> exists b, f x = Ok b.
Proof.
  intros A B f l. induction l as [|y l IH]; intros bl H x Hx; [destruct Hx|]. cbn in H.
  destruct (f y) eqn:E; cbn in H; [|discriminate]. destruct (sequence (map f l)) eqn:S; cbn in H; [|discriminate].
  destruct Hx as [Hx|Hx]; [subst; eauto|]. eapply IH; eauto.
Qed.

Lemma index_items_err : forall bl i e,
  sequence (map (fun '(i, b) => bind (save_int true i) (fun bi => Ok (bi ++ b ++ [OP_SETITEM]))) (with_index i bl)) = Err e -> e = DumpError.
Proof.
  intros bl i e H. apply sequence_err in H. destruct H as [[j b] [_ H]]. cbn in H.
  destruct (save_int true j) eqn:E; cbn in H; [discriminate|]. inversion H; subst. eapply save_int_err; eauto.
Qed.

Lemma save_err_dump : forall v e, chan_free v = true -> save true v = Err e -> e = DumpError.
Proof.
  induction v using value_ind2; intros e C S; cbn [save chan_free] in *; try discriminate.
  - eapply save_int_err; eauto.
  - destruct (write_bseq b) eqn:E; cbn in S; [discriminate|]. inversion S; subst. eapply write_bseq_err; eauto.
  - destruct (utf8_enc c); [|inversion S; reflexivity].
    destruct (write_bseq l) eqn:E; cbn in S; [discriminate|]. inversion S; subst. eapply write_bseq_err; eauto.
  - destruct (write_len (length l)) eqn:E; cbn [bind] in S; [|inversion S; subst; eapply write_len_err; eauto].
    destruct (sequence (map (save true) l)) eqn:Q; cbn [bind] in S.
    + destruct (sequence _) eqn:Q2 in S; cbn [bind] in S; [discriminate|]. inversion S; subst. eapply index_items_err; eauto.
    + inversion S; subst. apply sequence_err in Q. destruct Q as [x [X1 X2]].
      rewrite Forall_forall in H. rewrite forallb_forall in C. eapply H; eauto.
  - destruct (sequence (map (save true) l)) eqn:Q; cbn [bind] in S.
    + destruct (write_len (length l)) eqn:E; cbn [bind] in S; [discriminate|]. inversion S; subst. eapply write_len_err; eauto.
    + inversion S; subst. apply sequence_err in Q. destruct Q as [x [X1 X2]].
      rewrite Forall_forall in H. rewrite forallb_forall in C. eapply H; eauto.
  - destruct (sequence _) eqn:Q in S; cbn [bind] in S; [discriminate|]. inversion S; subst.
    apply sequence_err in Q. destruct Q as [[k x] [X1 X2]].
    rewrite Forall_forall in H. rewrite forallb_forall in C. specialize (H _ X1). specialize (C _ X1). cbn [fst snd] in *.
    apply andb_true_iff in C. destruct C as [Ck Cx]. destruct H as [Hk Hx].
    destruct (save true k) eqn:Ek; cbn [bind] in X2.
    + destruct (save true x) eqn:Ex; cbn [bind] in X2; [discriminate|]. inversion X2; subst. eapply Hx; eauto.
    + inversion X2; subst. eapply Hk; eauto.
  - destruct (sequence (map (save true) l)) eqn:Q; cbn [bind] in S.
    + destruct (write_len (length l)) eqn:E; cbn [bind] in S; [discriminate|]. inversion S; subst. eapply write_len_err; eauto.
    + inversion S; subst. apply sequence_err in Q. destruct Q as [x [X1 X2]].
      rewrite Forall_forall in H. rewrite forallb_forall in C. eapply H; eauto.
  - destruct (sequence (map (save true) l)) eqn:Q; cbn [bind] in S.
    + destruct (write_len (length l)) eqn:E; cbn [bind] in S; [discriminate|]. inversion S; subst. eapply write_len_err; eauto.
    + inversion S; subst. apply sequence_err in Q. destruct Q as [x [X1 X2]].
      rewrite Forall_forall in H. rewrite forallb_forall in C. eapply H; eauto.
  - inversion S; reflexivity.
Qed.

Lemma unsupported_not_ok : forall v b, unsupported v = true -> save true v = Ok b -> False.
Proof.
  induction v using value_ind2; intros bb U S; cbn [save unsupported] in *; try discriminate.
  - apply negb_true_iff in U. unfold utf8_enc in S. rewrite U in S. discriminate.
  - destruct (write_len (length l)); cbn [bind] in S; [|discriminate].
    destruct (sequence (map (save true) l)) eqn:Q; cbn [bind] in S; [|discriminate].
    apply existsb_exists in U. destruct U as [x [X1 X2]]. destruct (sequence_ok_all _ _ _ Q x X1) as [b Hb].
    rewrite Forall_forall in H. eapply H; eauto.
  - destruct (sequence (map (save true) l)) eqn:Q; cbn [bind] in S; [|discriminate].
    apply existsb_exists in U. destruct U as [x [X1 X2]]. destruct (sequence_ok_all _ _ _ Q x X1) as [b Hb].
    rewrite Forall_forall in H. eapply H; eauto.
  - destruct (sequence _) eqn:Q in S; cbn [bind] in S; [|discriminate].
    apply existsb_exists in U. destruct U as [[k x] [X1 X2]]. destruct (sequence_ok_all _ _ _ Q (k, x) X1) as [b Hb]. cbn in Hb.
    rewrite Forall_forall in H. specialize (H _ X1). cbn [fst snd] in *. destruct H as [Hk Hx].
    destruct (save true k) eqn:Ek; cbn [bind] in Hb; [|discriminate]. destruct (save true x) eqn:Ex; cbn [bind] in Hb; [|discriminate].
    apply orb_true_iff in X2. destruct X2 as [X2|X2]; [eapply Hk|eapply Hx]; eauto.
  - destruct (sequence (map (save true) l)) eqn:Q; cbn [bind] in S; [|discriminate].
    apply existsb_exists in U. destruct U as [x [X1 X2]]. destruct (sequence_ok_all _ _ _ Q x X1) as [b Hb].
    rewrite Forall_forall in H. eapply H; eauto.
  - destruct (sequence (map (save true) l)) eqn:Q; cbn [bind] in S; [|discriminate].
    apply existsb_exists in U. destruct U as [x [X1 X2]]. destruct (sequence_ok_all _ _ _ Q x X1) as [b Hb].
    rewrite Forall_forall in H. eapply H; eauto.
Qed.

(* C01: a value with an unsupported leaf at any nesting position is rejected with DumpError *)
Theorem reject_unsupported : forall v, unsupported v = true -> chan_free v = true ->
  save true v = Err DumpError /\ dumps true v = Err DumpError /\ dumps_internal true v = Err DumpError.
Proof.
  intros v U C. assert (S : save true v = Err DumpError).
  { destruct (save true v) as [b|e] eqn:E.
    - exfalso. eapply unsupported_not_ok; eauto.
    - f_equal. eapply save_err_dump; eauto. }
  unfold dumps, dumps_internal. rewrite S. auto.
Qed.
