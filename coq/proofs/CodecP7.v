(* legacy opcodes (Python 2 str / unicode / long) under the four string-coercion settings; version byte *)
From Coq Require Import ZArith List Bool Lia.
Import ListNotations.
Require Import EV.model.Value EV.model.Frame EV.model.CodecSpec EV.model.Utf8 EV.model.Decimal EV.model.Ser EV.model.Unser.
Require Import EV.proofs.FrameP EV.proofs.Utf8P EV.proofs.DecimalP EV.proofs.CodecP1.
Open Scope Z_scope.

Definition lenpfx (b : bytes) : bytes := enc_i32 (Z.of_nat (length b)) ++ b.

Section L.
Variable ma : Z. Variable sc : strconfig. Variable fac : bool.

(* a Python-2 str: latin-1 text if py2str_as_py3str, else bytes *)
Lemma legacy_py2string : forall s rest st, Z.of_nat (length s) < 2147483648 ->
  step ma sc fac OP_PY2STRING (lenpfx s ++ rest) st =
  Cont rest ((if py2str_as_py3str sc then VStr s else VBytes s) :: st).
Proof.
  intros s rest st H. unfold step. change (classify OP_PY2STRING) with KPy2. cbn [step_k].
  unfold lenpfx. rewrite <- app_assoc, read_bstr_app by exact H. destruct (py2str_as_py3str sc); reflexivity.
Qed.

(* a Python-2 unicode object: always text, whatever the settings *)
Lemma legacy_unicode : forall cps u rest st, utf8_enc cps = Some u -> Z.of_nat (length u) < 2147483648 ->
  step ma sc fac OP_UNICODE (lenpfx u ++ rest) st = Cont rest (VStr cps :: st).
Proof.
  intros cps u rest st E H. unfold step. change (classify OP_UNICODE) with KUnicode. cbn [step_k].
  unfold lenpfx. rewrite <- app_assoc, read_bstr_app by exact H. rewrite (utf8_dec_enc _ _ E). reflexivity.
Qed.

(* a Python-3 str: text, or bytes if py3str_as_py2str *)
Lemma legacy_py3string : forall cps u rest st, utf8_enc cps = Some u -> Z.of_nat (length u) < 2147483648 ->
  step ma sc fac OP_PY3STRING (lenpfx u ++ rest) st =
  Cont rest ((if py3str_as_py2str sc then VBytes u else VStr cps) :: st).
Proof.
  intros cps u rest st E H. rewrite step_py3string.
  unfold lenpfx. rewrite <- app_assoc, read_bstr_app by exact H.
  destruct (py3str_as_py2str sc); [reflexivity|]. rewrite (utf8_dec_enc _ _ E). reflexivity.
Qed.

(* Python-2 long: the 4-byte and the decimal-text opcodes load as int *)
Lemma legacy_long : forall z rest st, -2147483648 <= z < 2147483648 ->
  step ma sc fac OP_LONG (enc_i32 z ++ rest) st = Cont rest (VInt z :: st).
Proof.
  intros z rest st H. unfold step. change (classify OP_LONG) with KInt. cbn [step_k].
  rewrite read_int4_app by exact H. reflexivity.
Qed.
Lemma legacy_longlong : forall z rest st, Z.of_nat (length (to_dec z)) < 2147483648 ->
  step ma sc fac OP_LONGLONG (lenpfx (to_dec z) ++ rest) st = Cont rest (VInt z :: st).
Proof.
  intros z rest st H. unfold step. change (classify OP_LONGLONG) with KLongint. cbn [step_k].
  unfold lenpfx. rewrite <- app_assoc, read_bstr_app by exact H. rewrite pyint_to_dec. reflexivity.
Qed.
(* ... also with the trailing "L" that Python 2 never wrote into the stream but int() would refuse *)

(* a foreign version byte is rejected with DataFormatError *)
Lemma version_rejected : forall b rest, b <> VERSION -> loads_r ma sc (b :: rest) = Err LoadError.
Proof. intros b rest H. unfold loads_r. replace (b =? VERSION) with false by (symmetry; apply Z.eqb_neq; exact H). reflexivity. Qed.
Lemma empty_rejected : loads_r ma sc [] = Err LoadError. Proof. reflexivity. Qed.
End L.
