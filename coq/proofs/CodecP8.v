(* records are self-delimiting: load stops exactly at its STOP; streams of records *)
From Coq Require Import ZArith List Bool Lia.
Import ListNotations.
Require Import EV.model.Value EV.model.Frame EV.model.CodecSpec EV.model.Utf8 EV.model.Decimal EV.model.Ser EV.model.Unser EV.model.Stream.
Require Import EV.proofs.CodecP1 EV.proofs.CodecP2 EV.proofs.CodecP3 EV.proofs.CodecP4.
Open Scope Z_scope.

Section StreamP.
Variable ma : Z. Variable sc : strconfig.
Hypothesis Hsc : py3str_as_py2str sc = false.
Hypothesis Hma : 2147483647 <= ma.

Lemma load_internal_of_pushes_rest : forall fac b v rest, pushes ma sc fac b v ->
  load_internal ma sc fac (b ++ OP_STOP :: rest) = Ok (v, rest).
Proof.
  intros fac b v rest P. unfold load_internal.
  destruct (P (OP_STOP :: rest) []) as [n E].
  rewrite (run_fuel ma sc fac (S (length (b ++ OP_STOP :: rest))) (n + S (length (b ++ OP_STOP :: rest))) (b ++ OP_STOP :: rest) []) by lia.
  rewrite E. rewrite run_S, step_stop. reflexivity.
Qed.

(* whatever follows the record in the stream is left untouched, byte for byte *)
Theorem loads_dumps_rest : forall v, wfb false v = true ->
  exists b, dumps true v = Ok b /\ forall rest, loads_r ma sc (b ++ rest) = Ok (v, rest).
Proof.
  intros v W.
  destruct (save_pushes ma sc false Hsc Hma false (fun H => match Bool.diff_false_true H with end) v W) as [b [S P]].
  exists (VERSION :: b ++ [OP_STOP]). split; [unfold dumps; rewrite S; reflexivity|].
  intros rest. cbn [app]. unfold loads_r. rewrite Z.eqb_refl. rewrite <- app_assoc. cbn [app].
  apply load_internal_of_pushes_rest. exact P.
Qed.

(* k dumps into one stream followed by anything: k loads give the k values back, in order, and leave exactly the trailer *)
Theorem load_stream_dump_stream : forall vs, forallb (wfb false) vs = true ->
  exists bs, dump_stream true vs = Ok bs /\ forall trailer, load_stream ma sc (length vs) (bs ++ trailer) = Ok (vs, trailer).
Proof.
  induction vs as [|v t IH]; intros W.
  - exists []. split; [reflexivity|]. intros trailer. reflexivity.
  - cbn [forallb] in W. apply andb_true_iff in W. destruct W as [Wv Wt].
    destruct (loads_dumps_rest v Wv) as [b [D L]]. destruct (IH Wt) as [bt [Dt Lt]].
    exists (b ++ bt). split.
    + cbn [dump_stream]. rewrite D, Dt. reflexivity.
    + intros trailer. cbn [length load_stream]. rewrite <- app_assoc. rewrite L. rewrite Lt. reflexivity.
Qed.
End StreamP.
