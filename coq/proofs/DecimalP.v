(* Proofs about the decimal model: int(str(z).encode('ascii')) == z, and the
   byte range / non-emptiness of the rendered text. *)
From Coq Require Import ZArith List Bool Lia.
Import ListNotations.
Require Import EV.model.Decimal.
Open Scope Z_scope.

Example to_dec_neg : to_dec (-1203) = [45; 49; 50; 48; 51].
Proof. reflexivity. Qed.
Example to_dec_zero : to_dec 0 = [48].
Proof. reflexivity. Qed.
Example pyint_ws_sign_us : pyint [32; 43; 49; 95; 50; 10] = Some 12.
Proof. reflexivity. Qed.
Example pyint_double_us : pyint [49; 95; 95; 50] = None.
Proof. reflexivity. Qed.
Example pyint_lead_us : pyint [95; 49] = None.
Proof. reflexivity. Qed.
Example pyint_trail_us : pyint [49; 95] = None.
Proof. reflexivity. Qed.
Example pyint_empty : pyint [] = None.
Proof. reflexivity. Qed.
Example pyint_only_sign : pyint [45] = None.
Proof. reflexivity. Qed.
Example pyint_only_ws : pyint [32; 10] = None.
Proof. reflexivity. Qed.
Example pyint_lead_zeros : pyint [48; 48; 55] = Some 7.
Proof. reflexivity. Qed.
Example pyint_sign_ws : pyint [45; 32; 49] = None.
Proof. reflexivity. Qed.

(* ---- proof-side vocabulary ---- *)

Definition digitP (b : Z) : Prop := 48 <= b <= 57.

(* value of a digit string read left to right starting from [a] *)
Fixpoint val (ds : list Z) (a : Z) : Z :=
  match ds with
  | [] => a
  | d :: r => val r (a * 10 + (d - 48))
  end.

Lemma is_digit_true : forall b, digitP b -> is_digit b = true.
Proof.
  unfold digitP, is_digit. intros b H.
  apply andb_true_iff. split; apply Z.leb_le; lia.
Qed.

Lemma digit_not_ws : forall b, digitP b -> is_ws b = false.
Proof.
  unfold digitP, is_ws. intros b H.
  apply orb_false_iff. split.
  - apply Z.eqb_neq. lia.
  - apply andb_false_iff. right. apply Z.leb_gt. lia.
Qed.

Lemma val_app : forall ds1 ds2 a, val (ds1 ++ ds2) a = val ds2 (val ds1 a).
Proof.
  induction ds1 as [|d ds1 IH]; intros ds2 a; cbn [app val]; [reflexivity | apply IH].
Qed.

(* ---- the parser on pure digit strings ---- *)

Lemma parse_digits_true : forall ds a, Forall digitP ds ->
  parse_digits ds a true = Some (val ds a).
Proof.
  induction ds as [|d ds IH]; intros a H; cbn [parse_digits val]; [reflexivity|].
  inversion H as [|? ? Hd Hr]; subst.
  rewrite (is_digit_true d Hd). apply IH. exact Hr.
Qed.

Lemma parse_digits_false : forall ds a, Forall digitP ds -> ds <> [] ->
  parse_digits ds a false = Some (val ds a).
Proof.
  intros [|d ds] a H Hne; [congruence|].
  inversion H as [|? ? Hd Hr]; subst.
  cbn [parse_digits val]. rewrite (is_digit_true d Hd).
  apply parse_digits_true. exact Hr.
Qed.

(* ---- the printer ---- *)

Lemma digits_aux_acc : forall f z acc, digits_aux f z acc = digits_aux f z [] ++ acc.
Proof.
  induction f as [|f IH]; intros z acc; cbn [digits_aux]; [reflexivity|].
  destruct (z <? 10); [reflexivity|].
  rewrite (IH (z / 10) (_ :: acc)), (IH (z / 10) [_]).
  rewrite <- app_assoc. reflexivity.
Qed.

Lemma digits_aux_spec : forall f z, 0 <= z < 2 ^ Z.of_nat (S f) ->
  Forall digitP (digits_aux (S f) z []) /\
  digits_aux (S f) z [] <> [] /\
  val (digits_aux (S f) z []) 0 = z.
Proof.
  induction f as [|f IH]; intros z Hz.
  - change (2 ^ Z.of_nat 1) with 2 in Hz.
    cbn [digits_aux]. replace (z <? 10) with true by (symmetry; apply Z.ltb_lt; lia).
    repeat split.
    + repeat constructor; unfold digitP; lia.
    + discriminate.
    + cbn [val]. lia.
  - rewrite Nat2Z.inj_succ, Z.pow_succ_r in Hz by lia.
    remember (S f) as g eqn:Eg.
    cbn [digits_aux]. destruct (z <? 10) eqn:E.
    + apply Z.ltb_lt in E. repeat split.
      * repeat constructor; unfold digitP; lia.
      * discriminate.
      * cbn [val]. lia.
    + apply Z.ltb_ge in E.
      assert (Hq : 0 <= z / 10 < 2 ^ Z.of_nat g) by (Z.div_mod_to_equations; lia).
      destruct (IH (z / 10) Hq) as [Hd [Hne Hv]].
      rewrite digits_aux_acc. repeat split.
      * apply Forall_app. split; [exact Hd|].
        repeat constructor; unfold digitP; Z.div_mod_to_equations; lia.
      * intros Habs. apply app_eq_nil in Habs. destruct Habs as [Habs _]. exact (Hne Habs).
      * rewrite val_app, Hv. cbn [val]. Z.div_mod_to_equations; lia.
Qed.

Lemma digits_spec : forall z, 0 <= z ->
  Forall digitP (digits z) /\ digits z <> [] /\ val (digits z) 0 = z.
Proof.
  intros z Hz. unfold digits. apply digits_aux_spec.
  rewrite Nat2Z.inj_succ, Z2Nat.id by apply Z.log2_nonneg.
  destruct (Z.eq_dec z 0) as [->|Hnz].
  - change (Z.log2 0) with 0. change (2 ^ Z.succ 0) with 2. lia.
  - pose proof (Z.log2_spec z ltac:(lia)). lia.
Qed.

(* ---- main results ---- *)

Lemma pyint_digits : forall ds, Forall digitP ds -> ds <> [] -> pyint ds = Some (val ds 0).
Proof.
  intros [|d ds] H Hne; [congruence|].
  pose proof H as H'. inversion H' as [|? ? Hd Hr]; subst.
  unfold pyint. cbn [strip_l]. rewrite (digit_not_ws d Hd).
  replace (d =? 43) with false by (symmetry; apply Z.eqb_neq; unfold digitP in Hd; lia).
  replace (d =? 45) with false by (symmetry; apply Z.eqb_neq; unfold digitP in Hd; lia).
  apply parse_digits_false; [exact H | exact Hne].
Qed.

Lemma pyint_minus : forall r, pyint (45 :: r) = option_map Z.opp (parse_digits r 0 false).
Proof. intros r. reflexivity. Qed.

Theorem pyint_to_dec : forall z, pyint (to_dec z) = Some z.
Proof.
  intros z. unfold to_dec. destruct (z <? 0) eqn:E.
  - apply Z.ltb_lt in E.
    destruct (digits_spec (- z) ltac:(lia)) as [Hd [Hne Hv]].
    rewrite pyint_minus.
    rewrite parse_digits_false by assumption. rewrite Hv.
    cbn [option_map]. f_equal. lia.
  - apply Z.ltb_ge in E.
    destruct (digits_spec z E) as [Hd [Hne Hv]].
    rewrite pyint_digits by assumption. rewrite Hv. reflexivity.
Qed.

Lemma to_dec_bytes : forall z, Forall (fun b => 0 <= b < 256) (to_dec z).
Proof.
  assert (W : forall ds, Forall digitP ds -> Forall (fun b => 0 <= b < 256) ds).
  { intros ds H. eapply Forall_impl; [|exact H]. unfold digitP. intros b Hb. cbv beta. lia. }
  intros z. unfold to_dec. destruct (z <? 0) eqn:E.
  - apply Z.ltb_lt in E. constructor; [lia|].
    apply W. apply (digits_spec (- z)). lia.
  - apply Z.ltb_ge in E. apply W. apply (digits_spec z). exact E.
Qed.

Lemma to_dec_nonempty : forall z, to_dec z <> [].
Proof.
  intros z. unfold to_dec. destruct (z <? 0) eqn:E.
  - discriminate.
  - apply Z.ltb_ge in E. apply (digits_spec z). exact E.
Qed.

Print Assumptions pyint_to_dec.
