From Coq Require Import ZArith List Bool Lia.
Import ListNotations.
Require Import EV.model.Cfg EV.model.Value EV.model.CodecSpec EV.model.Ser EV.model.Unser EV.model.Frame EV.model.E2E.
Require Import EV.proofs.FrameP EV.proofs.CodecP3 EV.proofs.CodecP4.
Open Scope Z_scope.

(* what may be sent: a channel id in the 32-bit range, a well-formed value (channels allowed inside), a payload below 2 GiB *)
Definition sendable (p : Z * value) : Prop :=
  -2147483648 <= fst p < 2147483648 /\ wfb true (snd p) = true /\
  (forall b, dumps_internal true (snd p) = Ok b -> Z.of_nat (length b) < 2147483648).

(* For every sequence of Channel.send calls (any channels, any well-formed values, any length): the bytes put on the wire,
   delivered with ANY chunking of the reads, are decoded by the receiving gateway into exactly those (channel id, value)
   pairs, in order, each value equal to what was sent with nothing left over. *)
Theorem end_to_end : forall ma sc sends, py3str_as_py2str sc = false -> 2147483647 <= ma -> Forall sendable sends ->
  exists bs, wire_of sends = Ok bs /\
    forall orc, received ma sc bs orc = map (fun p => (fst p, Ok (snd p, []))) sends.
Proof.
  intros ma sc sends Hsc Hma F.
  assert (G : exists ms, frames_of sends = Ok ms /\ Forall msg_wf ms /\
              map (fun m => (mcid m, load_internal ma sc true (mdata m))) ms = map (fun p => (fst p, Ok (snd p, []))) sends).
  { induction sends as [|[id v] r IH]; [exists []; repeat split; constructor|].
    inversion F as [|? ? [Hid [Hw Hl]] Fr]; subst. cbn [fst snd] in *.
    destruct (IH Fr) as [ms [E1 [E2 E3]]].
    destruct (loads_dumps_internal ma sc Hsc Hma v Hw) as [b [D L]].
    exists ({| mty := CHANNEL_DATA; mcid := id; mdata := b |} :: ms). cbn [frames_of]. unfold send_frame. rewrite D, E1.
    split; [reflexivity|]. split.
    - constructor; [|exact E2]. unfold msg_wf, CHANNEL_DATA. cbn [mty mcid mdata]. pose proof (Hl b D). lia.
    - cbn [map mcid mdata fst snd]. rewrite L, E3. reflexivity. }
  destruct G as [ms [E1 [E2 E3]]]. exists (concat (map enc ms)). unfold wire_of. rewrite E1. split; [reflexivity|].
  intros orc. unfold received. rewrite (decode_roundtrip ms orc E2). cbn [fst]. exact E3.
Qed.
