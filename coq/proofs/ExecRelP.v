From Coq Require Import List Bool Arith Lia.
Import ListNotations.
Require Import EV.model.ExecRel.

Definition ecfg_ok (c : ecfg) : Prop := set_on_error c = true /\ set_on_interrupt c = true.

Definition busy (m : mpc) (j : nat) : Prop := m = MRun j \/ m = MClose j \/ m = MSet j.

(* bodies are started in increasing order of arrival *)
Fixpoint ordered (l : list ev) : Prop :=
  match l with
  | [] => True
  | Started j :: r => (forall i, In (Started i) r -> i < j) /\ ordered r
  | _ :: r => ordered r
  end.

(* every deadlock report in the log was made while an EARLIER blocked body had started and not yet closed its channel
   (the log is newest first: l2 is what had happened when the report was made) *)
Definition DeadOK (p : list outcome) (l : list ev) : Prop :=
  forall l1 l2 k, l = l1 ++ Deadlock k :: l2 ->
    exists j, j < k /\ nth_error p j = Some OBlock /\ In (Started j) l2 /\ ~ In (Closed j) l2.
Lemma DeadOK_cons_other : forall p e l, (forall k, e <> Deadlock k) -> DeadOK p l -> DeadOK p (e :: l).
Proof.
  intros p e l N D l1 l2 k E. destruct l1 as [|x l1]; cbn in E; inversion E; subst; [exfalso; eapply N; eauto|]. eapply D; eauto.
Qed.
Lemma DeadOK_cons_dead : forall p k l, DeadOK p l ->
  (exists j, j < k /\ nth_error p j = Some OBlock /\ In (Started j) l /\ ~ In (Closed j) l) -> DeadOK p (Deadlock k :: l).
Proof.
  intros p k l D W l1 l2 k0 E. destruct l1 as [|x l1]; cbn in E; inversion E; subst; [exact W|]. eapply D; eauto.
Qed.

Record EInv (s : est) : Prop := {
  e_set : complete s = true -> pending s = None /\ mp s = MIdle;
  e_unset : complete s = false -> pending s <> None \/ mp s <> MIdle;
  e_busy : forall j, busy (mp s) j -> In (Started j) (log s);
  e_open : forall j, mp s = MRun j \/ mp s = MClose j -> ~ In (Closed j) (log s);
  e_mclose : forall j, mp s = MClose j -> exists o, nth_error (prog s) j = Some o /\ (o <> OBlock \/ is_released s j = true);
  e_started : forall i, In (Started i) (log s) -> i < rnext s;
  e_pend : forall j, pending s = Some j -> j < rnext s /\ (forall i, In (Started i) (log s) -> i < j) /\ mp s = MIdle;
  e_closed : forall j, In (Closed j) (log s) -> In (Started j) (log s) /\ exists o, nth_error (prog s) j = Some o /\ (o <> OBlock \/ is_released s j = true);
  e_wait : forall k, rp s = RWait k -> k = rnext s;
  e_dead : DeadOK (prog s) (log s);
  e_ord : ordered (log s)
}.

Lemma einit_inv : forall p, EInv (einit p).
Proof.
  intro p. constructor; cbn; auto; try discriminate; try (intros; contradiction);
    try (intros ? [H|[H|H]]; discriminate); try (intros ? [H|H]; discriminate).
  intros l1 l2 k E. destruct l1; discriminate.
Qed.

Ltac eproj := cbn [prog submitted rnext rp mp pending complete log released] in *.
Ltac ebrk := unfold busy in *; repeat match goal with
   | H : _ /\ _ |- _ => destruct H | H : exists _, _ |- _ => destruct H | H : _ \/ _ |- _ => destruct H end;
   subst; try discriminate; try congruence.
Ltac inj := repeat match goal with E : ?f _ = ?f _ |- _ => inversion E; subst; clear E end.
Ltac erem := match goal with |- ?G => idtac "REM:" G end.
(* try: unchanged clause; or intro + case split + use the old clauses *)
Ltac eauto_clause I :=
  try solve [ let I' := fresh in (pose proof I as I'; destruct I'; assumption)
            | intros; cbn [In] in *; ebrk; inj; let I' := fresh in (pose proof I as I'; destruct I');
              repeat split; eauto 6; try congruence; try discriminate; try lia ].

Section E.
Variable c : ecfg.
Hypothesis C : ecfg_ok c.

Lemma estep_inv : forall s l s', EInv s -> estep c s l = Some s' -> EInv s'.
Proof.
  intros s l s' I H. destruct C as [C1 C2]. destruct l; cbn [estep] in H.
  - destruct (submitted s <? length (prog s)); inversion H; subst; clear H. constructor; eproj; eauto_clause I. all: erem.
  - destruct (rp s) eqn:R; [|discriminate]. destruct (rnext s <? submitted s); inversion H; subst; clear H. constructor; eproj; eauto_clause I.
  - destruct (rp s) as [|k] eqn:R; [discriminate|]. destruct (complete s) eqn:Cp; inversion H; subst; clear H.
    destruct (e_set _ I Cp) as [Pn Mi]. pose proof (e_wait _ I k R) as Ek. subst k.
    constructor; eproj; eauto_clause I.
    + intros _. left. discriminate.
    + intros i Hi. pose proof (e_started _ I i Hi). lia.
  - destruct (rp s) as [|k] eqn:R; [discriminate|]. destruct (negb (complete s) && stuck s) eqn:G; inversion H; subst; clear H.
    apply andb_true_iff in G. destruct G as [G1 G2]. apply negb_true_iff in G1.
    pose proof (e_wait _ I k R) as Ek. subst k.
    assert (Hb : exists j, mp s = MRun j /\ nth_error (prog s) j = Some OBlock).
    { unfold stuck in G2. apply orb_true_iff in G2. destruct G2 as [G2|G2].
      - unfold blocked_body in G2. destruct (mp s) as [|j|j|j]; try discriminate. exists j.
        destruct (nth_error (prog s) j) as [[]|]; try discriminate. auto.
      - exfalso. destruct (mp s) eqn:M; try discriminate. destruct (pending s) eqn:P; try discriminate.
        destruct (e_unset _ I G1) as [X|X]; congruence. }
    destruct Hb as [j [Mj Pj]].
    constructor; eproj; eauto_clause I.
    + intros j0 B. right. apply (e_busy _ I); exact B.
    + intros j0 B [X|X]; [discriminate|]. eapply (e_open _ I); eauto.
    + intros i [X|X]; [discriminate|]. pose proof (e_started _ I i X). lia.
    + intros j0 E. destruct (e_pend _ I j0 E) as [A [B D]]. split; [lia|split; [|exact D]]. intros i [X|X]; [discriminate|auto].
    + intros j0 [X|X]; [discriminate|]. destruct (e_closed _ I j0 X) as [A B]. split; [right; exact A|exact B].
    + apply DeadOK_cons_dead; [apply (e_dead _ I)|]. exists j. split; [apply (e_started _ I); apply (e_busy _ I); left; exact Mj|].
      split; [exact Pj|]. split; [apply (e_busy _ I); left; exact Mj|]. apply (e_open _ I). left. exact Mj.
  - (* pick: the main thread takes the task *)
    destruct (mp s) eqn:M; try discriminate. destruct (pending s) as [k|] eqn:P; [|discriminate]. inversion H; subst; clear H.
    destruct (e_pend _ I k P) as [A [B _]].
    constructor; eproj; eauto_clause I.
    + intros Cp. destruct (e_set _ I Cp) as [X _]. congruence.
    + intros _. right. discriminate.
    + intros j Bz [X|X]; [discriminate|]. destruct Bz as [Bz|Bz]; inversion Bz; subst.
      destruct (e_closed _ I j X) as [Y _]. specialize (B j Y). lia.
    + intros j [X|X]; [discriminate|]. destruct (e_closed _ I j X) as [Y Z]. split; [right; exact Y|exact Z].
    + apply DeadOK_cons_other; [intros; discriminate|apply (e_dead _ I)].
  - (* finish: only a body that is not blocked *)
    destruct (mp s) as [|k|k|k] eqn:M; try discriminate. destruct (nth_error (prog s) k) as [o|] eqn:O; [|discriminate].
    destruct (match o with OBlock => negb (is_released s k) | _ => false end) eqn:G; [discriminate|].
    assert (Ob : o <> OBlock \/ is_released s k = true).
    { destruct o; try (left; discriminate). right. apply negb_false_iff in G. exact G. }
    inversion H; subst s'; clear H. constructor; eproj; eauto_clause I.
    + intros Cp. destruct (e_set _ I Cp) as [_ X]. congruence.
    + intros _. right. discriminate.
    + intros j Bz. apply (e_busy _ I). rewrite M. destruct Bz as [Bz|[Bz|Bz]]; inversion Bz; subst. left. reflexivity.
    + intros j E. destruct (e_pend _ I j E) as [_ [_ X]]. congruence.
  - (* close, then (on every exit path) set the event *)
    destruct (mp s) as [|k|k|k] eqn:M; try discriminate. inversion H; subst; clear H.
    assert (Hs : In (Started k) (log s)) by (apply (e_busy _ I); rewrite M; right; left; reflexivity).
    destruct (e_mclose _ I k M) as [o [O1 O2]].
    assert (O3 : sets c (eff o) = true) by (destruct o; cbn; auto).
    rewrite O1, O3.
    constructor; eproj; eauto_clause I.
    + intros Cp. destruct (e_set _ I Cp) as [_ X]. congruence.
    + intros _. right. discriminate.
    + intros j E. destruct (e_pend _ I j E) as [_ [_ X]]. congruence.
    + intros j [X|X].
      * inversion X; subst. split; [right; exact Hs|exists o; split; [exact O1|exact O2]].
      * destruct (e_closed _ I j X) as [Y Z]. split; [right; exact Y|exact Z].
    + apply DeadOK_cons_other; [intros; discriminate|apply (e_dead _ I)].
  - (* set the completion event *)
    destruct (mp s) as [|k|k|k] eqn:M; try discriminate. inversion H; subst; clear H.
    assert (Pn : pending s = None).
    { destruct (pending s) as [j|] eqn:P; auto. destruct (e_pend _ I j P) as [_ [_ X]]. congruence. }
    constructor; eproj; eauto_clause I.
    all: try (intros _; auto).
    all: try (intros j E; congruence).
  - (* the initiator lets a blocked body go *)
    destruct (nth_error (prog s) j) as [[]|] eqn:O; try discriminate. destruct (j <? submitted s); inversion H; subst; clear H.
    assert (Mono : forall i, is_released s i = true -> existsb (Nat.eqb i) (j :: released s) = true).
    { intros i R. cbn. unfold is_released in R. rewrite R. apply orb_true_r. }
    constructor; eproj; eauto_clause I.
    + intros j0 Mj. destruct (e_mclose _ I j0 Mj) as [o [A B]]. exists o. split; [exact A|]. destruct B as [B|B]; [left; exact B|right; unfold is_released; eproj; auto].
    + intros j0 X. destruct (e_closed _ I j0 X) as [Y [o [A B]]]. split; [exact Y|]. exists o. split; [exact A|]. destruct B as [B|B]; [left; exact B|right; unfold is_released; eproj; auto].
Qed.

Theorem erun_inv : forall ls s, EInv s -> EInv (erun c ls s).
Proof.
  induction ls as [|l ls IH]; intros s I; cbn [erun]; [exact I|].
  destruct (estep c s l) as [s'|] eqn:E; [|apply IH; exact I]. apply IH. eapply estep_inv; eauto.
Qed.

(* erun never changes the program *)
Lemma estep_prog : forall s l s', estep c s l = Some s' -> prog s' = prog s.
Proof.
  intros s l s' H. destruct l; cbn [estep] in H;
    repeat match type of H with
    | context [if ?b then _ else _] => destruct b
    | context [match ?x with _ => _ end] => destruct x
    end; inversion H; reflexivity.
Qed.

(* C14: a deadlock error is only ever reported while an EARLIER body is really still running: when request k was refused (l2 = what
   had happened until then) a blocked body j < k had been started and had not closed its channel yet -- also when that body is
   released and ends LATER, and whatever is submitted afterwards *)
Theorem no_false_deadlock : forall p ls l1 l2 k, log (erun c ls (einit p)) = l1 ++ Deadlock k :: l2 ->
  exists j, j < k /\ nth_error (prog (erun c ls (einit p))) j = Some OBlock /\ In (Started j) l2 /\ ~ In (Closed j) l2.
Proof. intros p ls l1 l2 k H. eapply (e_dead _ (erun_inv ls _ (einit_inv p))); eauto. Qed.

(* ... in particular a request handled after every earlier body has closed its channel is never refused: if all bodies started before
   the report were closed before it, there is no report *)
Corollary no_deadlock_after_all_closed : forall p ls l1 l2 k, log (erun c ls (einit p)) = l1 ++ Deadlock k :: l2 ->
  (forall j, In (Started j) l2 -> In (Closed j) l2) -> False.
Proof. intros p ls l1 l2 k H A. destruct (no_false_deadlock p ls l1 l2 k H) as [j [_ [_ [S N]]]]. apply N. apply A. exact S. Qed.

(* bodies are started by the main thread only, one at a time, in arrival order *)
Theorem started_in_order : forall p ls, ordered (log (erun c ls (einit p))).
Proof. intros. apply (e_ord _ (erun_inv ls _ (einit_inv p))). Qed.

(* while a body is running the completion event is unset: a further EXEC can only time out,
   it never disturbs the running body *)
Theorem busy_means_unset : forall p ls j, busy (mp (erun c ls (einit p))) j -> complete (erun c ls (einit p)) = false.
Proof.
  intros p ls j B. destruct (complete (erun c ls (einit p))) eqn:Cp; auto.
  destruct (e_set _ (erun_inv ls _ (einit_inv p)) Cp) as [_ M]. unfold busy in B. destruct B as [B|[B|B]]; congruence.
Qed.
End E.

(* non-vacuity: a blocked body, an overlapping request refused, the body released and closed, the next request runs *)
Example release_witness :
  let c := {| set_on_error := true; set_on_interrupt := true |} in
  let s := erun c [LSubmit; LRecvBegin; LRecvOk; LPick; LSubmit; LRecvBegin; LRecvTimeout; LRelease 0; LFinish; LClose; LSet;
                   LSubmit; LRecvBegin; LRecvOk; LPick; LFinish; LClose; LSet] (einit [OBlock; ORet; ORaise]) in
  log s = [Closed 2; Started 2; Closed 0; Deadlock 1; Started 0] /\ complete s = true.
Proof. vm_compute. split; reflexivity. Qed.


