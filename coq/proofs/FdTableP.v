From Coq Require Import List Bool Arith Lia.
Import ListNotations.
Require Import EV.model.FdTable.

Lemma get_set_eq : forall t fd v, get_fd (set_fd t fd v) fd = v.
Proof. intros t fd; revert t; induction fd as [|k IH]; intros [|x r] v; cbn; auto; apply IH. Qed.
Lemma get_set_ne : forall t fd fd' v, fd <> fd' -> get_fd (set_fd t fd v) fd' = get_fd t fd'.
Proof.
  intros t fd; revert t; induction fd as [|k IH]; intros [|x r] fd' v NE; destruct fd' as [|k']; cbn; auto; try congruence.
  - destruct k'; reflexivity.
  - unfold get_fd in IH. rewrite IH by congruence. destruct k'; reflexivity.
  - unfold get_fd in IH. apply IH. congruence.
Qed.
Lemma lowest_free_free : forall t, get_fd t (lowest_free t) = None.
Proof. induction t as [|[d|] r IH]; cbn; auto. Qed.
Lemma lowest_free_min : forall t n, n < lowest_free t -> get_fd t n <> None.
Proof. induction t as [|[d|] r IH]; intros n L; cbn in *; try lia. destruct n; cbn; [discriminate|]. apply IH. lia. Qed.

(* whatever else is open: if fds 0 and 1 are the protocol pipe ends before init_popen_io, then afterwards fd 0 and 1 are
   /dev/null, the two saved descriptors (on which the IO object is built) are the pipe ends and differ from 0, 1, 2-as-given,
   and every other descriptor that was open is what it was *)
Theorem init_popen_io_isolates : forall t, get_fd t 0 = Some PipeIn -> get_fd t 1 = Some PipeOut ->
  (forall fd, get_fd t fd = Some PipeOut -> fd = 1) ->
  let '(t', e) := run canon_ops t in
  get_fd t' 0 = Some NullR /\ get_fd t' 1 = Some NullW /\
  get_fd t' (e 0) = Some PipeIn /\ get_fd t' (e 1) = Some PipeOut /\
  2 <= e 0 /\ 2 <= e 1 /\ e 0 <> e 1 /\
  (forall fd d, get_fd t fd = Some d -> 2 <= fd -> get_fd t' fd = Some d) /\
  (forall fd, get_fd t' fd = Some PipeOut -> fd = e 1) .
Proof.
  intros t H0 H1 Honly. unfold run, canon_ops. cbn [fold_left step ev bind Nat.eqb].
  set (a := lowest_free t).
  assert (Ha : 2 <= a).
  { destruct (le_lt_dec 2 a) as [|L]; auto. exfalso. assert (a = 0 \/ a = 1) as [E|E] by lia;
    [pose proof (lowest_free_free t) as F; fold a in F; rewrite E in F; congruence|pose proof (lowest_free_free t) as F; fold a in F; rewrite E in F; congruence]. }
  set (t1 := set_fd t a (get_fd t 0)).
  set (n1 := lowest_free t1).
  set (t2 := set_fd t1 n1 (Some NullR)).
  assert (G10 : get_fd t1 0 = Some PipeIn) by (unfold t1; rewrite get_set_ne by lia; exact H0).
  assert (G11 : get_fd t1 1 = Some PipeOut) by (unfold t1; rewrite get_set_ne by lia; exact H1).
  assert (G1a : get_fd t1 a = Some PipeIn) by (unfold t1; rewrite get_set_eq; exact H0).
  assert (Hn1 : 2 <= n1 /\ n1 <> a).
  { pose proof (lowest_free_free t1) as F. fold n1 in F. split.
    - destruct (le_lt_dec 2 n1) as [|L]; auto. exfalso. assert (n1 = 0 \/ n1 = 1) as [E|E] by lia; rewrite E in F; congruence.
    - intro E. rewrite E in F. congruence. }
  destruct Hn1 as [Hn1 Hn1a].
  set (t3 := set_fd t2 0 (get_fd t2 n1)).
  set (t4 := set_fd t3 n1 None).
  assert (G4 : forall fd, fd <> 0 -> fd <> n1 -> get_fd t4 fd = get_fd t1 fd).
  { intros fd A B. unfold t4, t3, t2. rewrite get_set_ne by congruence. rewrite get_set_ne by congruence. rewrite get_set_ne by congruence. reflexivity. }
  assert (G40 : get_fd t4 0 = Some NullR).
  { unfold t4. rewrite get_set_ne by lia. unfold t3. rewrite get_set_eq. unfold t2. rewrite get_set_eq. reflexivity. }
  assert (G4n : get_fd t4 n1 = None) by (unfold t4; apply get_set_eq).
  set (b := lowest_free t4).
  assert (Hb : 2 <= b /\ b <> a).
  { pose proof (lowest_free_free t4) as F. fold b in F. split.
    - destruct (le_lt_dec 2 b) as [|L]; auto. exfalso. assert (b = 0 \/ b = 1) as [E|E] by lia; rewrite E in F; [congruence|].
      rewrite G4 in F by lia. congruence.
    - intro E. rewrite E in F. rewrite G4 in F by lia. congruence. }
  destruct Hb as [Hb Hba].
  set (t5 := set_fd t4 b (get_fd t4 1)).
  assert (G41 : get_fd t4 1 = Some PipeOut) by (rewrite G4 by lia; exact G11).
  set (n2 := lowest_free t5).
  set (t6 := set_fd t5 n2 (Some NullW)).
  assert (G5 : forall fd, fd <> b -> get_fd t5 fd = get_fd t4 fd) by (intros; unfold t5; apply get_set_ne; congruence).
  assert (G5b : get_fd t5 b = Some PipeOut) by (unfold t5; rewrite get_set_eq; exact G41).
  assert (Hn2 : 2 <= n2 /\ n2 <> a /\ n2 <> b).
  { pose proof (lowest_free_free t5) as F. fold n2 in F. repeat split.
    - destruct (le_lt_dec 2 n2) as [|L]; auto. exfalso. assert (n2 = 0 \/ n2 = 1) as [E|E] by lia; rewrite E in F; rewrite G5 in F by lia; congruence.
    - intro E. rewrite E in F. rewrite G5 in F by congruence. rewrite G4 in F by lia. congruence.
    - intro E. rewrite E in F. congruence. }
  destruct Hn2 as [Hn2 [Hn2a Hn2b]].
  set (t7 := set_fd t6 1 (get_fd t6 n2)).
  set (t8 := set_fd t7 n2 None).
  assert (G8 : forall fd, fd <> 1 -> fd <> n2 -> get_fd t8 fd = get_fd t5 fd).
  { intros fd A B. unfold t8, t7, t6. rewrite !get_set_ne by congruence. reflexivity. }
  change (bind (bind (bind (bind (fun _ : nat => 0) 0 a) 2 n1) 1 b) 2 n2 0) with a.
  change (bind (bind (bind (bind (fun _ : nat => 0) 0 a) 2 n1) 1 b) 2 n2 1) with b.
  change (bind (bind (bind (bind (fun _ : nat => 0) 0 a) 2 n1) 1 b) 2 n2 2) with n2.
  change (bind (bind (fun _ : nat => 0) 0 a) 2 n1 2) with n1.
  fold t1 n1 t2 t3 t4 b t5 n2 t6 t7 t8.
  repeat split; auto.
  - rewrite G8 by lia. rewrite G5 by lia. exact G40.
  - unfold t8. rewrite get_set_ne by lia. unfold t7. rewrite get_set_eq. unfold t6. rewrite get_set_eq. reflexivity.
  - rewrite G8 by lia. rewrite G5 by congruence. rewrite G4 by lia. exact G1a.
  - rewrite G8 by lia. exact G5b.
  - intros fd d Hd L.
    assert (fd <> a) by (intro E; subst fd; pose proof (lowest_free_free t) as F; fold a in F; congruence).
    assert (T1 : get_fd t1 fd = Some d) by (unfold t1; rewrite get_set_ne by congruence; exact Hd).
    assert (fd <> n1) by (intro E; subst fd; pose proof (lowest_free_free t1) as F; fold n1 in F; congruence).
    assert (T4 : get_fd t4 fd = Some d) by (rewrite G4 by lia; exact T1).
    assert (fd <> b) by (intro E; subst fd; pose proof (lowest_free_free t4) as F; fold b in F; congruence).
    assert (T5 : get_fd t5 fd = Some d) by (rewrite G5 by congruence; exact T4).
    assert (fd <> n2) by (intro E; subst fd; pose proof (lowest_free_free t5) as F; fold n2 in F; congruence).
    rewrite G8 by lia. exact T5.
  - intros fd Hf. destruct (Nat.eq_dec fd b) as [|NB]; auto. exfalso.
    destruct (Nat.eq_dec fd 1) as [E1|N1].
    { subst fd. unfold t8 in Hf. rewrite get_set_ne in Hf by lia. unfold t7 in Hf. rewrite get_set_eq in Hf. unfold t6 in Hf. rewrite get_set_eq in Hf. discriminate. }
    destruct (Nat.eq_dec fd n2) as [E2|N2].
    { subst fd. unfold t8 in Hf. rewrite get_set_eq in Hf. discriminate. }
    rewrite G8 in Hf by assumption. rewrite G5 in Hf by assumption.
    destruct (Nat.eq_dec fd 0) as [E0|N0]; [subst fd; congruence|].
    destruct (Nat.eq_dec fd n1) as [E3|N3]; [subst fd; congruence|].
    rewrite G4 in Hf by assumption. unfold t1 in Hf.
    destruct (Nat.eq_dec fd a) as [E4|N4]; [subst fd; rewrite get_set_eq in Hf; congruence|].
    rewrite get_set_ne in Hf by congruence. apply Honly in Hf. contradiction.
Qed.
