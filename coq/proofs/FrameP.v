From Coq Require Import ZArith List Bool Lia.
Import ListNotations.
Require Import EV.model.Frame.
Open Scope Z_scope.

Lemma de32_be32 : forall u, 0 <= u < 4294967296 -> de32 (be32 u) = u.
Proof. intros u H. unfold de32, be32. Z.div_mod_to_equations. lia. Qed.

Lemma be32_bytes : forall u, 0 <= u < 4294967296 -> Forall byte_ok (be32 u).
Proof. intros u H. unfold be32, byte_ok. repeat constructor; Z.div_mod_to_equations; lia. Qed.

Lemma dec_enc_i32 : forall z, -2147483648 <= z < 2147483648 -> dec_i32 (enc_i32 z) = z.
Proof.
  intros z H. unfold dec_i32, enc_i32. rewrite de32_be32 by (apply Z.mod_pos_bound; lia).
  destruct (z mod 4294967296 <? 2147483648) eqn:E.
  - apply Z.ltb_lt in E. Z.div_mod_to_equations. lia.
  - apply Z.ltb_ge in E. Z.div_mod_to_equations. lia.
Qed.

Lemma dec_enc_i8 : forall z, -128 <= z < 128 -> dec_i8 (enc_i8 z) = z.
Proof.
  intros z H. unfold dec_i8, enc_i8.
  destruct (z mod 256 <? 128) eqn:E.
  - apply Z.ltb_lt in E. Z.div_mod_to_equations. lia.
  - apply Z.ltb_ge in E. Z.div_mod_to_equations. lia.
Qed.

Lemma enc_i32_len : forall z, length (enc_i32 z) = 4%nat. Proof. reflexivity. Qed.

(* ---------- read loop is chunking independent ---------- *)

Lemma firstn_nil_iff : forall {A} k (l : list A), firstn k l = [] -> k = O \/ l = [].
Proof. intros A k l H. destruct k; auto. destruct l; auto. discriminate. Qed.

Lemma firstn_split : forall {A} (l : list A) k n, (k <= n)%nat ->
  firstn k l ++ firstn (n - k) (skipn k l) = firstn n l.
Proof.
  intros A l. induction l as [|x l IH]; intros k n H.
  - rewrite !firstn_nil, skipn_nil, firstn_nil. reflexivity.
  - destruct k; cbn [firstn skipn app].
    + rewrite Nat.sub_0_r. reflexivity.
    + destruct n; [lia|]. cbn [firstn Nat.sub]. f_equal. apply IH. lia.
Qed.

Lemma skipn_skipn : forall {A} (l : list A) a b, skipn a (skipn b l) = skipn (a + b) l.
Proof.
  intros A l a b. revert l. induction b as [|b IH]; intro l.
  - rewrite Nat.add_0_r. reflexivity.
  - destruct l; [rewrite !skipn_nil; reflexivity|]. rewrite Nat.add_succ_r. cbn [skipn]. apply IH.
Qed.

Lemma read_exact_ok : forall fuel need s, (need <= fuel)%nat -> (need <= length (avail s))%nat ->
  exists o', read_exact fuel need s = Some (firstn need (avail s), {| avail := skipn need (avail s); oracle := o' |}).
Proof.
  induction fuel as [|f IH]; intros need s Hf Ha.
  - assert (need = O) by lia. subst. cbn. destruct s as [a o]. exists o. reflexivity.
  - destruct need as [|n].
    + cbn. destruct s as [a o]. exists o. reflexivity.
    + cbn [read_exact].
      set (k := match oracle s with [] => S n | o :: _ => Z.to_nat (Z.max 1 (Z.min o (Z.of_nat (S n)))) end).
      assert (Hk : (1 <= k <= S n)%nat) by (unfold k; destruct (oracle s); lia).
      clearbody k.
      assert (Hl : length (firstn k (avail s)) = k) by (rewrite firstn_length; lia).
      destruct (firstn k (avail s)) as [|d ds] eqn:D.
      * cbn in Hl. lia.
      * rewrite <- D in *. rewrite Hl.
        destruct (IH (S n - k)%nat {| avail := skipn k (avail s); oracle := tl (oracle s) |}) as [o' E].
        { lia. } { cbn [avail]. rewrite skipn_length. lia. }
        rewrite E. cbn [avail]. exists o'. f_equal. f_equal.
        -- apply firstn_split. lia.
        -- f_equal. rewrite skipn_skipn. f_equal. lia.
Qed.

Lemma read_exact_eof : forall fuel need s, (need <= fuel)%nat -> (length (avail s) < need)%nat ->
  read_exact fuel need s = None.
Proof.
  induction fuel as [|f IH]; intros need s Hf Ha; [lia|].
  destruct need as [|n]; [lia|]. cbn [read_exact].
  set (k := match oracle s with [] => S n | o :: _ => Z.to_nat (Z.max 1 (Z.min o (Z.of_nat (S n)))) end).
  assert (Hk : (1 <= k <= S n)%nat) by (unfold k; destruct (oracle s); lia).
  clearbody k.
  destruct (firstn k (avail s)) as [|d ds] eqn:D; [reflexivity|].
  rewrite <- D. rewrite IH; [reflexivity| |].
  - rewrite firstn_length. assert (length (firstn k (avail s)) >= 1)%nat by (rewrite D; cbn; lia).
    rewrite firstn_length in H. lia.
  - cbn [avail]. rewrite skipn_length, firstn_length. lia.
Qed.

Lemma read_n_ok : forall n s, (n <= length (avail s))%nat ->
  exists o', read_n n s = Some (firstn n (avail s), {| avail := skipn n (avail s); oracle := o' |}).
Proof. intros. apply read_exact_ok; auto. Qed.

Lemma read_n_eof : forall n s, (length (avail s) < n)%nat -> read_n n s = None.
Proof. intros. apply read_exact_eof; auto. Qed.

(* ---------- one frame ---------- *)

Lemma firstn_app_exact : forall {A} (a b : list A), firstn (length a) (a ++ b) = a.
Proof. intros. rewrite firstn_app, Nat.sub_diag, firstn_all. cbn. apply app_nil_r. Qed.
Lemma skipn_app_exact : forall {A} (a b : list A), skipn (length a) (a ++ b) = b.
Proof. intros. rewrite skipn_app, Nat.sub_diag, skipn_all. reflexivity. Qed.

Definition header (m : msg) : bytes := enc_i8 (mty m) ++ enc_i32 (mcid m) ++ enc_i32 (Z.of_nat (length (mdata m))).
Lemma enc_header : forall m, enc m = header m ++ mdata m.
Proof. intro m. unfold enc, header. rewrite <- !app_assoc. reflexivity. Qed.
Lemma header_len : forall m, length (header m) = 9%nat. Proof. reflexivity. Qed.

Lemma from_io_frame : forall m rest o, msg_wf m ->
  exists o', from_io {| avail := enc m ++ rest; oracle := o |} = Some (m, {| avail := rest; oracle := o' |}).
Proof.
  intros [ty cid data] rest o [Hty [Hcid Hlen]]. cbn [mty mcid mdata] in *.
  unfold from_io.
  destruct (read_n_ok 9 {| avail := enc {| mty := ty; mcid := cid; mdata := data |} ++ rest; oracle := o |}) as [o1 E].
  { cbn [avail]. rewrite app_length, enc_header, app_length, header_len. lia. }
  rewrite E. clear E. cbn [avail].
  set (m := {| mty := ty; mcid := cid; mdata := data |}).
  assert (F9 : firstn 9 (enc m ++ rest) = header m).
  { rewrite enc_header, <- app_assoc. exact (firstn_app_exact (header m) (mdata m ++ rest)). }
  assert (S9 : skipn 9 (enc m ++ rest) = data ++ rest).
  { rewrite enc_header, <- app_assoc. exact (skipn_app_exact (header m) (mdata m ++ rest)). }
  rewrite F9, S9.
  change (firstn 1 (header m)) with (enc_i8 ty).
  change (firstn 4 (skipn 1 (header m))) with (enc_i32 cid).
  change (skipn 5 (header m)) with (enc_i32 (Z.of_nat (length data))).
  rewrite dec_enc_i8 by lia. rewrite dec_enc_i32 by lia. rewrite dec_enc_i32 by lia.
  rewrite Nat2Z.id. cbn [avail].
  replace (Z.of_nat (length (data ++ rest)) <? Z.of_nat (length data)) with false
    by (symmetry; apply Z.ltb_ge; rewrite app_length; lia).
  destruct (read_n_ok (length data) {| avail := data ++ rest; oracle := o1 |}) as [o2 E].
  { cbn [avail]. rewrite app_length. lia. }
  rewrite E. cbn [avail]. rewrite firstn_app_exact, skipn_app_exact. exists o2. reflexivity.
Qed.

(* a strict, non-empty prefix of a frame is never delivered: from_io raises EOFError *)
Lemma from_io_partial : forall m p o, msg_wf m ->
  (length p < length (enc m))%nat -> p = firstn (length p) (enc m) ->
  from_io {| avail := p; oracle := o |} = None.
Proof.
  intros [ty cid data] p o [Hty [Hcid Hlen]] Hl Hp. cbn [mty mcid mdata] in *.
  unfold from_io.
  destruct (Nat.lt_ge_cases (length p) 9) as [H9|H9].
  - rewrite read_n_eof; [reflexivity|cbn; exact H9].
  - destruct (read_n_ok 9 {| avail := p; oracle := o |}) as [o1 E]; [cbn; lia|].
    rewrite E. clear E. cbn [avail].
    set (m := {| mty := ty; mcid := cid; mdata := data |}) in *.
    assert (Hh : firstn 9 p = header m).
    { rewrite Hp. rewrite firstn_firstn. replace (Nat.min 9 (length p)) with 9%nat by lia.
      rewrite enc_header. change 9%nat with (length (header m)). rewrite firstn_app, Nat.sub_diag, firstn_all. cbn [firstn]. apply app_nil_r. }
    rewrite Hh.
    change (firstn 1 (header m)) with (enc_i8 ty).
    change (firstn 4 (skipn 1 (header m))) with (enc_i32 cid).
    change (skipn 5 (header m)) with (enc_i32 (Z.of_nat (length data))).
    rewrite dec_enc_i32 by lia. rewrite Nat2Z.id.
    match goal with |- context [if ?c then _ else _] => destruct c end; [reflexivity|].
    rewrite read_n_eof; [reflexivity|]. cbn [avail]. rewrite skipn_length.
    rewrite enc_header, app_length, header_len in Hl. cbn [mdata m] in Hl. lia.
Qed.

Lemma enc_nonempty : forall m, exists b r, enc m = b :: r.
Proof. intro m. unfold enc, enc_i8. cbn. eauto. Qed.

(* ---------- the whole stream, any chunking, cut anywhere ---------- *)

Definition tail_ok (p : bytes) : Prop :=
  p = [] \/ exists m, msg_wf m /\ (length p < length (enc m))%nat /\ p = firstn (length p) (enc m).

Theorem decode_all_stream : forall ms fuel p o,
  Forall msg_wf ms -> tail_ok p -> (length ms < fuel)%nat ->
  decode_all fuel {| avail := concat (map enc ms) ++ p; oracle := o |} =
  (ms, match p with [] => CleanEOF | _ => TruncEOF end).
Proof.
  induction ms as [|m ms IH]; intros fuel p o Hw Hp Hf.
  - destruct fuel as [|f]; [lia|]. cbn [map concat app decode_all avail].
    destruct p as [|b p']; [reflexivity|].
    destruct Hp as [Hp|[m [Hm [Hl He]]]]; [discriminate|].
    rewrite (from_io_partial m (b :: p') o Hm Hl He). reflexivity.
  - destruct fuel as [|f]; [cbn in Hf; lia|]. inversion Hw; subst.
    cbn [map concat decode_all avail]. rewrite <- app_assoc.
    destruct (enc m ++ concat (map enc ms) ++ p) as [|x xs] eqn:EE.
    { destruct (enc_nonempty m) as [b [r Eb]]. rewrite Eb in EE. discriminate. }
    rewrite <- EE.
    destruct (from_io_frame m (concat (map enc ms) ++ p) o H1) as [o' E]. rewrite E.
    rewrite (IH f p o' H2 Hp) by (cbn in Hf; lia). reflexivity.
Qed.

Lemma length_concat_ge : forall ms, (length ms <= length (concat (map enc ms)))%nat.
Proof.
  induction ms as [|m ms IH]; cbn [map concat length]; [lia|]. rewrite app_length.
  destruct (enc_nonempty m) as [b [r E]]. rewrite E. cbn [length]. lia.
Qed.

(* C08: whatever the chunking, the peer decodes exactly the messages that were written *)
Theorem decode_roundtrip : forall ms o, Forall msg_wf ms -> decode (concat (map enc ms)) o = (ms, CleanEOF).
Proof.
  intros ms o H. unfold decode.
  rewrite <- (app_nil_r (concat (map enc ms))) at 2.
  apply (decode_all_stream ms _ [] o H); [left; reflexivity|].
  pose proof (length_concat_ge ms). lia.
Qed.

(* C04: a stream cut inside a frame delivers exactly the complete frames before the cut *)
Theorem decode_cut : forall ms m k o, Forall msg_wf ms -> msg_wf m -> (k < length (enc m))%nat ->
  decode (concat (map enc ms) ++ firstn k (enc m)) o = (ms, match k with O => CleanEOF | _ => TruncEOF end).
Proof.
  intros ms m k o H Hm Hk. unfold decode.
  rewrite (decode_all_stream ms _ (firstn k (enc m)) o H).
  - destruct k; [reflexivity|]. destruct (enc_nonempty m) as [b [r E]]. rewrite E. reflexivity.
  - right. exists m. split; [exact Hm|]. rewrite firstn_length. split; [lia|].
    f_equal. lia.
  - rewrite app_length. pose proof (length_concat_ge ms). lia.
Qed.

(* every cut position of a stream of frames has that shape *)
Lemma cut_shape : forall ms k, (k <= length (concat (map enc ms)))%nat ->
  (firstn k (concat (map enc ms)) = concat (map enc ms)) \/
  exists j m r, nth_error ms j = Some m /\ (r < length (enc m))%nat /\
     firstn k (concat (map enc ms)) = concat (map enc (firstn j ms)) ++ firstn r (enc m).
Proof.
  induction ms as [|m ms IH]; intros k Hk.
  - left. cbn in *. rewrite firstn_nil. reflexivity.
  - cbn [map concat] in *. rewrite app_length in Hk.
    destruct (Nat.lt_ge_cases k (length (enc m))) as [Hlt|Hge].
    + right. exists O, m, k. split; [reflexivity|]. split; [exact Hlt|].
      rewrite firstn_app. replace (k - length (enc m))%nat with O by lia. cbn. rewrite app_nil_r. reflexivity.
    + rewrite firstn_app. rewrite firstn_all2 by lia.
      destruct (IH (k - length (enc m))%nat) as [A|[j [m' [r [A [B C]]]]]]; [lia| |].
      * left. rewrite A. reflexivity.
      * right. exists (S j), m', r. split; [exact A|]. split; [exact B|].
        rewrite C. cbn [firstn map concat]. rewrite app_assoc. reflexivity.
Qed.

(* ---------- concurrent atomic writers ---------- *)

Definition winv (progs : list (list msg)) (s : wstate) : Prop :=
  wire s = concat (map (fun e => enc (snd e)) (sentlog s)) /\
  length (todo s) = length progs /\
  (forall t prog, nth_error progs t = Some prog ->
    exists rest, nth_error (todo s) t = Some rest /\ sent_by t (sentlog s) ++ rest = prog) /\
  (forall e, In e (sentlog s) -> (fst e < length progs)%nat).

Lemma nth_upd_eq : forall {A} (l : list A) i x, (i < length l)%nat -> nth_error (upd l i x) i = Some x.
Proof. intros A l. induction l as [|y l IH]; intros i x H; cbn in *; [lia|]. destruct i; cbn; auto. apply IH. lia. Qed.
Lemma nth_upd_ne : forall {A} (l : list A) i j x, i <> j -> nth_error (upd l i x) j = nth_error l j.
Proof.
  intros A l. induction l as [|y l IH]; intros i j x H; cbn; auto.
  destruct i, j; cbn; auto; try congruence.
Qed.
Lemma upd_length : forall {A} (l : list A) i x, length (upd l i x) = length l.
Proof. intros A l. induction l as [|y l IH]; intros i x; cbn; auto. destruct i; cbn; auto. Qed.

Lemma sent_by_snoc : forall t log t' m,
  sent_by t (log ++ [(t', m)]) = sent_by t log ++ (if Nat.eqb t' t then [m] else []).
Proof.
  intros. unfold sent_by. rewrite filter_app, map_app. cbn [filter fst]. destruct (Nat.eqb t' t); reflexivity.
Qed.

Lemma wstep_inv : forall progs s t s', winv progs s -> wstep s t = Some s' -> winv progs s'.
Proof.
  intros progs s t s' [I1 [I2 [I3 I4]]] H. unfold wstep in H.
  destruct (nth_error (todo s) t) as [[|m rest]|] eqn:N; try discriminate. inversion H; subst; clear H.
  unfold winv; cbn [wire todo sentlog]. split; [|split; [|split]].
  - rewrite map_app, concat_app. cbn. rewrite app_nil_r. rewrite I1. reflexivity.
  - rewrite upd_length. exact I2.
  - intros t' prog Hp. destruct (I3 t' prog Hp) as [r [R1 R2]].
    rewrite sent_by_snoc. destruct (Nat.eq_dec t t') as [E|E].
    + subst t'. rewrite Nat.eqb_refl. rewrite N in R1. inversion R1; subst r. exists rest. split.
      * apply nth_upd_eq. apply nth_error_Some. congruence.
      * rewrite <- app_assoc. exact R2.
    + exists r. split.
      * rewrite nth_upd_ne by exact E. exact R1.
      * replace (Nat.eqb t t') with false by (symmetry; apply Nat.eqb_neq; exact E). rewrite app_nil_r. exact R2.
  - intros e He. apply in_app_or in He. destruct He as [He|[He|[]]]; [apply I4; exact He|].
    subst e. cbn [fst]. rewrite <- I2. apply nth_error_Some. congruence.
Qed.

Lemma winit_inv : forall progs, winv progs (winit progs).
Proof.
  intro progs. unfold winv, winit; cbn. split; [reflexivity|split; [reflexivity|split]].
  - intros t prog H. exists prog. auto.
  - intros e [].
Qed.

Lemma wrun_inv : forall progs sched s, winv progs s -> winv progs (wrun sched s).
Proof.
  intros progs sched. induction sched as [|t r IH]; intros s I; cbn; [exact I|].
  destruct (wstep s t) as [s'|] eqn:E; [|apply IH; exact I]. apply IH. eapply wstep_inv; eauto.
Qed.

Lemma sent_by_in : forall t log m, In m (sent_by t log) -> In m (map snd log).
Proof.
  intros t log m H. unfold sent_by in H. apply in_map_iff in H. destruct H as [e [E1 E2]].
  apply filter_In in E2. apply in_map_iff. exists e. tauto.
Qed.

(* with atomic frame writes, under every interleaving of any number of senders, the peer decodes
   exactly the frames that were written, and each sender's frames appear in its own order *)
Theorem no_interleave : forall progs sched o,
  Forall (Forall msg_wf) progs ->
  let s := wrun sched (winit progs) in
  decode (wire s) o = (map snd (sentlog s), CleanEOF) /\
  forall t prog, nth_error progs t = Some prog ->
    exists rest, sent_by t (sentlog s) ++ rest = prog.
Proof.
  intros progs sched o Hw s.
  destruct (wrun_inv progs sched (winit progs) (winit_inv progs)) as [I1 [I2 [I3 I4]]]. fold s in I1, I2, I3, I4.
  split.
  - rewrite I1. rewrite <- map_map. apply decode_roundtrip.
    (* every logged message comes from some program *)
    rewrite Forall_forall. intros m Hm. apply in_map_iff in Hm. destruct Hm as [[t m'] [E1 E2]]. cbn in E1. subst m'.
    assert (Ht : In m (sent_by t (sentlog s))).
    { unfold sent_by. apply in_map_iff. exists (t, m). split; [reflexivity|]. apply filter_In. split; [exact E2|]. cbn. apply Nat.eqb_refl. }
    destruct (nth_error progs t) as [prog|] eqn:P.
    + destruct (I3 t prog P) as [r [_ R2]]. rewrite Forall_forall in Hw.
      specialize (Hw prog (nth_error_In _ _ P)). rewrite Forall_forall in Hw. apply Hw. rewrite <- R2. apply in_or_app. left; exact Ht.
    + exfalso. (* a thread index outside the program list never steps *)
      specialize (I4 (t, m) E2). cbn in I4. apply nth_error_None in P. lia.
  - intros t prog P. destruct (I3 t prog P) as [r [_ R2]]. eauto.
Qed.

(* why atomicity matters: two senders whose header and payload are separate appends *)
Example parts_interleave_corrupts :
  let m1 := {| mty := 4; mcid := 1; mdata := [1; 2] |} in
  let m2 := {| mty := 4; mcid := 3; mdata := [9] |} in
  let wire := part_bytes (PHeader m1) ++ part_bytes (PHeader m2) ++ part_bytes (PPayload m1) ++ part_bytes (PPayload m2) in
  fst (decode wire []) <> [m1; m2] /\ fst (decode wire []) <> [m2; m1].
Proof. vm_compute. split; intro H; discriminate. Qed.
