From Coq Require Import ZArith List Bool Lia.
Import ListNotations.
Require Import EV.model.GroupIds.
Open Scope Z_scope.

Lemma zmem_false : forall x l, zmem x l = false -> ~ In x l.
Proof.
  intros x l H I. unfold zmem in H. induction l as [|y l IH]; cbn in *; [contradiction|].
  apply orb_false_iff in H. destruct H as [H1 H2]. destruct I as [I|I].
  - subst. rewrite Z.eqb_refl in H1. discriminate.
  - auto.
Qed.

Lemma zmem_true : forall x l, zmem x l = true -> In x l.
Proof.
  intros x l H. unfold zmem in H. apply existsb_exists in H. destruct H as [y [I E]].
  apply Z.eqb_eq in E. subst. exact I.
Qed.

Lemma NoDup_snocZ : forall (l : list Z) a, NoDup l -> ~ In a l -> NoDup (l ++ [a]).
Proof.
  induction l as [|x l IH]; intros a H N; cbn.
  - constructor; [intros []|constructor].
  - inversion H; subst. constructor.
    + intro I. apply in_app_or in I. destruct I as [I|[I|[]]]; [contradiction|]. apply N. left; auto.
    + apply IH; auto. intro; apply N; right; auto.
Qed.

Lemma remove1_incl : forall x l y, In y (remove1 x l) -> In y l.
Proof.
  induction l as [|z l IH]; intros y H; cbn in *; [contradiction|].
  destruct (x =? z); [right; exact H|]. destruct H as [H|H]; [left; exact H|right; apply IH; exact H].
Qed.

Lemma NoDup_remove1 : forall x l, NoDup l -> NoDup (remove1 x l).
Proof.
  induction l as [|z l IH]; intro H; cbn; [constructor|].
  inversion H; subst. destruct (x =? z); auto. constructor; auto.
  intro I. apply remove1_incl in I. contradiction.
Qed.

(* the invariant of the correct configuration *)
Definition pc_ok (p : pc) : Prop := match p with ReadCnt _ | Checked _ => False | _ => True end.

Definition Inv (s : gstate) : Prop :=
  NoDup (gws s) /\ NoDup (handed s) /\ 0 <= counter s /\
  (forall n, In n (handed s) -> 0 <= n < counter s) /\ Forall pc_ok (thr s).

Definition cfg_ok (c : gcfg) : Prop := alloc_read_locked c = true /\ register_atomic c = true.

Lemma Forall_upd : forall {A} (P : A -> Prop) l i x, Forall P l -> P x -> Forall P (upd l i x).
Proof.
  intros A P l. induction l as [|y l IH]; intros i x H Hx; cbn; [constructor|].
  inversion H; subst. destruct i; constructor; auto.
Qed.

Lemma Forall_nth : forall {A} (P : A -> Prop) l i x, Forall P l -> nth_error l i = Some x -> P x.
Proof.
  intros A P l i x H E. apply nth_error_In in E. rewrite Forall_forall in H. auto.
Qed.

Lemma tstep_inv : forall c s t s', cfg_ok c -> Inv s -> tstep c s t = Some s' -> Inv s'.
Proof.
  intros c s t s' [CA CR] [I1 [I2 [I0 [I3 I4]]]] H. unfold tstep in H.
  destruct (nth_error (thr s) t) as [p|] eqn:N; [|discriminate].
  pose proof (Forall_nth _ _ _ _ I4 N) as Pok.
  destruct p as [[i|]| n | i | i | i | l | ]; cbn in Pok; try contradiction; try discriminate.
  - (* explicit id *)
    destruct (explicit_checked c && zmem i (gws s)); inversion H; subst; unfold Inv, set_pc; cbn;
      (split; [exact I1|split; [exact I2|split; [exact I0|split; [exact I3|apply Forall_upd; cbn; auto]]]]).
  - (* automatic id, read and increment under the lock *)
    rewrite CA in H. destruct (zmem (counter s) (gws s)) eqn:M; inversion H; subst; unfold Inv; cbn.
    + split; [exact I1|split; [exact I2|split; [lia|split; [|apply Forall_upd; cbn; auto]]]].
      intros n Hn. specialize (I3 n Hn). lia.
    + split; [exact I1|split; [|split; [lia|split; [|apply Forall_upd; cbn; auto]]]].
      * constructor; [|exact I2]. intro Hn. specialize (I3 _ Hn). lia.
      * intros n [Hn|Hn]; [lia|]. specialize (I3 n Hn). lia.
  - (* register *)
    destruct (zmem i (gws s)) eqn:M.
    + inversion H; subst; unfold Inv, set_pc; cbn.
      split; [exact I1|split; [exact I2|split; [exact I0|split; [exact I3|apply Forall_upd; cbn; auto]]]].
    + rewrite CR in H. inversion H; subst. unfold Inv; cbn.
      split; [|split; [exact I2|split; [exact I0|split; [exact I3|apply Forall_upd; cbn; auto]]]].
      apply NoDup_snocZ; [exact I1|]. apply zmem_false; exact M.
  - (* exit *)
    inversion H; subst. unfold Inv; cbn.
    split; [|split; [exact I2|split; [exact I0|split; [exact I3|apply Forall_upd; cbn; auto]]]].
    apply NoDup_remove1; exact I1.
Qed.

Lemma init_inv : forall wants, Inv (init wants).
Proof.
  intro wants. unfold Inv, init; cbn. repeat split; try constructor; try lia; try contradiction.
  induction wants; cbn; constructor; cbn; auto.
Qed.

Theorem run_inv : forall c sched s, cfg_ok c -> Inv s -> Inv (run c sched s).
Proof.
  intros c sched. induction sched as [|t r IH]; intros s C I; cbn; [exact I|].
  destruct (tstep c s t) as [s'|] eqn:E; [|apply IH; auto].
  apply IH; auto. eapply tstep_inv; eauto.
Qed.

Theorem reachable_nodup : forall c wants sched, cfg_ok c ->
  NoDup (gws (run c sched (init wants))) /\ NoDup (handed (run c sched (init wants))).
Proof.
  intros c wants sched C. destruct (run_inv c sched (init wants) C (init_inv wants)) as [A [B _]]. auto.
Qed.

(* lookup by id, by index and membership agree on a duplicate-free list *)
Lemma index_of_nth : forall l i x, NoDup l -> nth_error l i = Some x -> index_of x l = Some i.
Proof.
  induction l as [|y l IH]; intros i x ND H; [destruct i; discriminate|].
  inversion ND; subst. destruct i; cbn in *.
  - inversion H; subst. rewrite Z.eqb_refl. reflexivity.
  - destruct (x =? y) eqn:E.
    + apply Z.eqb_eq in E. subst. apply nth_error_In in H. contradiction.
    + rewrite (IH i x H3 H). reflexivity.
Qed.

Lemma index_of_some : forall l x i, index_of x l = Some i -> nth_error l i = Some x.
Proof.
  induction l as [|y l IH]; intros x i H; cbn in *; [discriminate|].
  destruct (x =? y) eqn:E.
  - inversion H; subst. apply Z.eqb_eq in E. subst. reflexivity.
  - destruct (index_of x l) as [j|] eqn:F; cbn in H; [|discriminate]. inversion H; subst. cbn. apply IH. exact F.
Qed.

Lemma index_of_in : forall l x, In x l <-> exists i, index_of x l = Some i.
Proof.
  induction l as [|y l IH]; intros x; cbn; split.
  - intros [].
  - intros [i H]. discriminate.
  - intros [H|H].
    + subst. rewrite Z.eqb_refl. eauto.
    + destruct (x =? y); [eauto|]. apply IH in H. destruct H as [i H]. rewrite H. cbn. eauto.
  - intros [i H]. destruct (x =? y) eqn:E.
    + apply Z.eqb_eq in E. left; auto.
    + right. apply IH. destruct (index_of x l) as [j|]; [eauto|discriminate].
Qed.

(* why both facts matter: with either of them false a duplicate is reachable *)
Example split_register_dup :
  gws (run {| alloc_read_locked := true; explicit_checked := true; register_atomic := false |}
           [0; 1; 0; 1; 0; 1]%nat (init [Some (-5); Some (-5)])) = [-5; -5].
Proof. vm_compute. reflexivity. Qed.

Example unlocked_read_dup :
  handed (run {| alloc_read_locked := false; explicit_checked := true; register_atomic := true |}
           [0; 1; 0; 1]%nat (init [None; None])) = [0; 0].
Proof. vm_compute. reflexivity. Qed.
