From Coq Require Import List Bool Arith Lia.
Import ListNotations.
Require Import EV.model.Ids.
Ltac rem := match goal with |- ?G => idtac "REM:" G end.

Definition icfg_ok (c : icfg) : Prop :=
  alloc_locked c = true /\ adopt_keeps_count c = true /\ step c = 2 /\ Nat.even (startA c) = false /\ Nat.even (startB c) = true.

Definition readers (l : list (option nat)) : nat := length (filter (fun p => match p with Some _ => true | None => false end) l).

(* one side: everything handed out has the side's parity, is below the counter, strictly decreasing (newest
   first); a thread between read and write holds the lock and has read the current counter *)
Record SInv (par : bool) (s : side) : Prop := {
  s_par : Nat.even (count s) = par;
  s_out : forall x, In x (out s) -> Nat.even x = par /\ x < count s;
  s_nodup : NoDup (out s);
  s_rd : forall t v, nth_error (pcs s) t = Some (Some v) -> v = count s /\ lock s = true;
  s_one : readers (pcs s) = if lock s then 1 else 0
}.

Lemma readers_upd_some l t v : nth_error l t = Some None -> readers (upd l t (Some v)) = S (readers l).
Proof. revert t; induction l as [|a l IH]; intros [|t] H; simpl in *; try discriminate.
  - injection H as ->. reflexivity.
  - unfold readers in *. simpl. destruct a; simpl; rewrite (IH t H); reflexivity. Qed.
Lemma readers_upd_none l t v : nth_error l t = Some (Some v) -> S (readers (upd l t None)) = readers l.
Proof. revert t; induction l as [|a l IH]; intros [|t] H; simpl in *; try discriminate.
  - injection H as ->. reflexivity.
  - unfold readers in *. simpl. destruct a; simpl; rewrite <- (IH t H); reflexivity. Qed.
Lemma nth_upd {A} (l : list A) t u x : nth_error (upd l t x) u = if Nat.eqb u t then (match nth_error l t with Some _ => Some x | None => None end) else nth_error l u.
Proof. revert t u; induction l as [|a l IH]; intros t u.
  - destruct t, u; simpl; try reflexivity; destruct (Nat.eqb _ _); try reflexivity; destruct u; reflexivity.
  - destruct t, u; simpl; try reflexivity. apply IH. Qed.
Lemma readers_zero l : readers l = 0 -> forall t v, nth_error l t = Some (Some v) -> False.
Proof. induction l as [|a l IH]; intros H [|t] v E; simpl in *; try discriminate.
  - injection E as ->. discriminate H.
  - unfold readers in *. simpl in H. destruct a; simpl in H; try discriminate. eapply IH; eauto. Qed.
Lemma readers_one l t v : readers l = 1 -> nth_error l t = Some (Some v) -> forall u w, nth_error l u = Some (Some w) -> u = t.
Proof. revert t; induction l as [|a l IH]; intros [|t] H E u w F; simpl in *; try discriminate.
  - injection E as ->. destruct u; auto. simpl in F. unfold readers in H. simpl in H. injection H as H. exfalso. eapply readers_zero; eauto.
  - destruct u.
    + simpl in F. injection F as ->. unfold readers in H. simpl in H. injection H as H. exfalso. eapply readers_zero; eauto.
    + simpl in F. f_equal. unfold readers in *. simpl in H. destruct a; simpl in H.
      * injection H as H. exfalso. eapply readers_zero; eauto.
      * eapply IH; eauto. Qed.

Section S.
Variable c : icfg.
Hypothesis C : icfg_ok c.

Lemma even_plus2 n : Nat.even (n + 2) = Nat.even n.
Proof. replace (n + 2) with (S (S n)) by lia. reflexivity. Qed.

Lemma sstep_inv par s l s' : SInv par s -> sstep c s l = Some s' -> SInv par s'.
Proof.
  destruct C as (CL & CA & CS & _). intros I H. destruct l as [b t|b t|b id]; simpl in H.
  - destruct (nth_error (pcs s) t) as [[v|]|] eqn:E; try discriminate. rewrite CL in H. simpl in H.
    destruct (lock s) eqn:L; try discriminate. injection H as <-.
    constructor; simpl; try apply I.
    + intros u v. rewrite nth_upd, E. destruct (Nat.eqb u t).
      * intros X. injection X as <-. auto.
      * intros X. destruct (s_rd _ _ I u v X) as [_ Y]. congruence.
    + rewrite (readers_upd_some _ _ _ E). rewrite (s_one _ _ I), L. reflexivity.
  - destruct (nth_error (pcs s) t) as [[v|]|] eqn:E; try discriminate. injection H as <-.
    destruct (s_rd _ _ I t v E) as [-> L]. rewrite CS.
    constructor; simpl.
    + rewrite even_plus2. apply I.
    + intros x [<-|X]. * split; [apply I|lia]. * destruct (s_out _ _ I x X). split; auto. lia.
    + constructor; [|apply I]. intros X. destruct (s_out _ _ I _ X). lia.
    + intros u w. rewrite nth_upd, E. destruct (Nat.eqb u t) eqn:Q; try discriminate. intros X.
      pose proof (s_one _ _ I) as O. rewrite L in O. pose proof (readers_one _ _ _ O E u w X). subst. rewrite Nat.eqb_refl in Q. discriminate.
    + pose proof (readers_upd_none _ _ _ E) as R. pose proof (s_one _ _ I) as O. rewrite L in O. lia.
  - rewrite CL, CA in H. simpl in H. destruct (lock s); try discriminate. injection H as <-. exact I.
Qed.

Definition IInv (s : ist) : Prop := SInv false (sa s) /\ SInv true (sb s).
Lemma iinit_inv na nb : IInv (iinit c na nb).
Proof.
  destruct C as (_ & _ & _ & PA & PB).
  assert (R : forall n, readers (repeat None n) = 0) by (induction n; auto).
  assert (N : forall n t v, nth_error (repeat (@None nat) n) t = Some (Some v) -> False).
  { intros n t v X. apply nth_error_In in X. apply repeat_spec in X. discriminate. }
  split; constructor; simpl; auto; try (intros t v X; exfalso; eapply N; eauto); try (intros x []); try constructor.
Qed.
Lemma istep_inv s l s' : IInv s -> istep c s l = Some s' -> IInv s'.
Proof. intros [A B] H. unfold istep in H. destruct (lab_side l).
  - destruct (sstep c (sb s) l) eqn:E; try discriminate. injection H as <-. split; simpl; auto. eapply sstep_inv; eauto.
  - destruct (sstep c (sa s) l) eqn:E; try discriminate. injection H as <-. split; simpl; auto. eapply sstep_inv; eauto. Qed.
Lemma irun_inv ls : forall s, IInv s -> IInv (irun c ls s).
Proof. induction ls as [|l r IH]; intros s I; simpl; auto. destruct (istep c s l) eqn:E; auto. apply IH. eapply istep_inv; eauto. Qed.

(* every id handed out on either side, in any interleaving of any number of allocating threads and of
   adoptions of peer ids, is distinct from every other id handed out on the same or the other side *)
Theorem ids_distinct na nb ls : NoDup (out (sa (irun c ls (iinit c na nb))) ++ out (sb (irun c ls (iinit c na nb)))).
Proof.
  destruct (irun_inv ls _ (iinit_inv na nb)) as [A B].
  set (s := irun c ls (iinit c na nb)) in *.
  assert (forall x, In x (out (sa s)) -> ~ In x (out (sb s))).
  { intros x X Y. destruct (s_out _ _ A x X) as [P _]. destruct (s_out _ _ B x Y) as [Q _]. congruence. }
  generalize (s_nodup _ _ A) (s_nodup _ _ B) H. generalize (out (sa s)) (out (sb s)).
  induction l as [|a l IH]; intros l2 N1 N2 D; simpl; auto. inversion N1; subst. constructor.
  - rewrite in_app_iff. intros [X|X]; auto. eapply D; eauto. left; auto.
  - apply IH; auto. intros x X. apply D. right; auto.
Qed.
Theorem ids_parity na nb ls : (forall x, In x (out (sa (irun c ls (iinit c na nb)))) -> Nat.even x = false) /\
                               (forall x, In x (out (sb (irun c ls (iinit c na nb)))) -> Nat.even x = true).
Proof. destruct (irun_inv ls _ (iinit_inv na nb)) as [A B]. split; intros x X; [apply (s_out _ _ A x X)|apply (s_out _ _ B x X)]. Qed.
End S.

(* what goes wrong otherwise *)
Example unlocked_duplicates : let c := {| alloc_locked := false; adopt_keeps_count := true; startA := 1; startB := 2; step := 2 |} in
  out (sa (irun c [IRead false 0; IRead false 1; IWrite false 0; IWrite false 1] (iinit c 2 0))) = [1; 1].
Proof. reflexivity. Qed.
Example adopting_bumps_collides : let c := {| alloc_locked := true; adopt_keeps_count := false; startA := 1; startB := 2; step := 2 |} in
  let s := irun c [IRead true 0; IWrite true 0; IAdopt false 2; IRead false 0; IWrite false 0; IRead true 0; IWrite true 0] (iinit c 1 1) in
  out (sa s) = [4] /\ out (sb s) = [4; 2].
Proof. split; reflexivity. Qed.
