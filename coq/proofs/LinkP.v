(* Proofs about model/Link.v: the sending side composed with the receiving machine.
   - both Chan machines keep the channel invariant CInv in every reachable state of the composed system;
   - what B's machine counts as `sent` is exactly the list of items whose send() RETURNED on A (refused or failed sends put
     nothing on the wire);
   - close is ordered after data: when B's receiver is about to handle an End frame of channel id, every item whose send()
     had returned before the first close() / __del__ of that channel BEGAN has been handled already (it is obtained or
     queued), for every interleaving of senders, closers, both receiver threads and all consumers. *)
From Coq Require Import List Bool Arith Lia.
Import ListNotations.
Require Import EV.model.Chan EV.proofs.ChanP EV.model.Link.

Ltac cproj := cbn [wire cs thr sent got lossless ends regs errs_in errs_out eofs fin alive q closed rclosed errs cb oq] in *.
Ltac fsplit j id := destruct (Nat.eq_dec j id) as [->|?Hne]; [rewrite ?fupd_eq in *|rewrite ?fupd_ne in * by assumption]; cproj.
Ltac lproj := cbn [a b pcs ret refused pre gone] in *.

Lemma split_snoc : forall {A} (l w1 w2 : list A) x y, l ++ [x] = w1 ++ y :: w2 ->
  (w2 = [] /\ l = w1 /\ x = y) \/ (exists w2', w2 = w2' ++ [x] /\ l = w1 ++ y :: w2').
Proof.
  intros A l w1 w2 x y E. induction w2 as [|z w2 _] using rev_ind.
  - left. change (w1 ++ [y]) with (w1 ++ [y]) in E. apply app_inj_tail in E. destruct E; auto.
  - right. exists w2. rewrite app_comm_cons, app_assoc in E. apply app_inj_tail in E. destruct E as [E1 E2]. subst. auto.
Qed.

Lemma witems_snoc_data : forall id w j x, length (witems id (w ++ [FData j x])) = length (witems id w) + (if Nat.eqb j id then 1 else 0).
Proof. intros. rewrite witems_app, app_length. cbn. destruct (Nat.eqb j id); cbn; lia. Qed.
Lemma witems_snoc_end : forall id w j k, witems id (w ++ [FEnd j k]) = witems id w.
Proof. intros. rewrite witems_app. cbn. apply app_nil_r. Qed.

(* a step of B's machine other than the peer's: `sent` untouched, the wire unchanged or its head removed *)
Lemma b_step_frame : forall c s l s', cstep c s l = Some s' -> b_label_ok l = true ->
  sent s' = sent s /\ (wire s' = wire s \/ exists f, wire s = f :: wire s').
Proof.
  intros c s l s' H Ok. destruct l; try discriminate; cbn in H;
  repeat match type of H with context[match ?x with _ => _ end] => destruct x eqn:?; try discriminate end;
  inversion H; subst; cbn; auto.
  all: try (split; [reflexivity|]); try (right; eexists; eassumption).
  all: try (destruct (fin s); [discriminate|]; right; eexists; eassumption).
Qed.

Lemma opt_step_inv : forall c, cfg_ok c -> forall s l, CInv s -> CInv (opt_step c s l).
Proof. intros c C s l I. unfold opt_step. destruct (cstep c s l) eqn:E; [eapply cstep_inv; eauto|exact I]. Qed.

Lemma close_tail_inv : forall s id, CInv s -> CInv (close_tail s id).
Proof.
  intros s id I. unfold close_tail. destruct I as [c_cons0 c_shape0 c_alive0 c_eof0 c_ends0 c_errs0 c_cbq0]. constructor; cproj.
  - intros j L. pose proof (c_cons0 j L) as E. fsplit j id; [|exact E]. destruct (q (cs s id)); cproj; [|exact E].
    rewrite qitems_app. cbn [qitems flat_map]. rewrite app_nil_r. exact E.
  - intros j. fsplit j id; [|auto]. pose proof (c_shape0 id) as Sh. destruct (q (cs s id)); cproj; [apply shaped_end; exact Sh|exact shaped_nil].
  - intros j Aj. fsplit j id; [discriminate|auto].
  - intros j l R Qj. fsplit j id; [|eauto]. destruct (q (cs s id)); cproj; [|discriminate]. inversion Qj; subst. rewrite qends_app. cbn. lia.
  - intros j. fsplit j id; [|auto]. pose proof (c_ends0 id) as E. unfold fires. destruct (cb (cs s id)) as [[|]|]; lia.
  - intros j. fsplit j id; auto.
  - intros j N. fsplit j id; [congruence|auto].
Qed.

Record LInv (s : lst) : Prop := {
  l_a : CInv (a s);
  l_b : CInv (b s);
  l_sent : forall id, sent (b s) id = ret s id;
  l_pc : forall t id e, nth_error (pcs s) t = Some (PClose id e) -> pre s id <> None;
  l_mono : forall id k, pre s id = Some k -> k <= length (ret s id);
  l_noend : forall id, pre s id = None -> forall f, In f (wire (b s)) -> is_end id f = false;
  l_ord : forall id k w1 kd w2, pre s id = Some k -> wire (b s) = w1 ++ FEnd id kd :: w2 -> k + length (witems id w2) <= length (ret s id)
}.

Lemma linit_inv : forall n1 n2 n3, LInv (linit n1 n2 n3).
Proof.
  intros n1 n2 n3. constructor; cbn; try apply cinit_inv; auto; try discriminate; try contradiction.
  intros t id e H. exfalso. revert t H. induction n1 as [|n1 IH]; intros [|t] H; cbn in H; try discriminate. eauto.
Qed.

Lemma nth_upd_same : forall {A} (l : list A) t x y, nth_error l t = Some y -> nth_error (upd l t x) t = Some x.
Proof. induction l as [|z l IH]; intros [|t] x y H; cbn in *; try discriminate; eauto. Qed.
Lemma nth_upd_other : forall {A} (l : list A) t u x, u <> t -> nth_error (upd l t x) u = nth_error l u.
Proof. induction l as [|z l IH]; intros [|t] [|u] x H; cbn in *; auto; try congruence. Qed.

Lemma set_pre_spec : forall p id k j, set_pre p id k j = match p j with Some v => Some v | None => if Nat.eqb j id then Some k else None end.
Proof.
  intros. unfold set_pre. destruct (p id) eqn:E.
  - destruct (p j) eqn:F; auto. destruct (Nat.eqb_spec j id); auto. subst. congruence.
  - unfold fupd. destruct (Nat.eqb_spec j id); subst; [rewrite E; reflexivity|destruct (p j); reflexivity].
Qed.

Section Steps.
Variable c : ccfg.
Hypothesis C : cfg_ok c.

(* appending an End frame of channel id0 (whose close has begun) to B's wire *)
Lemma emit_end_ok : forall s id0 k0 (b' : cst),
  LInv s -> pre s id0 <> None ->
  b' = opt_step c (b s) (LPeerEnd id0 k0) ->
  CInv b' /\ (forall id, sent b' id = ret s id) /\
  (forall id, pre s id = None -> forall f, In f (wire b') -> is_end id f = false) /\
  (forall id k w1 kd w2, pre s id = Some k -> wire b' = w1 ++ FEnd id kd :: w2 -> k + length (witems id w2) <= length (ret s id)).
Proof.
  intros s id0 k0 b' I P E. subst b'. split; [apply opt_step_inv; [exact C|apply I]|].
  unfold opt_step. cbn [cstep]. cproj. destruct I as [l_a0 l_b0 l_sent0 l_pc0 l_mono0 l_noend0 l_ord0]. split; [exact l_sent0|]. split.
  - intros id N f Hin. apply in_app_or in Hin. destruct Hin as [Hin|[<-|[]]]; [eauto|]. cbn. destruct (Nat.eqb_spec id0 id); [subst; contradiction|reflexivity].
  - intros id k w1 kd w2 Pk W. apply split_snoc in W. destruct W as [[-> [<- Ef]]|[w2' [-> W]]].
    + cbn. pose proof (l_mono0 id k Pk). lia.
    + rewrite witems_snoc_end. eauto.
Qed.

Theorem lstep_inv : forall s l s', LInv s -> lstep c s l = Some s' -> LInv s'.
Proof.
  intros s l s' I H. destruct l; cbn [lstep] in H.
  - (* KA *) destruct (a_label_ok l); [|discriminate]. destruct (cstep c (a s) l) eqn:E; [|discriminate]. inversion H; subst; clear H.
    destruct I as [l_a0 l_b0 l_sent0 l_pc0 l_mono0 l_noend0 l_ord0]. constructor; lproj; auto. exact (cstep_inv c C _ _ _ l_a0 E).
  - (* KB *) destruct (b_label_ok l) eqn:Ok; [|discriminate]. destruct (cstep c (b s) l) eqn:E; [|discriminate]. inversion H; subst; clear H.
    destruct (b_step_frame _ _ _ _ E Ok) as [Es Ew]. destruct I as [l_a0 l_b0 l_sent0 l_pc0 l_mono0 l_noend0 l_ord0]. constructor; lproj; auto.
    + exact (cstep_inv c C _ _ _ l_b0 E).
    + intros id. rewrite Es. auto.
    + intros id N f Hin. destruct Ew as [Ew|[f0 Ew]]; [rewrite Ew in Hin; eauto|]. eapply l_noend0; eauto. rewrite Ew. right. exact Hin.
    + intros id k w1 kd w2 P W. destruct Ew as [Ew|[f0 Ew]]; [rewrite Ew in W; eauto|].
      apply (l_ord0 id k (f0 :: w1) kd w2 P). rewrite Ew, W. reflexivity.
  - (* KSendBegin *) destruct (nth_error (pcs s) t) as [[| | |]|] eqn:T; try discriminate.
    destruct (held (cs (a s) id) && negb (gone s id)); [|discriminate].
    destruct (closed (cs (a s) id)); inversion H; subst; clear H; destruct I; constructor; lproj; auto.
    intros u j e U. destruct (Nat.eq_dec u t) as [->|Ne]; [erewrite nth_upd_same in U by eauto; discriminate|rewrite nth_upd_other in U by auto; eauto].
  - (* KSendEmit *) destruct (nth_error (pcs s) t) as [[|id x| |]|] eqn:T; try discriminate. inversion H; subst; clear H.
    pose proof I as I0. destruct I as [l_a0 l_b0 l_sent0 l_pc0 l_mono0 l_noend0 l_ord0]. constructor; lproj; auto.
    + apply opt_step_inv; auto.
    + intros j. unfold opt_step. cbn [cstep]. cproj. fsplit j id; [rewrite l_sent0; reflexivity|auto].
    + intros u j e U. destruct (Nat.eq_dec u t) as [->|Ne]; [erewrite nth_upd_same in U by eauto; discriminate|rewrite nth_upd_other in U by auto; eauto].
    + intros j k P. pose proof (l_mono0 j k P). fsplit j id; [rewrite app_length; cbn; lia|lia].
    + intros j N f Hin. unfold opt_step in Hin. cbn [cstep] in Hin. cproj. apply in_app_or in Hin. destruct Hin as [Hin|[<-|[]]]; [eauto|reflexivity].
    + intros j k w1 kd w2 P W. unfold opt_step in W. cbn [cstep] in W. cproj. apply split_snoc in W.
      destruct W as [[_ [_ Ef]]|[w2' [-> W]]]; [discriminate|]. pose proof (l_ord0 j k w1 kd w2' P W) as O.
      rewrite witems_snoc_data. fsplit j id; [rewrite Nat.eqb_refl, app_length; cbn; lia|]. destruct (Nat.eqb_spec id j); [congruence|lia].
  - (* KSendFail *) destruct (nth_error (pcs s) t) as [[|id x| |]|] eqn:T; try discriminate. inversion H; subst; clear H.
    destruct I as [l_a0 l_b0 l_sent0 l_pc0 l_mono0 l_noend0 l_ord0]. constructor; lproj; auto.
    intros u j e U. destruct (Nat.eq_dec u t) as [->|Ne]; [erewrite nth_upd_same in U by eauto; discriminate|rewrite nth_upd_other in U by auto; eauto].
  - (* KCloseBegin *) destruct (nth_error (pcs s) t) as [[| | |]|] eqn:T; try discriminate.
    destruct (held (cs (a s) id) && negb (gone s id)); [|discriminate].
    destruct (closed (cs (a s) id)); inversion H; subst; clear H; [exact I|]. destruct I as [l_a0 l_b0 l_sent0 l_pc0 l_mono0 l_noend0 l_ord0]. constructor; lproj; auto.
    + intros u j e' U. rewrite set_pre_spec. destruct (Nat.eq_dec u t) as [->|Ne].
      * erewrite nth_upd_same in U by eauto. inversion U; subst. destruct (pre s j); [discriminate|]. rewrite Nat.eqb_refl. discriminate.
      * rewrite nth_upd_other in U by auto. pose proof (l_pc0 u j e' U). destruct (pre s j); [discriminate|contradiction].
    + intros j k. rewrite set_pre_spec. destruct (pre s j) eqn:P; [intro E; inversion E; subst; eauto|].
      destruct (Nat.eqb_spec j id); [|discriminate]. intro E. inversion E; subst. lia.
    + intros j. rewrite set_pre_spec. destruct (pre s j) eqn:P; [discriminate|]. destruct (Nat.eqb j id); [discriminate|]. intros _. eauto.
    + intros j k w1 kd w2. rewrite set_pre_spec. destruct (pre s j) eqn:P; [intro E; inversion E; subst; eauto|].
      destruct (Nat.eqb_spec j id); [|discriminate]. subst j. intros _ W. exfalso.
      assert (Hin : In (FEnd id kd) (wire (b s))) by (rewrite W; apply in_or_app; right; left; reflexivity).
      pose proof (l_noend0 id P _ Hin) as F. cbn in F. rewrite Nat.eqb_refl in F. discriminate.
  - (* KCloseEmit *) destruct (nth_error (pcs s) t) as [[| |id e|]|] eqn:T; try discriminate. inversion H; subst; clear H.
    assert (PC : forall u j e', nth_error (upd (pcs s) t (PTail id)) u = Some (PClose j e') -> pre s j <> None).
    { intros u j e' U. destruct (Nat.eq_dec u t) as [->|Ne]; [erewrite nth_upd_same in U by eauto; discriminate|rewrite nth_upd_other in U by auto; eapply (l_pc s I); eauto]. }
    destruct (close_emits (a s) id).
    + destruct (emit_end_ok s id (if e then KCloseErr else KClose) _ I (l_pc s I t id e T) eq_refl) as [Hb [Hs [Hn Ho]]].
      destruct I as [l_a0 l_b0 l_sent0 l_pc0 l_mono0 l_noend0 l_ord0]. constructor; lproj; auto.
    + destruct I as [l_a0 l_b0 l_sent0 l_pc0 l_mono0 l_noend0 l_ord0]. constructor; lproj; auto.
  - (* KCloseTail *) destruct (nth_error (pcs s) t) as [[| | |id]|] eqn:T; try discriminate. inversion H; subst; clear H.
    destruct I as [l_a0 l_b0 l_sent0 l_pc0 l_mono0 l_noend0 l_ord0]. constructor; lproj; auto.
    + apply close_tail_inv; auto.
    + intros u j e U. destruct (Nat.eq_dec u t) as [->|Ne]; [erewrite nth_upd_same in U by eauto; discriminate|rewrite nth_upd_other in U by auto; eauto].
  - (* KDel *) destruct (held (cs (a s) id) && negb (gone s id) && negb (existsb (pc_mentions id) (pcs s)) && negb (existsb (fun p => match p with CHold j => Nat.eqb j id | _ => false end) (thr (a s)))); [|discriminate].
    inversion H; subst; clear H.
    (* first the state with pre set, then the emission *)
    set (s1 := {| a := opt_step c (a s) (LDrop id); b := b s; pcs := pcs s; ret := ret s; refused := refused s;
                  pre := set_pre (pre s) id (length (ret s id)); gone := fupd (gone s) id true |}).
    assert (I1 : LInv s1).
    { destruct I as [l_a0 l_b0 l_sent0 l_pc0 l_mono0 l_noend0 l_ord0]. constructor; unfold s1; lproj; auto.
      - apply opt_step_inv; auto.
      - intros u j e' U. rewrite set_pre_spec. pose proof (l_pc0 u j e' U). destruct (pre s j); [discriminate|contradiction].
      - intros j k. rewrite set_pre_spec. destruct (pre s j) eqn:P; [intro E; inversion E; subst; eauto|].
        destruct (Nat.eqb_spec j id); [|discriminate]. intro E. inversion E; subst. lia.
      - intros j. rewrite set_pre_spec. destruct (pre s j) eqn:P; [discriminate|]. destruct (Nat.eqb j id); [discriminate|]. intros _. eauto.
      - intros j k w1 kd w2. rewrite set_pre_spec. destruct (pre s j) eqn:P; [intro E; inversion E; subst; eauto|].
        destruct (Nat.eqb_spec j id); [|discriminate]. subst j. intros _ W. exfalso.
        assert (Hin : In (FEnd id kd) (wire (b s))) by (rewrite W; apply in_or_app; right; left; reflexivity).
        pose proof (l_noend0 id P _ Hin) as F. cbn in F. rewrite Nat.eqb_refl in F. discriminate. }
    destruct (del_emits (a s) id) as [k0|].
    + assert (P1 : pre s1 id <> None).
      { unfold s1; lproj. rewrite set_pre_spec. destruct (pre s id); [discriminate|]. rewrite Nat.eqb_refl. discriminate. }
      destruct (emit_end_ok s1 id k0 _ I1 P1 eq_refl) as [Hb [Hs [Hn Ho]]].
      destruct I1 as [l_a0 l_b0 l_sent0 l_pc0 l_mono0 l_noend0 l_ord0]. unfold s1 in *. constructor; lproj; auto.
    + exact I1.
Qed.

Theorem lrun_inv : forall ls s, LInv s -> LInv (lrun c ls s).
Proof.
  induction ls as [|l ls IH]; intros s I; cbn [lrun]; [exact I|].
  destruct (lstep c s l) eqn:E; [apply IH; eapply lstep_inv; eauto|apply IH; exact I].
Qed.
End Steps.

Section Props.
Variable c : ccfg.
Hypothesis C : cfg_ok c.
Variables n1 n2 n3 : nat. Variable ls : list llab.
Let s := lrun c ls (linit n1 n2 n3).
Let I : LInv s := lrun_inv c C ls _ (linit_inv n1 n2 n3).

(* every theorem of ChanP holds for both machines of the closed system *)
Theorem both_sides_invariant : CInv (a s) /\ CInv (b s).
Proof. split; apply I. Qed.

(* what the receiving machine accounts as sent is what send() reported as sent: a send() that raised put nothing on the
   wire, one that returned put exactly its item there *)
Theorem returned_is_sent : forall id, sent (b s) id = ret s id.
Proof. exact (l_sent s I). Qed.

(* ... hence (C02 delivery on B) every returned item is obtained, queued or in flight, in order *)
Theorem returned_is_delivered : forall id, lossless (b s) id = true ->
  ret s id = got (b s) id ++ qitems (oq (q (cs (b s) id))) ++ witems id (wire (b s)).
Proof. intros id L. rewrite <- (l_sent s I). exact (c_cons _ (l_b s I) id L). Qed.

(* End frames only come from a close() / __del__ that has begun *)
Theorem end_only_after_close_began : forall id k, In (FEnd id k) (wire (b s)) -> pre s id <> None.
Proof.
  intros id k Hin N. pose proof (l_noend s I id N _ Hin) as F. cbn in F. rewrite Nat.eqb_refl in F. discriminate.
Qed.

(* C03, ordering: when an End frame of channel id is at the head of B's wire, the k items whose send() had returned before the
   first close of that channel began are all past the receiver: together with what was sent in the race they are exactly what B
   obtained or queued, and what is still in flight was sent after the close began *)
Theorem close_after_data : forall id k kd w2, pre s id = Some k -> wire (b s) = FEnd id kd :: w2 -> lossless (b s) id = true ->
  ret s id = (got (b s) id ++ qitems (oq (q (cs (b s) id)))) ++ witems id w2 /\
  k <= length (got (b s) id ++ qitems (oq (q (cs (b s) id)))).
Proof.
  intros id k kd w2 P W L. pose proof (returned_is_delivered id L) as D. rewrite W in D. rewrite witems_cons_end in D.
  split; [rewrite <- app_assoc; exact D|]. pose proof (l_ord s I id k [] kd w2 P W) as O.
  rewrite D in O. rewrite !app_length in *. lia.
Qed.

Corollary close_after_data_prefix : forall id k kd w2, pre s id = Some k -> wire (b s) = FEnd id kd :: w2 -> lossless (b s) id = true ->
  firstn k (ret s id) = firstn k (got (b s) id ++ qitems (oq (q (cs (b s) id)))).
Proof.
  intros id k kd w2 P W L. destruct (close_after_data id k kd w2 P W L) as [E Le]. rewrite E. rewrite firstn_app.
  replace (k - length (got (b s) id ++ qitems (oq (q (cs (b s) id))))) with 0 by lia. cbn. apply app_nil_r.
Qed.
End Props.

(* a send() on a closed channel is refused: nothing reaches the wire *)
Lemma send_refused_when_closed : forall c s t id x s', closed (cs (a s) id) = true -> lstep c s (KSendBegin t id x) = Some s' ->
  b s' = b s /\ ret s' = ret s /\ pcs s' = pcs s /\ refused s' id = S (refused s id).
Proof.
  intros c s t id x s' Cl H. cbn in H. destruct (nth_error (pcs s) t) as [[| | |]|]; try discriminate.
  destruct (held (cs (a s) id) && negb (gone s id)); [|discriminate]. rewrite Cl in H. inversion H; subst; cbn. rewrite fupd_eq. auto.
Qed.

(* after close() returned the channel IS closed for senders (until the id is re-created) *)
Lemma close_tail_closes : forall s id, closed (cs (close_tail s id) id) = true /\ alive (cs (close_tail s id) id) = false /\ cb (cs (close_tail s id) id) = None.
Proof. intros. unfold close_tail. cbn. rewrite fupd_eq. cbn. auto. Qed.
