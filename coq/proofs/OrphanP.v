(* C05 (last sentence): a makegateway call that fails because the requested id is taken leaves no process behind.
   On the GroupIds LTS: when calls do not overlap (each makegateway runs to its end before the next call starts;
   exits of registered gateways may happen in between), no call ends in `Failed true` (raised after the worker process
   had been started).  For overlapping calls with the same explicit id a witness shows the leak (open finding). *)
From Coq Require Import ZArith List Bool Lia.
Import ListNotations.
Require Import EV.model.GroupIds EV.proofs.GroupIdsP.
Open Scope Z_scope.

Definition full_ok (c : gcfg) : Prop := alloc_read_locked c = true /\ register_atomic c = true /\ explicit_checked c = true.

(* a whole call of thread t: step it until it is registered or has failed (allocate_id, then _register) *)
Definition call (c : gcfg) (s : gstate) (t : nat) : gstate :=
  match nth_error (thr s) t with
  | Some (Idle _) => run c [t; t] s
  | _ => s
  end.
(* an exit of a registered gateway *)
Definition exit_gw (c : gcfg) (s : gstate) (t : nat) : gstate :=
  match nth_error (thr s) t with
  | Some (Done _) => run c [t] s
  | _ => s
  end.
Inductive sop := SCall (t : nat) | SExit (t : nat).
Definition sstep (c : gcfg) (s : gstate) (o : sop) : gstate := match o with SCall t => call c s t | SExit t => exit_gw c s t end.

Definition quiet (p : pc) : Prop := match p with Idle _ | Done _ | Failed false | Gone => True | _ => False end.
Definition Quiet (s : gstate) : Prop := Forall quiet (thr s).

Lemma nth_upd_same : forall {A} (l : list A) i x y, nth_error l i = Some y -> nth_error (upd l i x) i = Some x.
Proof. intros A l; induction l as [|a r IH]; intros [|i] x y H; cbn in *; try discriminate; auto. eapply IH; eauto. Qed.

Lemma upd_upd : forall {A} (l : list A) i x y, upd (upd l i x) i y = upd l i y.
Proof. intros A l; induction l as [|a r IH]; intros [|i] x y; cbn; auto. f_equal. apply IH. Qed.

Lemma call_quiet : forall c s t, full_ok c -> Quiet s -> Quiet (call c s t).
Proof.
  intros c s t [A [R E]] Q. unfold call. destruct (nth_error (thr s) t) as [p|] eqn:N; [|exact Q]. destruct p as [want| | | | | |]; try exact Q.
  assert (Hstuck : forall s' p', nth_error (thr s') t = Some p' -> (match p' with Failed _ | Gone => True | _ => False end) -> forall l, run c (repeat t l) s' = s').
  { intros s' p' N' F l. induction l as [|l IH]; [reflexivity|]. cbn [repeat run]. unfold tstep. rewrite N'. destruct p'; try contradiction; exact IH. }
  unfold Quiet in *. cbn [run]. unfold tstep at 1. rewrite N. destruct want as [i|].
  - (* explicit id *)
    rewrite E. cbn [andb]. destruct (zmem i (gws s)) eqn:Z.
    + (* taken: refused before anything is started *)
      set (s1 := set_pc s t (Failed false)).
      assert (N1 : nth_error (thr s1) t = Some (Failed false)) by (unfold s1, set_pc; cbn; eapply nth_upd_same; eauto).
      assert (T1 : tstep c s1 t = None) by (unfold tstep; rewrite N1; reflexivity). rewrite !T1. unfold s1, set_pc. cbn. apply Forall_upd; auto. exact I.
    + set (s1 := set_pc s t (HasId i)).
      assert (N1 : nth_error (thr s1) t = Some (HasId i)) by (unfold s1, set_pc; cbn; eapply nth_upd_same; eauto).
      cbn [run]. unfold tstep at 1. rewrite N1. assert (G1 : gws s1 = gws s) by reflexivity. rewrite G1, Z, R.
      cbn. rewrite !upd_upd. apply Forall_upd; auto. exact I.
  - (* automatic id *)
    rewrite A. destruct (zmem (counter s) (gws s)) eqn:Z.
    + set (s1 := {| gws := gws s; counter := counter s + 1; handed := handed s; thr := upd (thr s) t (Failed false) |}).
      assert (N1 : nth_error (thr s1) t = Some (Failed false)) by (unfold s1; cbn; eapply nth_upd_same; eauto).
      assert (T1 : tstep c s1 t = None) by (unfold tstep; rewrite N1; reflexivity). rewrite !T1. unfold s1. cbn. apply Forall_upd; auto. exact I.
    + set (s1 := {| gws := gws s; counter := counter s + 1; handed := counter s :: handed s; thr := upd (thr s) t (HasId (counter s)) |}).
      assert (N1 : nth_error (thr s1) t = Some (HasId (counter s))) by (unfold s1; cbn; eapply nth_upd_same; eauto).
      cbn [run]. unfold tstep at 1. rewrite N1. assert (G1 : gws s1 = gws s) by reflexivity. rewrite G1, Z, R.
      cbn. rewrite !upd_upd. apply Forall_upd; auto. exact I.
Qed.

Lemma exit_quiet : forall c s t, Quiet s -> Quiet (exit_gw c s t).
Proof.
  intros c s t Q. unfold exit_gw. destruct (nth_error (thr s) t) as [p|] eqn:N; [|exact Q]. destruct p; try exact Q.
  cbn [run]. unfold tstep. rewrite N. unfold Quiet in *. cbn. apply Forall_upd; auto. exact I.
Qed.

(* non-overlapping makegateway calls (any ids, explicit or automatic, repeated or not) and exits in any order:
   no call ever fails after its worker process has been started *)
Theorem no_orphan_sequential : forall c wants ops, full_ok c ->
  forall t, nth_error (thr (fold_left (sstep c) ops (init wants))) t <> Some (Failed true).
Proof.
  intros c wants ops F.
  assert (Q : Quiet (fold_left (sstep c) ops (init wants))).
  { assert (Q0 : Quiet (init wants)). { unfold Quiet, init. cbn. apply Forall_forall. intros p I. apply in_map_iff in I. destruct I as [w [<- _]]. exact I. }
    revert Q0. generalize (init wants). induction ops as [|o r IH]; intros s Q0; cbn [fold_left]; [exact Q0|].
    apply IH. destruct o; cbn [sstep]; [apply call_quiet; auto|apply exit_quiet; auto]. }
  intros t E. unfold Quiet in Q. pose proof (Forall_nth _ _ _ _ Q E) as X. exact X.
Qed.

(* overlapping calls with the same explicit id still leak (both pass the test before either registers) *)
Example overlapping_same_id_leaks :
  let c := {| alloc_read_locked := true; explicit_checked := true; register_atomic := true |} in
  nth_error (thr (run c [0%nat; 1%nat; 0%nat; 1%nat] (init [Some (-5); Some (-5)]))) 1 = Some (Failed true).
Proof. reflexivity. Qed.
(* and what the pinned tree did even without overlap *)
Example unchecked_explicit_id_leaks :
  let c := {| alloc_read_locked := true; explicit_checked := false; register_atomic := true |} in
  nth_error (thr (fold_left (sstep c) [SCall 0; SCall 1] (init [Some (-5); Some (-5)]))) 1 = Some (Failed true).
Proof. reflexivity. Qed.
