(* WorkerPool LTS: definitions of the invariant and generic lemmas *)
From Coq Require Import List Bool Arith Lia.
Import ListNotations.
Require Import EV.model.Pool.

Definition cnt (l : list task) (x : task) : nat := count_occ Nat.eq_dec l x.

Lemma cnt_app : forall a b x, cnt (a ++ b) x = cnt a x + cnt b x.
Proof. intros. unfold cnt. apply count_occ_app. Qed.
Lemma cnt_nil : forall x, cnt [] x = 0. Proof. reflexivity. Qed.
Lemma cnt_cons : forall a l x, cnt (a :: l) x = (if Nat.eq_dec a x then 1 else 0) + cnt l x.
Proof. intros. unfold cnt. cbn. destruct (Nat.eq_dec a x); lia. Qed.
Lemma cnt_in : forall l x, In x l <-> cnt l x >= 1.
Proof. intros. unfold cnt. rewrite (count_occ_In Nat.eq_dec). lia. Qed.
Lemma cnt_one : forall a x, cnt [a] x = if Nat.eq_dec a x then 1 else 0.
Proof. intros. rewrite cnt_cons, cnt_nil. destruct (Nat.eq_dec a x); lia. Qed.

Lemma nth_upd_eq : forall {A} (l : list A) i x, i < length l -> nth_error (upd l i x) i = Some x.
Proof. intros A l. induction l as [|y l IH]; intros i x H; cbn in *; [lia|]. destruct i; cbn; auto. apply IH. lia. Qed.
Lemma nth_upd_ne : forall {A} (l : list A) i j x, i <> j -> nth_error (upd l i x) j = nth_error l j.
Proof. intros A l. induction l as [|y l IH]; intros i j x H; cbn; auto. destruct i, j; cbn; auto; try congruence. Qed.
Lemma upd_length : forall {A} (l : list A) i x, length (upd l i x) = length l.
Proof. intros A l. induction l as [|y l IH]; intros i x; cbn; auto. destruct i; cbn; auto. Qed.
Lemma nth_upd : forall {A} (l : list A) i j x a, nth_error (upd l i x) j = Some a ->
  (i = j /\ a = x /\ i < length l) \/ (i <> j /\ nth_error l j = Some a).
Proof.
  intros A l i j x a H. destruct (Nat.eq_dec i j) as [E|E].
  - subst. assert (L : j < length l).
    { apply nth_error_Some. intro N. assert (nth_error (upd l j x) j = None).
      { apply nth_error_None. rewrite upd_length. apply nth_error_None. exact N. } congruence. }
    rewrite nth_upd_eq in H by exact L. inversion H. auto.
  - right. rewrite nth_upd_ne in H by exact E. auto.
Qed.

Lemma cnt_flat_upd : forall {A} (f : A -> list task) l i a a' x, nth_error l i = Some a ->
  cnt (flat_map f (upd l i a')) x + cnt (f a) x = cnt (flat_map f l) x + cnt (f a') x.
Proof.
  intros A f l. induction l as [|y l IH]; intros i a a' x H; [destruct i; discriminate|].
  destruct i; cbn [upd flat_map nth_error] in *.
  - inversion H; subst. rewrite !cnt_app. lia.
  - rewrite !cnt_app. specialize (IH i a a' x H). lia.
Qed.
Lemma cnt_flat_ge : forall {A} (f : A -> list task) l i a x, nth_error l i = Some a -> cnt (f a) x <= cnt (flat_map f l) x.
Proof.
  intros A f l. induction l as [|y l IH]; intros i a x H; [destruct i; discriminate|].
  destruct i; cbn [flat_map nth_error] in *; rewrite cnt_app.
  - inversion H; subst. lia.
  - specialize (IH i a x H). lia.
Qed.
Lemma cnt_flat_ge2 : forall {A} (f : A -> list task) l i j a b x, i <> j -> nth_error l i = Some a -> nth_error l j = Some b ->
  cnt (f a) x + cnt (f b) x <= cnt (flat_map f l) x.
Proof.
  intros A f l. induction l as [|y l IH]; intros i j a b x N Hi Hj; [destruct i; discriminate|].
  destruct i, j; cbn [flat_map nth_error] in *; rewrite cnt_app; try congruence.
  - inversion Hi; subst. pose proof (cnt_flat_ge f l j b x Hj). lia.
  - inversion Hj; subst. pose proof (cnt_flat_ge f l i a x Hi). lia.
  - assert (i <> j) by congruence. specialize (IH i j a b x H Hi Hj). lia.
Qed.
Lemma flat_map_snoc : forall {A} (f : A -> list task) l a, flat_map f (l ++ [a]) = flat_map f l ++ f a.
Proof. intros. rewrite flat_map_app. cbn. rewrite app_nil_r. reflexivity. Qed.

Lemma in_remove1 : forall x t l, In x l -> x <> t -> In x (remove1 t l).
Proof.
  intros x t l. induction l as [|y l IH]; intros H N; [destruct H|]. cbn.
  destruct (Nat.eqb t y) eqn:E.
  - apply Nat.eqb_eq in E. subst. destruct H; [congruence|auto].
  - destruct H; [left; auto|right; auto].
Qed.
Lemma remove1_in : forall x t l, In x (remove1 t l) -> In x l.
Proof.
  intros x t l. induction l as [|y l IH]; intro H; [destruct H|]. cbn in H.
  destruct (Nat.eqb t y); [right; auto|]. destruct H; [left; auto|right; auto].
Qed.
Lemma mem_in : forall x l, mem x l = true <-> In x l.
Proof.
  intros x l. unfold mem. rewrite existsb_exists. split.
  - intros [y [Y E]]. apply Nat.eqb_eq in E. subst. exact Y.
  - intro H. exists x. split; auto. apply Nat.eqb_refl.
Qed.
Lemma subset_in : forall a b, subset a b = true -> forall x, In x a -> In x b.
Proof. intros a b H x Hx. unfold subset in H. rewrite forallb_forall in H. apply mem_in. auto. Qed.

(* ---- where a task can be *)
Definition heldp (p : spc) : list task :=
  match p with S2 t _ | S3a t _ | S3b t _ | S5 t _ | S4 t _ _ => [t] | _ => [] end.
Definition futp (p : spc) : list task :=
  match p with S0 ts | S2 _ ts | S3a _ ts | S3b _ ts | S4 _ _ ts | S3c ts | S5 _ ts => ts end.
Definition wpendp (w : wpc) : list task := match w with W0 t => [t] | _ => [] end.
Definition wrunp (w : wpc) : list task := match w with W1 t => [t] | _ => [] end.
Definition ppend (p : ppc) : list task := match p with P2 r => [r] | _ => [] end.
Definition prun (p : ppc) : list task := match p with P3 r => [r] | _ => [] end.
Definition mpend (s : st) : list task :=
  if fresh s then match mailbox s with Some t => [t] | None => [] end else [].
(* accepted, not yet started: every such task has exactly one holder *)
Definition plist (s : st) : list task := flat_map heldp (sp s) ++ mpend s ++ flat_map wpendp (wk s) ++ ppend (pr s).
Definition future (s : st) : list task := flat_map futp (sp s).
Definition runl (s : st) : list task := flat_map wrunp (wk s) ++ prun (pr s).

Definition wrmp (w : wpc) : list task := match w with W2 t => [t] | _ => [] end.
Definition prm (p : ppc) : list task := match p with P4 r => [r] | _ => [] end.
(* finished, not yet removed from _running *)
Definition rml (s : st) : list task := flat_map wrmp (wk s) ++ prm (pr s).

Lemma cnt_remove1 : forall t l x, cnt (remove1 t l) x + (if Nat.eq_dec t x then (if cnt l t =? 0 then 0 else 1) else 0) = cnt l x.
Proof.
  intros t l x. induction l as [|y l IH]; cbn [remove1].
  - rewrite !cnt_nil. destruct (Nat.eq_dec t x); cbn; lia.
  - destruct (Nat.eqb t y) eqn:E.
    + apply Nat.eqb_eq in E. subst y. rewrite !cnt_cons. destruct (Nat.eq_dec t x); [subst|].
      * destruct (Nat.eq_dec x x); [|congruence]. cbn. lia.
      * lia.
    + apply Nat.eqb_neq in E. rewrite !cnt_cons. destruct (Nat.eq_dec t x); [subst|].
      * destruct (Nat.eq_dec y x); [congruence|]. destruct (Nat.eq_dec x y); [congruence|]. cbn [plus] in *. exact IH.
      * lia.
Qed.

Definition locked_sp (p : spc) : bool := match p with S0 _ => false | _ => true end.
Definition locked_sh (p : tpc) : bool := match p with T2 | T3 => true | _ => false end.
Definition pbusy (p : ppc) (r : task) : Prop := p = P2 r \/ p = P3 r \/ p = P4 r \/ p = P7 r.
Definition pactive (p : ppc) : Prop := p = P1 \/ exists r, pbusy p r.

Definition cfg_ok (c : pcfg) : Prop := keep_pending c = true /\ mailbox_first c = true /\ (mto c = true -> protocol c = true).

Record Inv (c : pcfg) (s : st) : Prop := {
  i_uniq : forall x, cnt (plist s) x + cnt (started s) x + cnt (future s) x + cnt (refused s) x <= 1;
  i_acc : forall x, cnt (acc s) x = cnt (plist s) x + cnt (started s) x;
  i_run : forall x, cnt (started s) x = cnt (fin s) x + cnt (runl s) x;
  i_lock_sp : forall i p, nth_error (sp s) i = Some p -> locked_sp p = true -> lock s = Some (OSp i);
  i_lock_sh : forall j p, nth_error (sh s) j = Some p -> locked_sh p = true -> lock s = Some (OSh j);
  i_fresh : fresh s = true -> ready s = true /\ exists t, mailbox s = Some t /\
              (pr s = P0 \/ pr s = P1 \/ exists r, r <> t /\ pbusy (pr s) r);
  i_pready : pactive (pr s) -> ready s = true;
  i_stale : pr s = P0 \/ pr s = P1 -> ready s = true -> fresh s = false -> mailbox s = None;
  i_pmail : forall r, pbusy (pr s) r -> mailbox s = Some r \/ fresh s = true;
  i_lock_conv_sp : forall i, lock s = Some (OSp i) -> exists p, nth_error (sp s) i = Some p /\ locked_sp p = true;
  i_lock_conv_sh : forall j, lock s = Some (OSh j) -> exists p, nth_error (sh s) j = Some p /\ locked_sh p = true;
  i_s4m : forall i t r ts, nth_error (sp s) i = Some (S4 t r ts) -> mto c = true;
  i_rn_cnt : forall y, cnt (running s) y = cnt (plist s) y + cnt (runl s) y + cnt (rml s) y;
  i_shut_ready : shut s = true -> pr s = P0 -> ready s = true \/ exists j p, nth_error (sh s) j = Some p /\ locked_sh p = true;
  i_shut_sp : forall i p, nth_error (sp s) i = Some p -> locked_sp p = true -> shut s = false;
  i_shut_sh : forall j p, nth_error (sh s) j = Some p -> p <> T0 -> shut s = true;
  i_exit : pr s = PExit -> shut s = true;
  i_none : ready s = true -> mailbox s = None -> shut s = true;
  i_s3 : forall i t ts, nth_error (sp s) i = Some (S3a t ts) \/ nth_error (sp s) i = Some (S3b t ts) -> ready s = false /\ pr s = P0 /\ fresh s = false;
  i_s3b : forall i t ts, nth_error (sp s) i = Some (S3b t ts) -> mailbox s = Some t;
  i_t3 : forall j, nth_error (sh s) j = Some T3 -> mailbox s = None /\ fresh s = false;
  i_s4 : forall i t r ts, nth_error (sp s) i = Some (S4 t r ts) -> ready s = true /\ mailbox s = Some r /\ pr s <> PNone;
  i_s3c : forall i ts, nth_error (sp s) i = Some (S3c ts) -> ready s = true /\ pr s <> PNone;
  i_noprim : forall i p, nth_error (sp s) i = Some p -> pr s = PNone -> (forall t ts, p <> S3a t ts) /\ (forall t ts, p <> S3b t ts);
  i_done_w : forall i t, nth_error (wk s) i = Some (W2 t) -> In t (fin s);
  i_done_p : forall r, pr s = P4 r \/ pr s = P7 r -> In r (fin s);
  i_running : forall x, In x (acc s) -> In x (running s) \/ In x (fin s);
  i_wait0 : forall k tm snap, nth_error (wa s) k = Some (A3 tm snap false) -> running s <> [];
  i_wait1 : forall k snap, (exists tm, nth_error (wa s) k = Some (A3 tm snap true)) \/ nth_error (wa s) k = Some (ARet true snap) ->
              forall x, In x snap -> In x (fin s);
  i_snap : forall k tm snap f, nth_error (wa s) k = Some (A3 tm snap f) -> forall x, In x snap -> In x (acc s);
  i_mb : forall r, mailbox s = Some r -> In r (acc s);
  i_mb2 : forall r, mailbox s = Some r -> fresh s = true \/ In r (started s) \/ pr s = P2 r \/ exists i ts, nth_error (sp s) i = Some (S3b r ts);
  i_proto2 : protocol c = true -> forall i t ts, nth_error (sp s) i = Some (S2 t ts) -> forall x, In x (acc s) -> x <> t -> In x (fin s);
  i_proto4 : protocol c = true -> forall i t r ts, nth_error (sp s) i = Some (S4 t r ts) -> In r (fin s)
}.
