(* WorkerPool LTS: every step preserves the invariant *)
From Coq Require Import List Bool Arith Lia.
Import ListNotations.
Require Import EV.model.Pool EV.proofs.PoolP1.

Ltac proj := cbn [lock running shut mailbox ready fresh acc refused started fin sp wk pr sh wa set_sp] in *.

Lemma nth_error_app_snoc : forall {A} (l : list A) a j x, nth_error (l ++ [a]) j = Some x ->
  nth_error l j = Some x \/ (j = length l /\ x = a).
Proof.
  intros A l a j x H. destruct (Nat.lt_ge_cases j (length l)) as [L|L].
  - rewrite nth_error_app1 in H by exact L. auto.
  - rewrite nth_error_app2 in H by exact L. destruct (j - length l) eqn:E; cbn in H.
    + inversion H. right. split; [lia|reflexivity].
    + destruct n; discriminate.
Qed.

Ltac split_upd :=
  repeat match goal with
  | H : nth_error (upd _ _ _) _ = Some _ |- _ =>
      apply nth_upd in H; destruct H as [[? [? ?]]|[? H]]; subst
  | H : nth_error (_ ++ [_]) _ = Some _ |- _ =>
      apply nth_error_app_snoc in H; destruct H as [H|[? ?]]; subst
  end.

(* unfold the task lists of a state literal and relate updated flat_maps to the old ones *)
Ltac counts x :=
  unfold plist, future, runl, rml, mpend in *; proj;
  repeat match goal with N : pr ?s = _ |- _ => rewrite N in * end;
  repeat match goal with N : fresh ?s = _ |- _ => rewrite N in * end;
  repeat match goal with N : mailbox ?s = _ |- _ => rewrite N in * end;
  repeat match goal with
         | |- context [if fresh ?s then _ else _] => destruct (fresh s) eqn:?
         | _ : context [if fresh ?s then _ else _] |- _ => destruct (fresh s) eqn:?
         | |- context [match mailbox ?s with _ => _ end] => destruct (mailbox s) eqn:?
         | _ : context [match mailbox ?s with _ => _ end] |- _ => destruct (mailbox s) eqn:?
         end;
  repeat rewrite ?flat_map_snoc, ?cnt_app, ?cnt_cons, ?cnt_nil, ?cnt_one in *;
  repeat match goal with
  | N : nth_error ?l ?i = Some ?a |- context [cnt (flat_map ?f (upd ?l ?i ?b)) x] =>
      let E := fresh "E" in pose proof (cnt_flat_upd f l i a b x N) as E;
      generalize dependent (cnt (flat_map f (upd l i b)) x); intros
  end;
  cbn [heldp futp wpendp wrunp wrmp ppend prun prm] in *;
  repeat rewrite ?cnt_app, ?cnt_cons, ?cnt_nil, ?cnt_one in *.

Ltac learn H := let T := type of H in lazymatch goal with | _ : T |- _ => fail | _ => pose proof H end.

(* saturate the context with the invariant's clauses that apply to the facts at hand *)
Ltac sat I :=
  repeat match goal with
  | N : nth_error (sp _) ?i = Some (S4 ?t ?r ?ts) |- _ => learn (i_s4 _ _ I i t r ts N)
  | N : nth_error (sp _) ?i = Some (S3c ?ts) |- _ => learn (i_s3c _ _ I i ts N)
  | N : nth_error (sp _) ?i = Some (S3a ?t ?ts) |- _ => learn (i_s3 _ _ I i t ts (or_introl N))
  | N : nth_error (sp _) ?i = Some (S3b ?t ?ts) |- _ => learn (i_s3 _ _ I i t ts (or_intror N))
  | N : nth_error (sp _) ?i = Some (S3b ?t ?ts) |- _ => learn (i_s3b _ _ I i t ts N)
  | N : nth_error (sp _) ?i = Some (S2 ?t ?ts) |- _ => learn (i_lock_sp _ _ I i _ N eq_refl)
  | N : nth_error (sp _) ?i = Some (S2 ?t ?ts) |- _ => learn (i_shut_sp _ _ I i _ N eq_refl)
  | N : nth_error (sp _) ?i = Some (S3a ?t ?ts) |- _ => learn (i_lock_sp _ _ I i _ N eq_refl)
  | N : nth_error (sp _) ?i = Some (S3a ?t ?ts) |- _ => learn (i_shut_sp _ _ I i _ N eq_refl)
  | N : nth_error (sp _) ?i = Some (S3b ?t ?ts) |- _ => learn (i_lock_sp _ _ I i _ N eq_refl)
  | N : nth_error (sp _) ?i = Some (S3b ?t ?ts) |- _ => learn (i_shut_sp _ _ I i _ N eq_refl)
  | N : nth_error (sp _) ?i = Some (S3c ?ts) |- _ => learn (i_lock_sp _ _ I i _ N eq_refl)
  | N : nth_error (sp _) ?i = Some (S3c ?ts) |- _ => learn (i_shut_sp _ _ I i _ N eq_refl)
  | N : nth_error (sp _) ?i = Some (S4 ?t ?r ?ts) |- _ => learn (i_lock_sp _ _ I i _ N eq_refl)
  | N : nth_error (sp _) ?i = Some (S4 ?t ?r ?ts) |- _ => learn (i_shut_sp _ _ I i _ N eq_refl)
  | N : nth_error (sp _) ?i = Some (S5 ?t ?ts) |- _ => learn (i_lock_sp _ _ I i _ N eq_refl)
  | N : nth_error (sp _) ?i = Some (S5 ?t ?ts) |- _ => learn (i_shut_sp _ _ I i _ N eq_refl)
  | N : nth_error (sh _) ?j = Some T2 |- _ => learn (i_lock_sh _ _ I j _ N eq_refl)
  | N : nth_error (sh _) ?j = Some T3 |- _ => learn (i_lock_sh _ _ I j _ N eq_refl)
  | N : nth_error (sh _) ?j = Some T3 |- _ => learn (i_t3 _ _ I j N)
  | N : nth_error (wk _) ?i = Some (W2 ?t) |- _ => learn (i_done_w _ _ I i t N)
  | N : pr _ = P1 |- _ => learn (i_pready _ _ I (or_introl N))
  | N : pr _ = P2 ?r |- _ => learn (i_pready _ _ I (or_intror (ex_intro _ r (or_introl N))))
  | N : pr _ = P3 ?r |- _ => learn (i_pready _ _ I (or_intror (ex_intro _ r (or_intror (or_introl N)))))
  | N : pr _ = P4 ?r |- _ => learn (i_pready _ _ I (or_intror (ex_intro _ r (or_intror (or_intror (or_introl N))))))
  | N : pr _ = P7 ?r |- _ => learn (i_pready _ _ I (or_intror (ex_intro _ r (or_intror (or_intror (or_intror N))))))
  | N : pr _ = P4 ?r |- _ => learn (i_done_p _ _ I r (or_introl N))
  | N : pr _ = P7 ?r |- _ => learn (i_done_p _ _ I r (or_intror N))
  | N : pr _ = PExit |- _ => learn (i_exit _ _ I N)
  | R : ready ?s = true, M : mailbox ?s = None |- _ => learn (i_none _ _ I R M)
  | N : nth_error (sp _) ?i = Some ?p, L : locked_sp ?p = true |- _ => learn (i_lock_sp _ _ I i p N L)
  | N : nth_error (sp _) ?i = Some ?p, L : locked_sp ?p = true |- _ => learn (i_shut_sp _ _ I i p N L)
  | N : nth_error (sh _) ?j = Some ?p, L : locked_sh ?p = true |- _ => learn (i_lock_sh _ _ I j p N L)
  | N : nth_error (sh _) ?j = Some ?p, L : ?p <> T0 |- _ => learn (i_shut_sh _ _ I j p N L)
  end.

Ltac sat2 I :=
  repeat match goal with
  | M : mailbox _ = Some ?r |- _ => learn (i_mb _ _ I r M)
  | Hx : In ?x (acc _) |- _ => learn (i_running _ _ I x Hx)
  end.
(* facts with disjunctions: used only when the cheap attempt failed *)
Ltac sat_or I :=
  repeat match goal with
  | F : fresh _ = true |- _ => learn (i_fresh _ _ I F)
  | M : mailbox _ = Some ?r |- _ => learn (i_mb2 _ _ I r M)
  | N : pr _ = P2 ?r |- _ => learn (i_pmail _ _ I r (or_introl N))
  | N : pr _ = P3 ?r |- _ => learn (i_pmail _ _ I r (or_intror (or_introl N)))
  | N : pr _ = P4 ?r |- _ => learn (i_pmail _ _ I r (or_intror (or_intror (or_introl N))))
  | N : pr _ = P7 ?r |- _ => learn (i_pmail _ _ I r (or_intror (or_intror (or_intror N))))
  end.

Ltac inv_eq := repeat match goal with
  | E : ?f _ = ?f _ |- _ => inversion E; subst; clear E
  | E : ?f _ _ = ?f _ _ |- _ => inversion E; subst; clear E
  | E : ?f _ _ _ = ?f _ _ _ |- _ => inversion E; subst; clear E
  | E : ?f _ _ _ _ = ?f _ _ _ _ |- _ => inversion E; subst; clear E end.

Ltac brk :=
  unfold pbusy, pactive in *; cbn [In] in *;
  repeat match goal with
    | H : _ /\ _ |- _ => destruct H
    | H : exists _, _ |- _ => destruct H
    | H : _ \/ _ |- _ => destruct H
    end; subst; try discriminate; inv_eq; try congruence.

Ltac fin_ := first [solve [eauto 6 with datatypes]
  | repeat split; eauto 6 with datatypes; try congruence; try discriminate; try (intros; discriminate); try (intros; congruence)].

Ltac cnt1 I t := let x := fresh "x" in intro x;
  pose proof (i_uniq _ _ I x); pose proof (i_acc _ _ I x); pose proof (i_run _ _ I x); pose proof (i_rn_cnt _ _ I x);
  counts x; try destruct (Nat.eq_dec t x); lia.

(* the generic solver for a clause of the new state: case-split the thread looked at, saturate, break, finish *)
Ltac brk_and :=
  unfold pbusy, pactive in *;
  repeat match goal with
    | H : _ /\ _ |- _ => destruct H
    | H : exists _, _ |- _ => destruct H
    end; subst; try discriminate; inv_eq; try congruence.

Ltac auto_clause I t :=
  try solve [ let I' := fresh in (pose proof I as I'; destruct I'; assumption)
            | (lazymatch goal with |- forall y, cnt _ y = _ => idtac end; cnt1 I t)
            | (intros; repeat match goal with H : _ \/ _ |- _ => destruct H end; split_upd; inv_eq; try discriminate; sat I; brk_and;
               let I' := fresh in (pose proof I as I'; destruct I'); fin_)
            | timeout 60 (intros; repeat match goal with H : _ \/ _ |- _ => destruct H end; split_upd; inv_eq; try discriminate; sat I; sat_or I; brk; sat I; brk;
               let I' := fresh in (pose proof I as I'; destruct I'); fin_)
            | (lazymatch goal with |- forall x, In x _ -> In x _ \/ In x _ => idtac end;
               intros; cbn [In] in *; repeat match goal with H : _ \/ _ |- _ => destruct H end; subst; split_upd; inv_eq; try discriminate; sat I; sat2 I; brk; sat I; sat2 I; brk;
               let I' := fresh in (pose proof I as I'; destruct I'); fin_)].
(* the clause about a fresh mailbox when only the primary thread's pc moved among its busy pcs *)
Ltac fresh_busy I N :=
  let F := fresh in let R := fresh in let t := fresh "t" in let M := fresh in let D := fresh in
  intro F; destruct (i_fresh _ _ I F) as [R [t [M D]]]; rewrite N in D; split; [exact R|]; exists t; split; [exact M|];
  unfold pbusy in *; brk; right; right; eexists; split; [eassumption|auto 8].
(* the converse lock clause for a step of spawner i that keeps or takes the lock *)
Ltac lockconv I i N :=
  let i0 := fresh "i0" in let E := fresh "E" in
  intros i0 E; destruct (Nat.eq_dec i i0) as [->|Ne];
  [eexists; split; [apply nth_upd_eq; eapply nth_error_Some; rewrite N; discriminate | reflexivity]
  | first [congruence | let p := fresh "p" in let Hp := fresh in let Hl := fresh in
      destruct (i_lock_conv_sp _ _ I i0 E) as [p [Hp Hl]]; exists p; split; [rewrite nth_upd_ne by exact Ne; exact Hp | exact Hl]]].
Ltac rem := match goal with |- ?G => idtac "REM:" G end.

Ltac open_step H :=
  cbn [tstep] in H;
  repeat match type of H with
  | context [nth_error ?l ?i] => match goal with N : nth_error l i = Some _ |- _ => rewrite N in H end
  | context [match pr ?s with _ => _ end] => match goal with N : pr s = _ |- _ => rewrite N in H end
  end;
  unfold lock_free, set_sp, remove_and_wake in H;
  repeat match type of H with
  | context [match lock ?s with _ => _ end] => destruct (lock s) eqn:?; cbn [andb negb] in H; try discriminate
  | context [if ?b then _ else _] => match type of b with bool => destruct b eqn:?; cbn [andb negb orb] in H; try discriminate end
  | context [match mailbox ?s with _ => _ end] => destruct (mailbox s) eqn:?
  end.

Section Steps.
Variable c : pcfg.
Hypothesis C : cfg_ok c.

Ltac go I t := constructor; proj; [cnt1 I t | cnt1 I t | cnt1 I t | idtac .. ]; auto_clause I t.

(* the locked section of _perform_spawn: remove the finished task, wake all waitall callers if _running is empty *)
Lemma nth_wake : forall l k a, nth_error (wake l) k = Some a ->
  exists a0, nth_error l k = Some a0 /\ a = match a0 with A3 tm sn _ => A3 tm sn true | x => x end.
Proof.
  intros l k a H. unfold wake in H. rewrite nth_error_map in H. destruct (nth_error l k) as [a0|]; [|discriminate].
  inversion H. eauto.
Qed.

Lemma remove_wake_ok : forall s t, Inv c s -> In t (fin s) ->
  let r := remove1 t (running s) in
  let w := match r with [] => wake (wa s) | _ => wa s end in
  (forall x, In x (acc s) -> In x r \/ In x (fin s)) /\
  (forall k tm snap, nth_error w k = Some (A3 tm snap false) -> r <> []) /\
  (forall k snap, (exists tm, nth_error w k = Some (A3 tm snap true)) \/ nth_error w k = Some (ARet true snap) -> forall x, In x snap -> In x (fin s)) /\
  (forall k tm snap f, nth_error w k = Some (A3 tm snap f) -> forall x, In x snap -> In x (acc s)).
Proof.
  intros s t I T r w.
  assert (R : forall x, In x (acc s) -> In x r \/ In x (fin s)).
  { intros x Hx. destruct (Nat.eq_dec x t) as [E|E]; [subst; right; exact T|].
    destruct (i_running _ _ I x Hx); [left; apply in_remove1; auto|right; auto]. }
  split; [exact R|]. subst w. destruct r as [|y r'] eqn:Er.
  - split; [|split].
    + intros k tm snap H. apply nth_wake in H. destruct H as [a0 [_ E]]. destruct a0; discriminate.
    + intros k snap H x Hx. destruct H as [[tm H]|H]; apply nth_wake in H; destruct H as [a0 [N0 E]]; destruct a0; inversion E; subst.
      * destruct (R x (i_snap _ _ I _ _ _ _ N0 x Hx)) as [[]|F]; exact F.
      * eapply (i_wait1 _ _ I); [right; exact N0|exact Hx].
    + intros k tm snap f H x Hx. apply nth_wake in H. destruct H as [a0 [N0 E]]. destruct a0; inversion E; subst. eapply (i_snap _ _ I); eauto.
  - split; [|split].
    + intros; discriminate.
    + intros k snap H x Hx. eapply (i_wait1 _ _ I); eauto.
    + intros k tm snap f H x Hx. eapply (i_snap _ _ I); eauto.
Qed.

Lemma step_W0 : forall s i t s', Inv c s -> nth_error (wk s) i = Some (W0 t) -> tstep c s (LWk i) = Some s' -> Inv c s'.
Proof.
  intros s i t s' I N H. open_step H. inversion H; subst s'; clear H. go I t.
Qed.

Lemma step_W1 : forall s i t s', Inv c s -> nth_error (wk s) i = Some (W1 t) -> tstep c s (LWk i) = Some s' -> Inv c s'.
Proof.
  intros s i t s' I N H. open_step H. inversion H; subst s'; clear H. go I t.
Qed.

Lemma step_W2 : forall s i t s', Inv c s -> nth_error (wk s) i = Some (W2 t) -> tstep c s (LWk i) = Some s' -> Inv c s'.
Proof.
  intros s i t s' I N H. open_step H. inversion H; subst s'; clear H.
  destruct (remove_wake_ok s t I) as [R1 [R2 [R3 R4]]]; [eapply i_done_w; eauto|].
  go I t.
  intro y. pose proof (cnt_remove1 t (running s) y) as R. pose proof (i_rn_cnt _ _ I y) as Y. pose proof (i_rn_cnt _ _ I t) as T.
  pose proof (cnt_flat_ge wrmp (wk s) _ _ t N) as G. cbn [wrmp] in G. rewrite cnt_one in G. destruct (Nat.eq_dec t t); [|congruence].
  unfold rml in T. rewrite cnt_app in T.
  destruct (cnt (running s) t =? 0) eqn:Z; [apply Nat.eqb_eq in Z; lia|].
  counts y; destruct (Nat.eq_dec t y); lia.
Qed.

(* ---- the integrated primary thread *)
Lemma step_P0 : forall s s', Inv c s -> pr s = P0 -> tstep c s LPr = Some s' -> Inv c s'.
Proof.
  intros s s' I N H. open_step H. all: inversion H; subst s'; clear H. all: go I 0.
Qed.

Lemma step_P1 : forall s s', Inv c s -> pr s = P1 -> tstep c s LPr = Some s' -> Inv c s'.
Proof.
  intros s s' I N H. open_step H. all: inversion H; subst s'; clear H.
  - assert (F : fresh s = true).
    { destruct (fresh s) eqn:F; auto. exfalso.
      pose proof (i_stale _ _ I (or_intror N) (i_pready _ _ I (or_introl N)) F). congruence. }
    go I t.
  - go I 0.
Qed.

Lemma step_P2 : forall s r s', Inv c s -> pr s = P2 r -> tstep c s LPr = Some s' -> Inv c s'.
Proof.
  intros s r s' I N H. open_step H. all: inversion H; subst s'; clear H. all: go I r.
  all: try fresh_busy I N.
  intros r0 M. destruct (i_mb2 _ _ I r0 M) as [F|[F|[F|F]]];
    [left; exact F | right; left; right; exact F | right; left; left; congruence | right; right; right; exact F].
Qed.

Lemma step_P3 : forall s r s', Inv c s -> pr s = P3 r -> tstep c s LPr = Some s' -> Inv c s'.
Proof.
  intros s r s' I N H. open_step H. all: inversion H; subst s'; clear H. all: go I r.
  all: try fresh_busy I N.
Qed.

Lemma step_P4 : forall s r s', Inv c s -> pr s = P4 r -> tstep c s LPr = Some s' -> Inv c s'.
Proof.
  intros s r s' I N H. open_step H. all: inversion H; subst s'; clear H.
  destruct (remove_wake_ok s r I) as [R1 [R2 [R3 R4]]]; [eapply i_done_p; eauto|].
  go I r.
  all: try fresh_busy I N.
  intro y. pose proof (cnt_remove1 r (running s) y) as R. pose proof (i_rn_cnt _ _ I y) as Y. pose proof (i_rn_cnt _ _ I r) as T.
  unfold rml in T. rewrite N in T. cbn [prm] in T. rewrite cnt_app, cnt_one in T. destruct (Nat.eq_dec r r); [|congruence].
  destruct (cnt (running s) r =? 0) eqn:Z; [apply Nat.eqb_eq in Z; lia|].
  counts y; destruct (Nat.eq_dec r y); lia.
Qed.

Lemma step_P7 : forall s r s', Inv c s -> pr s = P7 r -> tstep c s LPr = Some s' -> Inv c s'.
Proof.
  intros s r s' I N H. destruct C as [CK [CM CP]]. cbn [tstep] in H. rewrite N, CM in H. unfold lock_free in H.
  destruct (lock s) eqn:L; [discriminate|].
  destruct (mailbox s) as [x|] eqn:M; [destruct (Nat.eqb x r) eqn:E; [apply Nat.eqb_eq in E; subst x|apply Nat.eqb_neq in E]|];
    destruct (shut s) eqn:Sh; cbn [andb negb] in H; inversion H; subst s'; clear H.
  all: go I r.
Qed.

End Steps.
