(* WorkerPool LTS: the spawner threads' steps preserve the invariant *)
From Coq Require Import List Bool Arith Lia.
Import ListNotations.
Require Import EV.model.Pool EV.proofs.PoolP1 EV.proofs.PoolP2.

Section Steps.
Variable c : pcfg.
Hypothesis C : cfg_ok c.
Ltac go I t := constructor; proj; [cnt1 I t | cnt1 I t | cnt1 I t | idtac .. ]; auto_clause I t.

Lemma step_S0 : forall s i t ts s', Inv c s -> nth_error (sp s) i = Some (S0 (t :: ts)) -> tstep c s (LSp i) = Some s' -> Inv c s'.
Proof.
  intros s i t ts s' I N H. open_step H. all: inversion H; subst s'; clear H.
  all: go I t.
  (* the submission protocol: every task accepted before this one has finished *)
  all: try solve [intros P j t0 ts0 Hn x Hx Hne; split_upd; inv_eq;
    [cbn [In] in Hx; destruct Hx as [Hx|Hx]; [congruence|]; rewrite P in *; cbn [negb orb] in *; eapply subset_in; eauto
    | exfalso; pose proof (i_lock_sp _ _ I j _ Hn eq_refl); congruence]].
  all: try solve [lockconv I i N].
  all: rem.
Qed.

Lemma S2_cases : forall s i t ts s', nth_error (sp s) i = Some (S2 t ts) -> tstep c s (LSp i) = Some s' ->
  (pr s = PNone /\ s' = set_sp s i (S5 t ts)) \/
  (pr s <> PNone /\ ready s = false /\ s' = set_sp s i (S3a t ts)) \/
  (pr s <> PNone /\ ready s = true /\ (exists r, mailbox s = Some r /\ mto c = true /\ s' = set_sp s i (S4 t r ts))) \/
  (pr s <> PNone /\ ready s = true /\ s' = set_sp s i (S5 t ts)).
Proof.
  intros s i t ts s' N H. cbn [tstep] in H. rewrite N in H.
  destruct (pr s) eqn:Pp; [left; inversion H; auto|..];
    (destruct (ready s) eqn:Rd; cbn [negb] in H;
     [destruct (mailbox s) as [r0|] eqn:M; [destruct (mto c) eqn:Mt|]|]; inversion H; subst s';
     [right; right; left; repeat split; try discriminate; eauto
     |right; right; right; repeat split; try discriminate; auto
     |right; right; right; repeat split; try discriminate; auto
     |right; left; repeat split; try discriminate; auto]).
Qed.

Lemma step_S2 : forall s i t ts s', Inv c s -> nth_error (sp s) i = Some (S2 t ts) -> tstep c s (LSp i) = Some s' -> Inv c s'.
Proof.
  intros s i t ts s' I N H. destruct (S2_cases s i t ts s' N H) as [[Pp E]|[[Pp [Rd E]]|[[Pp [Rd [r [M [Mt E]]]]]|[Pp [Rd E]]]]]; subst s'; unfold set_sp.
  - go I t. all: try solve [lockconv I i N].
  - go I t. all: try solve [lockconv I i N].
    intros j t0 ts0 Hd. assert (Hn : nth_error (upd (sp s) i (S3a t ts)) j = Some (S3a t0 ts0) \/ nth_error (upd (sp s) i (S3a t ts)) j = Some (S3b t0 ts0)) by exact Hd.
    clear Hd. destruct Hn as [Hn|Hn]; split_upd; inv_eq; try discriminate.
    + split; [exact Rd|split].
      * pose proof (i_shut_sp _ _ I _ _ N eq_refl) as Sh.
        destruct (pr s) eqn:Pq; try congruence; exfalso.
        -- pose proof (i_pready _ _ I (or_introl Pq)). congruence.
        -- pose proof (i_pready _ _ I (or_intror (ex_intro _ r (or_introl Pq)))). congruence.
        -- pose proof (i_pready _ _ I (or_intror (ex_intro _ r (or_intror (or_introl Pq))))). congruence.
        -- pose proof (i_pready _ _ I (or_intror (ex_intro _ r (or_intror (or_intror (or_introl Pq)))))). congruence.
        -- pose proof (i_pready _ _ I (or_intror (ex_intro _ r (or_intror (or_intror (or_intror Pq)))))). congruence.
        -- pose proof (i_exit _ _ I Pq). congruence.
      * destruct (fresh s) eqn:F; auto. destruct (i_fresh _ _ I F) as [R _]. congruence.
    + eapply (i_s3 _ _ I); eauto.
    + eapply (i_s3 _ _ I); eauto.
  - go I t. all: try solve [lockconv I i N].
    (* the mailbox task r differs from the task being spawned and, by the submission protocol, has finished *)
    intros P j t0 r0 ts0 Hn. split_upd; inv_eq.
    + assert (Hr : r <> t).
      { intro E. subst r. pose proof (i_uniq _ _ I t) as U. unfold plist, mpend in U. rewrite !cnt_app in U.
        pose proof (cnt_flat_ge heldp (sp s) _ _ t N) as G. cbn [heldp] in G. rewrite cnt_one in G. destruct (Nat.eq_dec t t); [|congruence].
        destruct (i_mb2 _ _ I t M) as [F|[F|[F|[j2 [ts1 F]]]]].
        - rewrite F, M in U. rewrite cnt_one in U. destruct (Nat.eq_dec t t); [|congruence]. lia.
        - apply cnt_in in F. lia.
        - rewrite F in U. cbn [ppend] in U. rewrite cnt_one in U. destruct (Nat.eq_dec t t); [|congruence]. lia.
        - assert (Hji : j2 <> j) by (intro; subst; congruence).
          pose proof (cnt_flat_ge2 heldp (sp s) _ _ _ _ t Hji F N) as G2. cbn [heldp] in G2. rewrite !cnt_one in G2.
          destruct (Nat.eq_dec t t); [|congruence]. lia. }
      eapply (i_proto2 _ _ I P); eauto. eapply (i_mb _ _ I); eauto.
    + eapply (i_proto4 _ _ I P); eauto.
  - go I t. all: try solve [lockconv I i N].
Qed.

Lemma step_S3a : forall s i t ts s', Inv c s -> nth_error (sp s) i = Some (S3a t ts) -> tstep c s (LSp i) = Some s' -> Inv c s'.
Proof.
  intros s i t ts s' I N H. open_step H. all: inversion H; subst s'; clear H.
  destruct (i_s3 _ _ I _ _ _ (or_introl N)) as [Rd [Pp Fr]].
  go I t. all: try solve [lockconv I i N].
  - intros r E. inversion E; subst r. apply cnt_in. rewrite (i_acc _ _ I t). unfold plist. rewrite !cnt_app.
    pose proof (cnt_flat_ge heldp (sp s) _ _ t N) as G. cbn [heldp] in G. rewrite cnt_one in G. destruct (Nat.eq_dec t t); [lia|congruence].
  - intros r E. inversion E; subst r. right; right; right. exists i, ts. apply nth_upd_eq. apply nth_error_Some. congruence.
Qed.

Lemma held_in_acc : forall s i p t, Inv c s -> nth_error (sp s) i = Some p -> heldp p = [t] -> In t (acc s).
Proof.
  intros s i p t I N Hh. apply cnt_in. rewrite (i_acc _ _ I t). unfold plist. rewrite !cnt_app.
  pose proof (cnt_flat_ge heldp (sp s) _ _ t N) as G. rewrite Hh, cnt_one in G. destruct (Nat.eq_dec t t); [lia|congruence].
Qed.

Lemma step_S3b : forall s i t ts s', Inv c s -> nth_error (sp s) i = Some (S3b t ts) -> tstep c s (LSp i) = Some s' -> Inv c s'.
Proof.
  intros s i t ts s' I N H. open_step H. all: inversion H; subst s'; clear H.
  destruct (i_s3 _ _ I _ _ _ (or_intror N)) as [Rd [Pp Fr]]. pose proof (i_s3b _ _ I _ _ _ N) as Mb.
  go I t. all: try solve [lockconv I i N].
Qed.

Lemma step_S4 : forall s i t r ts s', Inv c s -> nth_error (sp s) i = Some (S4 t r ts) -> tstep c s (LSp i) = Some s' -> Inv c s'.
Proof.
  intros s i t r ts s' I N H. open_step H. all: inversion H; subst s'; clear H.
  destruct (i_s4 _ _ I _ _ _ _ N) as [Rd [Mb Pn]].
  assert (Rf : In r (fin s)) by (apply mem_in; assumption).
  assert (Fr : fresh s = false).
  { destruct (fresh s) eqn:F; auto. exfalso. pose proof (i_uniq _ _ I r) as U. pose proof (i_run _ _ I r) as R.
    apply cnt_in in Rf. unfold plist, mpend in U. rewrite F, Mb in U. rewrite !cnt_app, cnt_one in U.
    destruct (Nat.eq_dec r r); [lia|congruence]. }
  assert (Hrt : r <> t).
  { intro E. subst r. pose proof (i_uniq _ _ I t) as U. pose proof (i_run _ _ I t) as R. apply cnt_in in Rf.
    unfold plist in U. rewrite !cnt_app in U. pose proof (cnt_flat_ge heldp (sp s) _ _ t N) as G. cbn [heldp] in G.
    rewrite cnt_one in G. destruct (Nat.eq_dec t t); [lia|congruence]. }
  go I t. all: try solve [lockconv I i N].
  - intros _. split; [exact Rd|]. exists t. split; [reflexivity|].
    pose proof (i_shut_sp _ _ I _ _ N eq_refl) as Sh.
    destruct (pr s) eqn:Pq; try congruence.
    + exfalso. pose proof (i_stale _ _ I (or_introl Pq) Rd Fr). congruence.
    + exfalso. pose proof (i_stale _ _ I (or_intror Pq) Rd Fr). congruence.
    + right; right. exists r0. destruct (i_pmail _ _ I r0 (or_introl Pq)) as [E|E]; [|congruence].
      split; [congruence|unfold pbusy; auto].
    + right; right. exists r0. destruct (i_pmail _ _ I r0 (or_intror (or_introl Pq))) as [E|E]; [|congruence].
      split; [congruence|unfold pbusy; auto].
    + right; right. exists r0. destruct (i_pmail _ _ I r0 (or_intror (or_intror (or_introl Pq)))) as [E|E]; [|congruence].
      split; [congruence|unfold pbusy; auto 6].
    + right; right. exists r0. destruct (i_pmail _ _ I r0 (or_intror (or_intror (or_intror Pq)))) as [E|E]; [|congruence].
      split; [congruence|unfold pbusy; auto 6].
    + exfalso. pose proof (i_exit _ _ I Pq). congruence.
  - intros r1 E. inversion E; subst r1. eapply held_in_acc; eauto.
Qed.

Lemma step_S3c : forall s i ts s', Inv c s -> nth_error (sp s) i = Some (S3c ts) -> tstep c s (LSp i) = Some s' -> Inv c s'.
Proof.
  intros s i ts s' I N H. open_step H. all: inversion H; subst s'; clear H.
  destruct (i_s3c _ _ I _ _ N) as [Rd Pn].
  go I 0. all: try solve [lockconv I i N].
  intro F. destruct (i_fresh _ _ I F) as [_ D]. split; [reflexivity|exact D].
Qed.

Lemma step_S5 : forall s i t ts s', Inv c s -> nth_error (sp s) i = Some (S5 t ts) -> tstep c s (LSp i) = Some s' -> Inv c s'.
Proof.
  intros s i t ts s' I N H. open_step H. all: inversion H; subst s'; clear H.
  go I t. all: try solve [lockconv I i N].
Qed.
End Steps.
