(* WorkerPool LTS: trigger_shutdown and waitall steps preserve the invariant *)
From Coq Require Import List Bool Arith Lia.
Import ListNotations.
Require Import EV.model.Pool EV.proofs.PoolP1 EV.proofs.PoolP2.

Section Steps.
Variable c : pcfg.
Hypothesis C : cfg_ok c.
Ltac go I t := constructor; proj; [cnt1 I t | cnt1 I t | cnt1 I t | idtac .. ]; auto_clause I t.

Lemma step_T0 : forall s j s', Inv c s -> nth_error (sh s) j = Some T0 -> tstep c s (LSh j) = Some s' -> Inv c s'.
Proof.
  intros s j s' I N H. cbn [tstep] in H. rewrite N in H. unfold lock_free in H. destruct (lock s) eqn:L; [discriminate|].
  assert (Hp : pr s = PNone \/ pr s <> PNone) by (destruct (pr s); auto; right; discriminate).
  destruct Hp as [Pp|Pp].
  - rewrite Pp in H. inversion H; subst s'; clear H. go I 0.
  - assert (E : s' = {| lock := Some (OSh j); running := running s; shut := true; mailbox := mailbox s; ready := ready s; fresh := fresh s;
                         acc := acc s; refused := refused s; started := started s; fin := fin s;
                         sp := sp s; wk := wk s; pr := pr s; sh := upd (sh s) j T2; wa := wa s |}).
    { destruct (pr s); try congruence; inversion H; reflexivity. }
    subst s'. clear H. go I 0.
    + intros j0 E. inversion E; subst j0. exists T2. split; [apply nth_upd_eq; apply nth_error_Some; congruence|reflexivity].
    + intros _ _. right. exists j, T2. split; [apply nth_upd_eq; apply nth_error_Some; congruence|reflexivity].
Qed.

Ltac sh_tacs I j N :=
  try solve [let F := fresh in let D := fresh in intro F; destruct (i_fresh _ _ I F) as [_ D]; split; [reflexivity|exact D]];
  try solve [let j0 := fresh in let p := fresh in let Hn := fresh in let Hp := fresh in
             intros j0 p Hn Hp; split_upd; [eapply (i_shut_sh _ _ I _ _ N); discriminate | eapply (i_shut_sh _ _ I); eauto]];
  try solve [let A := fresh in intro A; pose proof (i_pready _ _ I A); congruence];
  try solve [intros _ _; eapply (i_shut_sh _ _ I _ _ N); discriminate];
  try solve [let j0 := fresh "j0" in let E := fresh in intros j0 E; destruct (Nat.eq_dec j j0) as [->|Ne];
             [eexists; split; [apply nth_upd_eq; eapply nth_error_Some; rewrite N; discriminate|reflexivity]
             | let p := fresh in let Hp := fresh in let Hl := fresh in
               destruct (i_lock_conv_sh _ _ I j0 E) as [p [Hp Hl]]; exists p; split; [rewrite nth_upd_ne by exact Ne; exact Hp|exact Hl]]];
  try solve [intros _ _; left; reflexivity];
  try solve [intros _ _; right; eexists j, _; split; [apply nth_upd_eq; eapply nth_error_Some; rewrite N; discriminate|reflexivity]].

Lemma step_T2 : forall s j s', Inv c s -> nth_error (sh s) j = Some T2 -> tstep c s (LSh j) = Some s' -> Inv c s'.
Proof.
  intros s j s' I N H. destruct C as [CK [CM CP]]. cbn [tstep] in H. rewrite N, CK in H. cbn [andb] in H.
  destruct (ready s) eqn:Rd; inversion H; subst s'; clear H.
  - go I 0. all: sh_tacs I j N. all: rem.
  - assert (Fr : fresh s = false).
    { destruct (fresh s) eqn:F; auto. destruct (i_fresh _ _ I F) as [R _]. congruence. }
    go I 0. all: sh_tacs I j N. all: rem.
Qed.

Lemma step_T3 : forall s j s', Inv c s -> nth_error (sh s) j = Some T3 -> tstep c s (LSh j) = Some s' -> Inv c s'.
Proof.
  intros s j s' I N H. cbn [tstep] in H. rewrite N in H. inversion H; subst s'; clear H.
  destruct (i_t3 _ _ I _ N) as [Mb Fr].
  go I 0. all: sh_tacs I j N. all: rem.
Qed.

(* ---- waitall callers *)
Lemma step_A0 : forall s k tm s', Inv c s -> nth_error (wa s) k = Some (A0 tm) -> tstep c s (LWa k) = Some s' -> Inv c s'.
Proof.
  intros s k tm s' I N H. cbn [tstep] in H. rewrite N in H. unfold lock_free in H. destruct (lock s) eqn:L; [discriminate|].
  inversion H; subst s'; clear H. destruct (running s) as [|y rn] eqn:Rn.
  - assert (AF : forall x, In x (acc s) -> In x (fin s)).
    { intros x Hx. destruct (i_running _ _ I x Hx) as [R|R]; [rewrite Rn in R; destruct R|exact R]. }
    go I 0.
    all: try solve [let y := fresh "y" in intro y; pose proof (i_rn_cnt _ _ I y) as Y; rewrite Rn in Y; counts y; lia].
    all: try solve [intros x Hx; right; auto].
    all: try solve [intros k0 tm0 snap Hn; split_upd; [discriminate|]; exfalso; eapply (i_wait0 _ _ I); eauto].
    all: try solve [intros k0 snap Hd x Hx; destruct Hd as [[tm0 Hn]|Hn]; split_upd; try discriminate; inv_eq; auto; eapply (i_wait1 _ _ I); eauto].
  - go I 0.
    all: try solve [let y := fresh "y" in intro y; pose proof (i_rn_cnt _ _ I y) as Y; rewrite Rn in Y; counts y; lia].
    all: try solve [intros x Hx; rewrite <- Rn; apply (i_running _ _ I x Hx)].
    all: try solve [intros k0 snap Hd x Hx; destruct Hd as [[tm0 Hn]|Hn]; split_upd; try discriminate; inv_eq; eapply (i_wait1 _ _ I); eauto].
Qed.

Lemma step_A3 : forall s k tm snap s', Inv c s -> nth_error (wa s) k = Some (A3 tm snap true) -> tstep c s (LWa k) = Some s' -> Inv c s'.
Proof.
  intros s k tm snap s' I N H. cbn [tstep] in H. rewrite N in H. inversion H; subst s'; clear H.
  go I 0.
  intros k0 snap0 Hd x Hx. destruct Hd as [[tm0 Hn]|Hn]; split_upd; try discriminate; inv_eq.
  - eapply (i_wait1 _ _ I); eauto.
  - eapply (i_wait1 _ _ I); [left; eexists; exact N|exact Hx].
  - eapply (i_wait1 _ _ I); eauto.
Qed.

Lemma step_timeout : forall s k snap s', Inv c s -> nth_error (wa s) k = Some (A3 true snap false) -> tstep c s (LTimeout k) = Some s' -> Inv c s'.
Proof.
  intros s k snap s' I N H. cbn [tstep] in H. rewrite N in H. inversion H; subst s'; clear H.
  go I 0.
  intros k0 snap0 Hd x Hx. destruct Hd as [[tm0 Hn]|Hn]; split_upd; try discriminate; inv_eq; eapply (i_wait1 _ _ I); eauto.
Qed.

End Steps.
