(* WorkerPool LTS: the invariant holds in every reachable state; the property theorems *)
From Coq Require Import List Bool Arith Lia.
Import ListNotations.
Require Import EV.model.Pool EV.proofs.PoolP1 EV.proofs.PoolP2 EV.proofs.PoolP3 EV.proofs.PoolP4.

Section Reach.
Variable c : pcfg.
Hypothesis C : cfg_ok c.

Theorem tstep_inv : forall s l s', Inv c s -> tstep c s l = Some s' -> Inv c s'.
Proof.
  intros s l s' I H. destruct l as [i|i| |j|k|k].
  - destruct (nth_error (sp s) i) as [p|] eqn:N; [|cbn in H; rewrite N in H; discriminate].
    destruct p as [[|t ts]|t ts|t ts|t ts|t r ts|ts|t ts].
    + cbn in H. rewrite N in H. discriminate.
    + eapply step_S0; eauto.
    + eapply step_S2; eauto.
    + eapply step_S3a; eauto.
    + eapply step_S3b; eauto.
    + eapply step_S4; eauto.
    + eapply step_S3c; eauto.
    + eapply step_S5; eauto.
  - destruct (nth_error (wk s) i) as [p|] eqn:N; [|cbn in H; rewrite N in H; discriminate].
    destruct p as [t|t|t|].
    + eapply step_W0; eauto.
    + eapply step_W1; eauto.
    + eapply step_W2; eauto.
    + cbn in H. rewrite N in H. discriminate.
  - destruct (pr s) eqn:N; try (cbn in H; rewrite N in H; discriminate).
    + eapply step_P0; eauto.
    + eapply step_P1; eauto.
    + eapply step_P2; eauto.
    + eapply step_P3; eauto.
    + eapply step_P4; eauto.
    + eapply step_P7; eauto.
  - destruct (nth_error (sh s) j) as [p|] eqn:N; [|cbn in H; rewrite N in H; discriminate].
    destruct p; try (cbn in H; rewrite N in H; discriminate).
    + eapply step_T0; eauto.
    + eapply step_T2; eauto.
    + eapply step_T3; eauto.
  - destruct (nth_error (wa s) k) as [p|] eqn:N; [|cbn in H; rewrite N in H; discriminate].
    destruct p as [tm|tm snap [|]|res snap]; try (cbn in H; rewrite N in H; discriminate).
    + eapply step_A0; eauto.
    + eapply step_A3; eauto.
  - destruct (nth_error (wa s) k) as [p|] eqn:N; [|cbn in H; rewrite N in H; discriminate].
    destruct p as [tm|[|] snap [|]|res snap]; try (cbn in H; rewrite N in H; discriminate).
    eapply step_timeout; eauto.
Qed.

Theorem run_inv : forall ls s, Inv c s -> Inv c (run c ls s).
Proof.
  induction ls as [|l ls IH]; intros s I; cbn [run]; [exact I|].
  destruct (tstep c s l) as [s'|] eqn:E; [|apply IH; exact I]. apply IH. eapply tstep_inv; eauto.
Qed.

Lemma init_inv : forall progs primary nshut waiters, NoDup (concat progs) -> Inv c (init progs primary nshut waiters).
Proof.
  intros progs primary nshut waiters ND.
  assert (F0 : forall f : spc -> list task, (forall ts, f (S0 ts) = []) -> flat_map f (map S0 progs) = []).
  { intros f Hf. clear ND. induction progs as [|p ps IH]; cbn; [reflexivity|]. rewrite Hf. cbn. apply IH. }
  assert (FF : flat_map futp (map S0 progs) = concat progs).
  { clear. induction progs as [|p ps IH]; cbn; [reflexivity|]. rewrite IH. reflexivity. }
  assert (SP : forall i p, nth_error (map S0 progs) i = Some p -> exists ts, p = S0 ts).
  { intros i p H. rewrite nth_error_map in H. destruct (nth_error progs i); inversion H. eauto. }
  assert (SH : forall j p, nth_error (repeat T0 nshut) j = Some p -> p = T0).
  { intros j p H. apply nth_error_In in H. apply repeat_spec in H. exact H. }
  assert (WA : forall k p, nth_error (map A0 waiters) k = Some p -> exists tm, p = A0 tm).
  { intros k p H. rewrite nth_error_map in H. destruct (nth_error waiters k); inversion H. eauto. }
  unfold init. constructor; cbn [lock running shut mailbox ready fresh acc refused started fin sp wk pr sh wa];
    unfold plist, future, runl, rml, mpend; cbn [lock running shut mailbox ready fresh acc refused started fin sp wk pr sh wa].
  - intro x. rewrite (F0 heldp) by reflexivity. rewrite FF. destruct primary; cbn; rewrite ?cnt_nil;
      assert (cnt (concat progs) x <= 1) by (unfold cnt; apply (proj1 (NoDup_count_occ Nat.eq_dec _) ND)); cbn; lia.
  - intro x. rewrite (F0 heldp) by reflexivity. destruct primary; reflexivity.
  - intro x. destruct primary; reflexivity.
  - intros i p H L. destruct (SP i p H) as [ts ->]. discriminate.
  - intros j p H L. rewrite (SH j p H) in L. discriminate.
  - discriminate.
  - intros [A|[r A]]; unfold pbusy in A; destruct primary; try discriminate; destruct A as [A|[A|[A|A]]]; discriminate.
  - reflexivity.
  - intros r A. unfold pbusy in A. destruct primary; destruct A as [A|[A|[A|A]]]; discriminate.
  - discriminate.
  - discriminate.
  - intros i t r ts H. destruct (SP _ _ H) as [ts' E]. discriminate.
  - intro y. rewrite (F0 heldp) by reflexivity. destruct primary; reflexivity.
  - discriminate.
  - intros i p H L. destruct (SP i p H) as [ts ->]. discriminate.
  - intros j p H L. rewrite (SH j p H) in L. congruence.
  - destruct primary; discriminate.
  - discriminate.
  - intros i t ts [H|H]; destruct (SP _ _ H) as [ts' E]; discriminate.
  - intros i t ts H. destruct (SP _ _ H) as [ts' E]. discriminate.
  - intros j H. apply SH in H. discriminate.
  - intros i t r ts H. destruct (SP _ _ H) as [ts' E]. discriminate.
  - intros i ts H. destruct (SP _ _ H) as [ts' E]. discriminate.
  - intros i p H _. destruct (SP _ _ H) as [ts' ->]. split; intros; discriminate.
  - intros i t H. destruct i; discriminate.
  - intros r [A|A]; destruct primary; discriminate.
  - intros x [].
  - intros k tm snap H. destruct (WA _ _ H) as [tm' E]. discriminate.
  - intros k snap [[tm H]|H] x Hx; destruct (WA _ _ H) as [tm' E]; discriminate.
  - intros k tm snap f H. destruct (WA _ _ H) as [tm' E]. discriminate.
  - discriminate.
  - discriminate.
  - intros _ i t ts H. destruct (SP _ _ H) as [ts' E]. discriminate.
  - intros _ i t r ts H. destruct (SP _ _ H) as [ts' E]. discriminate.
Qed.

(* every reachable state satisfies the invariant *)
Theorem reachable_inv : forall progs primary nshut waiters ls, NoDup (concat progs) ->
  Inv c (run c ls (init progs primary nshut waiters)).
Proof. intros. apply run_inv. apply init_inv. assumption. Qed.
End Reach.
