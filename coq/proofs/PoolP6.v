(* WorkerPool LTS: the properties of C09, for every reachable state / every terminal state *)
From Coq Require Import List Bool Arith Lia.
Import ListNotations.
Require Import EV.model.Pool EV.proofs.PoolP1 EV.proofs.PoolP2 EV.proofs.PoolP5.

Definition terminal (c : pcfg) (s : st) : Prop := forall l, tstep c s l = None.

Lemma cnt_flat_ex : forall {A} (f : A -> list task) l x, cnt (flat_map f l) x >= 1 ->
  exists i a, nth_error l i = Some a /\ cnt (f a) x >= 1.
Proof.
  intros A f l x. induction l as [|y l IH]; cbn [flat_map]; intro H; [rewrite cnt_nil in H; lia|].
  rewrite cnt_app in H. destruct (Nat.eq_dec (cnt (f y) x) 0) as [Z|Z].
  - destruct IH as [i [a [Hi Ha]]]; [lia|]. exists (S i), a. auto.
  - exists 0, y. split; [reflexivity|lia].
Qed.

Section Props.
Variable c : pcfg.
Hypothesis C : cfg_ok c.

(* every accepted call is executed at most once ... *)
Theorem exactly_once : forall s, Inv c s -> NoDup (started s).
Proof.
  intros s I. apply (NoDup_count_occ Nat.eq_dec). intro x. pose proof (i_uniq _ _ I x). unfold cnt in *. lia.
Qed.

(* ... and never dropped: an accepted task that has not started is held by exactly one of
   a spawner inside spawn(), the primary-thread mailbox, a started worker thread, the primary thread *)
Theorem accepted_is_owned : forall s x, Inv c s -> In x (acc s) -> cnt (plist s) x + cnt (started s) x = 1.
Proof.
  intros s x I H. apply cnt_in in H. pose proof (i_acc _ _ I x). pose proof (i_uniq _ _ I x). lia.
Qed.

(* a spawn() call in a pool that is shutting down is refused and changes nothing else *)
Theorem refused_after_shutdown : forall s i t ts s', nth_error (sp s) i = Some (S0 (t :: ts)) -> shut s = true ->
  tstep c s (LSp i) = Some s' ->
  acc s' = acc s /\ running s' = running s /\ refused s' = t :: refused s /\ started s' = started s /\ wk s' = wk s /\ mailbox s' = mailbox s.
Proof.
  intros s i t ts s' N Sh H. cbn [tstep] in H. rewrite N, Sh in H.
  destruct (lock_free s && (negb (protocol c) || subset (acc s) (fin s))); inversion H; subst. cbn. auto 10.
Qed.

(* waitall() / terminate() return True only when every task accepted before the call has finished *)
Theorem waitall_truth : forall s k snap, Inv c s -> nth_error (wa s) k = Some (ARet true snap) -> forall x, In x snap -> In x (fin s).
Proof. intros s k snap I H x Hx. eapply (i_wait1 _ _ I); eauto. Qed.

(* no lost wake-up: a waitall caller is only ever blocked while some accepted task is unfinished or not yet removed *)
Theorem waiter_blocked_only_if_running : forall s k tm snap, Inv c s -> nth_error (wa s) k = Some (A3 tm snap false) -> running s <> [].
Proof. intros. eapply (i_wait0 _ _ H); eauto. Qed.

(* ---- terminal states: nothing can move any more *)
Lemma terminal_lock_free : forall s, Inv c s -> terminal c s -> lock s = None.
Proof.
  intros s I T. destruct C as [CK [CM CP]]. destruct (lock s) as [[i|j]|] eqn:L; [exfalso..|reflexivity].
  - destruct (i_lock_conv_sp _ _ I i L) as [p [N Lp]]. specialize (T (LSp i)). cbn [tstep] in T. rewrite N in T.
    destruct p as [ts|t ts|t ts|t ts|t r ts|ts|t ts]; try discriminate.
    + destruct (pr s); try discriminate; destruct (ready s); cbn in T; try discriminate; destruct (mailbox s); try discriminate; destruct (mto c); discriminate.
    + pose proof (i_s4m _ _ I _ _ _ _ N) as M. pose proof (i_proto4 _ _ I (CP M) _ _ _ _ N) as F.
      apply mem_in in F. rewrite F in T. discriminate.
  - destruct (i_lock_conv_sh _ _ I j L) as [p [N Lp]]. specialize (T (LSh j)). cbn [tstep] in T. rewrite N in T.
    destruct p; try discriminate. destruct (keep_pending c && ready s); discriminate.
Qed.

Lemma terminal_no_work : forall s x, Inv c s -> terminal c s -> cnt (plist s) x + cnt (runl s) x + cnt (rml s) x = 0.
Proof.
  intros s x I T. pose proof (terminal_lock_free s I T) as L.
  destruct (Nat.eq_dec (cnt (plist s) x + cnt (runl s) x + cnt (rml s) x) 0) as [Z|Z]; [exact Z|exfalso].
  unfold plist, runl, rml, mpend in Z. rewrite !cnt_app in Z.
  (* a spawner inside spawn() *)
  destruct (Nat.eq_dec (cnt (flat_map heldp (sp s)) x) 0) as [Z1|Z1].
  2:{ destruct (cnt_flat_ex heldp (sp s) x) as [i [p [N Hp]]]; [lia|].
      pose proof (i_lock_sp _ _ I i p N) as Lk. destruct p; cbn [heldp] in Hp; rewrite ?cnt_nil in Hp; try lia;
        specialize (Lk eq_refl); congruence. }
  (* a worker thread that has not started / is running / has not removed its task *)
  destruct (Nat.eq_dec (cnt (flat_map wpendp (wk s)) x) 0) as [Z2|Z2].
  2:{ destruct (cnt_flat_ex wpendp (wk s) x) as [i [p [N Hp]]]; [lia|]. specialize (T (LWk i)). cbn [tstep] in T. rewrite N in T.
      destruct p; cbn [wpendp] in Hp; rewrite ?cnt_nil in Hp; try lia. cbn beta iota in T. discriminate T. }
  destruct (Nat.eq_dec (cnt (flat_map wrunp (wk s)) x) 0) as [Z3|Z3].
  2:{ destruct (cnt_flat_ex wrunp (wk s) x) as [i [p [N Hp]]]; [lia|]. specialize (T (LWk i)). cbn [tstep] in T. rewrite N in T.
      destruct p; cbn [wrunp] in Hp; rewrite ?cnt_nil in Hp; try lia. cbn beta iota in T. discriminate T. }
  destruct (Nat.eq_dec (cnt (flat_map wrmp (wk s)) x) 0) as [Z4|Z4].
  2:{ destruct (cnt_flat_ex wrmp (wk s) x) as [i [p [N Hp]]]; [lia|]. specialize (T (LWk i)). cbn [tstep] in T. rewrite N in T.
      destruct p; cbn [wrmp] in Hp; rewrite ?cnt_nil in Hp; try lia. unfold lock_free in T. rewrite L in T.
      cbn beta iota in T. destruct (remove_and_wake s t). discriminate T. }
  (* the primary thread *)
  pose proof (T LPr) as TP. cbn [tstep] in TP. unfold lock_free in TP. rewrite L in TP.
  destruct (pr s) eqn:Pp; cbn [ppend prun prm] in Z; rewrite ?cnt_nil in Z; try discriminate TP.
  all: try (match type of TP with context [remove_and_wake ?a ?b] => destruct (remove_and_wake a b) end; discriminate TP).
  all: try (destruct (ready s) eqn:Rd; [cbn beta iota in TP; discriminate TP|]).
  (* what is left: no primary / blocked in ready.wait() / exited -- then the mailbox cannot hold a fresh task *)
  all: destruct (fresh s) eqn:F; [|rewrite ?cnt_nil in Z; lia].
  all: destruct (i_fresh _ _ I F) as [R [t [_ D]]]; try congruence.
  all: destruct D as [D|[D|[r1 [_ D]]]]; unfold pbusy in *; try congruence; destruct D as [D|[D|[D|D]]]; congruence.
Qed.

(* C09: when nothing can move any more, every accepted task has been executed and has finished --
   no accepted task is lost, whatever the interleaving with trigger_shutdown *)
Theorem terminal_all_finished : forall s x, Inv c s -> terminal c s -> In x (acc s) -> In x (fin s) /\ cnt (started s) x = 1.
Proof.
  intros s x I T H. pose proof (terminal_no_work s x I T) as Z. apply cnt_in in H.
  pose proof (i_acc _ _ I x). pose proof (i_run _ _ I x). pose proof (i_uniq _ _ I x).
  split; [apply cnt_in; lia|lia].
Qed.

(* ... _running is empty, so no waitall caller is left blocked (no lost wake-up) *)
Theorem terminal_no_blocked_waiter : forall s k tm snap, Inv c s -> terminal c s -> nth_error (wa s) k <> Some (A3 tm snap false).
Proof.
  intros s k tm snap I T H. pose proof (i_wait0 _ _ I _ _ _ H) as R.
  destruct (running s) as [|y rn] eqn:Rn; [congruence|].
  pose proof (i_rn_cnt _ _ I y) as Y. pose proof (terminal_no_work s y I T) as Z. rewrite Rn, cnt_cons in Y.
  destruct (Nat.eq_dec y y); [lia|congruence].
Qed.

(* ... and after a shutdown the integrated primary thread has left integrate_as_primary_thread *)
Theorem terminal_primary_left : forall s, Inv c s -> terminal c s -> shut s = true -> pr s = PExit \/ pr s = PNone.
Proof.
  intros s I T Sh. pose proof (terminal_lock_free s I T) as L. pose proof (T LPr) as TP. cbn [tstep] in TP. unfold lock_free in TP. rewrite L in TP.
  destruct (pr s) eqn:Pp; auto; try discriminate TP.
  all: try (match type of TP with context [remove_and_wake ?a ?b] => destruct (remove_and_wake a b) end; discriminate TP).
  all: destruct (ready s) eqn:Rd; [cbn beta iota in TP; discriminate TP|]; exfalso.
  all: destruct (i_shut_ready _ _ I Sh Pp) as [R|[j [p [N Lp]]]]; [congruence|].
  all: pose proof (i_lock_sh _ _ I j p N Lp); congruence.
Qed.
End Props.
