From Coq Require Import ZArith List Bool Arith Lia.
Import ListNotations.
Require Import EV.model.Frame EV.proofs.FrameP EV.model.ChanFile EV.proofs.ChanFileP EV.model.Proxy.
Open Scope Z_scope.

Lemma cf_read_abs : forall n (s : cf Z), fst (cf_read Z n s) = firstn n (abs Z s) /\ abs Z (snd (cf_read Z n s)) = skipn n (abs Z s).
Proof.
  intros n s. destruct (cf_read Z n s) as [x s'] eqn:E. pose proof (cf_read_refines Z n s x s' E) as R.
  unfold f_read in R. inversion R; subst. cbn [fst snd]. split; reflexivity.
Qed.

(* the master's receiver over the channel file decodes exactly the frames, for ANY split of the byte stream into
   channel items *)
Lemma pdecode_frames : forall ms fuel (s : cf Z), Forall msg_wf ms -> abs Z s = concat (map enc ms) -> (length ms < fuel)%nat ->
  fst (pdecode fuel s) = ms.
Proof.
  induction ms as [|m ms IH]; intros fuel s W A F.
  - destruct fuel as [|f]; [lia|]. cbn [pdecode]. destruct (cf_read Z 9 s) as [h s1] eqn:E.
    pose proof (cf_read_abs 9 s) as [H1 _]. rewrite E in H1. cbn [fst] in H1. rewrite A in H1. cbn in H1. subst h. reflexivity.
  - destruct fuel as [|f]; [cbn in F; lia|]. inversion W as [|? ? Wm Wms]; subst. cbn [pdecode].
    destruct (cf_read Z 9 s) as [h s1] eqn:E1.
    pose proof (cf_read_abs 9 s) as [H1 H2]. rewrite E1 in H1, H2. cbn [fst snd] in H1, H2. rewrite A in H1, H2. cbn [map concat] in H1, H2.
    rewrite enc_header, <- app_assoc in H1, H2.
    assert (Hh : h = header m). { rewrite H1. exact (firstn_app_exact (header m) (mdata m ++ concat (map enc ms))). }
    assert (Ha : abs Z s1 = mdata m ++ concat (map enc ms)). { rewrite H2. exact (skipn_app_exact (header m) (mdata m ++ concat (map enc ms))). }
    clear H1 H2. subst h. change (length (header m) <? 9)%nat with false. cbv iota.
    destruct m as [ty cid data]. destruct Wm as [Hty [Hcid Hlen]]. cbn [mty mcid mdata] in *.
    set (m := {| mty := ty; mcid := cid; mdata := data |}) in *.
    change (skipn 5 (header m)) with (enc_i32 (Z.of_nat (length data))).
    change (firstn 1 (header m)) with (enc_i8 ty).
    change (firstn 4 (skipn 1 (header m))) with (enc_i32 cid).
    rewrite !dec_enc_i32 by lia. rewrite dec_enc_i8 by lia. rewrite Nat2Z.id.
    destruct (cf_read Z (length data) s1) as [p s2] eqn:E2.
    pose proof (cf_read_abs (length data) s1) as [G1 G2]. rewrite E2 in G1, G2. cbn [fst snd] in G1, G2. rewrite Ha in G1, G2.
    rewrite firstn_app_exact in G1. rewrite skipn_app_exact in G2. subst p.
    specialize (IH f s2 Wms G2). destruct (pdecode f s2) as [r s3]. cbn [fst] in *. rewrite IH by (cbn in F; lia). reflexivity.
Qed.

(* sub -> master: bootstrap byte, then exactly the sub's frames, whatever the item boundaries *)
Theorem proxy_up : forall ms items, Forall msg_wf ms -> concat items = 49 :: concat (map enc ms) ->
  master_reads items (length ms) = ([49], ms).
Proof.
  intros ms items W C. unfold master_reads. destruct (cf_read Z 1 (cf_init Z items)) as [b s1] eqn:E.
  pose proof (cf_read_abs 1 (cf_init Z items)) as [H1 H2]. rewrite E in H1, H2. cbn [fst snd] in H1, H2.
  assert (A0 : abs Z (cf_init Z items) = concat items) by reflexivity. rewrite A0, C in H1, H2. cbn in H1, H2. subst b.
  f_equal. apply pdecode_frames; auto.
Qed.
Corollary proxy_up_forwarder : forall ms, Forall msg_wf ms -> master_reads (up_items ms) (length ms) = ([49], ms).
Proof. intros ms W. apply proxy_up; auto. Qed.

(* master -> sub: the forwarder's callback writes every item to the sub in arrival order (C02/C10), so the sub reads
   the concatenation of the master's frames and decodes them for any chunking of its reads (C08) *)
Theorem proxy_down : forall ms o, Forall msg_wf ms -> decode (concat (map enc ms)) o = (ms, CleanEOF).
Proof. exact decode_roundtrip. Qed.

(* every control request gets the answer to ITSELF: the queue of answers is empty between calls *)
Lemma ctl_call_ok : forall c code s e, every_request_awaits_its_answer c = true -> pending s = [] ->
  pending (ctl_call c code s e) = [] /\ returned (ctl_call c code s e) = returned s ++ [(e, answer_of e code)].
Proof. intros c code s e C P. unfold ctl_call. rewrite P, C. cbn. destruct e; cbn; auto. Qed.
Theorem control_answers_match : forall c code es, every_request_awaits_its_answer c = true ->
  pending (ctl_run c code es) = [] /\ returned (ctl_run c code es) = map (fun e => (e, answer_of e code)) es.
Proof.
  intros c code es C. unfold ctl_run.
  assert (G : forall s, pending s = [] -> pending (fold_left (ctl_call c code) es s) = [] /\
                        returned (fold_left (ctl_call c code) es s) = returned s ++ map (fun e => (e, answer_of e code)) es).
  { induction es as [|e r IH]; intros s P; cbn [fold_left map]; [rewrite app_nil_r; auto|].
    destruct (ctl_call_ok c code s e C P) as [P' R']. destruct (IH _ P') as [A B]. split; auto. rewrite B, R', <- app_assoc. reflexivity. }
  destruct (G {| pending := []; returned := [] |} eq_refl) as [A B]. split; auto.
Qed.
(* what happens otherwise: after a close_write that does not wait, wait() returns the stale acknowledgement *)
Example control_desync_refuted :
  returned (ctl_run {| every_request_awaits_its_answer := false |} 0 [EvCloseWrite; EvWait]) = [(EvWait, ANone)].
Proof. reflexivity. Qed.
