From Coq Require Import List Bool String Arith Lia.
Import ListNotations.
Require Import EV.model.Purity.
Open Scope string_scope.

Lemma mem_in : forall x l, mem x l = true <-> In x l.
Proof.
  intros x l. unfold mem. rewrite existsb_exists. split.
  - intros [y [I E]]. apply String.eqb_eq in E. subst. exact I.
  - intros I. exists x. split; auto. apply String.eqb_refl.
Qed.

(* what the compiler guarantees about the description: every global lookup comes from a Name node, and a name that the
   function's code looks up globally can coincide with one of its own locals only through a `global` statement in a
   nested scope *)
Definition compiler_facts (f : fn) : Prop :=
  incl (gloads f) (names f) /\ (forall n, In n (gloads f) -> In n (varnames f) -> In n (global_decls f)).
Definition pcfg_ok (c : pcfg) : Prop := shadow_checked c = true /\ global_stmt_checked c = true.

Theorem accept_sound : forall c builtins f, pcfg_ok c -> compiler_facts f -> accept c builtins f = true ->
  is_lambda f = false /\ first f = Some "channel" /\ has_closure f = false /\
  forall n, In n (gloads f) -> In n builtins /\ ~ In n (module_names f).
Proof.
  intros c builtins f [S G] [Inc Dis] A. unfold accept in A. apply andb_true_iff in A. destruct A as [A _].
  repeat (apply andb_true_iff in A; destruct A as [A ?]).
  apply negb_true_iff in A. rewrite G in H. cbn in H.
  assert (GD : global_decls f = []) by (destruct (global_decls f); [reflexivity|discriminate]).
  assert (NoLocal : forall n, In n (gloads f) -> ~ In n (varnames f)).
  { intros n I V. pose proof (Dis n I V) as X. rewrite GD in X. exact X. }
  repeat split; auto.
  - destruct (first f) as [a|]; [|discriminate]. apply String.eqb_eq in H2. subst. reflexivity.
  - apply negb_true_iff in H1. exact H1.
  - rewrite forallb_forall in H0. specialize (H0 n (Inc n H3)). unfold name_ok in H0. apply orb_true_iff in H0. destruct H0 as [H0|H0].
    + apply mem_in in H0. exfalso. exact (NoLocal n H3 H0).
    + apply andb_true_iff in H0. destruct H0 as [H0 _]. apply mem_in. exact H0.
  - intro M. rewrite forallb_forall in H0. specialize (H0 n (Inc n H3)). unfold name_ok in H0. apply orb_true_iff in H0. destruct H0 as [H0|H0].
    + apply mem_in in H0. exact (NoLocal n H3 H0).
    + apply andb_true_iff in H0. destruct H0 as [_ H0]. rewrite S in H0. cbn in H0. apply negb_true_iff in H0.
      apply mem_in in M. congruence.
Qed.

(* with the scan of the compiled code's global lookups the conclusion needs NO assumption about the compiler: acceptance itself says
   that every name the code objects look up globally is a builtin the module does not rebind *)
Theorem accept_sound_direct : forall c builtins f, shadow_checked c = true -> gloads_checked c = true -> accept c builtins f = true ->
  is_lambda f = false /\ first f = Some "channel" /\ has_closure f = false /\
  forall n, In n (gloads f) -> In n builtins /\ ~ In n (module_names f).
Proof.
  intros c builtins f S Gl A. unfold accept in A. apply andb_true_iff in A. destruct A as [A Hg].
  repeat (apply andb_true_iff in A; destruct A as [A ?]). apply negb_true_iff in A.
  rewrite Gl in Hg. cbn in Hg. rewrite forallb_forall in Hg.
  repeat split; auto.
  - destruct (first f) as [a|]; [|discriminate]. apply String.eqb_eq in H2. subst. reflexivity.
  - apply negb_true_iff in H1. exact H1.
  - specialize (Hg n H3). unfold gname_ok in Hg. apply andb_true_iff in Hg. apply mem_in. tauto.
  - intro M. specialize (Hg n H3). unfold gname_ok in Hg. apply andb_true_iff in Hg. destruct Hg as [_ Hg]. rewrite S in Hg. cbn in Hg.
    apply negb_true_iff in Hg. apply mem_in in M. congruence.
Qed.
(* without it, a comprehension variable that the compiler keeps among the function's locals (Python 3.12) hides the global use of
   the same name: the compiler fact assumed by accept_sound is false for such a function *)
Example comprehension_variable_refuted :
  let f := {| names := ["x"; "range"; "channel"]; varnames := ["channel"; "x"]; gloads := ["range"; "x"]; first := Some "channel"; has_closure := false; is_lambda := false; module_names := []; global_decls := [] |} in
  accept {| shadow_checked := true; global_stmt_checked := true; gloads_checked := false |} ["range"] f = true /\ In "x" (gloads f) /\ ~ In "x" ["range"].
Proof. cbn. intuition discriminate. Qed.

(* what the pinned tree accepted *)
Example shadow_unchecked_refuted :
  let f := {| names := ["id"; "channel"]; varnames := ["channel"]; gloads := ["id"]; first := Some "channel"; has_closure := false; is_lambda := false; module_names := ["id"]; global_decls := [] |} in
  accept {| shadow_checked := false; global_stmt_checked := true; gloads_checked := false |} ["id"; "len"] f = true /\ In "id" (gloads f) /\ In "id" (module_names f).
Proof. cbn. intuition. Qed.
Example nested_global_unchecked_refuted :
  let f := {| names := ["a"; "channel"]; varnames := ["channel"; "a"]; gloads := ["a"]; first := Some "channel"; has_closure := false; is_lambda := false; module_names := []; global_decls := ["a"] |} in
  accept {| shadow_checked := true; global_stmt_checked := false; gloads_checked := false |} ["len"] f = true /\ In "a" (gloads f) /\ ~ In "a" ["len"].
Proof. cbn. intuition discriminate. Qed.

Lemma shipped_line_offset : forall first k, 1 <= first -> 1 <= k -> shipped_line first k = first + k - 1.
Proof. intros. unfold shipped_line. lia. Qed.
