(* RSync: what the target tree looks like after send() -- proofs *)
From Coq Require Import ZArith List Bool Arith Lia.
Import ListNotations.
Require Import EV.model.RSync.
Open Scope Z_scope.

(* ---------- induction over trees (nested through the entry list) ---------- *)
Section node_ind2.
  Variable P : node -> Prop.
  Hypothesis HF : forall c m t, P (File c m t).
  Hypothesis HL : forall t, P (Link t).
  Hypothesis HD : forall m es, Forall (fun e => P (snd e)) es -> P (Dir m es).
  Fixpoint node_ind2 (x : node) : P x :=
    match x with
    | File c m t => HF c m t
    | Link t => HL t
    | Dir m es => HD m es ((fix go (es : list (nat * node)) : Forall (fun e => P (snd e)) es :=
                              match es with [] => Forall_nil _ | e :: r => Forall_cons e (node_ind2 (snd e)) (go r) end) es)
    end.
End node_ind2.

Definition cf_ok (cf : scfg) : Prop := file_mode_exact cf = true /\ rel_links_asis cf = true.
Definition tes_of (tgt : option node) : list (nat * node) := match tgt with Some (Dir _ tes) => tes | _ => [] end.
Definition corr (t : ltarget) : rtarget := match t with LAbsIn (x :: q) => RDest (x :: q) | _ => RText t end.

(* well-formed trees: names within a directory are distinct; source links carry a text *)
Inductive WF : node -> Prop :=
| WF_file : forall c m t, WF (File c m t)
| WF_link : forall t, WF (Link (RText t))
| WF_dir : forall m es, NoDup (names es) -> (forall n s, In (n, s) es -> WF s) -> WF (Dir m es).

(* the target carries the source entry: files with identical content, permission bits and mtime; directories
   as directories (owner bits forced, as the code documents) holding every source entry; links pointing at the
   corresponding place *)
Inductive Covers : node -> node -> Prop :=
| CvF : forall c m t, Covers (File c m t) (File c m t)
| CvL : forall t, Covers (Link (RText t)) (Link (corr t))
| CvD : forall m es res, (forall n s, In (n, s) es -> exists r, lookup n res = Some r /\ Covers s r) -> Covers (Dir m es) (Dir (Z.lor m 448) res).

Section P.
Variable cf : scfg.
Variable H : list Z -> list Z.
Variable delete : bool.
Variable cwd : option (list nat).
Notation sync := (sync cf H delete cwd).
Notation sync_entries := (sync_entries cf H delete cwd).

(* the quick check's blind spot, and md5 collisions, as an explicit hypothesis on (source, prior target) *)
Definition file_ok (c : list Z) (t : Z) (tgt : option node) : Prop :=
  match tgt with
  | Some (File tc tm tmt) => length tc = length c -> (tmt = t -> tc = c) /\ (H tc = H c -> tc = c)
  | _ => True
  end.
Inductive QuickOk : node -> option node -> Prop :=
| QF : forall c m t tgt, file_ok c t tgt -> QuickOk (File c m t) tgt
| QL : forall t tgt, QuickOk (Link t) tgt
| QD : forall m es tgt, (forall n s, In (n, s) es -> QuickOk s (lookup n (tes_of tgt))) -> QuickOk (Dir m es) tgt.

Lemma sync_dir : forall rp m es tgt,
  sync rp (Dir m es) tgt =
  (let '(synced, trs) := sync_entries rp (tes_of tgt) es in
   (Dir (Z.lor m 448) (synced ++ (if delete then [] else filter (fun e => negb (has (fst e) (names es))) (tes_of tgt))), trs)).
Proof.
  intros rp m es tgt. cbn [RSync.sync]. fold (tes_of tgt).
  match goal with |- (let '(a, b) := ?F es in _) = _ => assert (E : forall l, F l = sync_entries rp (tes_of tgt) l) end.
  { induction l as [|[n s] r IH]; [reflexivity|]. cbn [RSync.sync_entries]. rewrite <- IH. reflexivity. }
  rewrite E. reflexivity.
Qed.

Lemma entries_names : forall rp tes es, names (fst (sync_entries rp tes es)) = names es.
Proof.
  induction es as [|[n s] r IH]; [reflexivity|]. cbn [RSync.sync_entries].
  destruct (sync (n :: rp) s (lookup n tes)) as [x t1]. destruct (sync_entries rp tes r) as [xs t2]. cbn in *. f_equal. exact IH.
Qed.
Lemma entries_lookup : forall rp tes es n s, NoDup (names es) -> In (n, s) es ->
  lookup n (fst (sync_entries rp tes es)) = Some (fst (sync (n :: rp) s (lookup n tes))).
Proof.
  induction es as [|[m y] r IH]; intros n s ND I; [destruct I|]. cbn [RSync.sync_entries].
  destruct (sync (m :: rp) y (lookup m tes)) as [x t1] eqn:E1. destruct (sync_entries rp tes r) as [xs t2] eqn:E2. cbn [fst lookup].
  inversion ND as [|? ? NI ND']; subst. destruct I as [I|I].
  - inversion I; subst. rewrite Nat.eqb_refl. rewrite E1. reflexivity.
  - destruct (Nat.eqb m n) eqn:Q.
    + apply Nat.eqb_eq in Q. subst. exfalso. apply NI. change n with (fst (n, s)). apply in_map. exact I.
    + specialize (IH n s ND' I). exact IH.
Qed.
Lemma lookup_app_l : forall n a b x, lookup n a = Some x -> lookup n (a ++ b) = Some x.
Proof. induction a as [|[m y] r IH]; intros b x E; cbn in *; [discriminate|]. destruct (Nat.eqb m n); auto. Qed.
Lemma lookup_notin : forall n a, ~ In n (names a) -> lookup n a = None.
Proof. induction a as [|[m y] r IH]; intros NI; cbn in *; auto. destruct (Nat.eqb m n) eqn:Q; [apply Nat.eqb_eq in Q; subst; tauto|]. apply IH. tauto. Qed.
Lemma lookup_app_r : forall n a b, ~ In n (names a) -> lookup n (a ++ b) = lookup n b.
Proof. induction a as [|[m y] r IH]; intros b NI; cbn in *; auto. destruct (Nat.eqb m n) eqn:Q; [apply Nat.eqb_eq in Q; subst; tauto|]. apply IH. tauto. Qed.
Lemma has_in : forall n l, has n l = true <-> In n l.
Proof. intros. unfold has. rewrite existsb_exists. split; [intros [x [I E]]; apply Nat.eqb_eq in E; subst; auto|intros I; exists n; split; auto; apply Nat.eqb_refl]. Qed.
Lemma lookup_filter_out : forall n tes l, ~ In n l -> lookup n (filter (fun e => negb (has (fst e) l)) tes) = lookup n tes.
Proof.
  induction tes as [|[m y] r IH]; intros l NI; cbn; auto. destruct (has m l) eqn:Hm; cbn.
  - destruct (Nat.eqb m n) eqn:Q; [apply Nat.eqb_eq in Q; subst; apply has_in in Hm; tauto|]. apply IH. exact NI.
  - destruct (Nat.eqb m n); auto.
Qed.

Lemma classify_corr : rel_links_asis cf = true -> forall t, classify cf cwd t = corr t.
Proof. intros R t. destruct t as [p|[|x q]|k]; cbn; rewrite ?R; reflexivity. Qed.

(* ---------- C17: every source entry is at the target, identical ---------- *)
Lemma sync_file_equal : cf_ok cf -> forall c m t tgt, file_ok c t tgt -> fst (sync_file cf H c m t tgt) = File c m t.
Proof.
  intros [FM _] c m t tgt F. unfold sync_file. destruct tgt as [[tc tm tmt| |]|]; try reflexivity. cbn in F.
  destruct (Nat.eqb (length c) (length tc)) eqn:L; cbn [negb]; [|reflexivity]. apply Nat.eqb_eq in L. symmetry in L. destruct (F L) as [F1 F2].
  destruct (t =? tmt) eqn:T; cbn [negb].
  - apply Z.eqb_eq in T. rewrite (F1 (eq_sym T)). subst tmt. destruct (m =? tm) eqn:M; cbn [negb fst].
    + apply Z.eqb_eq in M. subst. reflexivity.
    + rewrite FM. reflexivity.
  - destruct (list_eq_dec Z.eq_dec (H c) (H tc)) as [E|E]; cbn [fst]; [rewrite (F2 (eq_sym E))|]; reflexivity.
Qed.

Theorem sync_covers : cf_ok cf -> forall src rp tgt, WF src -> QuickOk src tgt -> Covers src (fst (sync rp src tgt)).
Proof.
  intros C src. induction src as [c m t|t|m es IH] using node_ind2; intros rp tgt W Q.
  - inversion Q as [? ? ? ? FO| |]; subst. cbn [RSync.sync]. destruct (sync_file cf H c m t tgt) as [r tr] eqn:E. cbn [fst].
    pose proof (sync_file_equal C c m t tgt FO) as X. rewrite E in X. cbn in X. subst. constructor.
  - inversion W; subst. cbn [RSync.sync fst]. rewrite (classify_corr (proj2 C)). constructor.
  - rewrite sync_dir. destruct (sync_entries rp (tes_of tgt) es) as [synced trs] eqn:E. cbn [fst].
    inversion_clear W as [| |? ? ND WS]. inversion_clear Q as [| |? ? ? QS]. constructor. intros n s I.
    exists (fst (sync (n :: rp) s (lookup n (tes_of tgt)))). split.
    + apply lookup_app_l. pose proof (entries_lookup rp (tes_of tgt) es n s ND I) as X. rewrite E in X. exact X.
    + rewrite Forall_forall in IH. apply (IH (n, s) I); eauto.
Qed.

(* ---------- delete: nothing else remains; no delete: unrelated entries untouched ---------- *)
Inductive Exact : node -> node -> Prop :=
| ExF : forall c m t r, Exact (File c m t) r
| ExL : forall t r, Exact (Link t) r
| ExD : forall m es m' res, names res = names es -> (forall n s r, In (n, s) es -> lookup n res = Some r -> Exact s r) -> Exact (Dir m es) (Dir m' res).

Theorem sync_delete_exact : delete = true -> forall src rp tgt, WF src -> Exact src (fst (sync rp src tgt)).
Proof.
  intros D src. induction src as [c m t|t|m es IH] using node_ind2; intros rp tgt W; try constructor.
  rewrite sync_dir. destruct (sync_entries rp (tes_of tgt) es) as [synced trs] eqn:E. cbn [fst]. rewrite D, app_nil_r.
  inversion_clear W as [| |? ? ND WS]. constructor.
  - pose proof (entries_names rp (tes_of tgt) es) as X. rewrite E in X. exact X.
  - intros n s r I L. pose proof (entries_lookup rp (tes_of tgt) es n s ND I) as X. rewrite E in X. cbn in X. rewrite X in L. injection L as <-.
    rewrite Forall_forall in IH. apply (IH (n, s) I); eauto.
Qed.

Theorem sync_keeps_others : delete = false -> forall rp m es tgt n, ~ In n (names es) ->
  match fst (sync rp (Dir m es) tgt) with Dir _ res => lookup n res = lookup n (tes_of tgt) | _ => False end.
Proof.
  intros D rp m es tgt n NI. rewrite sync_dir. destruct (sync_entries rp (tes_of tgt) es) as [synced trs] eqn:E. cbn [fst]. rewrite D.
  rewrite lookup_app_r.
  - apply lookup_filter_out. exact NI.
  - pose proof (entries_names rp (tes_of tgt) es) as X. rewrite E in X. cbn [fst] in X. rewrite X. exact NI.
Qed.

(* ---------- re-syncing an unchanged tree transfers nothing and changes nothing ---------- *)
Lemma sync_file_idem : forall c m t tgt, sync_file cf H c m t (Some (fst (sync_file cf H c m t tgt))) = (fst (sync_file cf H c m t tgt), false).
Proof.
  intros c m t tgt. unfold sync_file at 2 3.
  assert (Fresh : sync_file cf H c m t (Some (File c m t)) = (File c m t, false)).
  { unfold sync_file. rewrite Nat.eqb_refl, !Z.eqb_refl. reflexivity. }
  destruct tgt as [[tc tm tmt| |]|]; cbn [fst]; try exact Fresh.
  destruct (Nat.eqb (length c) (length tc)) eqn:L; cbn [negb fst]; [|exact Fresh].
  destruct (t =? tmt) eqn:T; cbn [negb fst].
  - apply Z.eqb_eq in T. subst tmt. destruct (m =? tm) eqn:M; cbn [negb fst].
    + unfold sync_file. rewrite L, Z.eqb_refl, M. reflexivity.
    + unfold sync_file. rewrite L, Z.eqb_refl. cbn [negb]. destruct (file_mode_exact cf).
      * rewrite Z.eqb_refl. reflexivity.
      * destruct (m =? Z.lor m 448); reflexivity.
  - destruct (list_eq_dec Z.eq_dec (H c) (H tc)) as [E|E]; cbn [fst]; [|exact Fresh].
    unfold sync_file. rewrite L, !Z.eqb_refl. reflexivity.
Qed.

Lemma filter_filter_same : forall (l : list nat) tes,
  filter (fun e : nat * node => negb (has (fst e) l)) (filter (fun e => negb (has (fst e) l)) tes) = filter (fun e => negb (has (fst e) l)) tes.
Proof. induction tes as [|e r IH]; cbn; auto. destruct (negb (has (fst e) l)) eqn:Q; cbn; rewrite ?Q, IH; reflexivity. Qed.
Lemma filter_synced_nil : forall (l : list nat) (xs : list (nat * node)), names xs = l -> filter (fun e => negb (has (fst e) l)) xs = [].
Proof.
  intros l xs E. assert (forall e, In e xs -> negb (has (fst e) l) = false).
  { intros e I. subst l. assert (has (fst e) (names xs) = true) by (apply has_in; apply in_map; exact I). rewrite H0. reflexivity. }
  clear E. induction xs as [|e r IH]; cbn; auto. rewrite (H0 e) by (left; auto). apply IH. intros; apply H0; right; auto.
Qed.

Theorem sync_idempotent : forall src rp tgt, WF src ->
  sync rp src (Some (fst (sync rp src tgt))) = (fst (sync rp src tgt), []).
Proof.
  intros src. induction src as [c m t|t|m es IH] using node_ind2; intros rp tgt W.
  - cbn [RSync.sync]. destruct (sync_file cf H c m t tgt) as [r tr] eqn:E. cbn [fst].
    pose proof (sync_file_idem c m t tgt) as X. rewrite E in X. cbn [fst] in X. rewrite X. reflexivity.
  - inversion W; subst. reflexivity.
  - inversion_clear W as [| |? ? ND WS].
    rewrite (sync_dir rp m es tgt). destruct (sync_entries rp (tes_of tgt) es) as [synced trs] eqn:E. cbn [fst].
    set (rest := if delete then [] else filter (fun e => negb (has (fst e) (names es))) (tes_of tgt)).
    rewrite sync_dir. cbn [tes_of].
    assert (NS : names synced = names es). { pose proof (entries_names rp (tes_of tgt) es) as X. rewrite E in X. exact X. }
    assert (EE : sync_entries rp (synced ++ rest) es = (synced, [])).
    { assert (G : forall l, (forall n s, In (n, s) l -> In (n, s) es) ->
                  sync_entries rp (synced ++ rest) l = (fst (sync_entries rp (tes_of tgt) l), [])).
      { induction l as [|[n s] r IHl]; intros Sub; [reflexivity|]. cbn [RSync.sync_entries].
        assert (I : In (n, s) es) by (apply Sub; left; auto).
        assert (L : lookup n (synced ++ rest) = Some (fst (sync (n :: rp) s (lookup n (tes_of tgt))))).
        { apply lookup_app_l. pose proof (entries_lookup rp (tes_of tgt) es n s ND I) as X. rewrite E in X. exact X. }
        rewrite L. rewrite Forall_forall in IH. pose proof (IH (n, s) I (n :: rp) (lookup n (tes_of tgt)) (WS n s I)) as X. cbn [snd] in X. rewrite X.
        rewrite IHl by (intros; apply Sub; right; auto).
        destruct (sync (n :: rp) s (lookup n (tes_of tgt))) as [x t1]. destruct (sync_entries rp (tes_of tgt) r) as [xs t2]. reflexivity. }
      rewrite G by auto. rewrite E. reflexivity. }
    rewrite EE. f_equal. f_equal. f_equal. unfold rest. destruct delete; [reflexivity|].
    rewrite filter_app. rewrite (filter_synced_nil (names es) synced NS). cbn [app]. apply filter_filter_same.
Qed.
End P.

(* ---------- links do not depend on the caller's working directory ---------- *)
Theorem sync_cwd_free : forall cf H delete cwd1 cwd2, rel_links_asis cf = true ->
  forall src rp tgt, sync cf H delete cwd1 rp src tgt = sync cf H delete cwd2 rp src tgt.
Proof.
  intros cf H delete cwd1 cwd2 R src. induction src as [c m t|t|m es IH] using node_ind2; intros rp tgt.
  - reflexivity.
  - destruct t as [t|p]; [|reflexivity]. cbn [sync]. rewrite !(classify_corr cf _ R). reflexivity.
  - rewrite !sync_dir.
    assert (E : forall l, (forall e, In e l -> In e es) -> sync_entries cf H delete cwd1 rp (tes_of tgt) l = sync_entries cf H delete cwd2 rp (tes_of tgt) l).
    { induction l as [|[n s] r IHl]; intros Sub; [reflexivity|]. cbn [sync_entries]. rewrite Forall_forall in IH.
      pose proof (IH (n, s) (Sub _ (or_introl eq_refl))) as X. cbn [snd] in X. rewrite X. rewrite IHl by (intros; apply Sub; right; auto). reflexivity. }
    rewrite E by auto. reflexivity.
Qed.

(* ---------- what the pinned tree did ---------- *)
Example mode_or_700_refuted :
  let cf := {| file_mode_exact := false; rel_links_asis := true |} in
  fst (sync cf (fun c => c) false None [] (Dir 493 [(0%nat, File [1] 292 7)]) (Some (Dir 493 [(0%nat, File [1] 420 7)])))
  = Dir 493 [(0%nat, File [1] 484 7)].       (* 0o444 requested, 0o744 obtained *)
Proof. reflexivity. Qed.
Example rel_link_cwd_refuted :
  let cf := {| file_mode_exact := true; rel_links_asis := false |} in
  let src := Dir 493 [(4%nat, Dir 493 [(7%nat, Link (RText (LRel [Nm 0%nat])))])] in
  fst (sync cf (fun c => c) false (Some []) [] src None) <> fst (sync cf (fun c => c) false None [] src None).
Proof. cbv. discriminate. Qed.
