(* The message-level exchange computes RSync.sync: refinement of the tree function by the protocol *)
From Coq Require Import ZArith List Bool Arith Lia.
Import ListNotations.
Require Import EV.model.RSync EV.proofs.RSyncP EV.model.RSyncProto.
Open Scope Z_scope.

Section R.
Variable cf : scfg.
Variable H : list Z -> list Z.
Variable delete : bool.
Variable cwd : option (list nat).
Notation sync := (sync cf H delete cwd).
Notation sync_entries := (sync_entries cf H delete cwd).
Notation recv := (recv cf H delete).
Notation recv_names := (recv_names cf H delete).
Notation finish := (finish).
Notation links_of := (links_of cf cwd).
Notation links_entries := (links_entries cf cwd).

Definition answered (SRC : node) (q : request) : bool := match answer H SRC q with Some _ => true | None => false end.

Lemma structure_dir : forall m es, structure (Dir m es) = MDir m (names es) :: structure_entries es.
Proof.
  intros m es. cbn [structure].
  match goal with |- MDir m (names es) :: ?F es = _ => assert (E : forall l, F l = structure_entries l) end.
  { induction l as [|e r IH]; [reflexivity|]. cbn [structure_entries]. rewrite <- IH. reflexivity. }
  rewrite E. reflexivity.
Qed.
Lemma links_dir : forall m es rp, links_of (Dir m es) rp = links_entries es rp.
Proof.
  intros m es rp. cbn [RSyncProto.links_of].
  match goal with |- ?F es = _ => assert (E : forall l, F l = links_entries l rp) end.
  { induction l as [|e r IH]; [reflexivity|]. cbn [RSyncProto.links_entries]. rewrite <- IH. reflexivity. }
  apply E.
Qed.

Lemma recv_dir : forall f m nms r tgt rp,
  recv (S f) (MDir m nms :: r) tgt rp =
  match recv_names f (tes_of tgt) rp nms r with
  | None => None
  | Some (ps, q, r') => Some (PDir (Z.lor m 448) ps (if delete then [] else filter (fun e => negb (has (fst e) nms)) (tes_of tgt)), q, r')
  end.
Proof.
  intros f m nms r tgt rp. cbn [RSyncProto.recv]. fold (tes_of tgt).
  match goal with |- match ?F nms r with _ => _ end = _ => assert (E : forall l r0, F l r0 = recv_names f (tes_of tgt) rp l r0) end.
  { induction l as [|n rest IH]; intros r0; [reflexivity|]. cbn [RSyncProto.recv_names]. destruct (recv f r0 (lookup n (tes_of tgt)) (n :: rp)) as [[[p q1] r1]|]; [|reflexivity].
    rewrite IH. reflexivity. }
  rewrite E. reflexivity.
Qed.

Lemma finish_dir : forall ls rp m es others a,
  finish ls rp (PDir m es others) a = (let '(xs, r) := finish_entries ls rp es a in (Dir m (xs ++ others), r)).
Proof.
  intros ls rp m es others a. cbn [RSyncProto.finish].
  match goal with |- (let '(xs, r) := ?F es a in _) = _ => assert (E : forall l a0, F l a0 = finish_entries ls rp l a0) end.
  { induction l as [|e rest IH]; intros a0; [reflexivity|]. cbn [RSyncProto.finish_entries]. destruct (finish ls (fst e :: rp) (snd e) a0) as [x a1]. rewrite IH. reflexivity. }
  rewrite E. reflexivity.
Qed.

Lemma get_app : forall p x q, get x (p ++ q) = match get x p with Some y => get y q | None => None end.
Proof.
  induction p as [|n p IH]; intros x q; [reflexivity|]. cbn [app get]. destruct x as [c m t|m es|t]; try reflexivity.
  destruct (lookup n es) as [y|]; [apply IH|reflexivity].
Qed.
Lemma lookup_in_nodup : forall es n s, NoDup (names es) -> In (n, s) es -> lookup n es = Some s.
Proof.
  induction es as [|[m y] r IH]; intros n s ND I; [destruct I|]. cbn [lookup]. inversion ND as [|? ? NI ND']; subst. destruct I as [I|I].
  - inversion I; subst. rewrite Nat.eqb_refl. reflexivity.
  - destruct (Nat.eqb m n) eqn:Q; [apply Nat.eqb_eq in Q; subst; exfalso; apply NI; change n with (fst (n, s)); apply in_map; exact I|]. apply IH; auto.
Qed.

(* one regular file *)
Lemma file_case : forall SRC c m t tgt rp more ls, get SRC (rev rp) = Some (File c m t) ->
  let '(p, q) := recv_file cf H m t (length c) tgt rp in
  finish ls rp p (map (answer H SRC) q ++ more) = (fst (sync_file cf H c m t tgt), more) /\
  map rpath (filter (answered SRC) q) = (if snd (sync_file cf H c m t tgt) then [rev rp] else []).
Proof.
  intros SRC c m t tgt rp more ls G. unfold recv_file, sync_file.
  assert (A0 : forall mm tt, answer H SRC {| rpath := rev rp; rsum := None; rmode := mm; rmtime := tt |} = Some c).
  { intros. unfold answer. cbn [rpath rsum]. rewrite G. reflexivity. }
  destruct tgt as [[tc tm tmt| |]|]; try (cbn [map filter app RSyncProto.finish fst snd]; unfold answered; rewrite !A0; cbn; split; reflexivity).
  destruct (Nat.eqb (length c) (length tc)) eqn:L; cbn [negb].
  - destruct (t =? tmt) eqn:T; cbn [negb].
    + destruct (m =? tm) eqn:M; cbn [negb map filter app RSyncProto.finish fst snd]; split; reflexivity.
    + unfold answered. cbn [map filter app]. unfold answer at 1 2. cbn [rpath rsum]. rewrite G.
      destruct (list_eq_dec Z.eq_dec (H tc) (H c)) as [E|E]; destruct (list_eq_dec Z.eq_dec (H c) (H tc)) as [E'|E']; try congruence;
        cbn [map filter app RSyncProto.finish fst snd rpath]; split; reflexivity.
  - cbn [map filter app RSyncProto.finish fst snd]. unfold answered. rewrite !A0. cbn. split; reflexivity.
Qed.

Definition links_ok (ls : list (list nat * rtarget)) (x : node) (rp : list nat) : Prop :=
  forall p t, In (p, t) (links_of x rp) -> find_link p ls = Some t.

Lemma filter_app_map : forall (f : request -> bool) a b, map rpath (filter f (a ++ b)) = map rpath (filter f a) ++ map rpath (filter f b).
Proof. intros. rewrite filter_app, map_app. reflexivity. Qed.

(* the structure phase consumes exactly the messages of the subtree and the content + link phases rebuild what sync computes *)
Theorem recv_finish : forall SRC ls src, WF src -> forall fuel rest tgt rp more,
  (length (structure src) < fuel)%nat -> get SRC (rev rp) = Some src -> links_ok ls src rp ->
  exists plan reqs, recv fuel (structure src ++ rest) tgt rp = Some (plan, reqs, rest) /\
    finish ls rp plan (map (answer H SRC) reqs ++ more) = (fst (sync rp src tgt), more) /\
    map rpath (filter (answered SRC) reqs) = snd (sync rp src tgt).
Proof.
  intros SRC ls src. induction src as [c m t|t|m es IH] using node_ind2; intros W fuel rest tgt rp more F G LK.
  - (* file *)
    destruct fuel as [|f]; [cbn in F; lia|]. cbn [structure app RSyncProto.recv].
    pose proof (file_case SRC c m t tgt rp more ls G) as X. destruct (recv_file cf H m t (length c) tgt rp) as [p q]. destruct X as [X1 X2].
    exists p, q. split; [reflexivity|]. cbn [RSync.sync]. destruct (sync_file cf H c m t tgt) as [r tr]. cbn [fst snd] in *. split; [exact X1|]. rewrite X2. destruct tr; reflexivity.
  - (* link *)
    destruct fuel as [|f]; [cbn in F; lia|]. inversion W; subst. cbn [structure app RSyncProto.recv]. exists PLink, []. split; [reflexivity|].
    cbn [map app RSyncProto.finish filter RSync.sync fst snd]. split; [|reflexivity].
    rewrite (LK (rev rp) (classify cf cwd t0)); [reflexivity|]. cbn. left; reflexivity.
  - (* directory *)
    destruct fuel as [|f]; [cbn in F; lia|]. inversion_clear W as [| |? ? ND WS]. rewrite structure_dir in *. cbn [app length] in *.
    rewrite recv_dir. rewrite sync_dir.
    assert (E : forall sub rest0 more0, (forall e, In e sub -> In e es) -> (length (structure_entries sub) < f)%nat ->
              exists ps qs, recv_names f (tes_of tgt) rp (names sub) (structure_entries sub ++ rest0) = Some (ps, qs, rest0) /\
                finish_entries ls rp ps (map (answer H SRC) qs ++ more0) = (fst (sync_entries rp (tes_of tgt) sub), more0) /\
                map rpath (filter (answered SRC) qs) = snd (sync_entries rp (tes_of tgt) sub)).
    { induction sub as [|[n s] r IHs]; intros rest0 more0 Sub Fs.
      - exists [], []. cbn. repeat split; reflexivity.
      - cbn [structure_entries names map fst snd RSyncProto.recv_names app length] in *. rewrite app_length in Fs. rewrite <- app_assoc.
        assert (I : In (n, s) es) by (apply Sub; left; reflexivity).
        rewrite Forall_forall in IH.
        assert (Gs : get SRC (rev (n :: rp)) = Some s).
        { cbn [rev]. rewrite get_app, G. cbn [get]. rewrite (lookup_in_nodup es n s ND I). reflexivity. }
        assert (LKs : links_ok ls s (n :: rp)).
        { intros p t Hp. apply LK. rewrite links_dir. clear - I Hp. induction es as [|e r' IHe]; [destruct I|]. cbn [RSyncProto.links_entries]. apply in_or_app.
          destruct I as [->|I]; [left; exact Hp|right; apply IHe; exact I]. }
        destruct (IHs (rest0) more0) as [ps [qs [R1 [R2 R3]]]]; [intros; apply Sub; right; auto|lia|].
        destruct (IH (n, s) I (WS n s I) f (structure_entries r ++ rest0) (lookup n (tes_of tgt)) (n :: rp) (map (answer H SRC) qs ++ more0)) as [p [q [P1 [P2 P3]]]]; [cbn [snd]; lia|exact Gs|exact LKs|].
        cbn [snd] in P1, P2, P3. change (map fst r) with (names r). rewrite P1, R1. exists ((n, p) :: ps), (q ++ qs). split; [reflexivity|].
        cbn [RSyncProto.finish_entries fst snd RSync.sync_entries]. rewrite map_app, <- app_assoc, P2, R2.
        destruct (sync (n :: rp) s (lookup n (tes_of tgt))) as [x t1]. destruct (sync_entries rp (tes_of tgt) r) as [xs t2]. cbn [fst snd] in *.
        split; [reflexivity|]. rewrite filter_app_map, P3, R3. reflexivity. }
    destruct (E es rest more) as [ps [qs [R1 [R2 R3]]]]; [auto|lia|]. rewrite R1.
    eexists. eexists. split; [reflexivity|]. rewrite finish_dir, R2.
    destruct (sync_entries rp (tes_of tgt) es) as [synced trs]. cbn [fst snd] in *. split; [reflexivity|exact R3].
Qed.

(* every link path of a subtree at rp extends rev rp *)
Lemma links_prefix : forall x rp p t, In (p, t) (links_of x rp) -> exists suf, p = rev rp ++ suf.
Proof.
  intros x. induction x as [c m t0|t0|m es IH] using node_ind2; intros rp p t I.
  - destruct I.
  - destruct t0 as [t1|q]; cbn in I; destruct I as [I|[]]; inversion I; subst; exists []; rewrite app_nil_r; reflexivity.
  - rewrite links_dir in I. induction es as [|[n s] r IHe]; [destruct I|]. cbn [RSyncProto.links_entries fst snd] in I. apply in_app_or in I.
    inversion IH as [|? ? Hs Hr]; subst. destruct I as [I|I].
    + destruct (Hs (n :: rp) p t I) as [suf E]. cbn [rev] in E. rewrite <- app_assoc in E. eauto.
    + apply IHe; auto.
Qed.

Lemma find_link_nodup : forall ls p t, NoDup (map fst ls) -> In (p, t) ls -> find_link p ls = Some t.
Proof.
  induction ls as [|[q u] r IH]; intros p t ND I; [destruct I|]. cbn [find_link]. inversion ND as [|? ? NI ND']; subst. destruct I as [I|I].
  - inversion I; subst. destruct (list_eq_dec Nat.eq_dec p p); [reflexivity|congruence].
  - destruct (list_eq_dec Nat.eq_dec q p) as [->|N]; [exfalso; apply NI; change p with (fst (p, t)); apply in_map; exact I|]. apply IH; auto.
Qed.

Lemma NoDup_app_intro : forall {A} (a b : list A), NoDup a -> NoDup b -> (forall x, In x a -> ~ In x b) -> NoDup (a ++ b).
Proof.
  induction a as [|x a IH]; intros b Na Nb D; [exact Nb|]. inversion Na; subst. cbn. constructor.
  - rewrite in_app_iff. intros [X|X]; [auto|]. apply (D x); [left; reflexivity|exact X].
  - apply IH; auto. intros y Iy. apply D. right; exact Iy.
Qed.

Lemma links_nodup : forall x rp, WF x -> NoDup (map fst (links_of x rp)).
Proof.
  intros x. induction x as [c m t0|t0|m es IH] using node_ind2; intros rp W.
  - constructor.
  - destruct t0; cbn; repeat constructor; intros [].
  - rewrite links_dir. inversion_clear W as [| |? ? ND WS]. clear m.
    induction es as [|[n s] r IHe]; [constructor|]. cbn [RSyncProto.links_entries fst snd]. rewrite map_app.
    inversion IH as [|? ? Hs Hr]; subst. cbn [names map fst] in ND. inversion ND as [|? ? NI ND']; subst.
    apply NoDup_app_intro.
    + apply Hs. apply (WS n s). left; reflexivity.
    + apply IHe; auto. intros n' s' I'. apply (WS n' s'). right; exact I'.
    + intros p Ip Iq. apply in_map_iff in Ip. destruct Ip as [[p1 t1] [E1 I1]]. cbn in E1. subst p1.
      destruct (links_prefix s (n :: rp) p t1 I1) as [suf1 E1]. cbn [rev] in E1. rewrite <- app_assoc in E1.
      (* p also comes from a later entry n' <> n *)
      clear - Iq E1 NI. induction r as [|[n' s'] r' IHr]; [destruct Iq|]. cbn [RSyncProto.links_entries fst snd] in Iq. rewrite map_app in Iq.
      apply in_app_or in Iq. destruct Iq as [Iq|Iq].
      * apply in_map_iff in Iq. destruct Iq as [[p2 t2] [E2 I2]]. cbn in E2. subst p2.
        destruct (links_prefix s' (n' :: rp) p t2 I2) as [suf2 E2]. cbn [rev] in E2. rewrite <- app_assoc in E2.
        rewrite E1 in E2. apply app_inv_head in E2. cbn in E2. inversion E2; subst. apply NI. cbn. left; reflexivity.
      * apply IHr; auto. intros X. apply NI. cbn. right; exact X.
Qed.

(* the whole exchange -- structure broadcast, requests by path, answers in request order, links by path -- computes sync *)
Theorem exchange_is_sync : forall src tgt, WF src ->
  exchange cf H delete cwd src tgt = Some (sync [] src tgt).
Proof.
  intros src tgt W. unfold exchange.
  assert (LK : links_ok (links_of src []) src []).
  { intros p t I. apply find_link_nodup; [apply links_nodup; exact W|exact I]. }
  destruct (recv_finish src (links_of src []) src W (S (length (structure src))) [] tgt [] [] (Nat.lt_succ_diag_r _) eq_refl LK) as [plan [reqs [R1 [R2 R3]]]].
  rewrite app_nil_r in *. rewrite R1. rewrite R2. fold (answered src). unfold answered in R3.
  destruct (sync [] src tgt) as [res trs]. cbn [fst snd] in *. rewrite <- R3. reflexivity.
Qed.
End R.
