(* per-channel RECONFIGURE: silent, effective, and what the pinned handler did instead *)
From Coq Require Import List Bool.
Import ListNotations.
Require Import EV.model.Reconf.

(* states the operations can produce: an object without queue has its callback registered;
   a remembered setting exists only for an id without object and without callback *)
Definition rwf (s : rstate) : Prop :=
  (alive s = true -> obj_queue s = false -> cb s <> None) /\
  (pending s <> None -> alive s = false /\ cb s = None) /\
  (alive s = true -> forall c, cb s = Some c -> obj_cfg s = c).

Lemma rwf_init : forall g, rwf (rinit g).
Proof. intro g. repeat split; cbn; intros; try discriminate; try contradiction. Qed.

Lemma rwf_step : forall s o, rwf s -> rwf (fst (fst (rstep false s o))).
Proof.
  intros [al oc oq c p g] o W. unfold rwf in *. cbn in W.
  destruct o as [c'| | | |c'|]; destruct al, oq, c as [x|], p as [y|]; cbn;
    intuition (try discriminate; try congruence).
Qed.

Lemma rwf_run : forall ops s, rwf s -> rwf (fst (rrun false s ops)).
Proof.
  induction ops as [|o r IH]; intros s W; [exact W|].
  cbn [rrun]. pose proof (rwf_step s o W) as W'.
  destruct (rstep false s o) as [[s' e] u]. cbn in W'.
  specialize (IH s' W'). destruct (rrun false s' r) as [s'' t]. exact IH.
Qed.

(* 1. the message is silent: nothing is sent to the peer, whatever the state *)
Theorem reconf_silent : forall s c, snd (r_reconf false s c) = [].
Proof. intros. reflexivity. Qed.

(* ... and it neither creates nor removes the object, its queue or the callback registration *)
Theorem reconf_keeps_presence : forall s c, let s' := fst (r_reconf false s c) in
  alive s' = alive s /\ obj_queue s' = obj_queue s /\ (cb s' = None <-> cb s = None).
Proof.
  intros [al oc oq c0 p g] c. destruct al, c0; cbn; repeat split; intros; try discriminate; auto.
Qed.

(* in every history the only operation that makes this side send CLOSE / LAST_MESSAGE is the user dropping the object *)
Theorem only_drops_emit : forall ops s,
  Forall2 (fun o r => match o with RDrop => True | _ => fst r = [] end) ops (snd (rrun false s ops)).
Proof.
  induction ops as [|o r IH]; intros s; [constructor|].
  cbn [rrun]. specialize (IH (fst (fst (rstep false s o)))).
  destruct (rstep false s o) as [[s' e] u] eqn:E. cbn in IH.
  destruct (rrun false s' r) as [s'' t]. cbn in *. constructor; [|exact IH].
  destruct o; cbn; auto; cbn in E.
  - inversion E. reflexivity.
  - inversion E. reflexivity.
  - destruct (alive s && obj_queue s); inversion E; reflexivity.
  - inversion E. reflexivity.
  - inversion E. reflexivity.
Qed.

(* 2. the setting is in force: the next item is loaded with it if it is delivered at once, and once the channel
   object has arrived (new(id)) it IS delivered, with that setting *)
Theorem reconf_in_force_now : forall s c, rwf s ->
  match r_data (fst (r_reconf false s c)) with Dropped => True | ToQueue c' => c' = c | ToCallback c' => c' = c end.
Proof.
  intros [al oc oq c0 p g] c _. destruct al, c0, oq; cbn; auto.
Qed.

Theorem reconf_in_force_on_arrival : forall s c, rwf s ->
  match r_data (r_new (fst (r_reconf false s c))) with Dropped => False | ToQueue c' => c' = c | ToCallback c' => c' = c end.
Proof.
  intros [al oc oq c0 p g] c [W1 [W2 _]]. cbn in W1, W2. destruct al, c0 as [x|], oq, p as [y|]; cbn; auto;
    try (apply W1; reflexivity); try (destruct W2 as [A B]; [discriminate|discriminate]).
Qed.

(* 3. the pinned handler: configuring a channel this side holds no object for makes it say CLOSE to the peer *)
Theorem pinned_handler_closes_refuted : exists g c, snd (r_reconf true (rinit g) c) = [ECLOSE].
Proof. exists (true, false), (true, false). reflexivity. Qed.

(* the history of the defect: reconfigure, then the channel arrives; the peer was told CLOSE in between *)
Example pinned_history :
  map fst (snd (rrun true (rinit (true, false)) [RReconf (false, true); RArrive; RData])) = [[ECLOSE]; []; []] /\
  map fst (snd (rrun false (rinit (true, false)) [RReconf (false, true); RArrive; RData])) = [[]; []; []] /\
  map snd (snd (rrun false (rinit (true, false)) [RReconf (false, true); RArrive; RData])) = [None; None; Some (ToQueue (false, true))].
Proof. repeat split; reflexivity. Qed.

(* the setting in force for the id: the object's, else the callback registration's, else the remembered one *)
Definition chan_cfg (s : rstate) : option strcfg :=
  if alive s then Some (obj_cfg s) else match cb s with Some c => Some c | None => pending s end.

(* RECONFIGURE sets it ... *)
Theorem reconf_sets : forall s c, rwf s -> chan_cfg (fst (r_reconf false s c)) = Some c.
Proof. intros [al oc oq c0 p g] c _. destruct al, c0 as [x|]; reflexivity. Qed.

(* ... every item that is delivered is loaded with it ... *)
Theorem data_uses_setting : forall s, rwf s ->
  match r_data s with Dropped => True | ToQueue c | ToCallback c => chan_cfg s = Some c end.
Proof. intros [al oc oq c0 p g] _. destruct al, c0 as [x|], oq; cbn; auto. Qed.

(* ... and nothing else changes it for as long as the id is known here: the object may be dropped and come back
   (through the callback registration), a callback may be set, the gateway-wide default may change; only the drop
   of the last thing that knows the id forgets the setting together with the id *)
Theorem setting_stable : forall s o c, rwf s -> (forall c', o <> RReconf c') -> chan_cfg s = Some c ->
  let s' := fst (fst (rstep false s o)) in chan_cfg s' = Some c \/ (chan_cfg s' = None /\ o = RDrop).
Proof.
  intros [al oc oq c0 p g] o c [W1 [W2 W3]] Ho H. cbn in W1, W2, W3, H.
  destruct o as [c'| | | |c'|]; [exfalso; exact (Ho c' eq_refl)| | | | |];
    destruct al, oq, c0 as [x|], p as [y|]; cbn in *;
    try (left; first [exact H | rewrite (W3 eq_refl x eq_refl) in H; exact H | congruence]);
    try (right; split; [reflexivity|reflexivity]);
    try (exfalso; destruct W2 as [A B]; [discriminate|discriminate]).
Qed.

Example setting_survives_readoption :
  map snd (snd (rrun false (rinit (true, false)) [RArrive; RSetcb; RDrop; RReconf (false, true); RGwReconf (true, true); RArrive; RData]))
  = [None; None; None; None; None; None; Some (ToCallback (false, true))].
Proof. reflexivity. Qed.
