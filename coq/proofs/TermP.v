From Coq Require Import List Bool Arith Lia.
Import ListNotations.
Require Import EV.model.Term.

(* ---------- safe_terminate ---------- *)
Lemma wait_until_bound : forall t f w, t <= wait_until t f w <= t + w.
Proof. intros t [x|] w; unfold wait_until; [destruct (x <=? t) eqn:A; [lia|destruct (x <=? t + w) eqn:B; [apply Nat.leb_le in B; apply Nat.leb_gt in A; lia|lia]]|lia]. Qed.
Lemma wait_until_done : forall t x w F, x <= F -> t <= F -> wait_until t (Some x) w <= F.
Proof. intros t x w F H1 H2. unfold wait_until. destruct (x <=? t); [lia|]. destruct (x <=? t + w) eqn:B; [lia|]. apply Nat.leb_gt in B. lia. Qed.

Lemma fold_wait_bound : forall T ms t0, fold_left (fun t m => wait_until t (termkill_done T m) (2 * T)) ms t0 <= t0 + length ms * (2 * T).
Proof.
  intros T ms; induction ms as [|m r IH]; intros t0; cbn [fold_left length]; [lia|].
  pose proof (wait_until_bound t0 (termkill_done T m) (2 * T)) as B. specialize (IH (wait_until t0 (termkill_done T m) (2 * T))). lia.
Qed.
(* whatever the members do -- a kill function that hangs included -- terminate's inner wait is over after (n+1) * 2T *)
Theorem safe_terminate_bounded : forall T ms, safe_terminate_returns T ms <= (length ms + 1) * (2 * T).
Proof.
  intros T ms. unfold safe_terminate_returns. pose proof (fold_wait_bound T ms 0) as F.
  set (t := fold_left _ ms 0) in *. pose proof (wait_until_bound t (omax (map (termkill_done T) ms ++ map (termfunc_done T) ms)) (2 * T)). lia.
Qed.

Lemma fold_wait_done : forall T ms F t0, t0 <= F -> (forall m, In m ms -> exists x, termkill_done T m = Some x /\ x <= F) ->
  fold_left (fun t m => wait_until t (termkill_done T m) (2 * T)) ms t0 <= F.
Proof.
  intros T ms F; induction ms as [|m r IH]; intros t0 H0 H; cbn [fold_left]; [exact H0|].
  destruct (H m (or_introl eq_refl)) as [x [E L]]. rewrite E. apply IH; [apply wait_until_done; auto|]. intros m' I. apply H. right; exact I.
Qed.
Lemma omax_bound : forall l F, (forall o, In o l -> exists x, o = Some x /\ x <= F) -> exists y, omax l = Some y /\ y <= F.
Proof.
  induction l as [|o r IH]; intros F H; cbn; [exists 0; split; auto; lia|].
  destruct (H o (or_introl eq_refl)) as [x [-> L]]. destruct (IH F) as [y [E Ly]]; [intros; apply H; right; auto|]. rewrite E. exists (Nat.max x y). split; auto. lia.
Qed.
(* when every kill is prompt (at most K ticks) and every member that is not killed is down by T: back after T + K *)
Theorem safe_terminate_prompt : forall T K ms, (forall m, In m ms -> killed T m = true -> exists x, k m = Some x /\ x <= K) ->
  safe_terminate_returns T ms <= T + K.
Proof.
  intros T K ms H. unfold safe_terminate_returns.
  assert (A : forall m, In m ms -> (exists x, termkill_done T m = Some x /\ x <= T + K) /\ (exists x, termfunc_done T m = Some x /\ x <= T + K)).
  { intros m I. unfold termkill_done, termfunc_done. destruct (leb_o (d m) T) eqn:L.
    - unfold leb_o in L. destruct (d m) as [x|]; [|discriminate]. apply Nat.leb_le in L. split; exists x; split; auto; lia.
    - destruct (H m I) as [x [E Lx]]; [unfold killed; rewrite L; reflexivity|]. rewrite E. split; exists (T + x); split; auto; lia. }
  pose proof (fold_wait_done T ms (T + K) 0) as F1. assert (F0 : 0 <= T + K) by lia. specialize (F1 F0 (fun m I => proj1 (A m I))).
  destruct (omax_bound (map (termkill_done T) ms ++ map (termfunc_done T) ms) (T + K)) as [y [E Ly]].
  { intros o I. apply in_app_or in I. destruct I as [I|I]; apply in_map_iff in I; destruct I as [m [<- Im]]; [exact (proj1 (A m Im))|exact (proj2 (A m Im))]. }
  rewrite E. apply wait_until_done; auto.
Qed.
(* the kill function is invoked exactly for the members that are not down after T *)
Theorem kill_iff_late : forall T m, killed T m = true <-> (forall x, d m = Some x -> T < x).
Proof.
  intros T m. unfold killed, leb_o. destruct (d m) as [x|]; split.
  - intros H y E. injection E as <-. apply negb_true_iff in H. apply Nat.leb_gt in H. exact H.
  - intros H. apply negb_true_iff. apply Nat.leb_gt. apply H. reflexivity.
  - intros _ y E. discriminate.
  - reflexivity.
Qed.

(* ---------- rounds of Group.terminate ---------- *)
Definition wf_forest (g : list gwnode) : Prop :=
  NoDup (map gid g) /\ forall x, In x g -> forall j, via x = Some j -> j < gid x.
(* a gateway with the largest id is nobody's via, so every round removes at least one gateway *)
Lemma max_not_via : forall g x, wf_forest g -> In x g -> (forall y, In y g -> gid y <= gid x) -> is_via g (gid x) = false.
Proof.
  intros g x [_ W] I M. unfold is_via. apply not_true_is_false. intro E. apply existsb_exists in E. destruct E as [y [Iy Ey]].
  destruct (via y) as [j|] eqn:V; [|discriminate]. apply Nat.eqb_eq in Ey. subst j. pose proof (W y Iy _ V). pose proof (M y Iy). lia.
Qed.
Lemma exists_max : forall g : list gwnode, g <> [] -> exists x, In x g /\ forall y, In y g -> gid y <= gid x.
Proof.
  induction g as [|a r IH]; intros N; [congruence|]. destruct r as [|b r'].
  - exists a. split; [left; auto|]. intros y [<-|[]]. lia.
  - destruct IH as [x [I M]]; [discriminate|]. destruct (le_lt_dec (gid x) (gid a)).
    + exists a. split; [left; auto|]. intros y [<-|Iy]; [lia|]. specialize (M y Iy). lia.
    + exists x. split; [right; auto|]. intros y [<-|Iy]; [lia|]. auto.
Qed.
Lemma filter_length_le' : forall {A} (f : A -> bool) l, length (filter f l) <= length l.
Proof. intros A f l; induction l as [|a r IH]; cbn; [lia|]. destruct (f a); cbn; lia. Qed.
Lemma filter_length_lt : forall {A} (f : A -> bool) l x, In x l -> f x = false -> length (filter f l) < length l.
Proof.
  intros A f l x; induction l as [|a r IH]; intros I F; [destruct I|]. cbn [filter length]. destruct I as [<-|I].
  - rewrite F. pose proof (filter_length_le' f r). lia.
  - specialize (IH I F). destruct (f a); cbn [length]; lia.
Qed.
Lemma round_shrinks : forall g, wf_forest g -> g <> [] -> length (round g) < length g.
Proof.
  intros g W N. destruct (exists_max g N) as [x [I M]]. pose proof (max_not_via g x W I M) as V. unfold round.
  exact (filter_length_lt (fun y => is_via g (gid y)) g x I V).
Qed.
Lemma round_wf : forall g, wf_forest g -> wf_forest (round g).
Proof.
  intros g [ND W]. unfold round. split.
  - clear W. induction g as [|a r IH]; [constructor|]. cbn [map] in ND. inversion ND as [|? ? NI ND']; subst.
    assert (G : forall (f : gwnode -> bool) l, NoDup (map gid l) -> NoDup (map gid (filter f l))).
    { intros f l; induction l as [|b l' IHl]; intros H; cbn; [constructor|]. inversion H as [|? ? NI' ND'']; subst. destruct (f b); cbn; auto.
      constructor; auto. intro X. apply NI'. apply in_map_iff in X. destruct X as [y [E Iy]]. apply filter_In in Iy. rewrite <- E. apply in_map. tauto. }
    apply G. exact ND.
  - intros x I j V. apply filter_In in I. apply (W x (proj1 I) j V).
Qed.
(* the while loop of terminate ends after at most n passes with an empty group *)
Theorem rounds_bounded : forall fuel g, wf_forest g -> length g <= fuel -> rounds fuel g <= length g.
Proof.
  induction fuel as [|f IH]; intros g W L; cbn [rounds]; [lia|]. destruct g as [|a r] eqn:E; [cbn; lia|]. rewrite <- E in *.
  assert (N : g <> []) by (rewrite E; discriminate). pose proof (round_shrinks g W N) as S. specialize (IH (round g) (round_wf g W)). lia.
Qed.
(* every member is either exited in this pass or stays for the next one *)
Lemma member_exits_or_stays : forall c s x, In x (members s) -> In (gid x) (map gid (exiting c s)) \/ In x (staying c s).
Proof.
  intros c s x I. destruct (is_via (via_pool c s) (gid x)) eqn:V.
  - right. unfold staying. apply filter_In. auto.
  - left. apply in_map. unfold exiting. apply filter_In. rewrite V. auto.
Qed.
Lemma staying_sub : forall c s x, In x (staying c s) -> In x (members s).
Proof. intros c s x I. unfold staying in I. apply filter_In in I. tauto. Qed.
Lemma staying_wf : forall c s, wf_forest (members s) -> wf_forest (staying c s).
Proof.
  intros c s [ND W]. unfold staying. split.
  - assert (G : forall (f : gwnode -> bool) l, NoDup (map gid l) -> NoDup (map gid (filter f l))).
    { intros f l; induction l as [|b l' IHl]; intros H; cbn; [constructor|]. inversion H as [|? ? NI' ND'']; subst. destruct (f b); cbn; auto.
      constructor; auto. intro X. apply NI'. apply in_map_iff in X. destruct X as [y [E Iy]]. apply filter_In in Iy. rewrite <- E. apply in_map. tauto. }
    apply G. exact ND.
  - intros x I j V. apply filter_In in I. apply (W x (proj1 I) j V).
Qed.
Lemma staying_length_le : forall c s, length (staying c s) <= length (members s).
Proof. intros. unfold staying. apply filter_length_le'. Qed.
(* with nothing left to join the pass is the plain round: it removes a gateway *)
Lemma staying_shrinks : forall c s, wf_forest (members s) -> members s <> [] -> tojoin s = [] -> length (staying c s) < length (members s).
Proof.
  intros c s W N T. assert (P : via_pool c s = members s) by (unfold via_pool; rewrite T, app_nil_r; destruct (vias_count_tojoin c); reflexivity).
  unfold staying. rewrite P. exact (round_shrinks (members s) W N).
Qed.

Definition tmeasure (s : gstate) : nat := 2 * length (members s) + match tojoin s with [] => 0 | _ => 1 end.

(* Group.terminate with the loop running while members OR exited-but-unjoined gateways remain: afterwards the group is empty,
   nothing is left to join, and every gateway that was a member or had been exit()ed before went through safe_terminate *)
Theorem terminate_joins_everything : forall c, joins_pending c = true -> forall fuel s, wf_forest (members s) -> tmeasure s < fuel ->
  let s' := terminate_loop c fuel s in
  members s' = [] /\ tojoin s' = [] /\
  (forall i, In i (joined s) \/ In i (map gid (tojoin s)) \/ In i (map gid (members s)) -> In i (joined s')).
Proof.
  intros c J. induction fuel as [|f IH]; intros s W L; [lia|]. cbn [terminate_loop]. rewrite J.
  assert (Step : (members s <> [] \/ tojoin s <> []) ->
     let s' := terminate_loop c f (tpass c s) in
     members s' = [] /\ tojoin s' = [] /\ (forall i, In i (joined s) \/ In i (map gid (tojoin s)) \/ In i (map gid (members s)) -> In i (joined s'))).
  { intros NE.
    assert (L1 : tmeasure (tpass c s) < f).
    { unfold tmeasure in *. cbn [tpass members tojoin]. pose proof (staying_length_le c s). destruct (tojoin s) as [|j js] eqn:T.
      - destruct NE as [NE|NE]; [|congruence]. pose proof (staying_shrinks c s W NE T). lia.
      - lia. }
    specialize (IH (tpass c s) (staying_wf c s W) L1). cbn zeta in IH. destruct IH as [A [B Cj]].
    repeat split; auto. intros i H. apply Cj. cbn [tpass joined members tojoin].
    destruct H as [H|[H|H]].
    - left. apply in_or_app. auto.
    - left. apply in_or_app. right. apply in_or_app. auto.
    - apply in_map_iff in H. destruct H as [x [E Ix]]. subst i. destruct (member_exits_or_stays c s x Ix) as [Q|Q].
      + left. apply in_or_app. right. apply in_or_app. auto.
      + right. right. apply in_map. exact Q. }
  destruct (members s) as [|a r] eqn:M.
  - destruct (tojoin s) as [|j js] eqn:T.
    + cbn. repeat split; auto. intros i [H|[H|H]]; [exact H|destruct H|destruct H].
    + apply Step. right. discriminate.
  - replace (match tojoin s with [] => terminate_loop c f (tpass c s) | _ :: _ => terminate_loop c f (tpass c s) end) with (terminate_loop c f (tpass c s)) by (destruct (tojoin s); reflexivity).
    apply Step. left. discriminate.
Qed.

(* no gateway is exited in a pass in which a gateway routed through it is still to be joined (or is itself exited and joined in
   that pass): the join / wait / kill of a proxied gateway travel through a live via gateway *)
Theorem joined_through_live_via : forall c s x y, vias_count_tojoin c = true ->
  In x (exiting c s) -> In y (tojoin s ++ exiting c s) -> via y <> Some (gid x).
Proof.
  intros c s x y V Ix Iy E. unfold exiting in Ix. apply filter_In in Ix. destruct Ix as [_ Nv]. apply negb_true_iff in Nv.
  assert (Hv : is_via (via_pool c s) (gid x) = true).
  { unfold is_via. apply existsb_exists. exists y. split.
    - unfold via_pool. rewrite V. apply in_app_or in Iy. apply in_or_app. destruct Iy as [Iy|Iy]; [right; exact Iy|left].
      unfold exiting in Iy. apply filter_In in Iy. tauto.
    - rewrite E. apply Nat.eqb_refl. }
  congruence.
Qed.

(* the loop `while self:` alone forgets gateways that were exit()ed before terminate() was called *)
Lemma terminate_forgets_exited_refuted : exists s, members s = [] /\
  tojoin (terminate_loop {| joins_pending := false; vias_count_tojoin := true |} 5 s) <> [] /\
  joined (terminate_loop {| joins_pending := false; vias_count_tojoin := true |} 5 s) = [].
Proof. exists {| members := []; tojoin := [{| gid := 7; via := None |}]; joined := [] |}. cbn. repeat split; discriminate. Qed.
(* counting only members as users of a via gateway exits the via in the very pass that has to join an exited gateway through it *)
Lemma via_exited_too_early_refuted : exists s x y, wf_forest (members s) /\
  In x (exiting {| joins_pending := true; vias_count_tojoin := false |} s) /\ In y (tojoin s) /\ via y = Some (gid x).
Proof.
  exists {| members := [{| gid := 1; via := None |}]; tojoin := [{| gid := 2; via := Some 1 |}]; joined := [] |}, {| gid := 1; via := None |}, {| gid := 2; via := Some 1 |}.
  cbn. repeat split; auto. constructor; [intros []|constructor]. intros x [<-|[]] j; discriminate.
Qed.

Fixpoint iter_round (n : nat) (g : list gwnode) : list gwnode := match n with O => g | S m => iter_round m (round g) end.
Theorem group_empty_after : forall g, wf_forest g -> iter_round (length g) g = [].
Proof.
  intros g. remember (length g) as n eqn:E. assert (L : length g <= n) by lia. clear E. revert g L.
  induction n as [|m IH]; intros g L W; cbn [iter_round]; [destruct g; [reflexivity|cbn in L; lia]|].
  destruct g as [|a r] eqn:E; [clear; induction m; cbn; auto|]. rewrite <- E in *.
  assert (N : g <> []) by (rewrite E; discriminate). apply IH; [pose proof (round_shrinks g W N); lia|apply round_wf; exact W].
Qed.

(* ---------- the worker's ladder ---------- *)
(* whatever the tasks do -- never ending, swallowing KeyboardInterrupt, running in the main thread or not -- the worker
   process is gone t1 + t2 after its receiver saw EOF at the latest *)
Theorem ladder_bounded : forall l ts, exit_time l ts <= t1 l + t2 l.
Proof.
  intros l ts. unfold exit_time.
  assert (A : forall T, all_done_by ts T = true -> match omax (map ends ts) with Some x => x | None => T end <= T).
  { intros T H. unfold all_done_by in H. rewrite forallb_forall in H.
    assert (G : exists y, omax (map ends ts) = Some y /\ y <= T).
    { apply omax_bound. intros o I. apply in_map_iff in I. destruct I as [x [<- Ix]]. specialize (H x Ix). unfold leb_o in H.
      destruct (ends x) as [e|]; [|discriminate]. apply Nat.leb_le in H. eauto. }
    destruct G as [y [-> Ly]]. exact Ly. }
  destruct (all_done_by ts (t1 l)) eqn:D1.
  - specialize (A (t1 l) D1). lia.
  - destruct (main_task ts) as [m|]; [|lia]. destruct (leb_o (ends m) (t1 l)); [lia|]. destruct (on_int m).
    + destruct (others_done ts) as [x|]; [|lia]. destruct (x <=? t1 l + t2 l) eqn:X; [apply Nat.leb_le in X; lia|lia].
    + destruct (all_done_by ts (t1 l + t2 l)) eqn:D2; [exact (A _ D2)|lia].
Qed.
(* ... and at t1 when SIGINT finds the main thread idle, or inside a task that unwinds while no other thread's task is still
   running (a task in another thread keeps the receiver -- which serve() joins -- waiting until t1 + t2) *)
Theorem ladder_sigint_suffices : forall l ts,
  (forall m, main_task ts = Some m -> leb_o (ends m) (t1 l) = true \/
        (on_int m = Unwinds /\ exists x, others_done ts = Some x /\ x <= t1 l)) ->
  exit_time l ts <= t1 l.
Proof.
  intros l ts H. unfold exit_time. destruct (all_done_by ts (t1 l)) eqn:D1.
  - unfold all_done_by in D1. rewrite forallb_forall in D1.
    assert (G : exists y, omax (map ends ts) = Some y /\ y <= t1 l).
    { apply omax_bound. intros o I. apply in_map_iff in I. destruct I as [x [<- Ix]]. specialize (D1 x Ix). unfold leb_o in D1.
      destruct (ends x) as [e|]; [|discriminate]. apply Nat.leb_le in D1. eauto. }
    destruct G as [y [-> Ly]]. exact Ly.
  - destruct (main_task ts) as [m|] eqn:M; [|lia]. destruct (H m eq_refl) as [E|[U [x [O Lx]]]]; [rewrite E; lia|].
    destruct (leb_o (ends m) (t1 l)); [lia|]. rewrite U, O. destruct (x <=? t1 l + t2 l) eqn:X; [lia|apply Nat.leb_gt in X; lia].
Qed.
