(* Proofs about the UTF-8 model: byte range of the encoder output, strict
   decode-after-encode round trip, and characterisation of encode failure. *)
From Coq Require Import ZArith List Bool Lia.
Import ListNotations.
Require Import EV.model.Utf8.
Open Scope Z_scope.

(* turn boolean comparisons (in goal and hypotheses) into linear arithmetic *)
Ltac bprop :=
  repeat rewrite ?andb_true_iff, ?andb_false_iff, ?negb_true_iff, ?negb_false_iff,
                 ?Z.leb_le, ?Z.ltb_lt, ?Z.leb_gt, ?Z.ltb_ge in *.

Ltac bsolve := unfold is_cont, scalar in *; bprop; Z.div_mod_to_equations; lia.

(* decide one [if] of the goal to true or to false *)
Ltac step_if :=
  match goal with
  | |- context [if ?b then _ else _] =>
    first [ replace b with true by (symmetry; bsolve)
          | replace b with false by (symmetry; bsolve) ]
  end.

Example dec_euro : utf8_dec [226; 130; 172] = Some [8364].
Proof. reflexivity. Qed.
Example dec_surrogate : utf8_dec [237; 160; 128] = None.
Proof. reflexivity. Qed.
Example dec_overlong : utf8_dec [192; 128] = None.
Proof. reflexivity. Qed.
Example dec_too_big : utf8_dec [244; 144; 128; 128] = None.
Proof. reflexivity. Qed.
Example dec_truncated : utf8_dec [226; 130] = None.
Proof. reflexivity. Qed.
Example dec_stray_cont : utf8_dec [128] = None.
Proof. reflexivity. Qed.
Example enc_mixed :
  utf8_enc [128512; 65; 8364; 233] = Some [240; 159; 152; 128; 65; 226; 130; 172; 195; 169].
Proof. reflexivity. Qed.
Example enc_surrogate : utf8_enc [55296] = None.
Proof. reflexivity. Qed.

Lemma enc_cp_bytes : forall c, scalar c = true -> Forall (fun b => 0 <= b < 256) (enc_cp c).
Proof.
  intros c H. unfold enc_cp.
  destruct (c <? 128) eqn:E1; [|destruct (c <? 2048) eqn:E2; [|destruct (c <? 65536) eqn:E3]];
    repeat constructor; bsolve.
Qed.

Lemma utf8_enc_bytes : forall cps bs, utf8_enc cps = Some bs -> Forall (fun b => 0 <= b < 256) bs.
Proof.
  unfold utf8_enc. intros cps bs H.
  destruct (forallb scalar cps) eqn:E; [|discriminate].
  injection H as <-. revert E.
  induction cps as [|c cps IH]; cbn [forallb map concat]; intros E.
  - constructor.
  - apply andb_true_iff in E. destruct E as [Ec Er].
    apply Forall_app. split; [apply enc_cp_bytes; exact Ec | apply IH; exact Er].
Qed.

(* the decoder consumes exactly one encoded code point *)
Lemma utf8_dec_enc_cp : forall c rest, scalar c = true ->
  utf8_dec (enc_cp c ++ rest) = option_map (cons c) (utf8_dec rest).
Proof.
  intros c rest H. unfold enc_cp.
  destruct (c <? 128) eqn:E1; [|destruct (c <? 2048) eqn:E2; [|destruct (c <? 65536) eqn:E3]];
    cbn [app utf8_dec]; repeat step_if.
  - reflexivity.
  - replace ((192 + c / 64 - 192) * 64 + (128 + c mod 64 - 128)) with c
      by (Z.div_mod_to_equations; lia).
    reflexivity.
  - replace ((224 + c / 4096 - 224) * 4096 + (128 + c / 64 mod 64 - 128) * 64
             + (128 + c mod 64 - 128)) with c by (Z.div_mod_to_equations; lia).
    reflexivity.
  - replace ((240 + c / 262144 - 240) * 262144 + (128 + c / 4096 mod 64 - 128) * 4096
             + (128 + c / 64 mod 64 - 128) * 64 + (128 + c mod 64 - 128)) with c
      by (Z.div_mod_to_equations; lia).
    reflexivity.
Qed.

Theorem utf8_dec_enc : forall cps bs, utf8_enc cps = Some bs -> utf8_dec bs = Some cps.
Proof.
  unfold utf8_enc. intros cps bs H.
  destruct (forallb scalar cps) eqn:E; [|discriminate].
  injection H as <-. revert E.
  induction cps as [|c cps IH]; cbn [forallb map concat]; intros E.
  - reflexivity.
  - apply andb_true_iff in E. destruct E as [Ec Er].
    rewrite utf8_dec_enc_cp by exact Ec. rewrite IH by exact Er. reflexivity.
Qed.

Lemma utf8_enc_none : forall cps, utf8_enc cps = None <-> exists c, In c cps /\ scalar c = false.
Proof.
  intros cps. unfold utf8_enc.
  destruct (forallb scalar cps) eqn:E.
  - split; [discriminate|]. intros [c [Hin Hc]].
    rewrite forallb_forall in E. rewrite (E c Hin) in Hc. discriminate.
  - split; [intros _|reflexivity].
    induction cps as [|c cps IH]; cbn [forallb] in E; [discriminate|].
    apply andb_false_iff in E. destruct E as [Ec|Er].
    + exists c. split; [left; reflexivity | exact Ec].
    + destruct (IH Er) as [c' [Hin Hc']]. exists c'. split; [right; exact Hin | exact Hc'].
Qed.

Print Assumptions utf8_dec_enc.
