From Coq Require Import ZArith List Bool Lia.
Import ListNotations.
Require Import EV.model.XSpec.
Open Scope Z_scope.

Lemma str_eqb_eq : forall a b, str_eqb a b = true <-> a = b.
Proof.
  induction a as [|x a IH]; destruct b as [|y b]; cbn; split; intro H; try congruence; try discriminate.
  - apply andb_true_iff in H. destruct H as [H1 H2]. apply Z.eqb_eq in H1. apply IH in H2. congruence.
  - inversion H; subst. rewrite Z.eqb_refl. cbn. apply IH. reflexivity.
Qed.

Lemma str_eqb_refl : forall a, str_eqb a a = true.
Proof. intro a. apply str_eqb_eq. reflexivity. Qed.

Lemma str_eqb_neq : forall a b, a <> b -> str_eqb a b = false.
Proof. intros a b H. destruct (str_eqb a b) eqn:E; auto. apply str_eqb_eq in E. contradiction. Qed.

Lemma mem_false : forall k l, ~ In k l -> mem k l = false.
Proof.
  intros k l H. unfold mem. induction l as [|x l IH]; cbn; auto.
  rewrite str_eqb_neq; [|intro E; apply H; left; auto]. cbn. apply IH. intro; apply H; right; auto.
Qed.

Lemma mem_true : forall k l, In k l -> mem k l = true.
Proof.
  intros k l H. unfold mem. apply existsb_exists. exists k. split; auto. apply str_eqb_refl.
Qed.

(* ---------- split / join ---------- *)

Lemma split_aux_cons2 : forall cur c1 c2 r,
  split_aux cur (c1 :: c2 :: r) =
  if (c1 =? SLASH) && (c2 =? SLASH) then rev cur :: split_aux [] r else split_aux (c1 :: cur) (c2 :: r).
Proof. reflexivity. Qed.

Lemma no_ss_cons2 : forall c1 c2 r,
  no_ss (c1 :: c2 :: r) = negb ((c1 =? SLASH) && (c2 =? SLASH)) && no_ss (c2 :: r).
Proof. reflexivity. Qed.

Lemma split_aux_last : forall p cur, no_ss p = true -> split_aux cur p = [rev cur ++ p].
Proof.
  induction p as [|c1 t IH]; intros cur H.
  - cbn. rewrite app_nil_r. reflexivity.
  - destruct t as [|c2 r].
    + cbn. reflexivity.
    + rewrite split_aux_cons2. rewrite no_ss_cons2 in H. apply andb_true_iff in H. destruct H as [H1 H2].
      apply negb_true_iff in H1. rewrite H1. rewrite (IH (c1 :: cur) H2). cbn [rev].
      rewrite <- app_assoc. reflexivity.
Qed.

Lemma ends_slash_cons : forall c p, p <> [] -> ends_slash (c :: p) = ends_slash p.
Proof.
  intros c p H. unfold ends_slash. cbn [rev].
  destruct (rev p) as [|z zs] eqn:E.
  - exfalso. apply H. apply (f_equal (@rev Z)) in E. rewrite rev_involutive in E. exact E.
  - reflexivity.
Qed.

Lemma split_aux_piece : forall p cur rest,
  no_ss p = true -> ends_slash p = false ->
  split_aux cur (p ++ SLASH :: SLASH :: rest) = (rev cur ++ p) :: split_aux [] rest.
Proof.
  induction p as [|c1 t IH]; intros cur rest H E.
  - cbn. rewrite app_nil_r. reflexivity.
  - destruct t as [|c2 r].
    + (* single char, not a slash *)
      unfold ends_slash in E. cbn in E.
      change ([c1] ++ SLASH :: SLASH :: rest) with (c1 :: SLASH :: (SLASH :: rest)).
      rewrite split_aux_cons2. rewrite E. cbn [andb].
      rewrite split_aux_cons2. cbn. reflexivity.
    + rewrite no_ss_cons2 in H. apply andb_true_iff in H. destruct H as [H1 H2]. apply negb_true_iff in H1.
      change ((c1 :: c2 :: r) ++ SLASH :: SLASH :: rest) with (c1 :: c2 :: (r ++ SLASH :: SLASH :: rest)).
      rewrite split_aux_cons2. rewrite H1.
      change (c2 :: r ++ SLASH :: SLASH :: rest) with ((c2 :: r) ++ SLASH :: SLASH :: rest).
      rewrite (IH (c1 :: cur) rest H2).
      * cbn [rev]. rewrite <- app_assoc. reflexivity.
      * rewrite ends_slash_cons in E by discriminate. exact E.
Qed.

Fixpoint pieces_ok (ps : list str) : bool :=
  match ps with
  | [] => false
  | [p] => no_ss p
  | p :: r => no_ss p && negb (ends_slash p) && pieces_ok r
  end.

Lemma split2_join : forall ps, pieces_ok ps = true -> split2 (join ps) = ps.
Proof.
  unfold split2. induction ps as [|p r IH]; intro H; [discriminate|].
  destruct r as [|q r'].
  - cbn [join]. cbn in H. rewrite split_aux_last by exact H. reflexivity.
  - cbn [pieces_ok] in H. apply andb_true_iff in H. destruct H as [H H3].
    apply andb_true_iff in H. destruct H as [H1 H2]. apply negb_true_iff in H2.
    change (join (p :: q :: r')) with (p ++ SLASH :: SLASH :: join (q :: r')).
    rewrite split_aux_piece by assumption. cbn [rev app]. rewrite IH by exact H3. reflexivity.
Qed.

(* ---------- key = value ---------- *)

Lemma find_eq_key : forall k v, no_eq k = true -> find_eq (k ++ EQ :: v) = Some (length k).
Proof.
  induction k as [|c k IH]; intros v H; cbn.
  - reflexivity.
  - cbn in H. apply andb_true_iff in H. destruct H as [H1 H2]. apply negb_true_iff in H1.
    rewrite H1. rewrite IH by exact H2. reflexivity.
Qed.

Lemma find_eq_none : forall k, no_eq k = true -> find_eq k = None.
Proof.
  induction k as [|c k IH]; intro H; cbn; auto.
  cbn in H. apply andb_true_iff in H. destruct H as [H1 H2]. apply negb_true_iff in H1.
  rewrite H1, IH by exact H2. reflexivity.
Qed.

Lemma split_kv_piece : forall e, no_eq (fst e) = true -> split_kv (piece e) = (fst e, to_value (snd e)).
Proof.
  intros [k [v|]] H; unfold split_kv, piece; cbn [fst snd] in *.
  - rewrite find_eq_key by exact H.
    rewrite firstn_app, Nat.sub_diag, firstn_all. cbn [firstn]. rewrite app_nil_r.
    replace (S (length k)) with (length k + 1)%nat by lia.
    rewrite skipn_app. rewrite skipn_all2 by lia.
    replace (length k + 1 - length k)%nat with 1%nat by lia. reflexivity.
  - rewrite find_eq_none by exact H. reflexivity.
Qed.

(* ---------- the parse loop ---------- *)
Local Arguments starts_with : simpl never.
Local Arguments skipn : simpl never.
Local Arguments Z.eqb : simpl never.
Local Arguments str_eqb : simpl never.
Local Arguments mem : simpl never.

Lemma key_ok_parts : forall k, key_ok k = true ->
  exists c r, k = c :: r /\ (c =? USCORE) = false /\ no_eq k = true /\ k <> S_ENV /\ k <> S_SPEC.
Proof.
  intros k H. unfold key_ok in H. apply andb_true_iff in H. destruct H as [H H3].
  apply andb_true_iff in H. destruct H as [H1 H2]. destruct k as [|c r]; [discriminate|].
  apply negb_true_iff in H1. apply negb_true_iff in H3.
  exists c, r. repeat split; auto.
  - intro E. rewrite E in H3. discriminate.
  - intro E. inversion E; subst. discriminate.
Qed.

Lemma attrs_of_app : forall a b,
  attrs (attrs_of (a ++ b)) = attrs (attrs_of a) ++ attrs (attrs_of b) /\
  env (attrs_of (a ++ b)) = env (attrs_of a) ++ env (attrs_of b).
Proof. intros. unfold attrs_of. cbn. rewrite !filter_app, !map_app. auto. Qed.

Lemma attrs_of_snoc : forall pre e,
  attrs_of (pre ++ [e]) =
  if is_env (fst e)
  then {| attrs := attrs (attrs_of pre); env := env (attrs_of pre) ++ [(skipn 4 (fst e), to_value (snd e))] |}
  else {| attrs := attrs (attrs_of pre) ++ [(fst e, to_value (snd e))]; env := env (attrs_of pre) |}.
Proof.
  intros. unfold attrs_of. cbn [attrs env]. rewrite !filter_app, !map_app. cbn [filter].
  destruct (is_env (fst e)); cbn [negb map]; rewrite app_nil_r; reflexivity.
Qed.

Lemma dict_set_fresh : forall d k v, ~ In k (map fst d) -> dict_set d k v = d ++ [(k, v)].
Proof.
  induction d as [|[k' v'] d IH]; intros k v H; cbn; auto.
  rewrite str_eqb_neq by (intro E; apply H; left; auto). rewrite IH; auto.
  intro; apply H; right; auto.
Qed.

Lemma starts_with_prefix : forall p s, starts_with p s = true -> s = p ++ skipn (length p) s.
Proof.
  induction p as [|x p IH]; intros s H; [reflexivity|].
  destruct s as [|y s]; [discriminate|]. cbn [starts_with] in H.
  apply andb_true_iff in H. destruct H as [H1 H2]. apply Z.eqb_eq in H1. subst y.
  cbn [length skipn app]. f_equal. apply IH. exact H2.
Qed.

Lemma starts_with_env : forall k, starts_with ENV_PREFIX k = true -> k = ENV_PREFIX ++ skipn 4 k.
Proof. intros k H. exact (starts_with_prefix ENV_PREFIX k H). Qed.

Lemma in_attrs_keys : forall k pre, In k (map fst (attrs (attrs_of pre))) -> In k (map fst pre).
Proof.
  intros k pre H. unfold attrs_of in H. cbn in H. rewrite map_map in H. cbn in H.
  apply in_map_iff in H. destruct H as [e [E1 E2]]. apply filter_In in E2. destruct E2 as [E2 _].
  apply in_map_iff. exists e. auto.
Qed.

Lemma in_env_keys : forall n pre, In n (map fst (env (attrs_of pre))) -> In (ENV_PREFIX ++ n) (map fst pre).
Proof.
  intros n pre H. unfold attrs_of in H. cbn in H. rewrite map_map in H. cbn in H.
  apply in_map_iff in H. destruct H as [e [E1 E2]]. apply filter_In in E2. destruct E2 as [E2 E3].
  apply in_map_iff. exists e. split; auto. unfold is_env in E3. rewrite <- E1. apply starts_with_env. exact E3.
Qed.

Lemma parse_loop_ok : forall b kvs pre,
  Forall (fun e => key_ok (fst e) = true) kvs ->
  NoDup (map fst (pre ++ kvs)) ->
  parse_loop b (map piece kvs) (attrs_of pre) = inl (attrs_of (pre ++ kvs)).
Proof.
  intros b. induction kvs as [|e kvs IH]; intros pre HK HN.
  - rewrite app_nil_r. reflexivity.
  - inversion HK as [|? ? Hk HK']; subst.
    destruct (key_ok_parts _ Hk) as [c [r [Ek [Hc [Hne [Henv Hspec]]]]]].
    cbn [map parse_loop]. rewrite split_kv_piece by exact Hne. rewrite Ek. rewrite Hc. rewrite <- Ek.
    assert (Hfresh : ~ In (fst e) (map fst pre)).
    { rewrite map_app in HN. cbn in HN. apply NoDup_remove_2 in HN. intro I. apply HN. apply in_or_app. left; exact I. }
    rewrite mem_false.
    2:{ intros [I|[I|I]]; [congruence|congruence|]. apply in_attrs_keys in I. contradiction. }
    replace (pre ++ e :: kvs) with ((pre ++ [e]) ++ kvs) in * by (rewrite <- app_assoc; reflexivity).
    destruct (starts_with ENV_PREFIX (fst e)) eqn:SE.
    + rewrite mem_false.
      2:{ intro I. apply in_env_keys in I. rewrite <- starts_with_env in I by exact SE. contradiction. }
      rewrite andb_false_r.
      rewrite dict_set_fresh.
      2:{ intro I. apply in_env_keys in I. rewrite <- starts_with_env in I by exact SE. contradiction. }
      rewrite <- (IH (pre ++ [e]) HK' HN). f_equal.
      rewrite attrs_of_snoc. unfold is_env. rewrite SE. reflexivity.
    + rewrite <- (IH (pre ++ [e]) HK' HN). f_equal.
      rewrite attrs_of_snoc. unfold is_env. rewrite SE. reflexivity.
Qed.

Definition spec_ok (kvs : list kv) : Prop :=
  Forall (fun e => key_ok (fst e) = true) kvs /\ NoDup (map fst kvs) /\ pieces_ok (map piece kvs) = true.

Theorem parse_join : forall b kvs, spec_ok kvs -> parse b (join (map piece kvs)) = inl (attrs_of kvs).
Proof.
  intros b kvs [H1 [H2 H3]]. unfold parse. rewrite split2_join by exact H3.
  apply (parse_loop_ok b kvs [] H1 H2).
Qed.

(* ---------- duplicates are rejected ---------- *)

Lemma NoDup_snoc : forall (l : list str) a, NoDup l -> ~ In a l -> NoDup (l ++ [a]).
Proof.
  induction l as [|x l IH]; intros a H N; cbn.
  - constructor; [intros []|constructor].
  - inversion H; subst. constructor.
    + intro I. apply in_app_or in I. destruct I as [I|[I|[]]]; [contradiction|]. apply N. left; auto.
    + apply IH; auto. intro; apply N; right; auto.
Qed.

(* generalised: starting from any state whose recorded keys are those of [pre] *)
Lemma parse_loop_dup : forall kvs pre,
  Forall (fun e => key_ok (fst e) = true) kvs ->
  NoDup (map fst pre) ->
  ~ NoDup (map fst (pre ++ kvs)) ->
  parse_loop true (map piece kvs) (attrs_of pre) = inr ValueError.
Proof.
  induction kvs as [|e kvs IH]; intros pre HK HP HD.
  - rewrite app_nil_r in HD. contradiction.
  - inversion HK as [|? ? Hk HK']; subst.
    destruct (key_ok_parts _ Hk) as [c [r [Ek [Hc [Hne [Henv Hspec]]]]]].
    cbn [map parse_loop]. rewrite split_kv_piece by exact Hne. rewrite Ek. rewrite Hc. rewrite <- Ek.
    destruct (in_dec (list_eq_dec Z.eq_dec) (fst e) (map fst pre)) as [I|NI].
    + (* repeated now *)
      destruct (starts_with ENV_PREFIX (fst e)) eqn:SE.
      * assert (M : mem (fst e) (S_SPEC :: S_ENV :: map fst (attrs (attrs_of pre))) = false).
        { apply mem_false. intros [J|[J|J]]; [congruence|congruence|].
          unfold attrs_of in J. cbn in J. rewrite map_map in J. apply in_map_iff in J.
          destruct J as [x [X1 X2]]. apply filter_In in X2. destruct X2 as [_ X2]. cbn in X1.
          unfold is_env in X2. rewrite X1 in X2. rewrite SE in X2. discriminate. }
        rewrite M. rewrite mem_true; [reflexivity|].
        unfold attrs_of. cbn. rewrite map_map. cbn. apply in_map_iff in I. destruct I as [x [X1 X2]].
        apply in_map_iff. exists x. split; [exact (f_equal (skipn 4) X1)|].
        apply filter_In. split; auto. unfold is_env. rewrite X1. exact SE.
      * rewrite mem_true; [reflexivity|]. right; right.
        unfold attrs_of. cbn. rewrite map_map. cbn. apply in_map_iff in I. destruct I as [x [X1 X2]].
        apply in_map_iff. exists x. split; auto. apply filter_In. split; auto.
        unfold is_env. rewrite X1, SE. reflexivity.
    + (* fresh: continue *)
      rewrite mem_false.
      2:{ intros [J|[J|J]]; [congruence|congruence|]. apply in_attrs_keys in J. contradiction. }
      assert (HP' : NoDup (map fst (pre ++ [e]))).
      { rewrite map_app. cbn [map]. apply NoDup_snoc; auto. }
      assert (HD' : ~ NoDup (map fst ((pre ++ [e]) ++ kvs))) by (rewrite <- app_assoc; exact HD).
      specialize (IH (pre ++ [e]) HK' HP' HD').
      destruct (starts_with ENV_PREFIX (fst e)) eqn:SE.
      * rewrite mem_false.
        2:{ intro J. apply in_env_keys in J. rewrite <- starts_with_env in J by exact SE. contradiction. }
        rewrite andb_false_r. rewrite dict_set_fresh.
        2:{ intro J. apply in_env_keys in J. rewrite <- starts_with_env in J by exact SE. contradiction. }
        rewrite <- IH. f_equal.
        rewrite attrs_of_snoc. unfold is_env. rewrite SE. reflexivity.
      * rewrite <- IH. f_equal.
        rewrite attrs_of_snoc. unfold is_env. rewrite SE. reflexivity.
Qed.

Theorem parse_dup : forall kvs,
  Forall (fun e => key_ok (fst e) = true) kvs -> pieces_ok (map piece kvs) = true ->
  ~ NoDup (map fst kvs) -> parse true (join (map piece kvs)) = inr ValueError.
Proof.
  intros kvs H1 H3 H2. unfold parse. rewrite split2_join by exact H3.
  apply (parse_loop_dup kvs [] H1); [constructor|exact H2].
Qed.

Lemma lookup_absent : forall name l, ~ In name (map fst l) -> lookup name l = None.
Proof.
  induction l as [|[k v] l IH]; intro H; cbn; auto.
  rewrite str_eqb_neq by (intro E; apply H; left; auto). apply IH. intro; apply H; right; auto.
Qed.

Lemma lookup_present : forall kvs k o,
  NoDup (map fst kvs) -> In (k, o) kvs -> is_env k = false ->
  lookup k (attrs (attrs_of kvs)) = Some (to_value o).
Proof.
  induction kvs as [|[k' o'] kvs IH]; intros k o ND I E; [contradiction|].
  inversion ND; subst. unfold attrs_of. cbn [attrs filter map fst snd].
  destruct I as [I|I].
  - inversion I; subst. rewrite E. cbn [negb map lookup fst snd]. rewrite str_eqb_refl. reflexivity.
  - assert (k <> k') by (intro; subst; apply H1; apply in_map_iff; exists (k', o); auto).
    destruct (is_env k'); cbn [negb map lookup fst snd].
    + apply (IH k o H2 I E).
    + rewrite str_eqb_neq by assumption. apply (IH k o H2 I E).
Qed.
