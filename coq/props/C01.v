(* C01 -- Serializer round-trip is total and type-exact on builtin values.
   Property statements only; proofs are in proofs/CodecP*.v. *)
From Coq Require Import ZArith List Bool.
Import ListNotations.
Require Import EV.model.Cfg EV.model.Value EV.model.CodecSpec EV.model.Ser EV.model.Unser.
Require Import EV.proofs.CodecP3 EV.proofs.CodecP4 EV.proofs.CodecP6 EV.gen.Facts.
Open Scope Z_scope.

(* facts of the current source: the short int branch has a lower bound; send serialises before it writes *)
Definition cfg_ok_C01 : Prop :=
  int_lo_checked = true /\ send_dumps_before_write = true /\ four_byte_int_max = INT_MAX /\ dump_version = VERSION /\
  ser_int_text_ok = true /\ ser_stateless_dispatch = true.   (* values are trees for the serializer: no identity-based state, so sharing is invisible *)
Lemma C01_cfg_ok : cfg_ok_C01.
Proof. repeat split; reflexivity. Qed.

(* the model instance that is extracted and compared with the implementation is the one the theorems are about *)
Lemma C01_model_instance : forall v, dumps int_lo_checked v = dumps true v.
Proof. intro v. rewrite (proj1 C01_cfg_ok). reflexivity. Qed.

(* For EVERY well-formed value -- None, bool, int of any magnitude and sign, float and complex as bit
   patterns (NaN payloads, inf, -0.0 included), bytes, every string of Unicode scalar values, lists,
   tuples, dicts (insertion order kept), sets and frozensets, nested to any depth and width --
   dumps succeeds and loads returns exactly the same value (same constructor = same type at every
   position), with nothing left over, for every string-coercion setting that keeps Python-3 strings
   (the default of loads and of channels) and for every allocation bound >= 2^31-1. *)
Theorem C01_roundtrip : forall ma sc v,
  py3str_as_py2str sc = false -> 2147483647 <= ma -> wfb false v = true ->
  exists b, dumps true v = Ok b /\ loads_r ma sc b = Ok (v, []).
Proof. intros ma sc v Hsc Hma W. exact (loads_dumps ma sc Hsc Hma v W). Qed.
Print Assumptions C01_roundtrip.

(* ... and through a channel (dumps_internal / loads_internal with the gateway's channel factory),
   where channel objects inside the value arrive as channels with the same id *)
Theorem C01_roundtrip_channel : forall ma sc v,
  py3str_as_py2str sc = false -> 2147483647 <= ma -> wfb true v = true ->
  exists b, dumps_internal true v = Ok b /\ load_internal ma sc true b = Ok (v, []).
Proof. intros ma sc v Hsc Hma W. exact (loads_dumps_internal ma sc Hsc Hma v W). Qed.
Print Assumptions C01_roundtrip_channel.

(* A value with any other type, or a string with a lone surrogate, at ANY nesting position is
   rejected with DumpError (the saver returns no bytes at all, so nothing reaches the connection:
   Channel.send evaluates dumps_internal(item) as an argument of the one _send call). *)
Theorem C01_reject : forall v, unsupported v = true -> chan_free v = true ->
  save true v = Err DumpError /\ dumps true v = Err DumpError /\ dumps_internal true v = Err DumpError.
Proof. exact reject_unsupported. Qed.
Print Assumptions C01_reject.

(* non-vacuity: a nested value using every constructor is well-formed; ints on both sides of +-2^31 *)
Example C01_example_wf :
  wfb false (VList [VNone; VBool true; VInt (-2147483649); VInt 2147483648; VInt (10 ^ 40); VFloat 9221120237041090561;
                    VComplex 0 9223372036854775808; VBytes [0; 255]; VStr [97; 233; 28450; 128512; 1114111];
                    VTuple [VList []; VTuple []]; VDict [(VTuple [VInt 1; VStr [107]], VSet [VInt 1; VStr []]); (VBool false, VFrozenset [VNone])]]) = true.
Proof. vm_compute. reflexivity. Qed.
Example C01_example_roundtrip :
  let v := VDict [(VInt (-2147483649), VList [VFloat 9221120237041090561; VStr [128512]]); (VStr [], VTuple [])] in
  match dumps true v with Ok b => loads 2147483647 {| py2str_as_py3str := false; py3str_as_py2str := false |} b = Ok v | Err _ => False end.
Proof. vm_compute. reflexivity. Qed.
Example C01_example_reject :
  dumps true (VList [VInt 1; VDict [(VStr [107], VTuple [VOther 7])]]) = Err DumpError /\
  dumps true (VTuple [VStr [97; 55296]]) = Err DumpError.
Proof. vm_compute. split; reflexivity. Qed.
