(* C01 placeholder while the proofs are being built: obligations on facts only *)
From Coq Require Import ZArith List Bool.
Require Import EV.gen.Facts.
Lemma C01_cfg_ok_tmp : int_lo_checked = true.
Proof. reflexivity. Qed.
