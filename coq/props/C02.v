(* C02 -- every item sent on a channel is delivered to that channel's consumers exactly once and in order.
   Statements only; proofs are in proofs/ChanP.v. *)
From Coq Require Import ZArith List Bool Arith.
Import ListNotations.
Require Import EV.model.Cfg EV.model.Chan EV.proofs.ChanP EV.gen.Facts.
Require EV.model.Frame EV.model.Value.
Require Import EV.model.Unser EV.model.E2E EV.proofs.E2EP.
Close Scope Z_scope. Open Scope nat_scope.

(* the configuration of the channel model as read off the source by tools/gen_facts.py; the shape facts say that
   the functions the model's atomic steps stand for still have the modelled structure *)
Definition chan_cfg : ccfg := {| setcb_atomic := chan_setcb_atomic && chan_receiver_locked |}.
Lemma C02_cfg_ok : cfg_ok chan_cfg /\ chan_receive_shape_ok = true /\ chan_local_receive_shape_ok = true /\ chan_local_close_order_ok = true /\ chan_handlers_ok = true /\ to_io_single_write = true /\ wshape_atomic popen_write_shape = true /\ wshape_atomic socket_write_shape = true /\ popen_streams_buffered = true /\ socket_io_blocking = true /\ read_loops_exact = true /\ from_io_exact = true /\ send_dumps_before_write = true /\ ser_stateless_dispatch = true.
Proof. repeat split; reflexivity. Qed.
Definition C02_C : cfg_ok chan_cfg := proj1 C02_cfg_ok.

(* For every number n of consumer threads, every interleaving ls of peer sends / closes, the receiver thread,
   receive() calls of any thread, setcallback, channel creation and garbage collection -- of any length:
   for every channel id on which the receiving side has dropped nothing (it kept its Channel object
   registered while data arrived), the items obtained by the consumers, then the queued ones, then those
   still in flight, are exactly the items the peer sent on that id, in sending order. *)
Theorem C02_delivery : forall n ls id, lossless (crun chan_cfg ls (cinit n)) id = true ->
  sent (crun chan_cfg ls (cinit n)) id = got (crun chan_cfg ls (cinit n)) id ++ qitems (oq (q (cs (crun chan_cfg ls (cinit n)) id))) ++ witems id (wire (crun chan_cfg ls (cinit n))).
Proof. exact (delivery chan_cfg C02_C). Qed.
Print Assumptions C02_delivery.

Theorem C02_no_loss_no_dup_no_reorder : forall n ls id, lossless (crun chan_cfg ls (cinit n)) id = true ->
  exists rest, sent (crun chan_cfg ls (cinit n)) id = got (crun chan_cfg ls (cinit n)) id ++ rest.
Proof. exact (obtained_is_prefix_of_sent chan_cfg C02_C). Qed.
Print Assumptions C02_no_loss_no_dup_no_reorder.

(* ... and what travels is the VALUE: for every sequence of Channel.send calls (any channel ids in the 32-bit range, any
   well-formed values incl. channels inside, payloads below 2 GiB) the bytes put on the wire, read with ANY chunking, are
   decoded by the receiving gateway into exactly those (channel id, value) pairs in order -- the serializer (C01) composed
   with the frame codec (C08); the channel machine above then hands them to the consumers of the right channel *)
Theorem C02_end_to_end : forall ma sc sends, py3str_as_py2str sc = false -> (2147483647 <= ma)%Z -> Forall sendable sends ->
  exists bs, wire_of sends = Value.Ok bs /\
    forall orc, received ma sc bs orc = map (fun p => (fst p, Value.Ok (snd p, []))) sends.
Proof. exact end_to_end. Qed.
Print Assumptions C02_end_to_end.

(* non-vacuity: three items, two received, the third queued *)
Example C02_witness : let s := crun chan_cfg [LNew 1; LPeerSend 1 7; LPeerSend 1 8; LPeerSend 1 9; LRecv; LRecv; LRecv; LGet 0 1; LGet 0 1] (cinit 1) in
  lossless s 1 = true /\ got s 1 = [7; 8] /\ q (cs s 1) = Some [Item 9].
Proof. vm_compute. repeat split. Qed.
