(* C03 -- data before EOF; EOF is persistent and seen by every receiver; nothing is enqueued after receive-close.
   Statements only; proofs are in proofs/ChanP.v. *)
From Coq Require Import List Bool Arith.
Import ListNotations.
Require Import EV.model.Chan EV.proofs.ChanP EV.gen.Facts.

(* the configuration of the channel model as read off the source by tools/gen_facts.py; the shape facts say that
   the functions the model's atomic steps stand for still have the modelled structure *)
Definition chan_cfg : ccfg := {| setcb_atomic := chan_setcb_atomic && chan_receiver_locked |}.
Lemma C03_cfg_ok : cfg_ok chan_cfg /\ chan_receive_shape_ok = true /\ chan_local_receive_shape_ok = true /\ chan_local_close_order_ok = true /\ chan_setcb_handles_concurrent_close = true /\ chan_close_shape_ok = true /\ chan_handlers_ok = true.
Proof. repeat split; reflexivity. Qed.
Definition C03_C : cfg_ok chan_cfg := proj1 C03_cfg_ok.

(* in every reachable state every item queue is data followed only by ENDMARKERs *)
Theorem C03_data_before_eof : forall n ls id, shaped (oq (q (cs (crun chan_cfg ls (cinit n)) id))).
Proof. exact (data_before_endmarker chan_cfg C03_C). Qed.
Print Assumptions C03_data_before_eof.

(* once receive-closed, an ENDMARKER is in the queue or in the hand of a receiver that will put it back:
   every further (blocking) receive of every thread ends with EOFError / the remote error *)
Theorem C03_eof_persists : forall n ls id l, rclosed (cs (crun chan_cfg ls (cinit n)) id) = true -> q (cs (crun chan_cfg ls (cinit n)) id) = Some l ->
  qends l + holders id (thr (crun chan_cfg ls (cinit n))) >= 1.
Proof. exact (eof_persists chan_cfg C03_C). Qed.
Print Assumptions C03_eof_persists.

(* a receive-closed channel is not registered: later data for the id is not enqueued *)
Theorem C03_closed_is_unregistered : forall n ls id, rclosed (cs (crun chan_cfg ls (cinit n)) id) = true -> alive (cs (crun chan_cfg ls (cinit n)) id) = false.
Proof. exact (receiveclosed_is_unregistered chan_cfg C03_C). Qed.
Print Assumptions C03_closed_is_unregistered.

(* a local close() is possible from the open and from the send-only state alike and completes the transition: the channel
   reports closed (send is refused: fact), is unregistered, its callback is gone, its queue ends with an ENDMARKER *)
Theorem C03_close_completes : forall c s id s', cstep c s (LClose id) = Some s' ->
  closed (cs s' id) = true /\ rclosed (cs s' id) = true /\ alive (cs s' id) = false /\ cb (cs s' id) = None /\
  (forall l, q (cs s id) = Some l -> q (cs s' id) = Some (l ++ [End])).
Proof. exact close_closes. Qed.
Print Assumptions C03_close_completes.
Theorem C03_close_enabled : forall c s id, held (cs s id) = true -> closed (cs s id) = false -> exists s', cstep c s (LClose id) = Some s'.
Proof. exact close_enabled. Qed.
Print Assumptions C03_close_enabled.

Example C03_witness : let s := crun chan_cfg [LNew 1; LPeerSend 1 7; LPeerEnd 1 KClose; LPeerSend 1 8; LRecv; LRecv; LRecv; LGet 0 1; LGet 0 1; LGet 1 1] (cinit 2) in
  rclosed (cs s 1) = true /\ q (cs s 1) = Some [] /\ holders 1 (thr s) = 1 /\ got s 1 = [7].
Proof. vm_compute. repeat split. Qed.
