(* C03 -- data before EOF; EOF is persistent and seen by every receiver; nothing is enqueued after receive-close.
   Statements only; proofs are in proofs/ChanP.v. *)
From Coq Require Import List Bool Arith.
Import ListNotations.
Require Import EV.model.Chan EV.proofs.ChanP EV.model.Link EV.proofs.LinkP EV.gen.Facts.

(* the configuration of the channel model as read off the source by tools/gen_facts.py; the shape facts say that
   the functions the model's atomic steps stand for still have the modelled structure *)
Definition chan_cfg : ccfg := {| setcb_atomic := chan_setcb_atomic && chan_receiver_locked |}.
Lemma C03_cfg_ok : cfg_ok chan_cfg /\ chan_receive_shape_ok = true /\ chan_local_receive_shape_ok = true /\ chan_local_close_order_ok = true /\ chan_setcb_handles_concurrent_close = true /\ chan_close_shape_ok = true /\ chan_handlers_ok = true /\ chan_regular_close_is_not_eof = true.
Proof. repeat split; reflexivity. Qed.
Definition C03_C : cfg_ok chan_cfg := proj1 C03_cfg_ok.

(* in every reachable state every item queue is data followed only by ENDMARKERs *)
Theorem C03_data_before_eof : forall n ls id, shaped (oq (q (cs (crun chan_cfg ls (cinit n)) id))).
Proof. exact (data_before_endmarker chan_cfg C03_C). Qed.
Print Assumptions C03_data_before_eof.

(* once receive-closed, an ENDMARKER is in the queue or in the hand of a receiver that will put it back:
   every further (blocking) receive of every thread ends with EOFError / the remote error *)
Theorem C03_eof_persists : forall n ls id l, rclosed (cs (crun chan_cfg ls (cinit n)) id) = true -> q (cs (crun chan_cfg ls (cinit n)) id) = Some l ->
  qends l + holders id (thr (crun chan_cfg ls (cinit n))) >= 1.
Proof. exact (eof_persists chan_cfg C03_C). Qed.
Print Assumptions C03_eof_persists.

(* a receive-closed channel is not registered: later data for the id is not enqueued *)
Theorem C03_closed_is_unregistered : forall n ls id, rclosed (cs (crun chan_cfg ls (cinit n)) id) = true -> alive (cs (crun chan_cfg ls (cinit n)) id) = false.
Proof. exact (receiveclosed_is_unregistered chan_cfg C03_C). Qed.
Print Assumptions C03_closed_is_unregistered.

(* a local close() is possible from the open and from the send-only state alike and completes the transition: the channel
   reports closed (send is refused: fact), is unregistered, its callback is gone, its queue ends with an ENDMARKER *)
Theorem C03_close_completes : forall c s id s', cstep c s (LClose id) = Some s' ->
  closed (cs s' id) = true /\ rclosed (cs s' id) = true /\ alive (cs s' id) = false /\ cb (cs s' id) = None /\
  (forall l, q (cs s id) = Some l -> q (cs s' id) = Some (l ++ [End])).
Proof. exact close_closes. Qed.
Print Assumptions C03_close_completes.
Theorem C03_close_enabled : forall c s id, held (cs s id) = true -> closed (cs s id) = false -> exists s', cstep c s (LClose id) = Some s'.
Proof. exact close_enabled. Qed.
Print Assumptions C03_close_enabled.

(* ---- the sending side composed with the receiving machine (model/Link.v): senders, closers and __del__ of side A at the
   granularity test / message / local tail, both receiver threads, all consumers, any interleaving ---- *)

(* what send() reported as sent is what the receiving machine accounts as sent, and (lossless) it is obtained, queued or in
   flight, in order: a send() that raised put nothing on the wire *)
Theorem C03_returned_is_delivered : forall n1 n2 n3 ls id, lossless (b (lrun chan_cfg ls (linit n1 n2 n3))) id = true ->
  ret (lrun chan_cfg ls (linit n1 n2 n3)) id = got (b (lrun chan_cfg ls (linit n1 n2 n3))) id
     ++ qitems (oq (q (cs (b (lrun chan_cfg ls (linit n1 n2 n3))) id))) ++ witems id (wire (b (lrun chan_cfg ls (linit n1 n2 n3)))).
Proof. exact (returned_is_delivered chan_cfg C03_C). Qed.
Print Assumptions C03_returned_is_delivered.

(* close is ordered after data: when the peer's receiver is about to handle an End frame of channel id, the k items whose send()
   had returned before the first close() / __del__ of that channel BEGAN are all obtained or queued over there (in order, by
   the theorem above); what is still in flight was sent in a race with the close *)
Theorem C03_close_after_data : forall n1 n2 n3 ls id k kd w2,
  pre (lrun chan_cfg ls (linit n1 n2 n3)) id = Some k -> wire (b (lrun chan_cfg ls (linit n1 n2 n3))) = FEnd id kd :: w2 ->
  lossless (b (lrun chan_cfg ls (linit n1 n2 n3))) id = true ->
  firstn k (ret (lrun chan_cfg ls (linit n1 n2 n3)) id) =
  firstn k (got (b (lrun chan_cfg ls (linit n1 n2 n3))) id ++ qitems (oq (q (cs (b (lrun chan_cfg ls (linit n1 n2 n3))) id)))).
Proof. exact (close_after_data_prefix chan_cfg C03_C). Qed.
Print Assumptions C03_close_after_data.

(* End frames come only from a close() / __del__ that has begun; a send() on a closed channel is refused *)
Theorem C03_end_only_after_close_began : forall n1 n2 n3 ls id k, In (FEnd id k) (wire (b (lrun chan_cfg ls (linit n1 n2 n3)))) ->
  pre (lrun chan_cfg ls (linit n1 n2 n3)) id <> None.
Proof. exact (end_only_after_close_began chan_cfg C03_C). Qed.
Print Assumptions C03_end_only_after_close_began.
Theorem C03_send_refused_when_closed : forall c s t id x s', closed (cs (a s) id) = true -> lstep c s (KSendBegin t id x) = Some s' ->
  b s' = b s /\ ret s' = ret s /\ pcs s' = pcs s /\ refused s' id = S (refused s id).
Proof. exact send_refused_when_closed. Qed.
Print Assumptions C03_send_refused_when_closed.

(* non-vacuity: two sends return, close begins, a third send races past the test and goes out after the CLOSE frame; B's receiver
   has handled the two items when the End is at the head of its wire *)
Example C03_link_witness : let s := lrun chan_cfg [KA (LNew 1); KB (LNew 1); KSendBegin 0 1 7; KSendEmit 0; KSendBegin 0 1 8; KSendEmit 0;
    KSendBegin 0 1 9; KCloseBegin 1 1 false; KCloseEmit 1; KSendEmit 0; KCloseTail 1; KSendBegin 0 1 10; KB LRecv; KB LRecv] (linit 2 1 1) in
  pre s 1 = Some 2 /\ ret s 1 = [7; 8; 9] /\ refused s 1 = 1 /\ wire (b s) = [FEnd 1 KClose; FData 1 9] /\
  q (cs (b s) 1) = Some [Item 7; Item 8] /\ lossless (b s) 1 = true.
Proof. vm_compute. repeat split. Qed.

Example C03_witness : let s := crun chan_cfg [LNew 1; LPeerSend 1 7; LPeerEnd 1 KClose; LPeerSend 1 8; LRecv; LRecv; LRecv; LGet 0 1; LGet 0 1; LGet 1 1] (cinit 2) in
  rclosed (cs s 1) = true /\ q (cs s 1) = Some [] /\ holders 1 (thr s) = 1 /\ got s 1 = [7].
Proof. vm_compute. repeat split. Qed.
