(* C04 -- connection loss at any byte never hangs or corrupts the survivor.
   Statements only; proofs are in proofs/ChanLossP.v (and FrameP.v, ChanP.v). *)
From Coq Require Import ZArith List Bool Arith.
Import ListNotations.
Require Import EV.model.Frame EV.proofs.FrameP EV.model.Chan EV.proofs.ChanP EV.proofs.ChanLossP EV.gen.Facts.

Definition chan_cfg : ccfg := {| setcb_atomic := chan_setcb_atomic && chan_receiver_locked |}.
Lemma C04_cfg_ok : cfg_ok chan_cfg /\ loss_reads_raise_eof_with_text = true /\ loss_socket_reset_is_eof = true /\ loss_epilogue_ok = true /\ loss_finished_receiving_ok = true /\
  loss_send_raises_oserror = true /\ read_loops_exact = true /\ from_io_exact = true /\ chan_receive_shape_ok = true /\ chan_local_close_order_ok = true /\ chan_setcb_handles_concurrent_close = true.
Proof. repeat split; reflexivity. Qed.
Definition C04_C : cfg_ok chan_cfg := proj1 C04_cfg_ok.

(* a stream of well-formed frames cut at ANY byte offset k, read with ANY chunking, is decoded into a prefix of
   the frames -- complete frames only, nothing partial, nothing altered -- and then the reader sees the end *)
Theorem C04_cut_anywhere : forall ms k o, Forall msg_wf ms -> (k <= length (concat (map enc ms)))%nat ->
  exists j e, decode (firstn k (concat (map enc ms))) o = (firstn j ms, e).
Proof. exact cut_anywhere. Qed.
Print Assumptions C04_cut_anywhere.

(* In every state reached by any interleaving of peer traffic, the receiver thread, consumers, setcallback, channel
   creation / collection in which the receiver's epilogue has run (fin): *)
(* ... no channel and no callback is registered any more *)
Theorem C04_tables_empty : forall n ls, fin (crun chan_cfg ls (cinit n)) = true ->
  forall id, alive (cs (crun chan_cfg ls (cinit n)) id) = false /\ cb (cs (crun chan_cfg ls (cinit n)) id) = None.
Proof. exact (loss_tables_empty chan_cfg). Qed.
Print Assumptions C04_tables_empty.

(* ... every endmarker that was asked for has fired, exactly once *)
Theorem C04_endmarkers_fired : forall n ls, fin (crun chan_cfg ls (cinit n)) = true ->
  forall id, ends (crun chan_cfg ls (cinit n)) id = regs (crun chan_cfg ls (cinit n)) id.
Proof. exact (loss_endmarkers_all_fired chan_cfg C04_C). Qed.
Print Assumptions C04_endmarkers_fired.

(* ... every Channel object still held has an ENDMARKER in its queue or in the hand of a receiver putting it back:
   a blocked or later receive() of any thread ends (EOFError), none blocks forever *)
Theorem C04_every_receive_ends : forall n ls, fin (crun chan_cfg ls (cinit n)) = true ->
  forall id l, held (cs (crun chan_cfg ls (cinit n)) id) = true -> q (cs (crun chan_cfg ls (cinit n)) id) = Some l ->
  qends l + holders id (thr (crun chan_cfg ls (cinit n))) >= 1.
Proof. exact (loss_every_receive_ends chan_cfg C04_C). Qed.
Print Assumptions C04_every_receive_ends.

(* ... what consumers obtained plus what they can still receive is a prefix of what was sent, in order *)
Theorem C04_items_are_a_prefix : forall n ls, fin (crun chan_cfg ls (cinit n)) = true ->
  forall id, lossless (crun chan_cfg ls (cinit n)) id = true ->
  exists rest, sent (crun chan_cfg ls (cinit n)) id = (got (crun chan_cfg ls (cinit n)) id ++ qitems (oq (q (cs (crun chan_cfg ls (cinit n)) id)))) ++ rest.
Proof. intros n ls _. exact (loss_items_are_a_prefix chan_cfg C04_C n ls). Qed.
Print Assumptions C04_items_are_a_prefix.

(* ... nothing is delivered and no channel can be created afterwards, and this stays so *)
Theorem C04_nothing_more : forall n ls, fin (crun chan_cfg ls (cinit n)) = true ->
  cstep chan_cfg (crun chan_cfg ls (cinit n)) LRecv = None /\ forall id, cstep chan_cfg (crun chan_cfg ls (cinit n)) (LNew id) = None.
Proof. exact (loss_nothing_more chan_cfg). Qed.
Print Assumptions C04_nothing_more.
Theorem C04_loss_is_final : forall c s l s', fin s = true -> cstep c s l = Some s' -> fin s' = true.
Proof. exact fin_stable. Qed.
Print Assumptions C04_loss_is_final.

(* non-vacuity: two blocked-style receivers and a callback channel when the connection ends mid-conversation *)
Example C04_witness : let s := crun chan_cfg [LNew 1; LNew 3; LSetCb 3 true; LPeerSend 1 7; LPeerSend 3 8; LPeerSend 1 9; LRecv; LRecv; LFinish; LGet 0 1; LGet 0 1; LGet 1 1] (cinit 2) in
  fin s = true /\ got s 1 = [7] /\ got s 3 = [8] /\ ends s 3 = 1 /\ holders 1 (thr s) = 1 /\ q (cs s 1) = Some [].
Proof. vm_compute. repeat split. Qed.
