(* C05 -- Group.terminate(timeout) returns promptly and leaves no local child behind.
   Statements only; proofs are in proofs/TermP.v and proofs/OrphanP.v. *)
From Coq Require Import ZArith List Bool Arith.
Import ListNotations.
Require Import EV.model.Term EV.proofs.TermP EV.model.GroupIds EV.proofs.GroupIdsP EV.proofs.OrphanP EV.gen.Facts.
Close Scope Z_scope. Open Scope nat_scope.

Lemma C05_cfg_ok : term_wait_mult = 2 /\ term_safe_terminate_ok = true /\ term_terminate_ok = true /\ term_loop_joins_pending = true /\ term_vias_count_tojoin = true /\ full_ok group_cfg.
Proof. repeat split; reflexivity. Qed.

(* whatever the members do -- never coming down, a kill function that hangs -- the waiting inside one pass of terminate
   is over after (n + 1) * 2 * timeout *)
Theorem C05_bounded : forall T ms, safe_terminate_returns T ms <= (length ms + 1) * (2 * T).
Proof. exact safe_terminate_bounded. Qed.
Print Assumptions C05_bounded.

(* with kill functions that take at most K (a local child: SIGKILL, A-kill) it is back after timeout + K, however many
   members there are and whatever they are doing *)
Theorem C05_prompt : forall T K ms, (forall m, In m ms -> killed T m = true -> exists x, k m = Some x /\ x <= K) ->
  safe_terminate_returns T ms <= T + K.
Proof. exact safe_terminate_prompt. Qed.
Print Assumptions C05_prompt.

(* the kill function runs exactly for the members that are not down after the timeout *)
Theorem C05_killed_iff_late : forall T m, killed T m = true <-> (forall x, d m = Some x -> T < x).
Proof. exact kill_iff_late. Qed.
Print Assumptions C05_killed_iff_late.

(* the while loop: proxied gateways exit before their via gateway; at most n passes; the group is empty afterwards *)
Theorem C05_rounds : forall fuel g, wf_forest g -> length g <= fuel -> rounds fuel g <= length g.
Proof. exact rounds_bounded. Qed.
Print Assumptions C05_rounds.
Theorem C05_group_empty : forall g, wf_forest g -> iter_round (length g) g = [].
Proof. exact group_empty_after. Qed.
Print Assumptions C05_group_empty.

(* ... also when some gateways had been exit()ed by the user before: afterwards the group is empty, nothing is left to join, and every
   gateway that was a member or was waiting to be joined has gone through safe_terminate (join, or kill after the time-out) *)
Definition term_cfg : tcfg := {| joins_pending := term_loop_joins_pending; vias_count_tojoin := term_vias_count_tojoin |}.
Theorem C05_joins_everything : forall fuel s, wf_forest (members s) -> tmeasure s < fuel ->
  let s' := terminate_loop term_cfg fuel s in
  members s' = [] /\ tojoin s' = [] /\ (forall i, In i (joined s) \/ In i (map gid (tojoin s)) \/ In i (map gid (members s)) -> In i (joined s')).
Proof. exact (terminate_joins_everything term_cfg eq_refl). Qed.
Print Assumptions C05_joins_everything.
(* ... and the join / wait / kill of a proxied gateway always travel through a LIVE via gateway: no gateway is exited in a pass in which
   a gateway routed through it is still to be joined or is exited in that same pass *)
Theorem C05_joined_through_live_via : forall s x y, In x (exiting term_cfg s) -> In y (tojoin s ++ exiting term_cfg s) -> via y <> Some (gid x).
Proof. intros s x y. exact (joined_through_live_via term_cfg s x y eq_refl). Qed.
Print Assumptions C05_joined_through_live_via.
(* with the loop condition `while self:` alone, resp. with the vias collected over the members only, the statements are false *)
Theorem C05_forgets_exited_refuted : exists s, members s = [] /\
  tojoin (terminate_loop {| joins_pending := false; vias_count_tojoin := true |} 5 s) <> [] /\
  joined (terminate_loop {| joins_pending := false; vias_count_tojoin := true |} 5 s) = [].
Proof. exact terminate_forgets_exited_refuted. Qed.
Theorem C05_via_exited_too_early_refuted : exists s x y, wf_forest (members s) /\
  In x (exiting {| joins_pending := true; vias_count_tojoin := false |} s) /\ In y (tojoin s) /\ via y = Some (gid x).
Proof. exact via_exited_too_early_refuted. Qed.
Example C05_joins_witness : let s' := terminate_loop term_cfg 9 {| members := [{| gid := 1; via := None |}; {| gid := 2; via := Some 1 |}]; tojoin := [{| gid := 7; via := Some 1 |}]; joined := [] |} in
  members s' = [] /\ tojoin s' = [] /\ joined s' = [7; 2; 1].
Proof. vm_compute. repeat split. Qed.

(* a makegateway call that fails because its id is taken has not started a process: for any sequence of non-overlapping
   makegateway calls (explicit or automatic ids, repeated or not) and exits, no call fails after its worker exists *)
Theorem C05_no_orphan : forall wants ops t,
  nth_error (thr (fold_left (sstep group_cfg) ops (init wants))) t <> Some (Failed true).
Proof. intros wants ops. exact (no_orphan_sequential group_cfg wants ops (proj2 (proj2 (proj2 (proj2 (proj2 C05_cfg_ok)))))). Qed.
Print Assumptions C05_no_orphan.

(* the pinned tree (no test in allocate_id) leaked on the second of two calls with one id; overlapping calls still do *)
Theorem C05_unchecked_id_refuted :
  let c := {| alloc_read_locked := true; explicit_checked := false; register_atomic := true |} in
  nth_error (thr (fold_left (sstep c) [SCall 0; SCall 1] (init [Some (-5)%Z; Some (-5)%Z]))) 1 = Some (Failed true).
Proof. exact unchecked_explicit_id_leaks. Qed.
Theorem C05_overlapping_calls_refuted :
  let c := {| alloc_read_locked := true; explicit_checked := true; register_atomic := true |} in
  nth_error (thr (run c [0; 1; 0; 1] (init [Some (-5)%Z; Some (-5)%Z]))) 1 = Some (Failed true).
Proof. exact overlapping_same_id_leaks. Qed.

Example C05_witness :
  let ms := [{| d := Some 1; k := Some 0 |}; {| d := None; k := Some 1 |}; {| d := Some 50; k := None |}] in
  safe_terminate_returns 3 ms = 16 /\ (length ms + 1) * (2 * 3) = 24 /\
  safe_terminate_returns 3 [{| d := Some 1; k := Some 0 |}; {| d := None; k := Some 1 |}] = 4.
Proof. vm_compute. auto. Qed.
Example C05_forest_witness : let g := [{| gid := 0; via := None |}; {| gid := 1; via := Some 0 |}; {| gid := 2; via := Some 1 |}; {| gid := 3; via := None |}] in
  wf_forest g /\ rounds 10 g = 3.
Proof. split; [split; [repeat constructor; cbn; intuition discriminate|]|reflexivity].
  intros x [<-|[<-|[<-|[<-|[]]]]] j V; cbn in *; try discriminate; injection V as <-; auto. Qed.
