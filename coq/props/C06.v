(* C06 -- remote_exec runs exactly the given code with a live channel and clean stdio.
   Statements only; proofs are in proofs/PurityP.v and proofs/FdTableP.v. *)
From Coq Require Import List Bool String Arith.
Import ListNotations.
Require Import EV.model.Purity EV.proofs.PurityP EV.model.FdTable EV.proofs.FdTableP EV.gen.Facts.
Open Scope string_scope.

Definition pur_cfg : pcfg := {| shadow_checked := purity_shadow_checked; global_stmt_checked := purity_global_stmt_checked; gloads_checked := purity_gloads_checked |}.
Lemma C06_cfg_ok : pcfg_ok pur_cfg /\ purity_check_shape_ok = true /\ remote_exec_shape_ok = true /\
  init_popen_ops = canon_ops /\ init_popen_io_built_on_saved_fds = true /\ send_dumps_before_write = true /\ chan_close_shape_ok = true /\ chan_errortext_ok = true.
Proof. repeat split; reflexivity. Qed.

(* purity: for every function description that satisfies what the compiler guarantees (global lookups come from Name
   nodes; a global lookup coincides with a local of the function only through a `global` statement), acceptance by the
   checker implies: not a lambda, first parameter `channel`, no closure, and EVERY name the code -- at any nesting
   depth -- looks up globally is a builtin that the defining module does not rebind; so the remote lookup (builtins of
   the worker) finds what the local one finds *)
Theorem C06_purity_sound : forall builtins f, compiler_facts f -> accept pur_cfg builtins f = true ->
  is_lambda f = false /\ first f = Some "channel" /\ has_closure f = false /\
  forall n, In n (gloads f) -> In n builtins /\ ~ In n (module_names f).
Proof. intros builtins f. exact (accept_sound pur_cfg builtins f (proj1 C06_cfg_ok)). Qed.
Print Assumptions C06_purity_sound.
(* ... and since the checker also scans what the COMPILED code looks up globally, the same conclusion holds with no assumption about the
   compiler at all (the assumption above is false on Python 3.12 for comprehension variables: C06_comprehension_variable_refuted) *)
Theorem C06_purity_sound_direct : forall builtins f, accept pur_cfg builtins f = true ->
  is_lambda f = false /\ first f = Some "channel" /\ has_closure f = false /\
  forall n, In n (gloads f) -> In n builtins /\ ~ In n (module_names f).
Proof. intros builtins f. exact (accept_sound_direct pur_cfg builtins f eq_refl eq_refl). Qed.
Print Assumptions C06_purity_sound_direct.
Theorem C06_comprehension_variable_refuted :
  let f := {| names := ["x"; "range"; "channel"]; varnames := ["channel"; "x"]; gloads := ["range"; "x"]; first := Some "channel"; has_closure := false; is_lambda := false; module_names := []; global_decls := [] |} in
  accept {| shadow_checked := true; global_stmt_checked := true; gloads_checked := false |} ["range"] f = true /\ In "x" (gloads f) /\ ~ In "x" ["range"].
Proof. exact comprehension_variable_refuted. Qed.

(* stdio: whatever other descriptors are open, if 0 and 1 are the protocol's pipe ends (and the out end is nowhere else)
   then after init_popen_io -- the operation list READ OFF THE SOURCE equals canon_ops -- fd 0 and 1 are /dev/null, the IO
   object's descriptors are the pipe ends and are >= 2, every other open descriptor is untouched, and the ONLY descriptor
   that leads to the protocol's output pipe is the saved one: nothing written to fd 1 or sys.stdout can enter the stream *)
Theorem C06_stdio_isolated : forall t, get_fd t 0 = Some PipeIn -> get_fd t 1 = Some PipeOut ->
  (forall fd, get_fd t fd = Some PipeOut -> fd = 1) ->
  let '(t', e) := run init_popen_ops t in
  get_fd t' 0 = Some NullR /\ get_fd t' 1 = Some NullW /\
  get_fd t' (e 0) = Some PipeIn /\ get_fd t' (e 1) = Some PipeOut /\
  2 <= e 0 /\ 2 <= e 1 /\ e 0 <> e 1 /\
  (forall fd d, get_fd t fd = Some d -> 2 <= fd -> get_fd t' fd = Some d) /\
  (forall fd, get_fd t' fd = Some PipeOut -> fd = e 1).
Proof. rewrite (proj1 (proj2 (proj2 (proj2 C06_cfg_ok)))). exact init_popen_io_isolates. Qed.
Print Assumptions C06_stdio_isolated.

(* line numbers: the shipped text starts with (co_firstlineno - 1) newlines, so line k of the function's source is line
   co_firstlineno + k - 1 remotely -- the line it has in the original file *)
Theorem C06_line_numbers : forall first k, 1 <= first -> 1 <= k -> shipped_line first k = first + k - 1.
Proof. exact shipped_line_offset. Qed.
Print Assumptions C06_line_numbers.

Example C06_witness :
  let f := {| names := ["len"; "a"; "channel"]; varnames := ["channel"; "a"]; gloads := ["len"]; first := Some "channel"; has_closure := false; is_lambda := false; module_names := ["os"]; global_decls := [] |} in
  compiler_facts f /\ accept pur_cfg ["len"; "id"] f = true.
Proof. split; [split|reflexivity]. - intros n [<-|[]]. cbn. auto. - intros n [<-|[]] [E|[E|[]]]; discriminate. Qed.
Example C06_fd_witness : let t := [Some PipeIn; Some PipeOut; Some (Other 2); None; Some (Other 4)] in
  let '(t', e) := run init_popen_ops t in (e 0, e 1, get_fd t' 0, get_fd t' 1) = (3, 5, Some NullR, Some NullW).
Proof. vm_compute. reflexivity. Qed.

(* what the pinned tree accepted *)
Theorem C06_shadowed_builtin_refuted :
  let f := {| names := ["id"; "channel"]; varnames := ["channel"]; gloads := ["id"]; first := Some "channel"; has_closure := false; is_lambda := false; module_names := ["id"]; global_decls := [] |} in
  accept {| shadow_checked := false; global_stmt_checked := true; gloads_checked := false |} ["id"; "len"] f = true /\ In "id" (gloads f) /\ In "id" (module_names f).
Proof. exact shadow_unchecked_refuted. Qed.
