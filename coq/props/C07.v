(* C07 -- a remote error reaches the receiving side exactly once; a raising callback closes the channel with the error.
   Statements only; proofs are in proofs/ChanP.v. *)
From Coq Require Import List Bool Arith.
Import ListNotations.
Require Import EV.model.Chan EV.proofs.ChanP EV.gen.Facts.

(* the configuration of the channel model as read off the source by tools/gen_facts.py; the shape facts say that
   the functions the model's atomic steps stand for still have the modelled structure *)
Definition chan_cfg : ccfg := {| setcb_atomic := chan_setcb_atomic && chan_receiver_locked |}.
Lemma C07_cfg_ok : cfg_ok chan_cfg /\ chan_receive_shape_ok = true /\ chan_local_close_order_ok = true /\ chan_cb_error_closes_with_error = true /\ chan_handlers_ok = true /\ chan_errortext_ok = true.
Proof. repeat split; reflexivity. Qed.
Definition C07_C : cfg_ok chan_cfg := proj1 C07_cfg_ok.

(* errors still pending on the channel plus errors already raised to a consumer never exceed the
   CLOSE_ERROR frames handled for that id: no error is raised twice, none is invented *)
Theorem C07_error_at_most_once : forall n ls id, errs (cs (crun chan_cfg ls (cinit n)) id) + errs_out (crun chan_cfg ls (cinit n)) id <= errs_in (crun chan_cfg ls (cinit n)) id.
Proof. exact (errors_at_most_once chan_cfg C07_C). Qed.
Print Assumptions C07_error_at_most_once.

(* the CLOSE_ERROR frame for a registered channel records exactly one pending error on that channel and touches no other *)
Theorem C07_error_recorded_on_its_channel : forall c s s' id w, fin s = false -> wire s = FEnd id KCloseErr :: w -> alive (cs s id) = true ->
  cstep c s LRecv = Some s' ->
  errs (cs s' id) = S (errs (cs s id)) /\ (forall j, j <> id -> cs s' j = cs s j) /\ errs_in s' id = S (errs_in s id).
Proof. exact close_error_recorded. Qed.
Print Assumptions C07_error_recorded_on_its_channel.

(* the receive() that meets the ENDMARKER hands a pending error to its caller -- RemoteError, not EOFError -- and removes it;
   without a pending error it raises EOFError *)
Theorem C07_error_handed_over : forall c s s' t id k, nth_error (thr s) t = Some (CHold id) -> errs (cs s id) = S k ->
  cstep c s (LReput t) = Some s' ->
  errs_out s' id = S (errs_out s id) /\ errs (cs s' id) = k /\ eofs s' id = eofs s id.
Proof. exact reput_hands_over_error. Qed.
Print Assumptions C07_error_handed_over.
Theorem C07_eof_without_error : forall c s s' t id, nth_error (thr s) t = Some (CHold id) -> errs (cs s id) = 0 ->
  cstep c s (LReput t) = Some s' -> eofs s' id = S (eofs s id) /\ errs_out s' id = errs_out s id.
Proof. exact reput_eof_without_error. Qed.
Print Assumptions C07_eof_without_error.

(* the error is raised by the first receive that meets the ENDMARKER, EOFError afterwards *)
Example C07_witness : let s := crun chan_cfg [LNew 1; LPeerSend 1 7; LPeerEnd 1 KCloseErr; LRecv; LRecv; LGet 0 1; LGet 0 1; LReput 0; LGet 0 1; LReput 0] (cinit 1) in
  errs_in s 1 = 1 /\ errs_out s 1 = 1 /\ eofs s 1 = 1 /\ errs (cs s 1) = 0 /\ got s 1 = [7].
Proof. vm_compute. repeat split. Qed.
