(* C08 -- Message frames survive any chunking and never interleave on the wire.
   Property statements only; proofs are in proofs/FrameP.v. *)
From Coq Require Import ZArith List Bool Lia.
From Coq Require String.
Import ListNotations.
Require Import EV.model.Cfg EV.model.Frame EV.proofs.FrameP EV.gen.Facts.
Open Scope Z_scope.

(* Every sequence of messages (all types -128..127, channel ids in the full signed 32-bit range,
   payloads of any size below 2^31) written back to back is read back identically, whatever the
   sizes of the low-level reads (the oracle is universally quantified). *)
Theorem C08_roundtrip : forall ms orc, Forall msg_wf ms -> decode (concat (map enc ms)) orc = (ms, CleanEOF).
Proof. exact decode_roundtrip. Qed.
Print Assumptions C08_roundtrip.

(* the exact-read loop does not depend on the chunking *)
Theorem C08_read_exact : forall n s, (n <= length (avail s))%nat ->
  exists o', read_n n s = Some (firstn n (avail s), {| avail := skipn n (avail s); oracle := o' |}).
Proof. exact read_n_ok. Qed.
Print Assumptions C08_read_exact.

(* With atomic frame writes, for any number of concurrent senders and every interleaving, the peer
   decodes exactly the frames that were written, each sender's frames in its own order. *)
Theorem C08_no_interleave : forall progs sched orc,
  Forall (Forall msg_wf) progs ->
  let s := wrun sched (winit progs) in
  decode (wire s) orc = (map snd (sentlog s), CleanEOF) /\
  forall t prog, nth_error progs t = Some prog -> exists rest, sent_by t (sentlog s) ++ rest = prog.
Proof. exact no_interleave. Qed.
Print Assumptions C08_no_interleave.

(* ... and why atomicity is needed *)
Theorem C08_parts_interleave_refuted :
  let m1 := {| mty := 4; mcid := 1; mdata := [1; 2] |} in
  let m2 := {| mty := 4; mcid := 3; mdata := [9] |} in
  let wire := part_bytes (PHeader m1) ++ part_bytes (PHeader m2) ++ part_bytes (PPayload m1) ++ part_bytes (PPayload m2) in
  fst (decode wire []) <> [m1; m2] /\ fst (decode wire []) <> [m2; m1].
Proof. exact parts_interleave_corrupts. Qed.

(* tie to the source: the facts the theorems rest on, regenerated from the current tree *)
Definition cfg_ok_C08 : Prop :=
  msg_header_format = HEADER_FMT /\ to_io_single_write = true /\ read_loops_exact = true /\ from_io_exact = true /\
  wshape_atomic popen_write_shape = true /\ wshape_atomic socket_write_shape = true /\ popen_streams_buffered = true /\ proxy_master_ok = true /\ socket_io_blocking = true /\ boot_ack_read_unconditional = true.
Lemma C08_cfg_ok : cfg_ok_C08.
Proof. repeat split; reflexivity. Qed.

Example C08_example : msg_wf {| mty := -128; mcid := -2147483648; mdata := [0; 255; 10] |}.
Proof. unfold msg_wf; cbn. repeat split; lia. Qed.
