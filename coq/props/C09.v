(* C09 -- WorkerPool runs every accepted task exactly once and reports truthfully.
   Property statements only; proofs are in proofs/PoolP*.v.
   The model (model/Pool.v) is a labelled transition system over ANY number of spawner threads,
   worker threads, trigger_shutdown callers and waitall callers plus an optional integrated
   primary thread; `run c ls s` executes an arbitrary schedule ls (every interleaving of the
   micro-steps is some ls), so "forall ls" = "for every interleaving, of any length". *)
From Coq Require Import List Bool Arith.
Import ListNotations.
Require Import EV.model.Pool EV.proofs.PoolP1 EV.proofs.PoolP5 EV.proofs.PoolP6 EV.gen.Facts.

(* the configuration of the current source: what trigger_shutdown and the primary loop do is
   regenerated from the code; mto/protocol: main_thread_only pools are driven by the gateway's
   submission protocol (the quantifier of C09) *)
Definition pool_cfg (is_mto : bool) : pcfg :=
  {| mto := is_mto; keep_pending := pool_keep_pending; mailbox_first := pool_mailbox_first; protocol := is_mto |}.
Lemma C09_cfg_ok : pool_structure_ok = true /\ forall m, cfg_ok (pool_cfg m).
Proof. split; [reflexivity|]. intro m. unfold cfg_ok, pool_cfg. cbn. repeat split; auto. Qed.

Section C09.
Variable m : bool.                              (* thread or main_thread_only *)
Variables (progs : list (list task)) (primary : bool) (nshut : nat) (waiters : list bool).
Hypothesis Distinct : NoDup (concat progs).     (* tasks are distinct objects *)
Variable ls : list lab.                         (* an arbitrary schedule *)
Let s := run (pool_cfg m) ls (init progs primary nshut waiters).

Theorem C09_invariant : Inv (pool_cfg m) s.
Proof. apply reachable_inv; [apply (proj2 C09_cfg_ok)|exact Distinct]. Qed.

(* every accepted call is executed at most once, and while it has not started it has exactly one
   holder (spawner inside spawn / primary-thread mailbox / started thread / primary thread) *)
Theorem C09_exactly_once : NoDup (started s) /\ forall x, In x (acc s) -> cnt (plist s) x + cnt (started s) x = 1.
Proof. split; [apply (exactly_once _ _ C09_invariant)|intros x H; apply (accepted_is_owned _ _ _ C09_invariant H)]. Qed.

(* when nothing can move any more, every accepted task has run exactly once and has finished --
   even when shutdown was triggered right after it was accepted *)
Theorem C09_no_accepted_task_lost : terminal (pool_cfg m) s -> forall x, In x (acc s) -> In x (fin s) /\ cnt (started s) x = 1.
Proof. intros T x H. apply (terminal_all_finished _ (proj2 C09_cfg_ok m) s x C09_invariant T H). Qed.

(* waitall / terminate return True only when every task accepted before the call has finished *)
Theorem C09_waitall_truth : forall k snap, nth_error (wa s) k = Some (ARet true snap) -> forall x, In x snap -> In x (fin s).
Proof. intros k snap H. apply (waitall_truth _ s k snap C09_invariant H). Qed.

(* no lost wake-up: a caller is blocked only while _running is non-empty, and never in a terminal state *)
Theorem C09_no_lost_wakeup :
  (forall k tm snap, nth_error (wa s) k = Some (A3 tm snap false) -> running s <> []) /\
  (terminal (pool_cfg m) s -> forall k tm snap, nth_error (wa s) k <> Some (A3 tm snap false)).
Proof.
  split; [intros k tm snap H; apply (waiter_blocked_only_if_running _ s k tm snap C09_invariant H)|].
  intros T k tm snap. apply (terminal_no_blocked_waiter _ (proj2 C09_cfg_ok m) s k tm snap C09_invariant T).
Qed.

(* after shutdown the integrated primary thread leaves integrate_as_primary_thread *)
Theorem C09_primary_leaves : terminal (pool_cfg m) s -> shut s = true -> pr s = PExit \/ pr s = PNone.
Proof. intros T Sh. apply (terminal_primary_left _ (proj2 C09_cfg_ok m) s C09_invariant T Sh). Qed.
End C09.
Print Assumptions C09_exactly_once.
Print Assumptions C09_no_accepted_task_lost.
Print Assumptions C09_waitall_truth.
Print Assumptions C09_no_lost_wakeup.
Print Assumptions C09_primary_leaves.

(* spawn after shutdown is refused and changes nothing *)
Theorem C09_refuse_after_shutdown : forall c s i t ts s', nth_error (sp s) i = Some (S0 (t :: ts)) -> shut s = true ->
  tstep c s (LSp i) = Some s' ->
  acc s' = acc s /\ running s' = running s /\ refused s' = t :: refused s /\ started s' = started s /\ wk s' = wk s /\ mailbox s' = mailbox s.
Proof. exact refused_after_shutdown. Qed.

(* the defect of the pinned tree, as a witness in the model of the ORIGINAL code: spawn hands the
   task to the mailbox, trigger_shutdown overwrites it, the primary thread reads None and leaves *)
Definition terminal_b (c : pcfg) (s : st) : bool :=
  forallb (fun l => match tstep c s l with None => true | Some _ => false end) [LSp 0; LWk 0; LPr; LSh 0; LWa 0; LTimeout 0].
Example C09_original_loses_task :
  let c := {| mto := false; keep_pending := false; mailbox_first := false; protocol := false |} in
  let s := run c [LSp 0; LSp 0; LSp 0; LSp 0; LSh 0; LSh 0; LSh 0; LPr; LPr] (init [[7]] true 1 []) in
  acc s = [7] /\ started s = [] /\ pr s = PExit /\ terminal_b c s = true.
Proof. vm_compute. repeat split; reflexivity. Qed.
