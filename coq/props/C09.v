(* C09 placeholder while the model is being built *)
From Coq Require Import ZArith List Bool.
Lemma C09_tmp : True. Proof. exact I. Qed.
