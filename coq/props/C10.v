(* C10 -- setcallback hands over the queued items in order, then later ones; the endmarker fires exactly once.
   Statements only; proofs are in proofs/ChanP.v. *)
From Coq Require Import List Bool Arith.
Import ListNotations.
Require Import EV.model.Cfg EV.model.Chan EV.proofs.ChanP EV.gen.Facts.

(* the configuration of the channel model as read off the source by tools/gen_facts.py; the shape facts say that
   the functions the model's atomic steps stand for still have the modelled structure *)
Definition chan_cfg : ccfg := {| setcb_atomic := chan_setcb_atomic && chan_receiver_locked |}.
Lemma C10_cfg_ok : cfg_ok chan_cfg /\ chan_local_receive_shape_ok = true /\ chan_local_close_order_ok = true /\ chan_setcb_handles_concurrent_close = true /\ chan_handlers_ok = true /\ loss_finished_receiving_ok = true /\ chan_close_shape_ok = true /\ to_io_single_write = true /\ wshape_atomic popen_write_shape = true /\ wshape_atomic socket_write_shape = true /\ read_loops_exact = true /\ from_io_exact = true /\ mc_receive_queue_ok = true /\ execmodel_primitives_ok = true.
Proof. repeat split; reflexivity. Qed.
Definition C10_C : cfg_ok chan_cfg := proj1 C10_cfg_ok.

(* items obtained through receive() before setcallback, the queued ones replayed by setcallback, and the ones
   the receiver thread hands to the callback afterwards are together a prefix of what was sent, in order *)
Theorem C10_handover_in_order : forall n ls id, lossless (crun chan_cfg ls (cinit n)) id = true ->
  sent (crun chan_cfg ls (cinit n)) id = got (crun chan_cfg ls (cinit n)) id ++ qitems (oq (q (cs (crun chan_cfg ls (cinit n)) id))) ++ witems id (wire (crun chan_cfg ls (cinit n))).
Proof. exact (delivery chan_cfg C10_C). Qed.
Print Assumptions C10_handover_in_order.

(* endmarker callbacks fired + registrations still waiting for their endmarker = registrations made:
   each registration's endmarker fires exactly once, when the channel closes *)
Theorem C10_endmarker_exactly_once : forall n ls id,
  ends (crun chan_cfg ls (cinit n)) id + (match cb (cs (crun chan_cfg ls (cinit n)) id) with Some true => 1 | _ => 0 end) = regs (crun chan_cfg ls (cinit n)) id.
Proof. exact (endmarker_exactly_once chan_cfg C10_C). Qed.
Print Assumptions C10_endmarker_exactly_once.

(* a channel with a callback has no item queue: receive() is refused, a second setcallback too *)
Theorem C10_callback_owns_channel : forall n ls id, cb (cs (crun chan_cfg ls (cinit n)) id) <> None -> q (cs (crun chan_cfg ls (cinit n)) id) = None.
Proof. exact (callback_owns_the_channel chan_cfg C10_C). Qed.
Print Assumptions C10_callback_owns_channel.

Example C10_witness : let s := crun chan_cfg [LNew 1; LPeerSend 1 7; LPeerSend 1 8; LRecv; LSetCb 1 true; LRecv; LPeerEnd 1 KClose; LRecv] (cinit 1) in
  got s 1 = [7; 8] /\ ends s 1 = 1 /\ regs s 1 = 1 /\ cb (cs s 1) = None.
Proof. vm_compute. repeat split. Qed.
