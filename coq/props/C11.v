(* C11 -- workers never outlive their initiator.
   Statements only; proofs are in proofs/TermP.v (ladder) and proofs/ChanLossP.v / FrameP.v (EOF ends the receiver). *)
From Coq Require Import List Bool Arith.
Import ListNotations.
Require Import EV.model.Term EV.proofs.TermP EV.gen.Facts.

Definition lad : ladder := {| t1 := ladder_t1; t2 := ladder_t2 |}.
Lemma C11_cfg_ok : ladder_shape_ok = true /\ loss_epilogue_ok = true /\ loss_reads_raise_eof_with_text = true /\ t1 lad + t2 lad = 15 /\
  pool_keep_pending = true /\ pool_mailbox_first = true /\ read_loops_exact = true /\ from_io_exact = true /\ loss_socket_reset_is_eof = true.
Proof. repeat split; reflexivity. Qed.

(* whatever the worker executes when its receiver sees EOF -- any number of tasks, ending at any time or never, in the
   main thread or not, unwinding on KeyboardInterrupt or swallowing it -- the process is gone t1 + t2 (= 15 s) later at
   the latest (A-eof: the initiator's death closes the connection; A-sigint; A-exit: os._exit ends the process) *)
Theorem C11_bounded : forall ts, exit_time lad ts <= 15.
Proof. intro ts. pose proof (ladder_bounded lad ts). pose proof (proj1 (proj2 (proj2 (proj2 C11_cfg_ok)))). Lia.lia. Qed.
Print Assumptions C11_bounded.

(* ... and after t1 (= 5 s) when SIGINT finds the main thread idle, or inside a body that unwinds while no task of another
   thread is still running (Reply.run swallows the KeyboardInterrupt, serve() then joins the receiver thread, and that one waits
   for the other threads' tasks until t1 + t2) *)
Theorem C11_sigint_suffices : forall ts,
  (forall m, main_task ts = Some m -> leb_o (ends m) (t1 lad) = true \/
        (on_int m = Unwinds /\ exists x, others_done ts = Some x /\ x <= t1 lad)) ->
  exit_time lad ts <= 5.
Proof. exact (ladder_sigint_suffices lad). Qed.
Print Assumptions C11_sigint_suffices.

Example C11_witness :
  exit_time lad [] = 0 /\
  exit_time lad [{| ends := Some 2; in_main := true; on_int := Unwinds |}] = 2 /\
  exit_time lad [{| ends := None; in_main := false; on_int := Swallows |}] = 5 /\
  exit_time lad [{| ends := None; in_main := true; on_int := Unwinds |}] = 5 /\
  exit_time lad [{| ends := None; in_main := true; on_int := Swallows |}] = 15 /\
  exit_time lad [{| ends := Some 9; in_main := true; on_int := Swallows |}] = 9 /\
  exit_time lad [{| ends := None; in_main := true; on_int := Unwinds |}; {| ends := Some 12; in_main := false; on_int := Unwinds |}] = 12 /\
  exit_time lad [{| ends := None; in_main := true; on_int := Unwinds |}; {| ends := None; in_main := false; on_int := Unwinds |}] = 15.
Proof. vm_compute. repeat split. Qed.
