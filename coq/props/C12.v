(* C12 -- Serialized byte format is stable and version-compatible.
   Property statements only; proofs are in proofs/CodecP*.v. *)
From Coq Require Import ZArith List Bool.
From Coq Require String.
Import ListNotations.
Require Import EV.model.Cfg EV.model.Value EV.model.Frame EV.model.CodecSpec EV.model.Utf8 EV.model.Decimal EV.model.Ser EV.model.Unser EV.model.Stream.
Require Import EV.proofs.CodecP3 EV.proofs.CodecP4 EV.proofs.CodecP7 EV.proofs.CodecP8 EV.gen.Facts.
Open Scope Z_scope.

(* The tables regenerated from the current source ARE dump format version 2 as written down in
   model/CodecSpec.v (literal constants, not derived from the code): every opcode letter, every
   opcode -> loader registration (aliases resolved), every save_<type> -> opcode use, the version
   byte, the 4-byte cut-over, the float formats, the default coercion switches of loads() and of
   gateways/channels.  A shifted letter (the 1.4.0 incident) breaks this obligation. *)
Theorem C12_facts_are_v2 :
  opcode_table = OPCODE_TABLE /\ loader_table = LOADER_TABLE /\ saver_table = SAVER_TABLE /\
  dump_version = VERSION /\ four_byte_int_max = INT_MAX /\ int_lo_checked = true /\
  float_formats = FLOAT_FORMATS /\ ser_int_text_ok = true /\ load_py2string_latin1 = true /\ load_stream_incremental = true /\
  strconfig_defaults = ((false, false), (true, false)).
Proof. repeat split; reflexivity. Qed.
Print Assumptions C12_facts_are_v2.

(* golden vectors written by hand from the format description: version byte, opcode letters,
   big-endian 4-byte fields, decimal text, IEEE-754 big-endian doubles, post-order containers, STOP *)
Example C12_golden_1 :
  dumps true (VList [VInt 1; VStr [97]]) =
  Ok [2; 75; 0;0;0;2;  70; 0;0;0;0;  70; 0;0;0;1;  80;   70; 0;0;0;1;  78; 0;0;0;1; 97;  80;  81].
Proof. vm_compute. reflexivity. Qed.
Example C12_golden_2 :
  dumps true (VTuple [VNone; VBool true; VBool false; VInt (-1); VInt 2147483648; VInt (-2147483649)]) =
  Ok [2; 76; 82; 67;  70; 255;255;255;255;  72; 0;0;0;10; 50;49;52;55;52;56;51;54;52;56;
      72; 0;0;0;11; 45;50;49;52;55;52;56;51;54;52;57;   64; 0;0;0;6;  81].
Proof. vm_compute. reflexivity. Qed.
Example C12_golden_3 :   (* 1.5 = 0x3FF8000000000000 ; -0.0 = 0x8000000000000000 *)
  dumps true (VDict [(VBytes [0; 255], VFloat 4609434218613702656); (VStr [233], VComplex 4609434218613702656 9223372036854775808)]) =
  Ok [2; 74;  65; 0;0;0;2; 0; 255;   68; 63;248;0;0;0;0;0;0;  80;
      78; 0;0;0;2; 195; 169;   84; 63;248;0;0;0;0;0;0; 128;0;0;0;0;0;0;0;  80;  81].
Proof. vm_compute. reflexivity. Qed.
Example C12_golden_4 :
  dumps true (VSet [VFrozenset []; VInt 7]) = Ok [2; 69; 0;0;0;0;  70; 0;0;0;7;  79; 0;0;0;2;  81].
Proof. vm_compute. reflexivity. Qed.

(* what dumps produces is loaded back by the same format (C01); here: the legacy opcodes written
   by execnet on Python 2 load as documented under all four coercion settings *)
Theorem C12_py2string : forall ma sc fac s rest st, Z.of_nat (length s) < 2147483648 ->
  step ma sc fac OP_PY2STRING (lenpfx s ++ rest) st = Cont rest ((if py2str_as_py3str sc then VStr s else VBytes s) :: st).
Proof. exact legacy_py2string. Qed.
Theorem C12_unicode : forall ma sc fac cps u rest st, utf8_enc cps = Some u -> Z.of_nat (length u) < 2147483648 ->
  step ma sc fac OP_UNICODE (lenpfx u ++ rest) st = Cont rest (VStr cps :: st).
Proof. exact legacy_unicode. Qed.
Theorem C12_py3string : forall ma sc fac cps u rest st, utf8_enc cps = Some u -> Z.of_nat (length u) < 2147483648 ->
  step ma sc fac OP_PY3STRING (lenpfx u ++ rest) st = Cont rest ((if py3str_as_py2str sc then VBytes u else VStr cps) :: st).
Proof. exact legacy_py3string. Qed.
Theorem C12_long : forall ma sc fac z rest st, -2147483648 <= z < 2147483648 ->
  step ma sc fac OP_LONG (enc_i32 z ++ rest) st = Cont rest (VInt z :: st).
Proof. exact legacy_long. Qed.
Theorem C12_longlong : forall ma sc fac z rest st, Z.of_nat (length (to_dec z)) < 2147483648 ->
  step ma sc fac OP_LONGLONG (lenpfx (to_dec z) ++ rest) st = Cont rest (VInt z :: st).
Proof. exact legacy_longlong. Qed.
Print Assumptions C12_py2string.
Print Assumptions C12_longlong.

(* a foreign version byte is rejected with DataFormatError (LoadError) *)
Theorem C12_version : forall ma sc b rest, b <> VERSION -> loads_r ma sc (b :: rest) = Err LoadError.
Proof. exact version_rejected. Qed.
Print Assumptions C12_version.

(* round trip in this format: see C01_roundtrip (loads_dumps) *)
Theorem C12_roundtrip_v2 : forall ma sc v, py3str_as_py2str sc = false -> 2147483647 <= ma -> wfb false v = true ->
  exists b, dumps true v = Ok b /\ loads_r ma sc b = Ok (v, []).
Proof. intros ma sc v Hsc Hma W. exact (loads_dumps ma sc Hsc Hma v W). Qed.

(* the STOP terminator delimits a record: data persisted with dump(stream, v) -- several records one after
   the other, or a record followed by anything else -- loads back record by record with load(stream); each
   load consumes exactly its record and leaves every later byte in the stream (tie: fact
   load_stream_incremental + the stream layer of the harness comparing values and stream positions) *)
Theorem C12_record_self_delimiting : forall ma sc v, py3str_as_py2str sc = false -> 2147483647 <= ma -> wfb false v = true ->
  exists b, dumps true v = Ok b /\ forall rest, loads_r ma sc (b ++ rest) = Ok (v, rest).
Proof. intros ma sc v Hsc Hma W. exact (loads_dumps_rest ma sc Hsc Hma v W). Qed.
Print Assumptions C12_record_self_delimiting.

Theorem C12_stream_of_records : forall ma sc vs, py3str_as_py2str sc = false -> 2147483647 <= ma -> forallb (wfb false) vs = true ->
  exists bs, dump_stream true vs = Ok bs /\ forall trailer, load_stream ma sc (length vs) (bs ++ trailer) = Ok (vs, trailer).
Proof. intros ma sc vs Hsc Hma W. exact (load_stream_dump_stream ma sc Hsc Hma vs W). Qed.
Print Assumptions C12_stream_of_records.

Example C12_stream_nonvacuous :
  load_stream 2147483647 {| py2str_as_py3str := false; py3str_as_py2str := false |} 2
    [2; 70; 0;0;0;7; 81;   2; 76; 81;   9; 9] = Ok ([VInt 7; VNone], [9; 9]).
Proof. vm_compute. reflexivity. Qed.
