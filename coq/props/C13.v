(* C13 placeholder while the proofs are being built: obligations on facts only *)
From Coq Require Import ZArith List Bool.
Require Import EV.gen.Facts.
Lemma C13_cfg_ok_tmp : loader_reads_exact = true /\ loader_errors_typed = true.
Proof. split; reflexivity. Qed.
