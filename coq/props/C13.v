(* C13 -- Loading untrusted bytes is total, typed-error-only and side-effect free.
   Property statements only; proofs are in proofs/CodecP*.v. *)
From Coq Require Import ZArith List Bool Lia.
Import ListNotations.
Require Import EV.model.Cfg EV.model.Value EV.model.CodecSpec EV.model.Ser EV.model.Unser.
Require Import EV.proofs.CodecP2 EV.proofs.CodecP3 EV.proofs.CodecP4 EV.proofs.CodecP5 EV.gen.Facts.
Open Scope Z_scope.

(* facts of the current source: exact reads (EOFError on short data, LoadError on a negative
   length) and every other exception of an opcode loader converted into LoadError *)
Definition cfg_ok_C13 : Prop := loader_reads_exact = true /\ loader_errors_typed = true.
Lemma C13_cfg_ok : cfg_ok_C13.
Proof. split; reflexivity. Qed.

(* totality: loads is a total function of the bytes (it is a Coq function), and the fuel it runs
   on, |bytes|+1, is never what stops it: any larger fuel gives the same result *)
Theorem C13_total : forall ma sc fac f1 f2 bs st, (length bs < f1)%nat -> (length bs < f2)%nat ->
  run ma sc fac f1 bs st = run ma sc fac f2 bs st.
Proof. exact run_fuel. Qed.
Print Assumptions C13_total.

(* for EVERY byte string, every coercion setting and allocation bound: a value, or LoadError
   (DataFormatError), or EOFError, or the separately tracked memory demand -- never anything else *)
Theorem C13_typed : forall ma sc bs,
  match loads ma sc bs with
  | Ok v => cleanb v = true          (* only supported builtin types, no channel object *)
  | Err e => e = LoadError \/ e = EOFError \/ e = MemoryDemand
  end.
Proof.
  intros ma sc bs. unfold loads, loads_r.
  destruct bs as [|ver r]; [left; reflexivity|].
  destruct (ver =? VERSION); [|left; reflexivity]. unfold load_internal.
  destruct (run ma sc false (S (length r)) r []) as [[v rest]|e] eqn:E.
  - eapply run_clean; [|exact E]. reflexivity.
  - eapply run_typed; exact E.
Qed.
Print Assumptions C13_typed.

(* no strict prefix of a valid dump loads successfully *)
Theorem C13_prefix : forall ma sc v d p q,
  py3str_as_py2str sc = false -> 2147483647 <= ma ->
  wfb false v = true -> dumps true v = Ok d -> d = p ++ q -> q <> [] ->
  forall x, loads_r ma sc p <> Ok x.
Proof. intros ma sc v d p q Hsc Hma. exact (prefix_never_loads ma sc Hsc Hma v d p q). Qed.
Print Assumptions C13_prefix.

(* trailing bytes never change the result of a successful load (determinism of the machine) *)
Theorem C13_extension : forall ma sc fac f bs st v r q,
  run ma sc fac f bs st = Ok (v, r) -> run ma sc fac f (bs ++ q) st = Ok (v, r ++ q).
Proof. exact run_ext. Qed.
Print Assumptions C13_extension.

(* non-vacuity: hostile streams of each outcome class *)
Example C13_examples :
  let sc := {| py2str_as_py3str := false; py3str_as_py2str := false |} in
  loads 1048576 sc [2; 70; 0] = Err EOFError /\                                  (* short int field *)
  loads 1048576 sc [2; 72; 0; 0; 0; 1; 97; 81] = Err LoadError /\                (* int("a") *)
  loads 1048576 sc [2; 66; 0; 0; 0; 1; 81] = Err LoadError /\                    (* CHANNEL without a gateway *)
  loads 1048576 sc [2; 65; 255; 255; 255; 251; 81] = Err LoadError /\            (* negative length *)
  loads 1048576 sc [2; 75; 127; 255; 255; 255] = Err MemoryDemand /\             (* NEWLIST 2^31-1 *)
  loads 1048576 sc [2; 76; 76; 64; 255; 255; 255; 255; 64; 0; 0; 0; 2; 81] = Ok (VTuple [VNone; VTuple [VNone]]) /\ (* BUILDTUPLE -1 takes stack[1:] *)
  loads 1048576 sc [3; 76; 81] = Err LoadError.                                  (* foreign version byte *)
Proof. vm_compute. repeat split; reflexivity. Qed.
