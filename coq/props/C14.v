(* C14 -- main_thread_only executes in the main thread and never cries deadlock falsely.
   Property statements only; proofs are in proofs/ExecP.v. *)
From Coq Require Import List Bool Arith.
Import ListNotations.
Require Import EV.model.Exec EV.proofs.ExecP EV.gen.Facts.

Definition exec_cfg : ecfg := {| set_on_error := exec_sets_complete_always; set_on_interrupt := exec_sets_complete_always |}.
Lemma C14_cfg_ok : schedulexec_shape_ok = true /\ ecfg_ok exec_cfg.
Proof. split; [reflexivity|split; reflexivity]. Qed.

(* For every history of body outcomes (return / raise / SystemExit / KeyboardInterrupt / blocked), of
   any length, and every interleaving ls of initiator submissions, the worker's receiver thread and
   its main thread: a deadlock RemoteError is reported for exec k only if an EARLIER body j is really
   still running (blocked, started, not closed) -- never after the previous channel has closed. *)
Theorem C14_no_false_deadlock : forall p ls k, In (Deadlock k) (log (erun exec_cfg ls (einit p))) ->
  exists j, j < k /\ nth_error (prog (erun exec_cfg ls (einit p))) j = Some OBlock /\
            In (Started j) (log (erun exec_cfg ls (einit p))) /\ ~ In (Closed j) (log (erun exec_cfg ls (einit p))).
Proof. exact (no_false_deadlock exec_cfg (proj2 C14_cfg_ok)). Qed.
Print Assumptions C14_no_false_deadlock.

(* bodies are started (by the one main thread) one at a time and in arrival order *)
Theorem C14_main_thread_in_order : forall p ls, ordered (log (erun exec_cfg ls (einit p))).
Proof. exact (started_in_order exec_cfg (proj2 C14_cfg_ok)). Qed.
Print Assumptions C14_main_thread_in_order.

(* while a body is running the completion event stays unset, so a further EXEC can only get the
   deadlock error; the running body is not disturbed (LRecvTimeout changes neither mp nor pending) *)
Theorem C14_true_deadlock : forall p ls j, busy (mp (erun exec_cfg ls (einit p))) j -> complete (erun exec_cfg ls (einit p)) = false.
Proof. exact (busy_means_unset exec_cfg (proj2 C14_cfg_ok)). Qed.
Print Assumptions C14_true_deadlock.

(* the defect of the pinned tree as a model witness: event only set on the success path *)
Theorem C14_original_refuted :
  let c := {| set_on_error := false; set_on_interrupt := false |} in
  log (erun c [LSubmit; LRecvBegin; LRecvOk; LPick; LFinish; LClose; LSubmit; LRecvBegin; LRecvTimeout] (einit [ORaise; ORet]))
  = [Deadlock 1; Closed 0; Started 0].
Proof. exact original_false_deadlock. Qed.
