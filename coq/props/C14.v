(* C14 -- main_thread_only executes in the main thread and never cries deadlock falsely.
   Property statements only; proofs are in proofs/ExecP.v. *)
From Coq Require Import List Bool Arith.
Import ListNotations.
Require Import EV.model.Exec EV.proofs.ExecP EV.gen.Facts.
Require EV.model.ExecRel EV.proofs.ExecRelP.

Definition exec_cfg : ecfg := {| set_on_error := exec_sets_complete_always; set_on_interrupt := exec_sets_complete_always |}.
Lemma C14_cfg_ok : schedulexec_shape_ok = true /\ ecfg_ok exec_cfg.
Proof. split; [reflexivity|split; reflexivity]. Qed.

(* For every history of body outcomes (return / raise / SystemExit / KeyboardInterrupt / blocked), of
   any length, and every interleaving ls of initiator submissions, the worker's receiver thread and
   its main thread: a deadlock RemoteError is reported for exec k only if an EARLIER body j is really
   still running (blocked, started, not closed) -- never after the previous channel has closed. *)
Theorem C14_no_false_deadlock : forall p ls k, In (Deadlock k) (log (erun exec_cfg ls (einit p))) ->
  exists j, j < k /\ nth_error (prog (erun exec_cfg ls (einit p))) j = Some OBlock /\
            In (Started j) (log (erun exec_cfg ls (einit p))) /\ ~ In (Closed j) (log (erun exec_cfg ls (einit p))).
Proof. exact (no_false_deadlock exec_cfg (proj2 C14_cfg_ok)). Qed.
Print Assumptions C14_no_false_deadlock.

(* bodies are started (by the one main thread) one at a time and in arrival order *)
Theorem C14_main_thread_in_order : forall p ls, ordered (log (erun exec_cfg ls (einit p))).
Proof. exact (started_in_order exec_cfg (proj2 C14_cfg_ok)). Qed.
Print Assumptions C14_main_thread_in_order.

(* while a body is running the completion event stays unset, so a further EXEC can only get the
   deadlock error; the running body is not disturbed (LRecvTimeout changes neither mp nor pending) *)
Theorem C14_true_deadlock : forall p ls j, busy (mp (erun exec_cfg ls (einit p))) j -> complete (erun exec_cfg ls (einit p)) = false.
Proof. exact (busy_means_unset exec_cfg (proj2 C14_cfg_ok)). Qed.
Print Assumptions C14_true_deadlock.

(* the defect of the pinned tree as a model witness: event only set on the success path *)
Theorem C14_original_refuted :
  let c := {| set_on_error := false; set_on_interrupt := false |} in
  log (erun c [LSubmit; LRecvBegin; LRecvOk; LPick; LFinish; LClose; LSubmit; LRecvBegin; LRecvTimeout] (einit [ORaise; ORet]))
  = [Deadlock 1; Closed 0; Started 0].
Proof. exact original_false_deadlock. Qed.

(* ---- the same machine with RELEASE (model/ExecRel.v): a blocked body can be let go by the initiator and then ends like a returning
   one; any history, any interleaving of submissions, releases, the receiver thread and the main thread ---- *)
Definition exec_cfg_rel : ExecRel.ecfg := {| ExecRel.set_on_error := exec_sets_complete_always; ExecRel.set_on_interrupt := exec_sets_complete_always |}.
Lemma C14_rel_cfg_ok : ExecRelP.ecfg_ok exec_cfg_rel.
Proof. split; reflexivity. Qed.

(* whenever request k was refused with the deadlock error, an EARLIER blocked body had been started and had not yet closed its channel
   at that moment (l2 = everything that had happened until then) -- also when that body is released and ends later *)
Theorem C14_no_false_deadlock_with_release : forall p ls l1 l2 k,
  ExecRel.log (ExecRel.erun exec_cfg_rel ls (ExecRel.einit p)) = l1 ++ ExecRel.Deadlock k :: l2 ->
  exists j, j < k /\ nth_error (ExecRel.prog (ExecRel.erun exec_cfg_rel ls (ExecRel.einit p))) j = Some ExecRel.OBlock /\
            In (ExecRel.Started j) l2 /\ ~ In (ExecRel.Closed j) l2.
Proof. exact (ExecRelP.no_false_deadlock exec_cfg_rel C14_rel_cfg_ok). Qed.
Print Assumptions C14_no_false_deadlock_with_release.

(* a request that is handled after every body started so far has closed its channel is never refused *)
Theorem C14_no_deadlock_after_all_closed : forall p ls l1 l2 k,
  ExecRel.log (ExecRel.erun exec_cfg_rel ls (ExecRel.einit p)) = l1 ++ ExecRel.Deadlock k :: l2 ->
  (forall j, In (ExecRel.Started j) l2 -> In (ExecRel.Closed j) l2) -> False.
Proof. exact (ExecRelP.no_deadlock_after_all_closed exec_cfg_rel C14_rel_cfg_ok). Qed.
Print Assumptions C14_no_deadlock_after_all_closed.

Theorem C14_in_order_with_release : forall p ls, ExecRelP.ordered (ExecRel.log (ExecRel.erun exec_cfg_rel ls (ExecRel.einit p))).
Proof. exact (ExecRelP.started_in_order exec_cfg_rel C14_rel_cfg_ok). Qed.
Print Assumptions C14_in_order_with_release.

Example C14_release_witness :
  let s := ExecRel.erun exec_cfg_rel [ExecRel.LSubmit; ExecRel.LRecvBegin; ExecRel.LRecvOk; ExecRel.LPick; ExecRel.LSubmit; ExecRel.LRecvBegin; ExecRel.LRecvTimeout;
     ExecRel.LRelease 0; ExecRel.LFinish; ExecRel.LClose; ExecRel.LSet; ExecRel.LSubmit; ExecRel.LRecvBegin; ExecRel.LRecvOk; ExecRel.LPick; ExecRel.LFinish; ExecRel.LClose; ExecRel.LSet]
     (ExecRel.einit [ExecRel.OBlock; ExecRel.ORet; ExecRel.ORaise]) in
  ExecRel.log s = [ExecRel.Closed 2; ExecRel.Started 2; ExecRel.Closed 0; ExecRel.Deadlock 1; ExecRel.Started 0].
Proof. vm_compute. reflexivity. Qed.
