(* C15 -- bootstrapping needs nothing installed on the other side: the shipped source is self-contained.
   Statements only; proofs are in proofs/BootP.v.  The tables c15_units / c15_stdlib / c15_builtins are
   regenerated from /repo/src on every run by tools/gen_facts.py (imports with their guards by a walk over the
   AST; global name uses and top-level definitions by the compiler's own symbol table). *)
From Coq Require Import List Bool String.
Import ListNotations.
Require Import EV.model.Boot EV.proofs.BootP EV.gen.Facts.
Open Scope string_scope.

Lemma C15_tables_ok : all_ok c15_stdlib c15_builtins c15_units = true /\ c15_bootline_ok = true.
Proof. split; vm_compute; reflexivity. Qed.

(* every unit of source that execnet transmits -- gateway_base.py, the lines after it for exec- and socket-
   bootstrap, the SocketIO class, gateway_io.py (via=), script/socketserver.py (remote_exec'd and stand-alone),
   rsync_remote.py, the inline snippets of Gateway._rinfo and Group.makegateway -- : every import that can
   execute names a standard-library module (or is the __main__ fallback of an ImportError guard, or belongs to
   an optional third-party execution model and is not execnet), and every name looked up in the unit's global
   namespace is defined by the shipped source itself, is a builtin, or is provided by the bootstrap line *)
Theorem C15_self_contained : forall u, In u c15_units ->
    (forall m g, In (m, g) (imports u) -> effective g = true ->
        In (top_pkg m) c15_stdlib \/ (g = GExcept /\ m = "__main__") \/
        (exists c, g = GExecModel c /\ In c optional_models /\ top_pkg m <> "execnet" /\ top_pkg m <> "")) /\
    (forall n, In n (uses u) -> In n (defs u) \/ In n c15_builtins \/ In n (prelude u)).
Proof. exact (self_contained c15_stdlib c15_builtins c15_units (proj1 C15_tables_ok)). Qed.
Print Assumptions C15_self_contained.

Lemma C15_stdlib_is_not_execnet : ~ In "execnet" c15_stdlib /\ ~ In "" c15_stdlib.
Proof. split; apply mem_false_notin; vm_compute; reflexivity. Qed.

(* no effective import reaches into the execnet package, absolutely or relatively *)
Theorem C15_no_execnet_import : forall u m g, In u c15_units -> In (m, g) (imports u) -> effective g = true ->
  top_pkg m <> "execnet" /\ top_pkg m <> "".
Proof. exact (no_execnet_import c15_stdlib c15_builtins c15_units (proj1 C15_tables_ok) (proj1 C15_stdlib_is_not_execnet) (proj2 C15_stdlib_is_not_execnet)). Qed.
Print Assumptions C15_no_execnet_import.

(* non-vacuity: the tables are not empty and contain the interesting guards *)
Example C15_witness : List.length c15_units = 8%nat /\
  In ("execnet.gateway_base", GTry) (imports (nth 3 c15_units (Build_bunit "" [] [] [] []))) /\
  In ("__main__", GExcept) (imports (nth 3 c15_units (Build_bunit "" [] [] [] []))) /\
  In "get_execmodel" (uses (nth 1 c15_units (Build_bunit "" [] [] [] []))).
Proof. vm_compute. intuition. Qed.
