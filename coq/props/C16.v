(* C16 -- every transport is observationally equivalent for channel programs.
   Statements only; proofs are in proofs/ProxyP.v, FrameP.v, ChanFileP.v. *)
From Coq Require Import ZArith List Bool Arith.
Import ListNotations.
Require Import EV.model.Cfg EV.model.Frame EV.proofs.FrameP EV.model.ChanFile EV.proofs.ChanFileP EV.model.Proxy EV.proofs.ProxyP EV.gen.Facts.
Open Scope Z_scope.

Lemma C16_cfg_ok : proxy_master_ok = true /\ proxy_forwarder_ok = true /\ read_loops_exact = true /\ from_io_exact = true /\ to_io_single_write = true /\
  wshape_atomic popen_write_shape = true /\ wshape_atomic socket_write_shape = true /\ cf_read_loop_cmp = CLt /\ chan_setcb_atomic = true /\ chan_receiver_locked = true /\ socket_io_blocking = true.
Proof. repeat split; reflexivity. Qed.

(* pipe and socket: the exact-read loop returns the same bytes for every chunking of the low-level reads, so the
   frames decoded are the frames written (C08) *)
Theorem C16_stream_transports : forall ms orc, Forall msg_wf ms -> decode (concat (map enc ms)) orc = (ms, CleanEOF).
Proof. exact decode_roundtrip. Qed.
Print Assumptions C16_stream_transports.

(* proxy, sub -> master: for ANY split of the sub's output (the bootstrap byte "1" followed by its frames) into
   channel items, the master's bootstrap read gets the byte and its receiver, reading 9-byte headers and payloads
   through the channel file, decodes exactly the sub's frames -- unmodified and in order *)
Theorem C16_proxy_up : forall ms items, Forall msg_wf ms -> concat items = 49 :: concat (map enc ms) ->
  master_reads items (length ms) = ([49], ms).
Proof. exact proxy_up. Qed.
Print Assumptions C16_proxy_up.

(* ... in particular for the split the forwarder really produces: one item for the byte, one per frame *)
Theorem C16_proxy_up_forwarder : forall ms, Forall msg_wf ms -> master_reads (up_items ms) (length ms) = ([49], ms).
Proof. exact proxy_up_forwarder. Qed.
Print Assumptions C16_proxy_up_forwarder.

(* proxy, master -> sub: the sub reads the concatenation of the master's frames (items reach the forwarder's callback
   exactly once and in order: C02/C10) and decodes them for any chunking *)
Theorem C16_proxy_down : forall ms o, Forall msg_wf ms -> decode (concat (map enc ms)) o = (ms, CleanEOF).
Proof. exact proxy_down. Qed.
Print Assumptions C16_proxy_down.

(* the channel file is a file over the concatenation for every sequence of reads (C19), which is what makes the
   master's reads independent of the item boundaries *)
Theorem C16_channel_file : forall (items : list (list Z)) (ops : list op),
  cf_run Z isnl ops (cf_init Z items) = f_run Z isnl ops (concat items).
Proof. exact (chanfile_equiv Z isnl). Qed.
Print Assumptions C16_channel_file.

(* control operations: the k-th answer the master takes from the control channel is the answer to its k-th request (the
   channel is a strict request/answer protocol: every ProxyIO operation waits for its own answer -- fact proxy_master_ok) *)
Definition px_cfg : pcfg := {| every_request_awaits_its_answer := proxy_master_ok |}.
Theorem C16_control_answers_match : forall code es,
  pending (ctl_run px_cfg code es) = [] /\ returned (ctl_run px_cfg code es) = map (fun e => (e, answer_of e code)) es.
Proof. intros code es. exact (control_answers_match px_cfg code es (proj1 C16_cfg_ok)). Qed.
Print Assumptions C16_control_answers_match.
Theorem C16_control_desync_refuted :
  returned (ctl_run {| every_request_awaits_its_answer := false |} 0 [EvCloseWrite; EvWait]) = [(EvWait, ANone)].
Proof. exact control_desync_refuted. Qed.

Example C16_witness :
  let m1 := {| mty := 4; mcid := 1; mdata := [0; 255; 10] |} in let m2 := {| mty := -1; mcid := -2147483648; mdata := [] |} in
  master_reads [[49; 4; 0]; [0; 0; 1; 0; 0]; []; [0; 3; 0; 255; 10; 255; 128; 0; 0; 0; 0; 0]; [0; 0]] 2 = ([49], [m1; m2]).
Proof. vm_compute. reflexivity. Qed.
