(* C17 -- RSync makes every target tree equal to the source, minimally.
   Statements only; proofs are in proofs/RSyncP.v. *)
From Coq Require Import ZArith List Bool Arith.
Import ListNotations.
Require Import EV.model.RSync EV.proofs.RSyncP EV.model.RSyncProto EV.proofs.RSyncProtoP EV.gen.Facts.
Open Scope Z_scope.

Definition rs_cfg : scfg := {| file_mode_exact := rsync_file_mode_exact; rel_links_asis := rsync_rel_links_asis |}.
Lemma C17_cfg_ok : cf_ok rs_cfg /\ rsync_decision_table_ok = true /\ rsync_dir_phase_ok = true /\ rsync_content_phase_ok = true /\ rsync_link_phase_ok = true.
Proof. repeat split; reflexivity. Qed.

(* For every source tree (any depth and width, distinct names per directory), every prior state of the target
   (absent, any tree, entries of another kind), delete flag and working directory: after send() the target
   carries every source file with identical content, permission bits and mtime, every directory (owner bits
   forced) with all its entries, every link pointing at the corresponding place.
   Hypothesis QuickOk: no target file has the size AND mtime of the source file but other content, and md5
   (H) does not collide on a source file and the equally long target file it is compared with -- the quick
   check's blind spot is the open finding recorded in known_findings.json. *)
Theorem C17_equal : forall H delete cwd src rp tgt, WF src -> QuickOk H src tgt ->
  Covers src (fst (sync rs_cfg H delete cwd rp src tgt)).
Proof. intros H delete cwd. exact (sync_covers rs_cfg H delete cwd (proj1 C17_cfg_ok)). Qed.
Print Assumptions C17_equal.

(* with delete=True nothing else remains, at any depth *)
Theorem C17_delete : forall H cwd src rp tgt, WF src -> Exact src (fst (sync rs_cfg H true cwd rp src tgt)).
Proof. intros H cwd. exact (sync_delete_exact rs_cfg H true cwd eq_refl). Qed.
Print Assumptions C17_delete.

(* without it, entries the source does not name are untouched (the statement applies at every directory level,
   the function being the same at every level) *)
Theorem C17_keep : forall H cwd rp m es tgt n, ~ In n (names es) ->
  match fst (sync rs_cfg H false cwd rp (Dir m es) tgt) with Dir _ res => lookup n res = lookup n (tes_of tgt) | _ => False end.
Proof. intros H cwd. exact (sync_keeps_others rs_cfg H false cwd eq_refl). Qed.
Print Assumptions C17_keep.

(* re-syncing onto the result transfers no file content and changes nothing *)
Theorem C17_idempotent : forall H delete cwd src rp tgt, WF src ->
  sync rs_cfg H delete cwd rp src (Some (fst (sync rs_cfg H delete cwd rp src tgt))) = (fst (sync rs_cfg H delete cwd rp src tgt), []).
Proof. intros H delete cwd. exact (sync_idempotent rs_cfg H delete cwd). Qed.
Print Assumptions C17_idempotent.

(* the result does not depend on the caller's working directory *)
Theorem C17_cwd_free : forall H delete cwd1 cwd2 src rp tgt, sync rs_cfg H delete cwd1 rp src tgt = sync rs_cfg H delete cwd2 rp src tgt.
Proof. intros H delete cwd1 cwd2. exact (sync_cwd_free rs_cfg H delete cwd1 cwd2 (proj2 (proj1 C17_cfg_ok))). Qed.
Print Assumptions C17_cwd_free.

(* the tree function above is what the MESSAGE EXCHANGE computes: the sender's pre-order structure broadcast
   ([mode, *names] / (mode, mtime, size) / None), the receiver walking its own tree while consuming it and issuing
   "send" requests by PATH with an optional checksum, the sender answering each request by looking the path up in the
   source tree (None when the checksum matches), the receiver applying the answers in request order, and the links
   created by PATH in the link phase -- for every source tree and prior target state *)
Theorem C17_protocol_refines : forall H delete cwd src tgt, WF src ->
  exchange rs_cfg H delete cwd src tgt = Some (sync rs_cfg H delete cwd [] src tgt).
Proof. intros H delete cwd. exact (exchange_is_sync rs_cfg H delete cwd). Qed.
Print Assumptions C17_protocol_refines.

(* each target's result is a function of (source, that target's prior state, its delete flag) alone: sync takes
   no other target as an argument; the harness checks 1-3 simultaneous targets against this function *)

(* non-vacuity: a tree with all three kinds, a hostile prior state, hypotheses met *)
Definition ex_src : node := Dir 493 [(0%nat, File [1; 2] 292 7); (4%nat, Dir 320 [(7%nat, Link (RText (LRel [Up; Nm 0%nat]))); (8%nat, Link (RText (LAbsIn [0%nat])))])].
Definition ex_tgt : node := Dir 448 [(0%nat, Dir 493 []); (4%nat, File [9] 420 3); (9%nat, File [] 420 1)].
Example C17_witness : WF ex_src /\ QuickOk (fun c => c) ex_src (Some ex_tgt) /\
  fst (sync rs_cfg (fun c => c) false None [] ex_src (Some ex_tgt)) =
  Dir 493 [(0%nat, File [1; 2] 292 7); (4%nat, Dir 448 [(7%nat, Link (RText (LRel [Up; Nm 0%nat]))); (8%nat, Link (RDest [0%nat]))]); (9%nat, File [] 420 1)].
Proof.
  split; [|split; [|reflexivity]].
  - constructor; [repeat constructor; cbn; intuition discriminate|]. intros n s [E|[E|[]]]; inversion E; subst; try constructor.
    + repeat constructor; cbn; intuition discriminate.
    + intros n' s' [E'|[E'|[]]]; inversion E'; subst; constructor.
  - constructor. intros n s [E|[E|[]]]; inversion E; subst; cbn.
    + constructor. exact I.
    + constructor. intros n' s' [E'|[E'|[]]]; inversion E'; subst; constructor.
Qed.

(* what the pinned tree did *)
Theorem C17_mode_or_700_refuted :
  let cf := {| file_mode_exact := false; rel_links_asis := true |} in
  fst (sync cf (fun c => c) false None [] (Dir 493 [(0%nat, File [1] 292 7)]) (Some (Dir 493 [(0%nat, File [1] 420 7)]))) = Dir 493 [(0%nat, File [1] 484 7)].
Proof. exact mode_or_700_refuted. Qed.
Theorem C17_rel_link_cwd_refuted :
  let cf := {| file_mode_exact := true; rel_links_asis := false |} in
  let src := Dir 493 [(4%nat, Dir 493 [(7%nat, Link (RText (LRel [Nm 0%nat])))])] in
  fst (sync cf (fun c => c) false (Some []) [] src None) <> fst (sync cf (fun c => c) false None [] src None).
Proof. exact rel_link_cwd_refuted. Qed.
