(* C18 -- channel ids never collide; closed channels are forgotten.
   Statements only; proofs are in proofs/IdsP.v and proofs/ChanP.v. *)
From Coq Require Import List Bool Arith.
Import ListNotations.
Require Import EV.model.Ids EV.proofs.IdsP EV.model.Chan EV.proofs.ChanP EV.gen.Facts.

Lemma C18_cfg_ok : icfg_ok ids_cfg /\ ids_codec_by_id = true /\ chan_local_close_order_ok = true /\ chan_handlers_ok = true /\ chan_close_shape_ok = true /\ loss_finished_receiving_ok = true /\ ids_tables_forget_ok = true /\ reconf_handler_creates_object = false.
Proof. repeat split; reflexivity. Qed.

(* for every number of allocating threads on either side and every interleaving of their read-count /
   write-count steps and of adoptions of peer ids (new(id)), all ids handed out -- on one side or across
   the two sides -- are pairwise distinct *)
Theorem C18_ids_distinct : forall na nb ls,
  NoDup (out (sa (irun ids_cfg ls (iinit ids_cfg na nb))) ++ out (sb (irun ids_cfg ls (iinit ids_cfg na nb)))).
Proof. exact (ids_distinct ids_cfg (proj1 C18_cfg_ok)). Qed.
Print Assumptions C18_ids_distinct.

Theorem C18_ids_parity : forall na nb ls,
  (forall x, In x (out (sa (irun ids_cfg ls (iinit ids_cfg na nb)))) -> Nat.even x = false) /\
  (forall x, In x (out (sb (irun ids_cfg ls (iinit ids_cfg na nb)))) -> Nat.even x = true).
Proof. exact (ids_parity ids_cfg (proj1 C18_cfg_ok)). Qed.
Print Assumptions C18_ids_parity.

(* handling the peer's CLOSE / CLOSE_ERROR / LAST_MESSAGE for an id leaves neither a channel nor a callback
   registered under it; only new(id) and setcallback register *)
Theorem C18_close_forgets : forall c s s' id k w, wire s = FEnd id k :: w -> cstep c s LRecv = Some s' ->
  alive (cs s' id) = false /\ cb (cs s' id) = None.
Proof. exact close_forgets. Qed.
Print Assumptions C18_close_forgets.

Theorem C18_registers_only_new_setcb : forall c s l s' id, cstep c s l = Some s' ->
  (alive (cs s id) = false /\ alive (cs s' id) = true -> l = LNew id) /\
  (cb (cs s id) = None /\ cb (cs s' id) <> None -> exists w, l = LSetCb id w).
Proof. exact registers_only_new_setcb. Qed.
Print Assumptions C18_registers_only_new_setcb.

Example C18_witness : let s := irun ids_cfg [IRead false 0; IRead true 0; IWrite true 0; IAdopt false 2; IWrite false 0; IRead false 1; IWrite false 1] (iinit ids_cfg 2 1) in
  out (sa s) = [3; 1] /\ out (sb s) = [2].
Proof. split; reflexivity. Qed.

Require Import EV.model.Reconf EV.proofs.ReconfP.

(* Channel.reconfigure() and channels that travel: on the side that receives the per-channel RECONFIGURE (model
   Reconf.v, instantiated with the regenerated fact reconf_handler_creates_object = false; tie: that fact checks the
   exact bodies of new() and _local_reconfigure, and the differential of c18.py runs generated operation sequences on a
   real ChannelFactory) the message never makes this side say CLOSE / LAST_MESSAGE -- in every history only the user
   dropping the Channel object does -- so a channel configured before it is sent over arrives connected; the
   setting is in force for the next item and once the channel object has arrived; nothing but another RECONFIGURE
   changes it while the id is known here (object dropped and re-created through its callback registration included). *)
Theorem C18_reconfigure_is_silent : forall ops s,
  Forall2 (fun o r => match o with RDrop => True | _ => fst r = [] end) ops (snd (rrun reconf_handler_creates_object s ops)).
Proof. exact only_drops_emit. Qed.
Print Assumptions C18_reconfigure_is_silent.

Theorem C18_reconfigure_keeps_the_channel : forall s c, let s' := fst (r_reconf reconf_handler_creates_object s c) in
  alive s' = alive s /\ obj_queue s' = obj_queue s /\ (cb s' = None <-> cb s = None).
Proof. exact reconf_keeps_presence. Qed.
Print Assumptions C18_reconfigure_keeps_the_channel.

Theorem C18_reconfigure_in_force : forall s c, rwf s ->
  chan_cfg (fst (r_reconf reconf_handler_creates_object s c)) = Some c /\
  match r_data (r_new (fst (r_reconf reconf_handler_creates_object s c))) with Dropped => False | ToQueue c' => c' = c | ToCallback c' => c' = c end.
Proof. intros s c W. split; [exact (reconf_sets s c W) | exact (reconf_in_force_on_arrival s c W)]. Qed.
Print Assumptions C18_reconfigure_in_force.

Theorem C18_setting_stable : forall s o c, rwf s -> (forall c', o <> RReconf c') -> chan_cfg s = Some c ->
  let s' := fst (fst (rstep reconf_handler_creates_object s o)) in chan_cfg s' = Some c \/ (chan_cfg s' = None /\ o = RDrop).
Proof. exact setting_stable. Qed.
Print Assumptions C18_setting_stable.

Theorem C18_reachable_states_wellformed : forall g ops, rwf (fst (rrun reconf_handler_creates_object (rinit g) ops)).
Proof. intros g ops. exact (rwf_run ops (rinit g) (rwf_init g)). Qed.
Print Assumptions C18_reachable_states_wellformed.

(* the pinned handler (`factory.new(id)._strconfig = strconfig`): configuring a channel this side holds no object for
   made it say CLOSE -- the defect repaired by f2c0a30 *)
Theorem C18_pinned_reconfigure_closes_refuted : exists g c, snd (r_reconf true (rinit g) c) = [ECLOSE].
Proof. exact pinned_handler_closes_refuted. Qed.
Print Assumptions C18_pinned_reconfigure_closes_refuted.
