(* C18 -- channel ids never collide; closed channels are forgotten.
   Statements only; proofs are in proofs/IdsP.v and proofs/ChanP.v. *)
From Coq Require Import List Bool Arith.
Import ListNotations.
Require Import EV.model.Ids EV.proofs.IdsP EV.model.Chan EV.proofs.ChanP EV.gen.Facts.

Lemma C18_cfg_ok : icfg_ok ids_cfg /\ ids_codec_by_id = true /\ chan_local_close_order_ok = true /\ chan_handlers_ok = true /\ chan_close_shape_ok = true /\ loss_finished_receiving_ok = true /\ ids_tables_forget_ok = true.
Proof. repeat split; reflexivity. Qed.

(* for every number of allocating threads on either side and every interleaving of their read-count /
   write-count steps and of adoptions of peer ids (new(id)), all ids handed out -- on one side or across
   the two sides -- are pairwise distinct *)
Theorem C18_ids_distinct : forall na nb ls,
  NoDup (out (sa (irun ids_cfg ls (iinit ids_cfg na nb))) ++ out (sb (irun ids_cfg ls (iinit ids_cfg na nb)))).
Proof. exact (ids_distinct ids_cfg (proj1 C18_cfg_ok)). Qed.
Print Assumptions C18_ids_distinct.

Theorem C18_ids_parity : forall na nb ls,
  (forall x, In x (out (sa (irun ids_cfg ls (iinit ids_cfg na nb)))) -> Nat.even x = false) /\
  (forall x, In x (out (sb (irun ids_cfg ls (iinit ids_cfg na nb)))) -> Nat.even x = true).
Proof. exact (ids_parity ids_cfg (proj1 C18_cfg_ok)). Qed.
Print Assumptions C18_ids_parity.

(* handling the peer's CLOSE / CLOSE_ERROR / LAST_MESSAGE for an id leaves neither a channel nor a callback
   registered under it; only new(id) and setcallback register *)
Theorem C18_close_forgets : forall c s s' id k w, wire s = FEnd id k :: w -> cstep c s LRecv = Some s' ->
  alive (cs s' id) = false /\ cb (cs s' id) = None.
Proof. exact close_forgets. Qed.
Print Assumptions C18_close_forgets.

Theorem C18_registers_only_new_setcb : forall c s l s' id, cstep c s l = Some s' ->
  (alive (cs s id) = false /\ alive (cs s' id) = true -> l = LNew id) /\
  (cb (cs s id) = None /\ cb (cs s' id) <> None -> exists w, l = LSetCb id w).
Proof. exact registers_only_new_setcb. Qed.
Print Assumptions C18_registers_only_new_setcb.

Example C18_witness : let s := irun ids_cfg [IRead false 0; IRead true 0; IWrite true 0; IAdopt false 2; IWrite false 0; IRead false 1; IWrite false 1] (iinit ids_cfg 2 1) in
  out (sa s) = [3; 1] /\ out (sb s) = [2].
Proof. split; reflexivity. Qed.
