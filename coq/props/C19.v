(* C19 -- Channel files behave like files over the concatenated items.
   Property statements only; every proof is `exact <lemma>` into proofs/ChanFileP.v. *)
From Coq Require Import ZArith List Bool.
Import ListNotations.
Require Import EV.model.Cfg EV.model.ChanFile EV.model.ChanFileRun EV.proofs.ChanFileP EV.gen.Facts.

(* For every split of a stream into channel items (empty items included) and every sequence of
   read(n>=0)/readline() calls, the results on the channel file equal the results of the same
   calls on a file positioned at the start of the concatenation -- for any symbol type and any
   newline test (text: code points; bytes: byte values). *)
Theorem C19_read_equiv :
  forall (sym : Type) (is_nl : sym -> bool) (items : list (list sym)) (ops : list op),
    cf_run sym is_nl ops (cf_init sym items) = f_run sym is_nl ops (concat items).
Proof. exact chanfile_equiv. Qed.
Print Assumptions C19_read_equiv.

(* ... in every intermediate state too: the remaining file content is exactly the buffer
   followed by the not-yet-received items *)
Theorem C19_read_refinement :
  forall (sym : Type) (is_nl : sym -> bool) (ops : list op) (s : cf sym),
    cf_run sym is_nl ops s = f_run sym is_nl ops (abs sym s).
Proof. exact cf_run_refines. Qed.
Print Assumptions C19_read_refinement.

(* empty results once the channel has ended *)
Theorem C19_eof_empty :
  forall (sym : Type) (is_nl : sym -> bool) (ops : list op),
    Forall (fun x => x = []) (f_run sym is_nl ops []).
Proof. exact f_run_nil. Qed.
Print Assumptions C19_eof_empty.

(* tie to the source: the model instance that is extracted and compared with the implementation
   uses the facts of the current tree; for byte streams the line end must be recognised by the
   buffer's type, for the loop the comparison must be `len(buffer) < n` *)
Definition cfg_ok_C19 : Prop := (cf_newline = NlByBufferType /\ cf_read_loop_cmp = CLt) /\ cf_reader_shape_ok = true.
Lemma C19_cfg_ok : cfg_ok_C19.
Proof. repeat split; reflexivity. Qed.

Theorem C19_bytes_newline : forall c, is_nl_for cf_newline true c = (c =? 10)%Z.
Proof. intro c. rewrite (proj1 (proj1 C19_cfg_ok)). reflexivity. Qed.
Print Assumptions C19_bytes_newline.

(* non-vacuity: a concrete stream with empty items, mixed reads *)
Example C19_example :
  cf_run Z (is_nl_for NlByBufferType false) [Read 2; Readline; Read 0; Readline; Readline; Read 5]
         (cf_init Z [[97]; []; [98; 10; 99]; [100]; []; [10; 101]])%Z
  = [[97; 98]; [10]; []; [99; 100; 10]; [101]; []]%Z.
Proof. vm_compute. reflexivity. Qed.
