(* C20 -- Specs parse faithfully and group ids stay unique.
   Property statements only; proofs are `exact`/rewrites into proofs/XSpecP.v and proofs/GroupIdsP.v. *)
From Coq Require Import ZArith List Bool.
Import ListNotations.
Require Import EV.model.Cfg EV.model.XSpec EV.model.GroupIds EV.proofs.XSpecP EV.proofs.GroupIdsP EV.gen.Facts.
Open Scope Z_scope.

(* Every specification text made of unique keys (non-empty, no '=', not starting with '_', not the
   reserved word "env" -- see known finding) and values, no piece containing "//" and no non-final
   piece ending in '/', parses to exactly those attributes: True for bare keys, env: keys in env. *)
Theorem C20_parse : forall kvs, spec_ok kvs ->
  parse xspec_env_dup_checked (join (map piece kvs)) = inl (attrs_of kvs).
Proof. intros kvs H. exact (parse_join xspec_env_dup_checked kvs H). Qed.
Print Assumptions C20_parse.

(* attribute lookup: the given value for a given key, None for an absent public name *)
Theorem C20_lookup_present : forall kvs k o,
  NoDup (map fst kvs) -> In (k, o) kvs -> is_env k = false ->
  lookup k (attrs (attrs_of kvs)) = Some (to_value o).
Proof. exact lookup_present. Qed.
Theorem C20_lookup_absent : forall name l, ~ In name (map fst l) -> lookup name l = None.
Proof. exact lookup_absent. Qed.
Print Assumptions C20_lookup_present.

(* facts of the current source that the remaining theorems need *)
Definition cfg_ok_C20 : Prop := xspec_env_dup_checked = true /\ GroupIdsP.cfg_ok group_cfg.
Lemma C20_cfg_ok : cfg_ok_C20.
Proof. split; [reflexivity|split; reflexivity]. Qed.
(* the lookup functions have the modelled shape: scan of the member list by identity or id (theorem C20_lookup_agree is about
   exactly that scan) *)
Lemma C20_lookup_shape_ok : grp_lookup_ok = true /\ xspec_eq_by_text = true.
Proof. split; reflexivity. Qed.

(* a repeated key of either kind is rejected with ValueError *)
Theorem C20_dup : forall kvs,
  Forall (fun e => key_ok (fst e) = true) kvs -> pieces_ok (map piece kvs) = true ->
  ~ NoDup (map fst kvs) -> parse xspec_env_dup_checked (join (map piece kvs)) = inr ValueError.
Proof. rewrite (proj1 C20_cfg_ok). exact parse_dup. Qed.
Print Assumptions C20_dup.

(* under every interleaving of any number of concurrent makegateway / exit calls (explicit ids,
   automatic ids, explicit ids spelled like automatic ones): registered ids are pairwise distinct
   and so are the automatic ids handed out *)
Theorem C20_ids_nodup : forall wants sched,
  NoDup (gws (run group_cfg sched (init wants))) /\ NoDup (handed (run group_cfg sched (init wants))).
Proof. intros. apply reachable_nodup. exact (proj2 C20_cfg_ok). Qed.
Print Assumptions C20_ids_nodup.

(* lookup by id, by index and membership agree with iteration order on such a group *)
Theorem C20_lookup_agree : forall l i x, NoDup l ->
  (nth_error l i = Some x <-> index_of x l = Some i) /\ (In x l <-> exists j, index_of x l = Some j).
Proof.
  intros l i x ND. split; [split|].
  - apply index_of_nth; exact ND.
  - apply index_of_some.
  - apply index_of_in.
Qed.
Print Assumptions C20_lookup_agree.

(* non-vacuity: "popen//python=/a b//env:X=1=2//id=g/7//chdir" satisfies the hypotheses *)
Definition ex_kvs : list kv :=
  [ ([112;111;112;101;110], None);
    ([112;121;116;104;111;110], Some [47;97;32;98]);
    ([101;110;118;58;88], Some [49;61;50]);
    ([105;100], Some [103;47;55]);
    ([99;104;100;105;114], None) ].
Example C20_example_spec_ok : spec_ok ex_kvs.
Proof.
  unfold spec_ok, ex_kvs. split; [|split].
  - repeat constructor.
  - cbn. repeat constructor; cbn; intuition discriminate.
  - vm_compute. reflexivity.
Qed.
Example C20_example_parse :
  parse true (join (map piece ex_kvs)) = inl (attrs_of ex_kvs).
Proof. vm_compute. reflexivity. Qed.
(* the boundary of the statement: "a=x/" // "b" is also the text of a=x , /b *)
Example C20_ambiguous_example :
  join (map piece [([97], Some [120;47]); ([98], None)]) = join (map piece [([97], Some [120]); ([47;98], None)]).
Proof. reflexivity. Qed.
