"""Python values <-> the integer-token encoding of model/CodecRun.v; canonical forms; generators."""
from __future__ import annotations

import struct
import sys

import contextlib


if hasattr(sys, "set_int_max_str_digits"):
    sys.set_int_max_str_digits(0)  # the harness itself must be able to print/parse big ints


@contextlib.contextmanager
def nolimit():
    yield


@contextlib.contextmanager
def pylimit():
    """run the code under test with CPython's default int<->str digit limit"""
    if hasattr(sys, "set_int_max_str_digits"):
        sys.set_int_max_str_digits(4300)
    try:
        yield
    finally:
        if hasattr(sys, "set_int_max_str_digits"):
            sys.set_int_max_str_digits(0)


EXN = {1: "DumpError", 2: "LoadError", 3: "EOFError", 4: "MemoryDemand", 5: "struct.error"}


class Chan:
    """stand-in for a channel object in generated values (token 12)"""

    def __init__(self, id):
        self.id = id


class Other:
    """stand-in for 'an object of another type' in canonical forms (token 13)"""

    def __init__(self, t):
        self.t = t


def fbits(f: float) -> int:
    return struct.unpack("!Q", struct.pack("!d", f))[0]


def bits_f(b: int) -> float:
    return struct.unpack("!d", struct.pack("!Q", b))[0]


def to_tokens(v, other_code=None) -> list[int]:
    t = type(v)
    if v is None:
        return [0]
    if t is bool:
        return [1, int(v)]
    if t is int:
        with nolimit():
            ds = [int(c) for c in str(abs(v))]
        return [2, 1 if v < 0 else 0, len(ds)] + ds
    if t is float:
        b = fbits(v)
        return [3, b >> 32, b & 0xFFFFFFFF]
    if t is complex:
        a, b = fbits(v.real), fbits(v.imag)
        return [4, a >> 32, a & 0xFFFFFFFF, b >> 32, b & 0xFFFFFFFF]
    if t is bytes:
        return [5, len(v)] + list(v)
    if t is str:
        return [6, len(v)] + [ord(c) for c in v]
    if t is list:
        return [7, len(v)] + [x for i in v for x in to_tokens(i, other_code)]
    if t is tuple:
        return [8, len(v)] + [x for i in v for x in to_tokens(i, other_code)]
    if t is dict:
        return [9, len(v)] + [x for k, val in v.items() for x in to_tokens(k, other_code) + to_tokens(val, other_code)]
    if t is set:
        return [10, len(v)] + [x for i in v for x in to_tokens(i, other_code)]
    if t is frozenset:
        return [11, len(v)] + [x for i in v for x in to_tokens(i, other_code)]
    if t is Chan:
        return [12, v.id]
    return [13, other_code(v) if other_code else 0]


def canon(v):
    """type-exact canonical form (sets sorted, floats as bit patterns, dict order kept)"""
    t = type(v)
    if v is None:
        return ("None",)
    if t is bool:
        return ("bool", v)
    if t is int:
        return ("int", v)
    if t is float:
        return ("float", fbits(v))
    if t is complex:
        return ("complex", fbits(v.real), fbits(v.imag))
    if t is bytes:
        return ("bytes", v)
    if t is str:
        return ("str", v)
    if t is list:
        return ("list", tuple(canon(i) for i in v))
    if t is tuple:
        return ("tuple", tuple(canon(i) for i in v))
    if t is dict:
        return ("dict", tuple((canon(k), canon(x)) for k, x in v.items()))
    if t is set:
        return ("set", tuple(sorted((canon(i) for i in v), key=repr)))
    if t is frozenset:
        return ("frozenset", tuple(sorted((canon(i) for i in v), key=repr)))
    if t is Chan or t.__name__ == "Channel":
        return ("channel", v.id)
    return ("other", t.__name__)


def from_tokens(tok, i=0):
    """model output -> canonical form (same shape as canon()); returns (canon, next index)"""
    k = tok[i]
    if k == 0:
        return ("None",), i + 1
    if k == 1:
        return ("bool", bool(tok[i + 1])), i + 2
    if k == 2:
        n = tok[i + 2]
        with nolimit():
            z = int("".join(map(str, tok[i + 3:i + 3 + n])) or "0")
        return ("int", -z if tok[i + 1] else z), i + 3 + n
    if k == 3:
        return ("float", (tok[i + 1] << 32) | tok[i + 2]), i + 3
    if k == 4:
        return ("complex", (tok[i + 1] << 32) | tok[i + 2], (tok[i + 3] << 32) | tok[i + 4]), i + 5
    if k == 5:
        n = tok[i + 1]
        return ("bytes", bytes(tok[i + 2:i + 2 + n])), i + 2 + n
    if k == 6:
        n = tok[i + 1]
        return ("str", "".join(map(chr, tok[i + 2:i + 2 + n]))), i + 2 + n
    if k in (7, 8, 10, 11):
        n = tok[i + 1]
        i += 2
        items = []
        for _ in range(n):
            c, i = from_tokens(tok, i)
            items.append(c)
        name = {7: "list", 8: "tuple", 10: "set", 11: "frozenset"}[k]
        if k in (10, 11):
            items.sort(key=repr)
        return (name, tuple(items)), i
    if k == 9:
        n = tok[i + 1]
        i += 2
        items = []
        for _ in range(n):
            a, i = from_tokens(tok, i)
            b, i = from_tokens(tok, i)
            items.append((a, b))
        return ("dict", tuple(items)), i
    if k == 12:
        return ("channel", tok[i + 1]), i + 2
    return ("other", tok[i + 1]), i + 2


# ------------------------------------------------------------------------------------------------
# generators

INTS = [0, 1, -1, 2, 255, 256, 2**31 - 1, 2**31, 2**31 + 1, -2**31, -2**31 - 1, -2**31 + 1, 2**32, -2**32, 2**63 - 1, 2**63, -2**63 - 1,
        10**9, 10**10, -10**18, 10**40, -10**40, 2**64, 10**100]
FLOAT_BITS = [0, 1 << 63, 0x7FF0000000000000, 0xFFF0000000000000, 0x7FF8000000000000, 0x7FF0000000000001, 0xFFF8000000000123,
              1, 0x000FFFFFFFFFFFFF, 0x0010000000000000, 0x3FF0000000000000, 0xBFF0000000000000, 0x4000000000000000, 0x433FFFFFFFFFFFFF,
              0x4340000000000000, 0x7FEFFFFFFFFFFFFF, 0x3FB999999999999A]
CHARS = "a\n \x00\x7f\x80\u00e9\u07ff\u0800\u6f22\ud7ff\ue000\uffff\U00010000\U0001f600\U0010ffff"


def band_ints(rng, n):
    """n ints in the band just below the interpreter's int<->str digit limit (3990 .. 4300 digits), where work-arounds for that limit
    would act: random digits, and powers of ten +- a little (long runs of zeros / nines).  The extracted model is quadratic in the
    number of digits (4 s for 4000), so the checks take a few of these, not a share of the random stream."""
    out = []
    for _ in range(n):
        nd = rng.choice([3999, 4000, 4001, 4002, 4100, 4299, 4300])
        z = rng.choice([rng.randrange(10 ** (nd - 1), 10 ** nd), 10 ** (nd - 1) + rng.randrange(1000), 10 ** nd - 1 - rng.randrange(1000)])
        out.append(-z if rng.random() < 0.5 else z)
    return out


def gen_int(rng):
    r = rng.random()
    if r < 0.4:
        return rng.choice(INTS)
    if r < 0.7:
        return rng.randint(-300, 300)
    bits = rng.choice([31, 32, 33, 63, 64, 65, 100, 200]) if rng.random() < 0.97 else rng.choice([1000, 3000])
    z = rng.getrandbits(bits)
    return -z if rng.random() < 0.5 else z


def gen_float(rng):
    b = rng.choice(FLOAT_BITS) if rng.random() < 0.5 else rng.getrandbits(64)
    return bits_f(b)


def gen_str(rng, surrogate=False):
    n = rng.choice([0, 1, 1, 2, 3, 8, 40])
    s = "".join(rng.choice(CHARS) for _ in range(n))
    if surrogate:
        pos = rng.randint(0, len(s))
        s = s[:pos] + rng.choice("\ud800\udfff\udc80\udcff\udbff") + s[pos:]
    return s


def gen_hashable(rng, depth):
    r = rng.random()
    if r < 0.15:
        return None
    if r < 0.25:
        return rng.random() < 0.5
    if r < 0.45:
        return gen_int(rng)
    if r < 0.55:
        return gen_float(rng)
    if r < 0.6:
        return complex(gen_float(rng), gen_float(rng))
    if r < 0.7:
        return bytes(rng.getrandbits(8) for _ in range(rng.choice([0, 1, 3, 9])))
    if r < 0.85 or depth <= 0:
        return gen_str(rng)
    if r < 0.95:
        return tuple(gen_hashable(rng, depth - 1) for _ in range(rng.randint(0, 3)))
    return frozenset(gen_hashable(rng, depth - 1) for _ in range(rng.randint(0, 3)))


def gen_value(rng, depth=3, width=4):
    if depth <= 0 or rng.random() < 0.35:
        return gen_hashable(rng, 1)
    r = rng.random()
    n = rng.choice([0, 0, 1, 2, 3, width, width * 3])
    if r < 0.3:
        return [gen_value(rng, depth - 1, width) for _ in range(n)]
    if r < 0.5:
        return tuple(gen_value(rng, depth - 1, width) for _ in range(n))
    if r < 0.8:
        return {gen_hashable(rng, 2): gen_value(rng, depth - 1, width) for _ in range(n)}
    if r < 0.9:
        return {gen_hashable(rng, 2) for _ in range(n)}
    return frozenset(gen_hashable(rng, 2) for _ in range(n))


def nest(v, depth, kind):
    for _ in range(depth):
        v = [v] if kind == 0 else (v,) if kind == 1 else {"k": v}
    return v


class _Plain:
    pass


class _IntSub(int):
    pass


class _StrSub(str):
    pass


class _ListSub(list):
    pass


class _DictSub(dict):
    pass


class _TupleSub(tuple):
    pass


class _BytesSub(bytes):
    pass


class _FloatSub(float):
    pass


class _SetSub(set):
    pass


class _Forward:
    """an instance of an unsupported class that reports the class of the object it wraps through __class__ and forwards every
    attribute to it (what transparent proxies do; type(x) is still this class)"""

    def __init__(self, o):
        object.__setattr__(self, "_o", o)

    __class__ = property(lambda self: type(object.__getattribute__(self, "_o")))

    def __getattr__(self, name):
        return getattr(object.__getattribute__(self, "_o"), name)

    def __iter__(self):
        return iter(object.__getattribute__(self, "_o"))

    def __len__(self):
        return len(object.__getattribute__(self, "_o"))


_PROXIED = [frozenset((1, 2)), _SetSub({3})]       # referents of the weakref proxies below (kept alive here)


def _name_collision(base, name, module=None):
    # module="builtins": what a class statement executed in a namespace without __name__ (a bare exec) produces
    return type(name, (base,), {} if module is None else {"__module__": module})


UNSUPPORTED = [
    ("object", lambda rng: _Plain()),
    ("int-subclass", lambda rng: _IntSub(5)),
    ("str-subclass", lambda rng: _StrSub("x")),
    ("list-subclass", lambda rng: _ListSub([1])),
    ("dict-subclass", lambda rng: _DictSub(a=1)),
    ("tuple-subclass", lambda rng: _TupleSub((1,))),
    ("bytes-subclass", lambda rng: _BytesSub(b"x")),
    ("float-subclass", lambda rng: _FloatSub(1.5)),
    ("set-subclass", lambda rng: _SetSub({1})),
    ("bytearray", lambda rng: bytearray(b"ab")),
    ("range", lambda rng: range(3)),
    ("module", lambda rng: struct),
    ("function", lambda rng: len),
    ("type", lambda rng: int),
    ("memoryview", lambda rng: memoryview(b"ab")),
    ("surrogate-str", lambda rng: gen_str(rng, surrogate=True)),
    ("name-colliding-int-subclass", lambda rng: _name_collision(int, "int")(7)),
    ("name-colliding-list-subclass", lambda rng: _name_collision(list, "list")([1, 2])),
    ("name-colliding-str-subclass", lambda rng: _name_collision(str, "str")("s")),
    ("name-colliding-int-subclass-in-builtins-module", lambda rng: _name_collision(int, "int", "builtins")(7)),
    ("name-colliding-dict-subclass-in-builtins-module", lambda rng: _name_collision(dict, "dict", "builtins")(a=1)),
    ("weakref-proxy-of-frozenset", lambda rng: __import__("weakref").proxy(_PROXIED[0])),
    ("class-forwarding-proxy-of-list", lambda rng: _Forward([1, 2])),
    ("class-forwarding-proxy-of-str", lambda rng: _Forward("s")),
    ("class-forwarding-proxy-of-none", lambda rng: _Forward(None)),
    ("class-forwarding-proxy-of-int", lambda rng: _Forward(7)),
]


def plant(rng, v, leaf):
    """put `leaf` at a random position inside a copy of container value v (or return leaf)"""
    t = type(v)
    if t is list and v and rng.random() < 0.8:
        i = rng.randrange(len(v))
        return v[:i] + [plant(rng, v[i], leaf)] + v[i + 1:]
    if t is tuple and v and rng.random() < 0.8:
        i = rng.randrange(len(v))
        return v[:i] + (plant(rng, v[i], leaf),) + v[i + 1:]
    if t is dict and v and rng.random() < 0.8:
        k = rng.choice(list(v))
        d = dict(v)
        d[k] = plant(rng, v[k], leaf)
        return d
    r = rng.random()
    try:
        hash(leaf)
        hashable = True
    except TypeError:
        hashable = False
    if hashable and r < 0.25:
        # as a dict KEY, a member of a tuple key, or a set / frozenset element (every position a hashable value can take)
        return rng.choice([{leaf: 1}, {"a": 0, leaf: [1]}, {(1, leaf): None}, {leaf}, frozenset([leaf, 2]), [{leaf: {leaf: 0}}]])
    return [1, leaf] if r < 0.45 else (leaf, None) if r < 0.7 else {"k": leaf} if r < 0.85 else leaf
