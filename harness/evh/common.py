"""Shared machinery of the checks: build (facts -> coq -> extraction -> ocaml), proof-obligation
run with Print Assumptions parsing, extracted-model runner, evidence, known findings, verdict."""
from __future__ import annotations

import fcntl
import hashlib
import json
import os
import random
import re
import subprocess
import sys
import time

ROOT = os.path.dirname(os.path.dirname(os.path.dirname(os.path.abspath(__file__))))
COQ = os.path.join(ROOT, "coq")
OCAML = os.path.join(ROOT, "ocaml")
REPO = os.environ.get("EXECNET_REPO", "/repo")
REPO_SRC = os.path.join(REPO, "src")
PY = "/venv/bin/python"

STD_AXIOM_WHITELIST = {
    # axioms declared by the standard library itself (none is needed so far)
    "Coq.Logic.FunctionalExtensionality.functional_extensionality_dep",
    "Coq.Logic.Classical_Prop.classic",
    "Coq.Logic.ProofIrrelevance.proof_irrelevance",
    "Coq.Logic.JMeq.JMeq_eq",
    "Coq.Logic.Eqdep.Eq_rect_eq.eq_rect_eq",
}

TRUSTED_BASE = [
    "Coq 8.16.1 kernel (coqc); vm_compute inside proofs; no native_compute",
    "axioms: none (every theorem prints 'Closed under the global context'; checked on every run)",
    "translator tools/gen_facts.py (AST shape matchers emitting coq/gen/Facts.v)",
    "extraction: ExtrOcamlBasic only (bool, option, unit, list, prod, sumbool to OCaml; andb/orb/negb/fst/snd inlined); Z, positive, nat, string stay inductive",
    "ocaml/modelrun.ml (case parser/printer) and the Python harness (generators, canonicaliser, scheduler, fake IO)",
    "CPython semantics of the primitives the model takes as given (see assumptions)",
]


def log(*a):
    print(*a, file=sys.stderr, flush=True)


def assert_repo_execnet():
    import execnet

    f = os.path.realpath(execnet.__file__)
    if not f.startswith(os.path.realpath(REPO_SRC) + os.sep):
        print(f"FATAL: execnet imported from {f}, not from {REPO_SRC}", flush=True)
        sys.exit(2)
    return f


def run(cmd, cwd=None, timeout=600, env=None, input=None):
    t0 = time.time()
    p = subprocess.run(cmd, cwd=cwd, timeout=timeout, env=env, input=input, stdout=subprocess.PIPE, stderr=subprocess.STDOUT, text=True, shell=isinstance(cmd, str))
    return p.returncode, p.stdout, time.time() - t0


class BuildError(Exception):
    pass


def build(need_model=True):
    """regenerate Facts.v from /repo/src, rebuild whatever depends on it (under a lock)."""
    info = {}
    lockf = open(os.path.join(ROOT, ".build.lock"), "w")
    fcntl.flock(lockf, fcntl.LOCK_EX)
    try:
        rc, out, dt = run([sys.executable, os.path.join(ROOT, "tools", "gen_facts.py")], env={**os.environ, "EXECNET_SRC": os.path.join(REPO_SRC, "execnet")})
        if rc != 0:
            raise BuildError("gen_facts failed:\n" + out)
        info["facts"] = json.load(open(os.path.join(COQ, "gen", "facts.json")))
        if not os.path.exists(os.path.join(COQ, "Makefile.coq")):
            rc, out, dt = run("coq_makefile -f _CoqProject -o Makefile.coq", cwd=COQ)
            if rc != 0:
                raise BuildError("coq_makefile failed:\n" + out)
        rc, out, dt = run("timeout 1500 make -f Makefile.coq -j16 > .make.log 2>&1; rc=$?; grep -v '^COQ' .make.log | tail -40; exit $rc", cwd=COQ, timeout=1600)
        info["make_s"] = round(dt, 1)
        vo = os.path.join(COQ, "extract", "Dispatch.vo")
        if rc != 0 or not os.path.exists(vo):
            # a failed build must not leave the check running on stale compiled files
            raise BuildError("coq build failed:\n" + out)
        info["make_tail"] = out[-2000:]
        if need_model:
            gen = os.path.join(OCAML, "gen")
            os.makedirs(gen, exist_ok=True)
            ml = os.path.join(gen, "model.ml")
            exe = os.path.join(OCAML, "modelrun")
            if not os.path.exists(ml) or os.path.getmtime(ml) < os.path.getmtime(vo):
                rc, out, dt = run(f"timeout 300 coqc -Q {COQ} EV {COQ}/extract/Extract.v", cwd=gen)
                if rc != 0 or not os.path.exists(ml):
                    raise BuildError("extraction failed:\n" + out)
            drv = os.path.join(OCAML, "modelrun.ml")
            if not os.path.exists(exe) or os.path.getmtime(exe) < max(os.path.getmtime(ml), os.path.getmtime(drv)):
                rc, out, dt = run("cp ../modelrun.ml . && timeout 300 ocamlfind ocamlopt -O3 -w -a model.mli model.ml modelrun.ml -o ../modelrun 2>&1 || timeout 300 ocamlfind ocamlopt -w -a model.mli model.ml modelrun.ml -o ../modelrun", cwd=gen)
                if rc != 0 or not os.path.exists(exe):
                    raise BuildError("ocaml build failed:\n" + out)
    finally:
        fcntl.flock(lockf, fcntl.LOCK_UN)
        lockf.close()
    return info


FORBIDDEN = re.compile(r"\b(Admitted|admit|Axiom|Parameter|Conjecture|Admit Obligations|bypass_check|Unset Guard Checking|Unset Positivity Checking|Unset Universe Checking|type-in-type|impredicative-set)\b")


def forbidden_scan():
    hits = []
    for d, _, fs in os.walk(COQ):
        for f in fs:
            if f.endswith(".v") or f == "_CoqProject":
                p = os.path.join(d, f)
                for i, line in enumerate(open(p, errors="replace"), 1):
                    code = re.sub(r"\(\*.*?\*\)", "", line)
                    if FORBIDDEN.search(code):
                        hits.append(f"{os.path.relpath(p, ROOT)}:{i}: {line.strip()}")
    return hits


def prove(prop: str):
    """compile coq/props/<prop>.v; returns dict(obligations, discharged, failing, assumptions, output, cmd)"""
    src = os.path.join(COQ, "props", f"{prop}.v")
    text = open(src).read()
    names = re.findall(r"^(?:Theorem|Lemma|Corollary|Example)\s+([A-Za-z0-9_']+)", text, re.M)
    cmd = f"timeout 900 coqc -Q . EV props/{prop}.v"
    rc, out, dt = run(cmd, cwd=COQ, timeout=1000)
    res = {"obligations": len(names), "names": names, "cmd": f"cd {COQ} && " + cmd, "coqc_s": round(dt, 1), "output": out[-3000:]}
    axioms = []
    closed = out.count("Closed under the global context")
    for m in re.finditer(r"^Axioms:\n((?:.+\n)+?)(?=\S|\Z)", out, re.M):
        axioms.append(m.group(1))
    bad_axioms = []
    for blk in re.findall(r"Axioms:\s*\n((?:[^\n]+\n?)*)", out):
        for l in blk.splitlines():
            m = re.match(r"^([A-Za-z0-9_.']+)\s*:", l)
            if m and m.group(1) not in STD_AXIOM_WHITELIST:
                bad_axioms.append(m.group(1))
    res["print_assumptions_closed"] = closed
    res["bad_axioms"] = bad_axioms
    if rc == 0 and not bad_axioms:
        res["discharged"] = len(names)
        res["failing"] = None
    else:
        failing = None
        m = re.search(r'File "\./props/[^"]+", line (\d+)', out)
        if m:
            ln = int(m.group(1))
            upto = "\n".join(text.splitlines()[:ln])
            ns = re.findall(r"^(?:Theorem|Lemma|Corollary|Example)\s+([A-Za-z0-9_']+)", upto, re.M)
            failing = ns[-1] if ns else None
            res["discharged"] = max(0, len(ns) - 1)
        else:
            res["discharged"] = 0
        if bad_axioms and failing is None:
            failing = "axioms:" + ",".join(bad_axioms)
        res["failing"] = failing or "unknown"
    return res


def changed_lines(build_info, limit=160):
    """source lines ("file.py:N") of the modelled functions whose digest differs from digests_baseline.json"""
    try:
        base = json.load(open(os.path.join(ROOT, "digests_baseline.json")))["digests"]
    except Exception:  # noqa
        return []
    facts = (build_info or {}).get("facts", {})
    cur, ranges = facts.get("digests", {}), facts.get("ranges", {})
    out = []
    for key, dg in cur.items():
        if base.get(key) != dg and key in ranges:
            fn = key.split(":")[0].split("/")[-1]
            a, b = ranges[key]
            if b - a > 120:      # a whole class: too coarse for a line-by-line search
                continue
            out += ["%s:%d" % (fn, n) for n in range(a, b + 1)]
    return out[:limit]


class Model:
    """runs ocaml/modelrun on batches of integer-list cases"""

    def __init__(self):
        self.exe = os.path.join(OCAML, "modelrun")

    def run(self, cases, timeout=900):
        if not cases:
            return []
        data = "\n".join(" ".join(str(int(x)) for x in c) for c in cases) + "\n"
        p = subprocess.run(["bash", "-c", f"ulimit -s unlimited 2>/dev/null; exec {self.exe}"], input=data, stdout=subprocess.PIPE, stderr=subprocess.PIPE, text=True, timeout=timeout)
        lines = p.stdout.split("\n")
        if lines and lines[-1] == "":
            lines.pop()
        if p.returncode != 0 or len(lines) != len(cases):
            raise BuildError(f"modelrun failed rc={p.returncode} lines={len(lines)}/{len(cases)}: {p.stderr[-500:]}")
        return [[int(t) for t in l.split()] for l in lines]


def load_known():
    p = os.path.join(ROOT, "known_findings.json")
    if not os.path.exists(p):
        return []
    return json.load(open(p)).get("findings", [])


class Check:
    """one run of one property's check: collects obligations, correspondence, monitor results,
    produces evidence + verdict following DESIGN.md section 6."""

    def __init__(self, prop: str, tier: str, seed: int):
        self.prop, self.tier, self.seed = prop, tier, seed
        self.t0 = time.time()
        self.rng = random.Random(seed * 1000003 + int(prop[1:]))
        self.cov: dict = {"evaluations": 0, "samples": [], "input_distribution": {}}
        self.assumptions: list[str] = []
        self.failure_counts: dict[str, int] = {}
        self.failures: list[dict] = []  # property failures on the implementation (signature, example)
        self.broken: list[dict] = []  # obligations / correspondences that no longer check
        self.distinct = set()
        self.nontrivial = 0
        self.known = [k for k in load_known() if k.get("property") == prop and k.get("status") == "open"]
        self.known_seen: dict[str, int] = {}
        self.build_info = {}
        self.proof = None

    # --- bookkeeping
    def count(self, key, n=1):
        d = self.cov["input_distribution"]
        d[key] = d.get(key, 0) + n

    def case(self, canon, nontrivial=True):
        """register one explored case (canonical hashable description)"""
        self.cov["evaluations"] += 1
        h = hashlib.blake2b(repr(canon).encode(), digest_size=8).digest()
        if h not in self.distinct:
            self.distinct.add(h)
            if nontrivial:
                self.nontrivial += 1

    def sample(self, obj, maxn=6):
        if len(self.cov["samples"]) < maxn:
            self.cov["samples"].append(obj)

    def fail(self, signature: str, example, detail: str = ""):
        """the IMPLEMENTATION violates the property on `example`"""
        for k in self.known:
            if re.fullmatch(k["signature"], signature):
                self.known_seen[k["signature"]] = self.known_seen.get(k["signature"], 0) + 1
                if self.known_seen[k["signature"]] == 1:
                    k["_example_now"] = example
                return
        self.failure_counts[signature] = self.failure_counts.get(signature, 0) + 1
        if self.failure_counts[signature] <= 3 and len(self.failure_counts) <= 60:
            self.failures.append({"signature": signature, "example": example, "detail": detail})

    def broke(self, kind: str, name: str, detail=""):
        """an obligation / a correspondence no longer checks (kind: obligation|correspondence|build)"""
        if sum(1 for b in self.broken if b["name"] == name) >= 5:
            self.broken_more = getattr(self, "broken_more", 0) + 1
            return
        self.broken.append({"kind": kind, "name": name, "detail": detail if isinstance(detail, (dict, list)) else str(detail)[-3000:]})

    # --- standard first phase
    def prepare(self, need_model=True):
        assert_repo_execnet()
        hits = forbidden_scan()
        if hits:
            self.broke("build", "forbidden-construct", "\n".join(hits))
        try:
            self.build_info = build(need_model)
        except BuildError as e:
            self.broke("build", "build", str(e))
            return False
        self.proof = prove(self.prop)
        if self.proof["failing"]:
            self.broke("obligation", self.proof["failing"], self.proof["output"])
        return True

    # --- verdict
    def finish(self, level="proof", rule="", extra_cov=None):
        wall = round(time.time() - self.t0, 2)
        cov = self.cov
        cov["distinct_nontrivial"] = self.nontrivial
        cov["rule"] = rule
        if self.proof:
            cov["obligations"] = self.proof["obligations"] or 1
            cov["discharged"] = self.proof["discharged"]
            cov["checker_cmd"] = self.proof["cmd"]
            cov["theorems"] = self.proof["names"]
            cov["print_assumptions_closed"] = self.proof["print_assumptions_closed"]
        else:
            cov["obligations"], cov["discharged"], cov["checker_cmd"] = 1, 0, "build failed"
        cov["trusted_base"] = TRUSTED_BASE
        cov["facts_digest"] = self.build_info.get("facts", {}).get("facts_digest")
        cov["facts"] = self.build_info.get("facts", {}).get("facts")
        cov["facts_errors"] = self.build_info.get("facts", {}).get("errors")
        cov["source_digests"] = self.build_info.get("facts", {}).get("digests")
        cov["known_findings_seen"] = self.known_seen
        cov["failure_signatures"] = self.failure_counts
        cov["broken"] = [{"kind": b["kind"], "name": b["name"]} for b in self.broken]
        if extra_cov:
            cov.update(extra_cov)
        lines = []
        violations = 0
        # known findings observed
        explained = set()
        for k in self.known:
            if self.known_seen.get(k["signature"]):
                lines.append(f"KNOWN-FINDING: property={self.prop} {k['what']} (seen {self.known_seen[k['signature']]}x this run)")
                explained.update(k.get("explains", []))
        os.makedirs(os.path.join(ROOT, "replays"), exist_ok=True)
        # unlisted failures on the implementation
        by_sig: dict[str, dict] = {}
        for f in self.failures:
            by_sig.setdefault(f["signature"], f)
        for sig, f in by_sig.items():
            h = hashlib.sha256((self.prop + sig).encode()).hexdigest()[:10]
            path = os.path.join(ROOT, "replays", f"{self.prop}-{h}.json")
            json.dump({"property": self.prop, "kind": "failing-input", "signature": sig, "example": f["example"], "detail": f["detail"], "seed": self.seed, "tier": self.tier,
                       "broken": self.broken}, open(path, "w"), indent=1, default=repr)
            lines.append(f"VIOLATION property={self.prop} replay={path}")
            violations += 1
        unexplained = [b for b in self.broken if b["name"] not in explained]
        if unexplained and not by_sig:
            h = hashlib.sha256((self.prop + repr([(b['kind'], b['name']) for b in unexplained])).encode()).hexdigest()[:10]
            path = os.path.join(ROOT, "replays", f"{self.prop}-{h}.json")
            json.dump({"property": self.prop, "kind": "no-failing-input-found", "no_longer_checks": unexplained, "seed": self.seed, "tier": self.tier}, open(path, "w"), indent=1, default=repr)
            lines.append(f"VIOLATION property={self.prop} replay={path} no-failing-input-found")
            violations += 1
        ev = {"property_id": self.prop, "tier": self.tier, "seed": self.seed, "level": level, "coverage": cov, "assumptions": self.assumptions, "wall_s": wall, "violations": violations}
        os.makedirs(os.path.join(ROOT, "evidence"), exist_ok=True)
        json.dump(ev, open(os.path.join(ROOT, "evidence", f"{self.prop}.json"), "w"), indent=1, default=repr)
        for l in lines:
            print(l, flush=True)
        print(f"{self.prop} {self.tier}: obligations {cov['discharged']}/{cov['obligations']}, cases {cov['evaluations']} ({self.nontrivial} distinct non-trivial), "
              f"known-findings {sum(self.known_seen.values())}, violations {violations}, {wall}s", flush=True)
        return 1 if violations else 0
