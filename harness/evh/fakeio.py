"""Scripted IO objects that stand under the real execnet classes."""
from __future__ import annotations


class RecIO:
    """IO for a BaseGateway that is never started: records writes, reads from a byte script."""

    def __init__(self, execmodel=None, script: bytes = b""):
        from execnet.gateway_base import get_execmodel

        self.execmodel = execmodel or get_execmodel("thread")
        self.written: list[bytes] = []
        self.script = script
        self.closed_write = self.closed_read = False
        self.fail_write = False

    def write(self, data: bytes) -> None:
        if self.closed_write or self.fail_write:
            raise OSError("closed")
        self.written.append(bytes(data))

    def read(self, n: int) -> bytes:
        if len(self.script) < n:
            raise EOFError("expected %d bytes, got %d" % (n, len(self.script)))
        r, self.script = self.script[:n], self.script[n:]
        return r

    def close_read(self):
        self.closed_read = True

    def close_write(self):
        self.closed_write = True

    def wait(self):
        return 0

    def kill(self):
        pass


def stub_gateway(startcount=1):
    """a real BaseGateway over a RecIO; receiver thread not started (frames are injected by
    calling Message.received / the channel factory directly, as the receiver thread would)."""
    from execnet.gateway_base import BaseGateway

    io = RecIO()
    gw = BaseGateway(io, "stub", _startcount=startcount)
    return gw, io
