from __future__ import annotations

import argparse
import importlib
import json
import os
import sys


def main():
    ap = argparse.ArgumentParser()
    ap.add_argument("prop")
    ap.add_argument("--tier", default=os.environ.get("VERIF_TIER", "quick"))
    ap.add_argument("--replay")
    a = ap.parse_args()
    seed = int(os.environ.get("VERIF_SEED", "0") or 0)
    mod = importlib.import_module("props." + a.prop.lower())
    replay = json.load(open(a.replay)) if a.replay else None
    sys.exit(mod.main(a.tier if a.tier in ("quick", "thorough") else "quick", seed, replay))


if __name__ == "__main__":
    main()
