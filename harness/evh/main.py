from __future__ import annotations

import argparse
import importlib
import json
import os
import sys


def main():
    ap = argparse.ArgumentParser()
    ap.add_argument("prop")
    ap.add_argument("--tier", default=os.environ.get("VERIF_TIER", "quick"))
    ap.add_argument("--replay")
    a = ap.parse_args()
    seed = int(os.environ.get("VERIF_SEED", "0") or 0)
    mod = importlib.import_module("props." + a.prop.lower())
    replay = json.load(open(a.replay)) if a.replay else None
    tier = a.tier if a.tier in ("quick", "thorough") else "quick"
    try:
        rc = mod.main(tier, seed, replay)
    except Exception:  # the harness itself failed on this tree: the property is no longer shown to hold
        import hashlib
        import traceback

        tb = traceback.format_exc()
        sys.stderr.write(tb)
        root = os.path.dirname(os.path.dirname(os.path.dirname(os.path.abspath(__file__))))
        os.makedirs(os.path.join(root, "replays"), exist_ok=True)
        path = os.path.join(root, "replays", "%s-%s.json" % (a.prop, hashlib.sha256(tb.encode()).hexdigest()[:10]))
        json.dump({"property": a.prop, "kind": "no-failing-input-found", "no_longer_checks": [{"kind": "correspondence", "name": "harness-exception", "detail": tb[-3000:]}], "seed": seed, "tier": tier}, open(path, "w"), indent=1)
        print(f"VIOLATION property={a.prop} replay={path} no-failing-input-found", flush=True)
        rc = 1
    sys.exit(rc)


if __name__ == "__main__":
    main()
