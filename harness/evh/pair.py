"""An initiator Gateway and a WorkerGateway of the REAL execnet classes, in one process, joined by two
in-memory pipes, with every thread under the deterministic scheduler (evh.sched).

The pipes are scripted: reads return oracle-chosen chunk sizes, the worker->initiator (or the
other) stream can be cut at byte k (connection loss), writes are single atomic appends (A-bufw).
os.kill / os._exit used by WorkerGateway._terminate_execution are replaced *here* (not in the
repository) by recorders."""
from __future__ import annotations

import random

from evh import sched as S


class Pipe:
    """one direction of a connection"""

    def __init__(self, sc: S.Sched, name, rng=None, cut_at=None):
        self.sc, self.name = sc, name
        self.buf = bytearray()
        self.closed = False          # writer closed / connection lost
        self.total_written = 0
        self.total_read = 0
        self.cut_at = cut_at         # deliver only the first cut_at bytes, then EOF
        self.rng = rng
        self.reader_closed = False
        self.frames_written = []
        self.cut_hit = False         # the connection broke at cut_at (as opposed to an orderly close)
        self.reset = False           # a socket reader sees the break as ECONNRESET instead of end of file
        self.on_cut = None           # called once when the break happens (the peer died: the other direction breaks too)

    # writer side (file-like)
    def write(self, data):
        if self.closed or self.reader_closed:
            raise OSError(32, "Broken pipe")
        data = bytes(data)
        self.frames_written.append(data)
        if self.cut_at is not None:
            room = self.cut_at - self.total_written
            if room <= 0:
                self.total_written += len(data)
                self._cut()
                self.sc.yield_point("write", self.name)
                return
            if len(data) > room:
                self.buf += data[:room]
                self.total_written += len(data)
                self._cut()                         # the connection breaks exactly here
                self.sc.yield_point("write", self.name)
                return
        self.buf += data
        self.total_written += len(data)
        if self.cut_at is not None and self.total_written >= self.cut_at:
            self._cut()
        self.sc.yield_point("write", self.name)

    def _cut(self):
        first = not self.cut_hit
        self.closed = self.cut_hit = True
        if first and self.on_cut is not None:
            self.on_cut()

    def flush(self):
        pass

    def close(self):  # close_write
        self.closed = True
        self.sc.yield_point("close", self.name)

    # reader side (file-like)
    def read(self, n):
        self.sc.yield_point("read", self.name)
        if not self.buf and not self.closed:
            self.sc.block(lambda: bool(self.buf) or self.closed, None, "read " + self.name)
        if not self.buf:
            return b""
        k = n
        if self.rng is not None:
            # big reads are cut into a few pieces, small ones down to single bytes
            k = min(n, self.rng.choice([1, 2, 3, 9, 64, 1 << 20] if n <= 256 else [64, 1000, 4096, 1 << 20]))
        r = bytes(self.buf[:k])
        del self.buf[:k]
        self.total_read += len(r)
        return r


class _Out:
    def __init__(self, pipe):
        self.p = pipe

    def write(self, d):
        self.p.write(d)

    def flush(self):
        pass

    def close(self):
        self.p.close()


class _In:
    def __init__(self, pipe):
        self.p = pipe

    def read(self, n):
        return self.p.read(n)

    def close(self):
        self.p.reader_closed = True


class _Sock:
    """a socket object over two Pipes, for the REAL gateway_socket.SocketIO"""

    def __init__(self, out_pipe, in_pipe):
        self.o, self.i = out_pipe, in_pipe

    def setsockopt(self, *a):
        pass

    def recv(self, n):
        r = self.i.read(n)
        if not r and self.i.reset and self.i.cut_hit:
            # the peer died with unread input: the kernel answers with RST, recv() raises instead of returning b""
            raise ConnectionResetError(104, "Connection reset by peer")
        return r

    def recv_into(self, buf, nbytes=0):
        r = self.recv(nbytes or len(buf))
        buf[: len(r)] = r
        return len(r)

    def sendall(self, data):
        self.o.write(data)

    def shutdown(self, how):
        if how == 0:
            self.i.reader_closed = True
        else:
            self.o.close()

    def close(self):
        self.shutdown(0)
        self.shutdown(1)


class Pair:
    """sc: scheduler; remote_backend: 'thread' | 'main_thread_only'"""

    def __init__(self, sc: S.Sched, remote_backend="thread", seed=0, cut_w2i=None, chunked=True, io_kind="popen", cut_both=False):
        import execnet
        from execnet import gateway_base as gb
        from execnet.xspec import XSpec

        self.sc = sc
        self.gb = gb
        # execnet keeps process-wide caches (e.g. _Serializer._dispatch): fill them so that the lines
        # executed -- the line-level scheduling points -- do not depend on what ran earlier in this process
        ch0 = gb.Channel.__new__(gb.Channel)
        ch0.id = 0
        ch0.gateway = None
        gb.dumps_internal([None, True, 1, 2**40, 1.5, 1j, b"", "", (), [], {}, set(), frozenset(), ch0])
        rng = random.Random(seed)
        self.em_i = S.SchedExecModel(sc, "thread")
        self.em_w = S.SchedExecModel(sc, remote_backend)
        self.i2w = Pipe(sc, "i2w", random.Random(rng.random()) if chunked else None)
        self.w2i = Pipe(sc, "w2i", random.Random(rng.random()) if chunked else None, cut_at=cut_w2i)
        if cut_both:
            # the peer DIED at the cut: what the survivor writes from then on meets a closed pipe (EPIPE), and the dead side reads no more
            def _dead():
                self.i2w.closed = True
                self.i2w.reader_closed = True

            self.w2i.on_cut = _dead
        if io_kind in ("socket", "socket_rst"):
            from execnet.gateway_socket import SocketIO

            self.w2i.reset = io_kind == "socket_rst"

            self.io_i = SocketIO(_Sock(self.i2w, self.w2i), self.em_i)
            self.io_w = SocketIO(_Sock(self.w2i, self.i2w), self.em_w)
        else:
            self.io_i = gb.Popen2IO(_Out(self.i2w), _In(self.w2i), self.em_i)
            self.io_w = gb.Popen2IO(_Out(self.w2i), _In(self.i2w), self.em_w)
        self.io_i.wait = lambda: 0
        self.io_i.kill = lambda: None
        spec = XSpec("popen//id=pair")
        self.events = []            # (kind, detail) recorded by the patched os functions
        self._orig = (gb.os.kill, gb.os._exit)
        gb.os.kill = lambda pid, sig: self.events.append(("kill", sig, sc.clock))

        def _exit(code):
            self.events.append(("_exit", code, sc.clock))
            raise S.Abort()

        gb.os._exit = _exit
        # the initiator gateway: its receiver thread is created here (managed, not yet running)
        self.gw = execnet.Gateway(self.io_i, spec)
        self.worker = gb.WorkerGateway(io=self.io_w, id="pair-worker", _startcount=2)
        self.worker_main = sc.spawn(self._serve, name="worker-main")
        self.serve_returned = False

    def _serve(self):
        try:
            self.worker.serve()
        finally:
            self.serve_returned = True
            self.serve_returned_at = self.sc.clock

    def restore(self):
        self.gb.os.kill, self.gb.os._exit = self._orig

    def kill_worker_connection(self):
        """the worker side vanishes: both directions end"""
        self.w2i.closed = True
        self.i2w.reader_closed = True
