"""Deterministic baton-passing scheduler with a virtual clock, plugged into unmodified execnet
through a custom ExecModel instance.

Real Python threads, but exactly one holds the baton.  Scheduling points: every Lock/RLock
acquire and release, Event set/clear/is_set/wait, Queue put/get, sleep, thread start, and
(optionally) every executed *line* of /repo/src/execnet (sys.monitoring LINE events, bounded
number of preemptions per run).  Blocking waits with time-outs use a virtual clock that
advances only when no thread is runnable.  A schedule is the list of choices made where more
than one thread could run; it is the replay.
"""
from __future__ import annotations

import os
import queue as _queue
import sys
import threading
import types

from execnet.gateway_base import ExecModel


class Abort(BaseException):
    """raised inside managed threads to unwind them when a run is aborted"""


class T:
    def __init__(self, idx, name):
        self.idx, self.name = idx, name
        self.go = threading.Semaphore(0)
        self.state = "new"  # new | ready | blocked | done
        self.pred = None
        self.deadline = None
        self.timed_out = False
        self.exc = None
        self.where = ""
        self.real = None

    def __repr__(self):
        return f"<T{self.idx} {self.name} {self.state} {self.where}>"


class RandomChooser:
    """uniform choice at sync points; at line points preempt with probability p while budget lasts"""

    def __init__(self, rng, line_p=0.05, stay_p=0.0):
        self.rng, self.line_p, self.stay_p = rng, line_p, stay_p

    def choose(self, sched, cands, cur, kind):
        if kind == "line":
            if cur in cands and self.rng.random() >= self.line_p:
                return cur
        elif cur in cands and self.stay_p and self.rng.random() < self.stay_p:
            return cur
        return cands[self.rng.randrange(len(cands))]


class DemoteAtLine:
    """run-to-block scheduling with fixed (random) thread priorities; the n-th time a thread executes the given source
    line it drops to the lowest priority, i.e. it is preempted exactly there and everybody else runs first -- one
    targeted preemption, used to search the windows of a function whose source changed"""

    def __init__(self, where, nth=1, rng=None):
        self.where, self.nth, self.rng = where, nth, rng
        self.count = 0
        self.prio = {}
        self.demoted = set()
        self.hit = False

    def _p(self, t):
        if t.idx not in self.prio:
            self.prio[t.idx] = self.rng.random() if self.rng else t.idx
        return (1 if t.idx in self.demoted else 0, self.prio[t.idx])

    def choose(self, sched, cands, cur, kind):
        if kind == "line" and cur is not None and getattr(cur, "where", None) == self.where and not self.hit:
            self.count += 1
            if self.count == self.nth:
                self.demoted.add(cur.idx)
                self.hit = True
        if cur in cands and cur.idx not in self.demoted and kind in ("line",):
            return cur
        return min(cands, key=self._p)


class PCTChooser:
    """PCT-style: random priorities, d-1 priority change points"""

    def __init__(self, rng, depth=3, est_steps=300):
        self.rng = rng
        self.prio = {}
        self.changes = sorted(rng.randrange(1, est_steps) for _ in range(max(depth - 1, 0)))
        self.step = 0

    def choose(self, sched, cands, cur, kind):
        self.step += 1
        for c in cands:
            if c.idx not in self.prio:
                self.prio[c.idx] = self.rng.random() + 1.0
        if self.changes and self.step >= self.changes[0]:
            self.changes.pop(0)
            if cur is not None:
                self.prio[cur.idx] = self.rng.random() * 0.5
        return max(cands, key=lambda c: self.prio[c.idx])


class ReplayChooser:
    def __init__(self, choices, fallback=None):
        self.choices, self.i, self.fallback = list(choices), 0, fallback

    def choose(self, sched, cands, cur, kind):
        if self.i < len(self.choices):
            want = self.choices[self.i]
            self.i += 1
            for c in cands:
                if c.idx == want:
                    return c
        if self.fallback:
            return self.fallback.choose(sched, cands, cur, kind)
        return cur if cur in cands else cands[0]


class Sched:
    def __init__(self, chooser, line_budget=0, max_steps=200000):
        self.chooser = chooser
        self.threads: list[T] = []
        self.by_ident: dict[int, T] = {}
        self.clock = 0.0
        self.cur: T | None = None
        self.trace: list[int] = []
        self.aborting = None  # None | 'deadlock' | 'maxsteps' | 'stop'
        self.finished = threading.Event()
        self.steps = 0
        self.max_steps = max_steps
        self.line_budget = line_budget
        self.line_events = 0
        self.running = False
        self.log: list = []
        self.deadlock_info = None

    # ---- thread management
    def me(self) -> T | None:
        return self.by_ident.get(threading.get_ident())

    def spawn(self, func, args=(), name=None) -> T:
        t = T(len(self.threads), name or getattr(func, "__name__", "thread"))
        self.threads.append(t)
        del name

        box = [func, args]

        def body():
            self.by_ident[threading.get_ident()] = t
            t.go.acquire()
            try:
                if self.aborting:
                    raise Abort()
                f, a = box
                f(*a)
            except Abort:
                pass
            except BaseException as e:  # noqa
                t.exc = e.with_traceback(None)
            finally:
                # drop every reference this thread holds (channels, replies ...) while it still has the
                # baton: a __del__ running execnet code after the hand-off would run unscheduled
                f = a = None
                box[:] = [None, None]
                t.state = "done"
                self._handoff_from_dead()

        t.real = threading.Thread(target=body, daemon=True, name=f"sched-{t.idx}-{t.name}")
        t.state = "ready"
        t.real.start()
        return t

    def _runnable(self):
        return [t for t in self.threads if t.state == "ready" or (t.state == "blocked" and t.pred())]

    def _pick(self, kind):
        """returns the next thread to run (possibly after advancing the clock), or None"""
        cur = self.cur if (self.cur and self.cur.state in ("ready",)) else None
        cands = self._runnable()
        if not cands:
            timed = [t for t in self.threads if t.state == "blocked" and t.deadline is not None]
            if not timed:
                return None
            dl = min(t.deadline for t in timed)
            self.clock = max(self.clock, dl)
            cands = [t for t in timed if t.deadline <= self.clock]
            for t in cands:
                t.timed_out = True
        if len(cands) == 1:
            nxt = cands[0]
        else:
            nxt = self.chooser.choose(self, cands, cur, kind)
            self.trace.append(nxt.idx)
        return nxt

    def _activate(self, nxt: T):
        if nxt.state == "blocked":
            if nxt.pred():
                nxt.timed_out = False
            nxt.state = "ready"
            nxt.pred = None
            nxt.deadline = None
        self.cur = nxt

    def _abort_all(self, why):
        if not self.aborting:
            self.aborting = why
            if why == "deadlock":
                self.deadlock_info = [repr(t) for t in self.threads if t.state == "blocked"]
        for t in self.threads:
            if t.state in ("blocked", "ready", "new") and t is not self.me():
                t.state = "ready"
                t.go.release()

    def _handoff_from_dead(self):
        if self.aborting:
            if all(t.state == "done" for t in self.threads):
                self.finished.set()
            return
        nxt = self._pick("exit")
        if nxt is None:
            if all(t.state == "done" for t in self.threads):
                self.finished.set()
            else:
                self._abort_all("deadlock")
                if all(t.state == "done" for t in self.threads):
                    self.finished.set()
            return
        self._activate(nxt)
        nxt.go.release()

    def _switch(self, kind):
        me = self.me()
        self.steps += 1
        if self.steps > self.max_steps:
            self._abort_all("maxsteps")
            raise Abort()
        nxt = self._pick(kind)
        if nxt is None:
            self._abort_all("deadlock")
            raise Abort()
        self._activate(nxt)
        if nxt is me:
            return
        nxt.go.release()
        me.go.acquire()
        if self.aborting:
            raise Abort()

    def yield_point(self, kind="sync", where=""):
        me = self.me()
        if me is None or not self.running:
            return
        if self.aborting:
            raise Abort()
        me.where = where
        self._switch(kind)
        self._deliver(me)

    def interrupt(self, t, exc):
        """make managed thread t raise exc at its next scheduling point (models an asynchronous KeyboardInterrupt)"""
        t.pending_exc = exc

    def _deliver(self, me):
        e = getattr(me, "pending_exc", None)
        if e is not None:
            me.pending_exc = None
            raise e

    def block(self, pred, timeout=None, where=""):
        """block the calling managed thread until pred() or (virtual) timeout; returns pred()"""
        me = self.me()
        if me is None or not self.running:
            # unmanaged caller (set-up code): cannot block
            return pred()
        if self.aborting:
            raise Abort()
        self._deliver(me)
        if pred():
            return True
        if timeout is not None and timeout <= 0:
            return False
        me.state = "blocked"
        me.pred = lambda: pred() or getattr(me, "pending_exc", None) is not None
        me.deadline = None if timeout is None else self.clock + timeout
        me.timed_out = False
        me.where = where
        self._switch("block")
        self._deliver(me)
        return pred()

    def run(self, timeout=60.0):
        """start scheduling the spawned threads; returns outcome string"""
        import gc

        gc.collect()      # garbage of earlier runs must not be finalised inside this run:
        gc.disable()      # a __del__ running execnet code would add scheduling points at random moments
        try:
            return self._run(timeout)
        finally:
            gc.enable()

    def _run(self, timeout):
        self.running = True
        nxt = self._pick("start")
        if nxt is None:
            return "empty"
        self._activate(nxt)
        nxt.go.release()
        ok = self.finished.wait(timeout)
        self.running = False
        if not ok:
            self._abort_all("wallclock")
            self.finished.wait(5)
            return "wallclock"
        return self.aborting or "ok"

    def stop(self):
        """abort whatever is still alive (used after the interesting part of a run is over)"""
        self._abort_all("stop")


# ------------------------------------------------------------------------------------------------
# synchronisation objects


class SLock:
    """re-entrant lock (execnet's ThreadExecModel hands out RLocks for both Lock and RLock)"""

    def __init__(self, sched: Sched, name="lock"):
        self.s, self.owner, self.count, self.name = sched, None, 0, name

    def acquire(self, blocking=True, timeout=-1):
        me = self.s.me() or "ext"
        self.s.yield_point("acquire", self.name)
        if self.owner is not None and self.owner is not me:
            if not blocking:
                return False
            ok = self.s.block(lambda: self.owner is None, None if timeout in (-1, None) else timeout, "acquire " + self.name)
            if not ok:
                return False
        self.owner = me
        self.count += 1
        return True

    def release(self):
        self.count -= 1
        if self.count == 0:
            self.owner = None
        self.s.yield_point("release", self.name)

    def __enter__(self):
        self.acquire()
        return self

    def __exit__(self, *a):
        self.release()


class SEvent:
    def __init__(self, sched: Sched, name="event"):
        self.s, self.flag, self.name = sched, False, name

    def is_set(self):
        self.s.yield_point("is_set", self.name)
        return self.flag

    def set(self):
        self.flag = True
        self.s.yield_point("set", self.name)

    def clear(self):
        self.flag = False
        self.s.yield_point("clear", self.name)

    def wait(self, timeout=None):
        self.s.yield_point("wait", self.name)
        if self.flag:
            return True
        self.s.block(lambda: self.flag, timeout, "wait " + self.name)
        return self.flag


class SQueue:
    def __init__(self, sched: Sched, maxsize=0):
        self.s, self.items = sched, []

    def put(self, item, block=True, timeout=None):
        self.items.append(item)
        self.s.yield_point("put")

    def get(self, block=True, timeout=None):
        self.s.yield_point("get")
        if not self.items:
            if not block:
                raise _queue.Empty
            self.s.block(lambda: bool(self.items), timeout, "queue.get")
            if not self.items:
                raise _queue.Empty
        x = self.items.pop(0)
        self.s.yield_point("got")   # a consumer can be preempted between taking an item and acting on it
        return x

    def qsize(self):
        return len(self.items)

    def empty(self):
        return not self.items


class SchedExecModel(ExecModel):
    """an ExecModel whose threads, locks, events, queues and sleeps belong to a Sched"""

    def __init__(self, sched: Sched, backend="thread"):
        self.sched = sched
        self._backend = backend
        self._queue_ns = types.SimpleNamespace(Queue=lambda maxsize=0: SQueue(sched), Empty=_queue.Empty)
        self.nlocks = 0

    @property
    def backend(self):
        return self._backend

    @property
    def queue(self):
        return self._queue_ns

    @property
    def subprocess(self):
        import subprocess

        return subprocess

    @property
    def socket(self):
        import socket

        return socket

    def start(self, func, args=()):
        self.sched.spawn(func, args)
        self.sched.yield_point("start")

    def get_ident(self):
        t = self.sched.me()
        return t.idx if t else -1

    def sleep(self, delay):
        self.sched.block(lambda: False, delay, "sleep")

    def fdopen(self, fd, mode, bufsize=1, closefd=True):
        return os.fdopen(fd, mode, bufsize, encoding="utf-8", closefd=closefd)

    def Lock(self):
        self.nlocks += 1
        return SLock(self.sched, f"lock{self.nlocks}")

    def RLock(self):
        self.nlocks += 1
        return SLock(self.sched, f"rlock{self.nlocks}")

    def Event(self):
        return SEvent(self.sched)


# ------------------------------------------------------------------------------------------------
# line-granularity preemption (sys.monitoring, Python >= 3.12)

_TOOL = 4
_active: list[Sched] = []
_prefix = None


def _line_cb(code, lineno):
    if not code.co_filename.startswith(_prefix):
        return sys.monitoring.DISABLE
    if not _active:
        return None
    s = _active[0]
    me = s.me()
    if me is None or not s.running or s.aborting:
        return None
    s.line_events += 1
    if s.line_budget <= 0:
        return None
    before = len(s.trace)
    cur = me
    s.yield_point("line", f"{os.path.basename(code.co_filename)}:{lineno}")
    if len(s.trace) > before and s.trace[-1] != cur.idx:
        s.line_budget -= 1
    return None


def enable_line_preemption(sched: Sched, prefix: str):
    global _prefix
    _prefix = prefix
    mon = sys.monitoring
    if mon.get_tool(_TOOL) is None:
        mon.use_tool_id(_TOOL, "evh-sched")
        mon.register_callback(_TOOL, mon.events.LINE, _line_cb)
    _active[:] = [sched]
    mon.set_events(_TOOL, mon.events.LINE)
    mon.restart_events()


def disable_line_preemption():
    _active[:] = []
    if sys.monitoring.get_tool(_TOOL) is not None:
        sys.monitoring.set_events(_TOOL, 0)
