"""C01 -- serializer round-trip, type-exact; rejection of everything else: obligations + correspondence."""
from __future__ import annotations

import io as _io
import random
import sys

from evh.common import Check, Model
from evh import codec as C
from evh.fakeio import stub_gateway


class _Rd:
    def __init__(self, b):
        self.b = b

    def read(self, n):
        r, self.b = self.b[:n], self.b[n:]
        if len(r) < n:
            raise EOFError("short")
        return r


def srepr(v):
    try:
        with C.nolimit():
            return repr(v)[:300]
    except BaseException:  # noqa
        return "(unprintable)"


def excname(e):
    n = type(e).__name__
    return "struct.error" if n == "error" else n


def impl_dumps(v):
    import execnet

    try:
        with C.pylimit():
            return execnet.dumps(v), None
    except BaseException as e:  # noqa
        return None, excname(e)


def impl_roundtrips(v, data):
    """all the ways of the property: loads(dumps), dump/load over a stream, through a channel"""
    import execnet
    from execnet import gateway_base as gb
    from props.c08 import ChunkReader, AtomicOut

    out = {}
    try:
        with C.pylimit():
            x = execnet.loads(data)
        out["loads"] = C.canon(x)
    except BaseException as e:  # noqa
        out["loads"] = ("EXC", excname(e))
    try:
        bio = _io.BytesIO()
        execnet.dump(bio, v)
        if bio.getvalue() != data:
            out["dump"] = ("DIFF", "dump() wrote different bytes than dumps()")
        else:
            out["dump"] = C.canon(execnet.load(_io.BytesIO(data)))
            rd = gb.Popen2IO(AtomicOut(), ChunkReader(data, [1, 2, 3, 7, 1, 5] * (len(data) // 3 + 2)), gb.get_execmodel("thread"))
            out["load-chunked"] = C.canon(execnet.load(rd))
    except BaseException as e:  # noqa
        out["dump"] = ("EXC", excname(e))
    return out


def channel_roundtrip(v):
    """v through a real Channel.send -> frames -> peer gateway's receiver path -> Channel.receive"""
    from execnet import gateway_base as gb

    ga, ioa = stub_gateway(1)
    gbb, iob = stub_gateway(2)
    cha = ga.newchannel()
    chb = gbb._channelfactory.new(cha.id)
    before = len(ioa.written)
    try:
        cha.send(v)
    except BaseException as e:  # noqa
        wrote = len(ioa.written) - before
        usable = True
        try:
            cha.send(42)
        except BaseException:  # noqa
            usable = False
        return ("EXC", excname(e), wrote, usable and len(ioa.written) == before + 1 and not cha.isclosed())
    try:
        for fr in ioa.written[before:]:
            gb.Message.from_io(_Rd(fr)).received(gbb)
    except BaseException as e:  # noqa  (the peer's receiver thread would die here)
        return ("EXC-peer", excname(e))
    try:
        return C.canon(chb.receive(timeout=0))
    except BaseException as e:  # noqa
        return ("EXC-recv", excname(e))


W_ECHO = """
while 1:
    x = channel.receive()
    if x is None:
        break
    channel.send(x)
"""


def concurrent_senders(ck, tier, rng):
    """several OS threads of one process send large structured values at the same time, each on its own channel of one real gateway
    (serialisation of one value spans many bytecodes: another thread's send runs in between); every value must come back equal"""
    import threading

    import execnet
    from props import xport as X

    group = execnet.Group()
    try:
        gw = group.makegateway("popen//id=c01c")
        for rd in range(2 if tier == "quick" else 10):
            nthr = 3
            bad = []

            def run(t):
                try:
                    ch = gw.remote_exec(W_ECHO)
                    for j in range(4):
                        base = t * 1000003 + j
                        v = [list(range(base, base + 30000)), {"t": t, "j": j, "s": "x%d" % base}, (float(base), str(base) * 50)]
                        ch.send(v)
                        back = ch.receive(60)
                        if C.canon(back) != C.canon(v):
                            bad.append(("value-differs", t, j))
                    ch.send(None)
                    ch.waitclose(60)
                except Exception as e:  # noqa
                    bad.append((type(e).__name__, str(e)[:80], t))

            ths = [threading.Thread(target=run, args=(t,), daemon=True) for t in range(nthr)]
            [t.start() for t in ths]
            [t.join(150) for t in ths]
            if any(t.is_alive() for t in ths):
                bad.append(("senders-blocked",))
            ck.case(("concurrent-senders", rd), nontrivial=True)
            ck.count("concurrent_sender_rounds")
            if bad:
                ck.fail("values-of-concurrent-senders-mixed-or-lost", {"threads": nthr, "observed": [list(map(str, b)) for b in bad[:4]]})
                break
    finally:
        X.with_timeout(lambda: group.terminate(timeout=2.0), 30)


def contains_kind(v, pred):
    if pred(v):
        return True
    if isinstance(v, (list, tuple, set, frozenset)):
        return any(contains_kind(i, pred) for i in v)
    if isinstance(v, dict):
        return any(contains_kind(k, pred) or contains_kind(x, pred) for k, x in v.items())
    return False


def main(tier, seed, replay=None):
    ck = Check("C01", tier, seed)
    ck.assumptions += [
        "A-ieee: struct.pack('!d') / unpack are the identity on the 64-bit pattern of a float (checked by the correspondence on NaN payloads, +-0, subnormals)",
        "str.encode('utf-8') / bytes.decode('utf-8') are the strict RFC 3629 codec modelled in Utf8.v; str(int)/int(bytes) as modelled in Decimal.v",
        "dict and set iteration order at dump time is what the value model records; sets are compared as sets",
        "CPython limits outside the model: int<->str digit limit (3.11+) and the recursion limit of the recursive saver (open findings)",
        "an unsupported object is identified by type(obj).__name__ only (that is what _save dispatches on)",
    ]
    ok = ck.prepare()
    rng = ck.rng
    vals = []  # (value, kind, label)
    if replay:
        ex = replay["example"]
        v = eval(ex["py"], {"nan": float("nan"), "inf": float("inf"), "C": C, "struct": C.struct})  # replay files are written by this harness
        vals.append((v, ex["kind"], ex.get("label", "")))
    else:
        n = 2500 if tier == "quick" else 60000
        for i in range(n):
            d = rng.choice([0, 1, 2, 3, 3, 4])
            vals.append((C.gen_value(rng, depth=d, width=rng.choice([2, 4, 8])), "supported", ""))
        for z in C.INTS:
            vals.append((z, "supported", ""))
            vals.append(([z, {"k": (z,)}], "supported", ""))
        for b in C.FLOAT_BITS:
            vals.append((C.bits_f(b), "supported", ""))
            vals.append((complex(C.bits_f(b), C.bits_f(b ^ 1)), "supported", ""))
        for depth in ([10, 60, 250] if tier == "quick" else [10, 60, 250, 300, 320]):
            for kind in (0, 1, 2):
                vals.append((C.nest(rng.choice([None, 1, "x"]), depth, kind), "supported", ""))
        # the same list / dict OBJECT reachable by two paths (finite and acyclic: must round-trip like a fresh copy)
        row, d0 = [1, 2], {}
        for v in ([row, row], [[0] * 3] * 3, [d0, d0], {"x": row, "y": row}, (row, row), [row, [row], {"z": row}, (row,)]):
            vals.append((v, "supported", "aliased"))
        for i in range(60 if tier == "quick" else 1500):
            sub = C.gen_value(rng, depth=rng.choice([1, 2]), width=3)
            if isinstance(sub, (list, dict)):
                vals.append((rng.choice([[sub, sub], (sub, [sub]), {"a": sub, "b": [sub, sub]}, [sub] * 3]), "supported", "aliased"))
        vals.append((C.nest(None, 5000, 0), "supported", "deep-nesting"))
        vals.append((10**5000, "supported", "int-digit-limit"))
        vals.append(([-(10**4400)], "supported", "int-digit-limit"))
        for z in C.band_ints(rng, 2 if tier == "quick" else 12):
            vals.append((z, "supported", ""))
        vals.append(([None] * 3000, "supported", ""))
        vals.append((dict.fromkeys(range(1200), ()), "supported", ""))
        for i in range(400 if tier == "quick" else 8000):
            name, mk = rng.choice(C.UNSUPPORTED)
            host = C.gen_value(rng, depth=rng.choice([0, 1, 2, 3]), width=3)
            try:
                vals.append((C.plant(rng, host, mk(rng)), "unsupported", name))
            except TypeError:
                pass
    # ---- implementation
    mcases, midx = [], []
    results = []
    names = {}
    for idx, (v, kind, label) in enumerate(vals):
        data, exc = impl_dumps(v)
        res = {"dumps": exc or "ok"}
        ck.count("values_" + kind)
        try:
            cv = C.canon(v)
        except RecursionError:
            cv = ("deep",)
        ck.case((kind, label, cv), nontrivial=isinstance(v, (list, tuple, dict, set, frozenset, str, bytes)) or kind == "unsupported")
        try:
            with C.nolimit():
                py = repr(v) if kind == "supported" and len(repr(v)) < 2000 else "(see label)"
        except BaseException:  # noqa
            py = "(unprintable)"
        ex = {"py": py, "kind": kind, "label": label}
        if kind == "supported":
            if exc is not None:
                sig = f"dumps-raises-{exc}" + (":" + label if label else "")
                if exc == "struct.error" and contains_kind(v, lambda x: type(x) is int and x < -2**31):
                    sig = "dumps-raises-struct.error:int-below-minus-2^31"
                ck.fail(sig, ex)
            else:
                rt = impl_roundtrips(v, data)
                for way, got in rt.items():
                    if got != cv:
                        ck.fail(f"roundtrip-differs:{way}" + (":" + got[1] if got and got[0] in ("EXC", "DIFF") else ""), {**ex, "got": repr(got)[:300]})
                if idx % 3 == 0 and not label:
                    got = channel_roundtrip(v)
                    if got != cv:
                        ck.fail("roundtrip-differs:channel" + (":" + got[1] if got[0].startswith("EXC") else ""), {**ex, "got": repr(got)[:300]})
        else:
            if exc != "DumpError":
                ck.fail(f"unsupported-accepted:{label}" if exc is None else f"unsupported-raises-{exc}:{label}", ex)
            got = channel_roundtrip(v)
            if not (got[0] == "EXC" and got[1] == "DumpError" and got[2] == 0 and got[3]):
                if not (exc is None):  # when dumps() itself accepts it the failure is already reported above
                    ck.fail(f"send-of-unsupported-not-clean:{label}", {**ex, "got": repr(got)[:200]})
        if idx % 701 == 0:
            ck.sample({**ex, "dumps": res["dumps"], "nbytes": len(data) if data else None})
        results.append((data, exc))
        if label in ("deep-nesting", "int-digit-limit"):
            continue
        try:
            toks = C.to_tokens(v, other_code=lambda o: names.setdefault(type(o).__name__, len(names) + 1))
        except RecursionError:
            continue
        mcases.append([1, 0, 0] + toks)
        midx.append(idx)
    # ---- model correspondence: bytes of dumps, value of loads(dumps)
    if ok:
        try:
            mo = Model().run(mcases)
            lcases, lidx = [], []
            for out, idx in zip(mo, midx):
                data, exc = results[idx]
                v, kind, label = vals[idx]
                if out[0] == 0:
                    mb = bytes(out[2:2 + out[1]])
                    if data is None or mb != data:
                        if kind == "unsupported" and data is not None:
                            continue  # name-colliding subclasses: reported by the monitor; the model keys on the exact type
                        ck.broke("correspondence", "dumps-bytes-model-vs-impl", {"py": srepr(v), "impl": exc or data.hex()[:200], "model": mb.hex()[:200]})
                    else:
                        lcases.append([1, 1, 0, 0, 0, 0, len(mb)] + list(mb))
                        lidx.append(idx)
                else:
                    me = C.EXN[out[1]]
                    if exc != me and not (kind == "unsupported" and exc is None):
                        ck.broke("correspondence", "dumps-exception-model-vs-impl", {"py": srepr(v), "impl": exc, "model": me})
            lo = Model().run(lcases)
            for out, idx in zip(lo, lidx):
                v = vals[idx][0]
                if out[0] != 0:
                    ck.broke("correspondence", "loads-of-dumps-model-fails", {"py": srepr(v), "model": C.EXN.get(out[1])})
                    continue
                mv, _ = C.from_tokens(out, 1)
                if mv != C.canon(v):
                    ck.broke("correspondence", "loads-of-dumps-model-vs-impl", {"py": srepr(v), "model": repr(mv)[:300]})
            ck.cov["disagreements_checked"] = len(mcases) + len(lcases)
        except Exception as e:  # noqa
            ck.broke("correspondence", "modelrun-codec", repr(e))
    ck.cov["programs"] = len(vals)
    if not replay or (replay.get("signature") or "").startswith("values-of-concurrent"):
        concurrent_senders(ck, tier, rng)
    return ck.finish(rule="values from a recursive weighted grammar over all supported types (ints around +-2^31, +-2^63 and up to 6000 bits, float/complex bit patterns incl. NaN payloads/inf/-0/subnormals, all UTF-8 length classes, containers of width 0..24 and depth 0..4, tuple/frozenset/bool/float keys, nesting to depth 250/320), plus 19 kinds of unsupported leaf (objects, subclasses of each builtin, name-colliding subclasses, surrogate strings, ...) planted at random positions; each value through dumps/loads, dump/load on BytesIO and on a chunked Popen2IO, and every third through a real Channel.send -> frame -> peer receive. distinct = distinct canonical value; non-trivial = container/str/bytes or an unsupported value.")
