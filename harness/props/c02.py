"""C02 -- channel-layer property: obligations (coq/props/C02.v) + generated programs on the real gateway pair."""
from __future__ import annotations

from props import chan_common as CC

ASSUMPTIONS = ['each shared access between two synchronisation calls is atomic (GIL); the scheduler preempts at every Lock/Event/Queue/pipe operation and, with a budget, at every executed line of execnet', 'both gateways run in one process over scripted pipes (reliable FIFO, oracle-chosen read chunking); exec of worker scripts is real', 'virtual clock: timed waits expire only when no thread can run']


def main(tier, seed, replay=None):
    ck, ok = CC.run_property("C02", tier, seed, replay, ['produce', 'produce', 'consume', 'consume', 'produce_raise', 'subchannel', 'consume_eof'], lambda s: s.startswith(('items-', 'callback-items-differ', 'worker-did-not-receive', 'channel-over-channel', 'conversation-did-not-start')), None, ASSUMPTIONS, extra=EXTRA)
    try:
        from props import chan_model

        chan_model.correspondence(ck, ok, "C02", tier, replay)
    except ImportError:
        pass
    return ck.finish(rule='generated channel programs: 1-3 concurrent conversations (worker produces / consumes / raises / passes sub-channels), items of several types, initiator consuming by receive, iteration, callbacks (early and late), two concurrent receivers, waitclose-then-receive; random and PCT schedules at synchronisation points and with 4 or 8 line-level preemptions. distinct = distinct (program, schedule prefix).')


EXTRA = None
