"""C03 -- channel-layer property: obligations (coq/props/C03.v) + generated programs on the real gateway pair."""
from __future__ import annotations

from props import chan_common as CC

ASSUMPTIONS = ['each shared access between two synchronisation calls is atomic (GIL); the scheduler preempts at every Lock/Event/Queue/pipe operation and, with a budget, at every executed line of execnet', 'both gateways run in one process over scripted pipes (reliable FIFO, oracle-chosen read chunking); exec of worker scripts is real', 'virtual clock: timed waits expire only when no thread can run']


def main(tier, seed, replay=None):
    ck, ok = CC.run_property("C03", tier, seed, replay, ['produce', 'produce', 'consume_eof', 'consume_eof', 'consume', 'produce_raise', 'halfclose'], lambda s: s.startswith(('no-repeated-EOFError', 'concurrent-receivers-do-not', 'waitclose-', 'closing-side-state', 'peer-state-after-observed-close', 'items-before-', 'after-exec-end', 'items-differ', 'items-lost', 'close-from-send-only', 'halfclose-', 'items-sent-in-send-only', 'after-remote-error')), None, ASSUMPTIONS, extra=EXTRA)
    try:
        from props import chan_model

        chan_model.correspondence(ck, ok, "C03", tier, replay)
        chan_model.link_correspondence(ck, ok, tier, replay)
        if not replay:
            after_exit(ck, tier)
    except ImportError:
        pass
    return ck.finish(rule='generated send/close histories: worker or initiator sends k items then closes explicitly, ends its remote_exec, or drops its last reference, with one or two blocked receivers and waitclose callers on the other side; random/PCT schedules with line-level preemption. distinct = distinct (program, schedule prefix).')


def after_exit(ck, tier):
    """real gateways: what a channel that closed REGULARLY says once the whole gateway has gone (waitclose still just returns), and an
    explicit close() racing with gateway.exit() (it completes locally, isclosed is true, nothing is raised)"""
    import execnet
    from props import xport as X

    for em in ("thread", "main_thread_only"):
        try:
            gw = execnet.makegateway("popen//execmodel=%s" % em)
            ch = gw.remote_exec("channel.send(1)")
            ch.receive(10)
            ch.waitclose(10)
            gw.exit()
            X.with_timeout(lambda: gw.join(10), 20)
            res = []
            for _ in range(2):
                try:
                    ch.waitclose(1)
                    res.append("returns")
                except Exception as e:  # noqa
                    res.append(type(e).__name__)
            ck.case(("after-exit-waitclose", em), nontrivial=True)
            ck.count("after_exit_probes")
            if res != ["returns", "returns"]:
                ck.fail("waitclose-on-a-regularly-closed-channel-raises-after-gateway-exit", {"execmodel": em, "waitclose": res})
        except Exception as e:  # noqa
            ck.broke("correspondence", "after-exit-probe-failed", repr(e)[:200])
    bad = None
    for i in range(15 if tier == "quick" else 150):
        gw = execnet.makegateway("popen")
        ch2 = gw.remote_exec("channel.receive()")
        gw.exit()
        try:
            ch2.close()
            if not ch2.isclosed():
                bad = ("isclosed-false", i)
        except Exception as e:  # noqa
            bad = (type(e).__name__, str(e)[:60], "isclosed=%s" % ch2.isclosed(), i)
        X.with_timeout(lambda: gw.join(10), 20)
        if bad:
            break
    ck.case(("close-racing-exit",), nontrivial=True)
    if bad:
        ck.fail("closing-side-state-wrong:close-racing-gateway-exit", {"observed": list(map(str, bad))})


EXTRA = None
