"""C03 -- channel-layer property: obligations (coq/props/C03.v) + generated programs on the real gateway pair."""
from __future__ import annotations

from props import chan_common as CC

ASSUMPTIONS = ['each shared access between two synchronisation calls is atomic (GIL); the scheduler preempts at every Lock/Event/Queue/pipe operation and, with a budget, at every executed line of execnet', 'both gateways run in one process over scripted pipes (reliable FIFO, oracle-chosen read chunking); exec of worker scripts is real', 'virtual clock: timed waits expire only when no thread can run']


def main(tier, seed, replay=None):
    ck, ok = CC.run_property("C03", tier, seed, replay, ['produce', 'produce', 'consume_eof', 'consume_eof', 'consume', 'produce_raise', 'halfclose'], lambda s: s.startswith(('no-repeated-EOFError', 'concurrent-receivers-do-not', 'waitclose-', 'closing-side-state', 'peer-state-after-observed-close', 'items-before-', 'after-exec-end', 'items-differ', 'items-lost', 'close-from-send-only', 'halfclose-', 'items-sent-in-send-only', 'after-remote-error', 'end-of-exec-drop')), None, ASSUMPTIONS, extra=EXTRA)
    try:
        from props import chan_model

        chan_model.correspondence(ck, ok, "C03", tier, replay)
        chan_model.link_correspondence(ck, ok, tier, replay)
        if not replay:
            after_exit(ck, tier)
            drop_at_end_of_exec(ck, tier)
    except ImportError:
        pass
    return ck.finish(rule='generated send/close histories: worker or initiator sends k items then closes explicitly, ends its remote_exec, or drops its last reference, with one or two blocked receivers and waitclose callers on the other side; random/PCT schedules with line-level preemption; plus real idle worker processes whose body holds further channels and ends normally or by seven kinds of exception (the drop at the end of the exec must reach the peer: items, then EOFError, waitclose returning). distinct = distinct (program, schedule prefix).')


def after_exit(ck, tier):
    """real gateways: what a channel that closed REGULARLY says once the whole gateway has gone (waitclose still just returns), and an
    explicit close() racing with gateway.exit() (it completes locally, isclosed is true, nothing is raised)"""
    import execnet
    from props import xport as X

    for em in ("thread", "main_thread_only"):
        try:
            gw = execnet.makegateway("popen//execmodel=%s" % em)
            ch = gw.remote_exec("channel.send(1)")
            ch.receive(10)
            ch.waitclose(10)
            gw.exit()
            X.with_timeout(lambda: gw.join(10), 20)
            res = []
            for _ in range(2):
                try:
                    ch.waitclose(1)
                    res.append("returns")
                except Exception as e:  # noqa
                    res.append(type(e).__name__)
            ck.case(("after-exit-waitclose", em), nontrivial=True)
            ck.count("after_exit_probes")
            if res != ["returns", "returns"]:
                ck.fail("waitclose-on-a-regularly-closed-channel-raises-after-gateway-exit", {"execmodel": em, "waitclose": res})
        except Exception as e:  # noqa
            ck.broke("correspondence", "after-exit-probe-failed", repr(e)[:200])
    bad = None
    for i in range(15 if tier == "quick" else 150):
        gw = execnet.makegateway("popen")
        ch2 = gw.remote_exec("channel.receive()")
        gw.exit()
        try:
            ch2.close()
            if not ch2.isclosed():
                bad = ("isclosed-false", i)
        except Exception as e:  # noqa
            bad = (type(e).__name__, str(e)[:60], "isclosed=%s" % ch2.isclosed(), i)
        X.with_timeout(lambda: gw.join(10), 20)
        if bad:
            break
    ck.case(("close-racing-exit",), nontrivial=True)
    if bad:
        ck.fail("closing-side-state-wrong:close-racing-gateway-exit", {"observed": list(map(str, bad))})


W_HOLDS_SUBCHANNELS = """
subs = [channel.gateway.newchannel() for i in range(%(n)d)]
keep = {"elsewhere": list(subs)}
for s in subs:
    channel.send(s)
for i, s in enumerate(subs):
    for x in range(%(k)d):
        s.send((i, x))
%(end)s
"""


def drop_at_end_of_exec(ck, tier):
    """real worker processes (idle afterwards: nothing but reference counting frees anything there): a body that holds further
    channels in its namespace sends items on them and ENDS -- normally or by an exception of several kinds -- without closing
    them; the end of the body drops the last references, so the initiator gets every item and then EOFError on each of them
    (bodies without function / class definitions: those keep their namespace alive through a reference cycle, see DESIGN)"""
    import threading

    import execnet
    from props import xport as X

    ends = {"normal": "pass", "raise": "raise ValueError('boom')", "zerodiv": "1 / 0", "lookup": "{}['missing']", "sysexit": "raise SystemExit(3)",
            "nested": "keep['elsewhere'][0].gateway.no_such_attribute", "assert": "assert not subs"}
    for em in ("thread", "main_thread_only"):
        st, gw = X.with_timeout(lambda: execnet.makegateway("popen//execmodel=%s" % em), 40)
        if st != "ok":
            ck.broke("correspondence", "end-of-exec-probe-gateway-does-not-start", em)
            continue
        try:
            for name, end in ends.items():
                for n, k in ((1, 2), (2, 0)) if tier == "quick" else ((1, 0), (1, 3), (2, 2), (3, 1)):
                    ex = {"execmodel": em, "end": name, "subchannels": n, "items_each": k}
                    ck.case(("end-of-exec-drop", em, name, n, k), nontrivial=True)
                    ck.count("end_of_exec_drop_probes")
                    ch = gw.remote_exec(W_HOLDS_SUBCHANNELS % {"n": n, "k": k, "end": end})
                    try:
                        subs = [ch.receive(10) for _ in range(n)]
                    except Exception as e:  # noqa
                        ck.fail("end-of-exec-drop:subchannels-do-not-arrive:" + type(e).__name__, ex)
                        continue
                    waits = []

                    def waiter(c=subs[0]):
                        try:
                            c.waitclose(8)
                            waits.append("returned")
                        except Exception as e:  # noqa
                            waits.append(type(e).__name__)

                    th = threading.Thread(target=waiter, daemon=True)
                    th.start()
                    for i, sub in enumerate(subs):
                        got, endk = [], None
                        try:
                            while 1:
                                got.append(sub.receive(8))
                        except Exception as e:  # noqa
                            endk = type(e).__name__
                        if got != [(i, x) for x in range(k)]:
                            ck.fail("items-before-close-lost:end-of-exec-drop", {**ex, "got": repr(got)[:100]})
                        if endk != "EOFError":
                            ck.fail("end-of-exec-drop-not-observed-by-the-peer:%s:%s" % (name, endk), ex)
                            break
                    th.join(10)
                    if waits != ["returned"]:
                        ck.fail("waitclose-after-end-of-exec-drop:%s" % (waits or ["blocked"])[0], ex)
                    try:
                        ch.waitclose(10)
                    except Exception:  # noqa  (the body's own error, reported on its channel: C07)
                        pass
        finally:
            gw.exit()
            X.with_timeout(lambda: gw.join(5), 10)


EXTRA = None
