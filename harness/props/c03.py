"""C03 -- channel-layer property: obligations (coq/props/C03.v) + generated programs on the real gateway pair."""
from __future__ import annotations

from props import chan_common as CC

ASSUMPTIONS = ['each shared access between two synchronisation calls is atomic (GIL); the scheduler preempts at every Lock/Event/Queue/pipe operation and, with a budget, at every executed line of execnet', 'both gateways run in one process over scripted pipes (reliable FIFO, oracle-chosen read chunking); exec of worker scripts is real', 'virtual clock: timed waits expire only when no thread can run']


def main(tier, seed, replay=None):
    ck, ok = CC.run_property("C03", tier, seed, replay, ['produce', 'produce', 'consume_eof', 'consume_eof', 'consume', 'produce_raise', 'halfclose'], lambda s: s.startswith(('no-repeated-EOFError', 'concurrent-receivers-do-not', 'waitclose-', 'closing-side-state', 'peer-state-after-observed-close', 'items-before-', 'after-exec-end', 'items-differ', 'items-lost', 'close-from-send-only', 'halfclose-', 'items-sent-in-send-only')), None, ASSUMPTIONS, extra=EXTRA)
    try:
        from props import chan_model

        chan_model.correspondence(ck, ok, "C03", tier, replay)
        chan_model.link_correspondence(ck, ok, tier, replay)
    except ImportError:
        pass
    return ck.finish(rule='generated send/close histories: worker or initiator sends k items then closes explicitly, ends its remote_exec, or drops its last reference, with one or two blocked receivers and waitclose callers on the other side; random/PCT schedules with line-level preemption. distinct = distinct (program, schedule prefix).')


EXTRA = None
