"""C04 -- connection loss at any byte: the peer->survivor stream of a real Gateway/WorkerGateway pair is cut
at byte offset k (every k for small streams), crossed with schedules, consumers blocked in receive /
waitclose / callbacks, over the real Popen2IO and the real SocketIO (on scripted pipes)."""
from __future__ import annotations

import random

from evh import sched as S
from props import chan_common as CC

ASSUMPTIONS = [
    "A-eof: when the peer dies the kernel ends the byte stream (read returns b'') -- the scripted pipe does exactly that at offset k",
    "A-epipe: writing to a closed pipe / socket raises OSError or ValueError",
    "each shared access between two synchronisation calls is atomic (GIL); scheduler preempts at every Lock/Event/Queue/pipe operation",
    "virtual clock: timed waits expire only when no thread can run, so a consumer reporting a timeout was blocked for good",
]
KINDS = ["produce", "produce", "produce_raise", "consume", "subchannel"]


def canon(x):
    return CC.canon_item(x)


def monitor(sub, c, o, out, ex):
    k = c["kind"]
    if k in ("produce", "produce_raise"):
        want = list(map(canon, c["items"]))
        got = list(o.get("got") or [])
        second = out["obs"].get("%d:second" % ex["index"])
        END = ("END",)
        mode = c["consume"]
        # every item whose frame had arrived COMPLETELY before the break is delivered: none is lost behind an earlier failure
        from execnet.gateway_base import Message

        complete = sum(1 for code, cid in out.get("w2i_complete", []) if code == Message.CHANNEL_DATA and cid == o.get("id"))
        if mode in ("receive", "iter", "callback", "callback_late", "callback_mid", "waitclose_then_receive", "callback_raises_local") and ex.get("cut") is not None:
            n_items = sum(1 for x in got if not (x == END or x == list(END)))
            expect = min(complete, 2) if mode == "callback_raises_local" else complete
            if mode == "callback_mid" and o.get("go_refused"):
                expect = None
            if expect is not None and n_items < min(expect, len(want)):
                sub.fail("loss:completely-arrived-items-not-delivered:" + mode, {**ex, "complete_frames": complete, "delivered": n_items})
        if mode == "callback_raises_local":
            items = [canon(x) for x in got if not (x == END or x == list(END))]
            if items != want[: len(items)]:
                sub.fail("loss:callback-items-not-a-prefix-of-sent", ex)
            return
        if mode == "callback_end_raises":
            mode = "callback"
        if mode.startswith("callback"):
            nend = sum(1 for x in got if x == END or x == list(END))
            items = [canon(x) for x in got if not (x == END or x == list(END))]
            if items != want[: len(items)]:
                sub.fail("loss:callback-items-not-a-prefix-of-sent", ex)
            if nend != 1 or not (got[-1] == END or got[-1] == list(END)):
                sub.fail("loss:callback-endmarker-not-exactly-once-at-end", ex)
            if mode != "callback_dropped" and o.get("end") in (None, "Timeout"):
                sub.fail("loss:waitclose-blocked-forever", ex)
            elif mode != "callback_dropped" and ex.get("cut") is not None and len(items) < len(want) and o.get("end") != "EOFError":
                # the conversation was cut short (not even all items came): the end is the connection's, not an error of the channel
                sub.fail("loss:waitclose-after-loss-not-EOFError:callback:" + str(o.get("end")), ex)
            return
        if second is not None:
            allg = [canon(x) for x in got] + [canon(x) for x in second.get("got", [])]
            idx = sorted(want.index(g) if g in want else -1 for g in allg)
            if idx != list(range(len(idx))) and len(set(want)) == len(want):
                sub.fail("loss:two-receivers-items-not-a-prefix-of-sent", ex)
            for e in (o.get("end"), second.get("end")):
                if e not in ("EOFError", "RemoteError"):
                    sub.fail("loss:receiver-not-ended-by-EOFError:" + str(e), ex)
            return
        g = [canon(x) for x in got]
        if g != want[: len(g)]:
            sub.fail("loss:items-not-a-prefix-of-sent:" + mode, ex)
        if o.get("end") not in ("EOFError", "RemoteError"):
            sub.fail("loss:receive-not-ended-by-EOFError:%s:%s" % (mode, o.get("end")), ex)
        if mode != "iter" and o.get("after") != "EOFError":
            sub.fail("loss:later-receive-not-EOFError:" + str(o.get("after")), ex)
        if mode == "waitclose_then_receive" and o.get("waitclose") is None and o.get("end") is None:
            sub.fail("loss:waitclose-blocked-forever", ex)
        complete = g == want and o.get("end") == ("RemoteError" if k == "produce_raise" else "EOFError")
        if mode != "iter" and o.get("waitclose_after") not in ("EOFError", "returns", "RemoteError"):
            sub.fail("loss:later-waitclose-wrong:" + str(o.get("waitclose_after")), ex)
        if mode != "iter" and len(g) < len(want) and o.get("waitclose_after") != "EOFError" and o.get("waitclose") != "EOFError":
            # the conversation was cut short: waitclose must say so (EOFError), not return as if closed
            sub.fail("loss:waitclose-does-not-raise-EOFError-after-loss:" + str(o.get("waitclose_after")), ex)
    elif k == "consume":
        s = o.get("summary")
        if isinstance(s, (tuple, list)) and s and s[0] == "EXC":
            if s[1] not in ("EOFError",):
                sub.fail("loss:receive-not-ended-by-EOFError:consume:" + str(s[1]), ex)
        elif s is not None and not (len(s) == 2 and s[0] == "summary" and list(map(canon, s[1])) == list(map(canon, c["items"]))):
            sub.fail("loss:corrupt-item-delivered", ex)
        if o.get("end") in (None, "TimeoutError"):
            sub.fail("loss:waitclose-blocked-forever", ex)
    elif k == "subchannel":
        if "got" in o and [canon(x) for x in o["got"]] != [canon(x) for x in c["items"]][: len(o["got"])]:
            sub.fail("loss:items-not-a-prefix-of-sent:subchannel", ex)
        if str(o.get("end", "")).startswith("TimeoutError"):
            sub.fail("loss:receive-blocked-forever:subchannel", ex)


W_REAL_STREAM = """
import os
channel.send(os.getpid())
sizes = %(sizes)r
i = 0
while %(endless)r or i < len(sizes):
    channel.send((i, 'x' * sizes[i %% len(sizes)]))
    i += 1
    if %(endless)r:
        # paced: a consumer that reads eagerly into unbounded queues (every hop of a via= connection does) would otherwise pile up a
        # backlog of tiny messages that takes longer to work off than the bound the waiters are given -- items that arrived come first
        channel.gateway.execmodel.sleep(0.001)
channel.receive()                       # never answered: the process is killed while it waits here (or while it still writes)
"""
W_REAL_CB = """
for x in %(items)r:
    channel.send(x)
channel.receive()
"""


def real_loss(ck, sub, tier, rng, replay=None):
    """real processes: a worker behind a popen, a socket and a via= (ProxyIO) gateway gets SIGKILL at a generated moment -- idle
    after k items, or in the middle of an endless burst of large items -- while several threads of the initiator are blocked in
    receive() and waitclose() and a callback with endmarker is registered"""
    import os
    import signal
    import threading
    import time

    import execnet
    from props import xport as X

    jobs = []
    if replay:
        if not (replay.get("signature") or "").startswith("loss:real"):
            return
        e = replay["example"]
        jobs.append((e["transport"], e["sizes"], e["endless"], e["kill_after"], e["nrecv"], e["nwait"], e["cb_items"], e.get("delay", 0.0)))
    else:
        n = 18 if tier == "quick" else 300
        for i in range(n):
            sizes = [rng.choice([0, 1, 10, 1000, 70000, 300000]) for _ in range(rng.randint(1, 4))]
            endless = rng.random() < 0.5
            jobs.append((["popen", "socket", "via"][i % 3], sizes, endless, rng.randint(0, len(sizes)) if not endless else rng.randint(1, 6),
                         rng.randint(1, 3), rng.randint(1, 2), list(range(rng.randint(0, 3))), rng.choice([0.0, 0.0, 0.003, 0.02])))
    for transport, sizes, endless, kill_after, nrecv, nwait, cb_items, delay in jobs:
        ex = {"transport": transport, "sizes": sizes, "endless": endless, "kill_after": kill_after, "nrecv": nrecv, "nwait": nwait, "cb_items": cb_items, "delay": delay}
        ck.case(("real", repr(ex)), nontrivial=True)
        ck.count("real_kill_" + transport)
        group = execnet.Group()
        try:
            def mk():
                if transport == "popen":
                    return group.makegateway("popen//id=victim")
                group.makegateway("popen//id=master")
                if transport == "via":
                    return group.makegateway("popen//via=master//id=victim")
                return group.makegateway("socket//installvia=master//id=victim")

            st, gw = X.with_timeout(mk, 40)
            if st != "ok":
                ck.broke("correspondence", "real-loss-gateway-does-not-start:" + transport, {**ex, "error": repr(gw)[:200]})
                continue
            results = []
            lock = threading.Lock()

            def note(*a):
                with lock:
                    results.append(a)

            ch = gw.remote_exec(W_REAL_STREAM % {"sizes": sizes, "endless": endless})
            pid = ch.receive(20)
            idle = gw.remote_exec("channel.receive()")
            if (len(sizes) + nrecv + kill_after) % 2 == 0:
                # the initiator is in the middle of sending a large stream to the worker when it dies (on a via= gateway the
                # forwarder's write to the dead process fails: still the END OF THE CONNECTION for this gateway)
                ex["flooding"] = True
                sink = gw.remote_exec("while 1: channel.receive()")

                def flood(sink=sink):
                    try:
                        while 1:
                            sink.send(b"x" * 200000)
                    except Exception:  # noqa
                        pass

                threading.Thread(target=flood, daemon=True).start()
                time.sleep(0.05)
            cbch = gw.remote_exec(W_REAL_CB % {"items": cb_items})
            cbgot = []
            cbch.setcallback(cbgot.append, endmarker=("END",))
            spare = gw.newchannel()

            def receiver(i):
                try:
                    note("recv", i, "item", repr(idle.receive(12))[:40])
                except BaseException as e:  # noqa
                    note("recv", i, type(e).__name__)

            def waiter(i):
                try:
                    idle.waitclose(12)
                    note("wait", i, "returned")
                except BaseException as e:  # noqa
                    note("wait", i, type(e).__name__)

            ths = [threading.Thread(target=receiver, args=(i,), daemon=True) for i in range(nrecv)] + [threading.Thread(target=waiter, args=(i,), daemon=True) for i in range(nwait)]
            for t in ths:
                t.start()
            got, end = [], None
            try:
                for _ in range(kill_after):
                    got.append(ch.receive(12))
                if delay:
                    time.sleep(delay)
                os.kill(pid, signal.SIGKILL)
                t_kill = time.time()
                while 1:
                    got.append(ch.receive(12))
            except BaseException as e:  # noqa
                end = type(e).__name__
            for t in ths:
                t.join(max(0.1, 14 - (time.time() - t_kill)) if "t_kill" in dir() else 14)
            took = time.time() - t_kill if "t_kill" in dir() else None
            ex["took"] = round(took or 0, 2)
            ex["results"] = sorted(map(repr, results))
            # the streamed items: complete, in order, nothing partial or corrupt; then EOFError
            for j, it in enumerate(got):
                if not (isinstance(it, tuple) and len(it) == 2 and it[0] == j and it[1] == "x" * sizes[j % len(sizes)]):
                    sub.fail("loss:real:%s:item-corrupt-or-out-of-order" % transport, {**ex, "index": j, "item": repr(it)[:80]})
                    break
            if not endless and len(got) < kill_after:
                sub.fail("loss:real:%s:arrived-items-lost" % transport, ex)
            if end != "EOFError":
                sub.fail("loss:real:%s:blocked-receive-ends-with-%s" % (transport, end), ex)
            alive = [t for t in ths if t.is_alive()]
            if alive:
                sub.fail("loss:real:%s:%d-waiters-still-blocked-12s-after-the-kill" % (transport, len(alive)), ex)
            for r in results:
                if r[2] != "EOFError":
                    sub.fail("loss:real:%s:blocked-%s-ends-with-%s" % (transport, "receive" if r[0] == "recv" else "waitclose", r[2]), ex)
            deadline = time.time() + 10
            while time.time() < deadline and (("END",) not in cbgot or gw.hasreceiver()):
                time.sleep(0.02)
            if cbgot != cb_items[:len(cbgot) - 1] + [("END",)]:
                sub.fail("loss:real:%s:callback-endmarker-missing-or-not-last" % transport, {**ex, "callback_got": repr(cbgot)[:200]})
            if gw.hasreceiver():
                sub.fail("after-loss:real:%s:gateway-still-claims-a-receiver" % transport, ex)
            for name, f in (("send", lambda: spare.send(1)), ("newchannel", lambda: gw.newchannel()), ("remote_exec", lambda: gw.remote_exec("pass")),
                            ("later-receive", lambda: spare.receive(5)), ("later-waitclose", lambda: spare.waitclose(5))):
                st, v = X.with_timeout(f, 20)
                want = "EOFError" if name.startswith("later") else "OSError"
                gotk = "accepted" if st == "ok" else ("blocks" if st == "timeout" else type(v).__name__)
                if gotk != want and not (want == "OSError" and st == "exc" and isinstance(v, OSError)):
                    sub.fail("after-loss:real:%s:%s-%s-instead-of-%s" % (transport, name, gotk, want), ex)
        except Exception as e:  # noqa
            ck.broke("correspondence", "real-loss-harness:" + type(e).__name__, {**ex, "error": repr(e)[:300]})
        finally:
            X.with_timeout(lambda: group.terminate(timeout=2), 30)


def main(tier, seed, replay=None):
    from evh.common import Check

    ck = Check("C04", tier, seed)
    ck.assumptions += ASSUMPTIONS
    ok = ck.prepare(need_model=True)
    rng = ck.rng
    accept = lambda s: s.startswith("loss:") or s.startswith("after-loss")  # noqa
    sub = CC._Sub(ck, accept)
    nruns = 0
    cuts_done = 0
    jobs = []
    if replay and replay["example"].get("prog"):
        e = replay["example"]
        jobs.append((e["prog"], e["seed"], e["io_kind"], [e["cut"]], e.get("schedule")))
    elif not replay:
        nprog = 14 if tier == "quick" else 160
        for i in range(nprog):
            prog = [CC.gen_conversation(rng, KINDS, "t%d" % j) for j in range(rng.randint(1, 2))]
            for c in prog:
                if "items" in c and len(c["items"]) > 4:
                    c["items"] = c["items"][:4]
            if i % 5 == 4:
                # a data callback on the surviving side that raises while the connection goes away
                prog[0] = {"kind": "produce", "tag": "t0", "items": list(range(rng.randint(2, 4))), "consume": "callback_raises_local"}
            jobs.append((prog, rng.getrandbits(30), "socket" if i % 2 else "popen", None, None))
    for prog, sd, io_kind0, cuts, schedule in jobs:
        io_kind = io_kind0
        if cuts is None:
            # a run without loss tells how many bytes the worker writes; then every offset (or a sample) is cut
            base = CC.run_program(prog, S.RandomChooser(random.Random(sd)), sd, io_kind=io_kind)
            total = base["w2i_total"]
            bounds = []
            acc = 0
            for n in base["w2i_frames"]:
                bounds += [acc, acc + 1, acc + 8, acc + 9, acc + 10]
                acc += n
            limit = 60 if tier == "quick" else 400
            if total <= limit:
                cuts = list(range(total))
            else:
                cuts = sorted(set([b for b in bounds if 0 <= b < total] + [rng.randrange(total) for _ in range(limit // 2)]))[: limit]
            ck.count("streams")
        for k in cuts:
            if not replay and io_kind0 == "socket":
                # a dying peer shows as end of file or, when it had unread input, as ECONNRESET from recv()
                io_kind = "socket_rst" if k % 2 else "socket"
            r = random.Random(sd * 1009 + k)
            chooser = S.ReplayChooser(schedule) if schedule is not None else (S.RandomChooser(r) if k % 3 else S.PCTChooser(r, 3, 400))
            both = bool(replay["example"].get("cut_both")) if replay else (k % 3 != 0)   # mostly: the peer DIED (writes meet EPIPE)
            out = CC.run_program(prog, chooser, sd, cut_w2i=k, io_kind=io_kind, cut_both=both, line_budget=(replay["example"].get("line_budget", 0) if replay else 0))
            nruns += 1
            cuts_done += 1
            exb = {"prog": prog, "schedule": out["schedule"], "seed": sd, "cut": k, "io_kind": io_kind, "cut_both": both, "result": out["result"]}
            ck.case((repr(prog), k, io_kind, both, tuple(out["schedule"][:60])), nontrivial=True)
            ck.count("cut_" + io_kind)
            ck.count("cut_both_directions" if both else "cut_one_direction")
            if nruns % 211 == 1:
                ck.sample({**exb, "obs": CC.compact({str(a): b for a, b in out["obs"].items()}), "final": out["final"]})
            if out["result"] != "stop":
                ck.broke("correspondence", "pair-run-" + str(out["result"]), {**exb, "thread_errors": out["thread_errors"]})
                continue
            for i, c in enumerate(prog):
                o = out["obs"].get(i)
                ex = {**exb, "index": i, "obs": CC.compact({str(a): b for a, b in out["obs"].items()}), "final": out["final"]}
                if o is None:
                    continue
                if "id" not in o:
                    if o.get("remote_exec") != "OSError":
                        sub.fail("loss:remote_exec-neither-started-nor-OSError", ex)
                    continue
                monitor(sub, c, o, out, ex)
            fin = out["final"]
            ex = {**exb, "final": fin}
            if out["w2i_total"] > k and fin.get("cut_hit_at_checks", True):  # the stream really was cut, before the gateway was examined
                if fin.get("hasreceiver"):
                    sub.fail("after-loss:gateway-still-claims-a-receiver", ex)
                for name in ("send", "newchannel", "remote_exec"):
                    if fin.get("after_loss_" + name) != "OSError":
                        sub.fail("after-loss:%s-not-OSError:%s" % (name, fin.get("after_loss_" + name)), ex)
                if fin.get("channels_left") or fin.get("callbacks_left"):
                    sub.fail("after-loss:channel-tables-not-empty", ex)
                for name in ("receive", "waitclose"):
                    if fin.get("after_loss_" + name) != "EOFError":
                        sub.fail("after-loss:later-%s-on-an-open-channel-not-EOFError:%s" % (name, fin.get("after_loss_" + name)), ex)
            errs = [e for e in out["thread_errors"] if "user" in e or "controller" in e]
            if errs:
                sub.fail("loss:thread-died:" + errs[0][:50], ex)
    # an obligation broke but no failing input yet: one targeted preemption at every line of the changed functions, for a
    # few cut points and callback / receive programs (the windows that have no synchronisation point inside)
    if ck.broken and not ck.failures and not replay:
        from evh.common import changed_lines

        lines = changed_lines(ck.build_info)
        ck.cov["targeted_lines"] = len(lines)
        tprogs = [
            [{"kind": "produce", "tag": "t0", "items": [0, 1], "consume": "callback"}],
            [{"kind": "produce", "tag": "t0", "items": [0, 1, 2], "consume": "callback_mid"}],
            [{"kind": "produce", "tag": "t0", "items": [0], "consume": "two_receivers"}],
        ]
        for where in lines:
            for prog in tprogs:
                for k in (0, 9, 30):
                    for nth in (1, 2):
                        if ck.failures:
                            break
                        sd = rng.getrandbits(30)
                        out = CC.run_program(prog, S.DemoteAtLine(where, nth, random.Random(sd)), sd, line_budget=10 ** 6, cut_w2i=k, io_kind="popen")
                        nruns += 1
                        ck.count("targeted_runs")
                        if out["result"] != "stop":
                            continue
                        exb = {"prog": prog, "schedule": out["schedule"], "seed": sd, "cut": k, "io_kind": "popen", "result": out["result"], "line_budget": 10 ** 6, "demote_at": where}
                        for i, c in enumerate(prog):
                            o = out["obs"].get(i)
                            if o is not None and "id" in o:
                                monitor(sub, c, o, out, {**exb, "index": i, "obs": CC.compact({str(a): b for a, b in out["obs"].items()}), "final": out["final"]})
                        fin = out["final"]
                        if out["w2i_total"] > k and not fin.get("hasreceiver") and (fin.get("channels_left") or fin.get("callbacks_left")):
                            sub.fail("after-loss:channel-tables-not-empty", {**exb, "final": fin})
    real_loss(ck, sub, tier, rng, replay)
    try:
        from props import chan_model

        chan_model.correspondence(ck, ok, "C04", tier, replay)
    except ImportError:
        pass
    ck.cov["traces_validated_against_impl"] = nruns
    ck.cov["cut_points"] = cuts_done
    return ck.finish(rule="generated channel programs (1-2 conversations: worker produces / raises / consumes / passes sub-channels; consumers by receive, iteration, callbacks early/late/mid, two receivers, waitclose) on a real gateway pair, once over the real Popen2IO and once over the real SocketIO; the worker->initiator byte stream is cut at EVERY byte offset when it is short (<= 60 bytes quick, <= 400 thorough) and at all frame boundaries +0/+1/+8/+9/+10 plus random offsets otherwise; one random or PCT schedule per cut; plus REAL processes: workers behind popen, socket and via= (ProxyIO) gateways get SIGKILL after k items or inside an endless burst of items up to 300 kB, with 1-3 threads blocked in receive(), 1-2 in waitclose() and a callback with endmarker: all must end with EOFError / the endmarker, the items received are a complete ordered prefix, afterwards send / newchannel / remote_exec raise OSError. distinct = (program, cut, transport, schedule prefix).")
