"""C05 -- Group.terminate(timeout) returns promptly and leaves no local child behind.
(a) the REAL multi.safe_terminate with scripted term / kill functions under the deterministic scheduler's virtual
    clock: return time and kill decisions compared with the extracted Coq model; the while loop's pass count for
    generated via forests (model) against real Group objects with stub gateways;
(b) real processes: groups of 1-3 popen gateways (and via / socket members) whose workers are idle, blocked, busy,
    sleeping, ignoring / catching SIGINT, SIGSTOPped, running extra threads or already dead; terminate(timeout) must
    return within rounds * (timeout + K) + slack, leave the group empty and every local child pid gone;
(c) a makegateway call that fails (id taken) leaves no process behind."""
from __future__ import annotations

import os
import random
import signal
import threading
import time

from evh.common import Check, Model
from evh import sched as S

SLACK = 2.5   # seconds on top of the model's bound (process start-up of kill threads, loaded sandbox)
K = 0.5       # a SIGKILLed local child is reaped within K


def pid_alive(pid):
    try:
        os.kill(pid, 0)
    except OSError:
        return False
    try:
        with open("/proc/%d/stat" % pid) as f:
            return f.read().split(")")[-1].split()[0] != "Z"
    except OSError:
        return False


def children_of(pid):
    out = []
    for d in os.listdir("/proc"):
        if d.isdigit():
            try:
                with open("/proc/%s/stat" % d) as f:
                    parts = f.read().split(")")[-1].split()
                if int(parts[1]) == pid and parts[0] != "Z":
                    out.append(int(d))
            except OSError:
                pass
    return out


# ---------------------------------------------------------------- (a) safe_terminate under the virtual clock
def run_safe_terminate(T, members, seed):
    """members: list of (d | None, k | None) in virtual seconds"""
    from execnet.multi import safe_terminate

    sc = S.Sched(S.RandomChooser(random.Random(seed)), max_steps=400000)
    em = S.SchedExecModel(sc, "thread")
    killed = [False] * len(members)
    kill_ev = [S.SEvent(sc) for _ in members]
    never = S.SEvent(sc)
    res = {}

    def mk(i, d, k):
        def term():
            # join_wait: returns when the member is down by itself, or once a kill has taken effect
            if d is None:
                kill_ev[i].wait()
            else:
                kill_ev[i].wait(timeout=d)

        def kill():
            killed[i] = True
            if k is None:
                never.wait()          # a kill function that hangs
            else:
                em.sleep(k)
                kill_ev[i].set()

        return term, kill

    def user():
        t0 = sc.clock
        safe_terminate(em, T, [mk(i, d, k) for i, (d, k) in enumerate(members)])
        res["returned_after"] = sc.clock - t0
        sc.stop()

    sc.spawn(user, name="user")
    r = sc.run(timeout=60)
    return {"result": r, "returned_after": res.get("returned_after"), "killed": killed, "schedule": sc.trace[:40]}


def part_a(ck, ok, tier, rng):
    if not ok:
        return
    cases = []
    for _ in range(60 if tier == "quick" else 1200):
        T = rng.choice([1, 2, 3, 5])
        ms = []
        for _ in range(rng.randint(0, 4)):
            # half seconds for d, quarter seconds for k: no two events of a run coincide, so the outcome does not depend
            # on how the scheduler breaks ties
            d = rng.choice([None, 0.5, T - 0.5, T + 0.5, 2 * T + 0.5, 3 * T + 1.5, 40.5])
            k = rng.choice([0.25, 0.25, 1.25, T + 0.25, None, 3 * T + 0.25])
            ms.append((d, k))
        cases.append((T, ms, rng.getrandbits(30)))
    q = lambda x: -1 if x is None else int(round(x * 4))   # noqa: model time in quarter seconds
    try:
        mouts = Model().run([[5, 0, 4 * T] + [x for d, k in ms for x in (q(d), q(k))] for T, ms, _ in cases])
    except Exception as e:  # noqa
        ck.broke("correspondence", "modelrun-safe_terminate", repr(e))
        return
    bad = 0
    for (T, ms, sd), mo in zip(cases, mouts):
        out = run_safe_terminate(T, ms, sd)
        ex = {"timeout": T, "members_d_k": ms, "seed": sd, "impl": out, "model": list(mo)}
        ck.case(("st", T, tuple(ms)), nontrivial=len(ms) > 0)
        ck.count("safe_terminate_members_%d" % len(ms))
        if out["result"] != "stop" or out["returned_after"] is None:
            ck.fail("safe_terminate-does-not-return", ex)
            continue
        if out["returned_after"] > (len(ms) + 1) * 2 * T + 1e-6:
            ck.fail("safe_terminate-exceeds-(n+1)*2*timeout", ex)
        if abs(out["returned_after"] - mo[0] / 4.0) > 1e-6 or [int(x) for x in out["killed"]] != list(mo[1:]):
            bad += 1
            if bad <= 3:
                ck.broke("correspondence", "safe_terminate-model-vs-impl", ex)
    ck.cov["safe_terminate_cases"] = len(cases)
    ck.cov["safe_terminate_mismatches"] = bad
    # passes of the while loop over via forests: real Group with stub gateways
    import execnet
    from execnet import multi

    fcases = []
    for _ in range(40 if tier == "quick" else 400):
        n = rng.randint(1, 6)
        vias = [-1 if i == 0 or rng.random() < 0.5 else rng.randrange(i) for i in range(n)]
        fcases.append(vias)
    try:
        mouts = Model().run([[5, 1] + v for v in fcases])
    except Exception as e:  # noqa
        ck.broke("correspondence", "modelrun-rounds", repr(e))
        return
    for vias, mo in zip(fcases, mouts):
        passes = real_terminate_passes(vias)
        # the same forest with some gateways exit()ed by the user beforehand: pass by pass against the model
        pre = [int(rng.random() < 0.35) for _ in vias]
        tr, left, tj = real_terminate_trace(vias, pre)
        try:
            mo2 = Model().run([[5, 2, len(vias)] + list(vias) + pre])[0]
        except Exception as e:  # noqa
            ck.broke("correspondence", "modelrun-terminate", repr(e))
            mo2 = None
        if mo2 is not None:
            mtr, i = [], 1
            for _ in range(mo2[0]):
                mtr.append(mo2[i + 1:i + 1 + mo2[i]])
                i += 1 + mo2[i]
            ck.count("terminate_traces")
            if mtr != tr or left or tj:
                ck.broke("correspondence", "terminate-passes-model-vs-impl", {"vias": list(vias), "exited_before": pre, "impl_passes": tr, "model_passes": mtr, "members_left": left, "tojoin_left": tj})
            # join/wait/kill of a proxied gateway travel through a live via gateway
            exited_at = {}
            for k, p in enumerate(tr):
                for x in p:
                    exited_at[x] = k
            for x, v in enumerate(vias):
                if v >= 0 and exited_at.get(v, 10 ** 6) <= exited_at.get(x, -1) and not pre[v]:
                    ck.fail("via-gateway-exited-before-the-gateway-routed-through-it-was-joined", {"vias": list(vias), "exited_before": pre, "passes": tr})
        ck.case(("forest", tuple(vias)), nontrivial=len(vias) > 1)
        if passes != mo[0]:
            ck.broke("correspondence", "terminate-rounds-model-vs-impl", {"vias": vias, "impl_passes": passes, "model": mo[0]})
    ck.cov["forest_cases"] = len(fcases)


def real_terminate_trace(vias, pre):
    """Group.terminate on stub gateways of which some were exit()ed before: the gateways every pass hands to safe_terminate"""
    from execnet import multi

    class Spec:
        def __init__(self, via):
            self.via = via

    class IO:
        def wait(self):
            return 0

        def kill(self):
            pass

    class GW:
        def __init__(self, group, i, via):
            self.id = "g%d" % i
            self.spec = Spec(None if via < 0 else "g%d" % via)
            self._io = IO()
            self._group = group

        def exit(self):
            if self in self._group:
                self._group._unregister(self)

        def join(self):
            pass

    g = multi.Group()
    gws = []
    for i, v in enumerate(vias):
        gw = GW(g, i, v)
        g._gateways.append(gw)
        gws.append(gw)
    for i, p in enumerate(pre):
        if p:
            gws[i].exit()
    trace = []
    orig = multi.safe_terminate

    def recording(execmodel, timeout, pairs):
        trace.append([int(f.args[0].id[1:]) for f, _ in pairs])
        return orig(execmodel, timeout, pairs)

    multi.safe_terminate = recording
    try:
        g.terminate(timeout=1)
    finally:
        multi.safe_terminate = orig
        import atexit

        atexit.unregister(g._cleanup_atexit)
    return trace, len(g), len(g._gateways_to_join)


def real_terminate_passes(vias):
    """Group.terminate on stub gateways: counts the passes of its while loop and checks the exit order"""
    from execnet import multi

    class Spec:
        def __init__(self, via):
            self.via = via

    class IO:
        def wait(self):
            return 0

        def kill(self):
            pass

    passes = [0]
    order = []

    class GW:
        def __init__(self, group, i, via):
            self.id = "g%d" % i
            self.spec = Spec(None if via < 0 else "g%d" % via)
            self._io = IO()
            self._group = group

        def exit(self):
            order.append(self.id)
            self._group._unregister(self)

        def join(self):
            pass

    g = multi.Group()
    for i, v in enumerate(vias):
        gw = GW(g, i, v)
        g._gateways.append(gw)
    orig = multi.safe_terminate

    def counting(*a, **kw):
        passes[0] += 1
        return orig(*a, **kw)

    multi.safe_terminate = counting
    try:
        g.terminate(timeout=1)
    finally:
        multi.safe_terminate = orig
    # a proxied gateway exits before its via gateway
    pos = {x: i for i, x in enumerate(order)}
    for i, v in enumerate(vias):
        if v >= 0 and pos["g%d" % i] > pos["g%d" % v]:
            return -1
    if len(g) != 0:
        return -2
    return passes[0]


# ---------------------------------------------------------------- (b) real processes
STATES = {
    "idle": None,
    "blocked": "channel.receive()",
    "busy": "channel.send(1)\nx = 0\nwhile 1:\n    x += 1",
    "sleeping": "channel.send(1)\nimport time\ntime.sleep(1000)",
    "sigint_ignored": "import signal\nsignal.signal(signal.SIGINT, signal.SIG_IGN)\nchannel.send(1)\nx = 0\nwhile 1:\n    x += 1",
    "sigint_caught": "channel.send(1)\nimport time\nwhile 1:\n    try:\n        while 1:\n            time.sleep(0.05)\n    except KeyboardInterrupt:\n        pass",
    "stopped": "import os, signal\nchannel.send(1)\nos.kill(os.getpid(), signal.SIGSTOP)",
    "threads": "import threading, time\nfor i in range(3):\n    threading.Thread(target=time.sleep, args=(1000,)).start()\nchannel.send(1)\nchannel.receive()",
    "dead": "import os\nchannel.send(1)\nos._exit(3)",
    "threads_done": "import threading, time\nthreading.Thread(target=time.sleep, args=(1000,)).start()\nchannel.send(1)",   # the body ends, a non-daemon thread stays
}


def one_group(execnet, rng, members, timeout, topo):
    """returns observations of one terminate() call"""
    group = execnet.Group()
    pids, chans = [], []
    obs = {"members": members, "timeout": timeout, "topology": topo}
    try:
        if topo == "via":
            group.makegateway("popen//id=master")
        for i, (state, em) in enumerate(members):
            spec = "popen//id=m%d//execmodel=%s" % (i, em)
            if topo == "via" and i == 0:
                spec += "//via=master"
            gw = group.makegateway(spec)
            pid = gw._rinfo().pid
            pids.append(pid)
            if STATES[state]:
                ch = gw.remote_exec(STATES[state])
                chans.append(ch)
                if state not in ("blocked",):
                    try:
                        ch.receive(10)
                    except Exception:  # noqa
                        pass
        mine = set(children_of(os.getpid()))
        time.sleep(0.2)
        obs["local_children"] = sorted(p for p in pids if p in mine)
        t0 = time.time()
        group.terminate(timeout=timeout)
        obs["returned_after"] = time.time() - t0
        obs["group_len"] = len(group)
        time.sleep(0.3)
        obs["alive_after"] = [p for p in pids if p in mine and pid_alive(p)]
        obs["alive_remote_after"] = [p for p in pids if p not in mine and pid_alive(p)]
    except Exception as e:  # noqa
        obs["error"] = repr(e)[:300]
    finally:
        for p in pids:
            if pid_alive(p):
                try:
                    os.kill(p, signal.SIGCONT)
                    os.kill(p, signal.SIGKILL)
                except OSError:
                    pass
    return obs


def part_b(ck, tier, rng):
    import execnet

    jobs = []
    states = list(STATES)
    n = 14 if tier == "quick" else 120
    for i in range(n):
        k = rng.choice([1, 1, 2, 3])
        members = [(states[(i + j * 4) % len(states)] if j == 0 else rng.choice(states), rng.choice(["thread", "main_thread_only"])) for j in range(k)]
        jobs.append((members, rng.choice([0.2, 1.0] if tier == "quick" else [0.2, 1.0, 3.0]), rng.choice(["popen", "popen", "via"])))
    # a worker reached through another gateway whose body left a non-daemon thread behind; a busy one
    jobs.append(([("threads_done", "thread")], 1.0, "via"))
    jobs.append(([("busy", "thread")], 0.5, "via"))
    results = []
    lock = threading.Lock()

    def run(job):
        o = one_group(execnet, rng, *job)
        with lock:
            results.append(o)

    ths = [threading.Thread(target=run, args=(j,)) for j in jobs]
    for s in range(0, len(ths), 7):
        for t in ths[s:s + 7]:
            t.start()
        for t in ths[s:s + 7]:
            t.join()
    for o in results:
        ck.case(("real", repr(o["members"]), o["timeout"], o["topology"]), nontrivial=True)
        for st, _ in o["members"]:
            ck.count("state_" + st)
        ex = dict(o)
        if "error" in o:
            ck.fail("terminate-or-setup-raised:" + o["error"][:50], ex)
            continue
        rounds = 2 if o["topology"] == "via" else 1
        bound = rounds * (o["timeout"] + K) + SLACK
        if o["returned_after"] > bound:
            if o["topology"] == "via" and o["alive_remote_after"]:
                # the same history as the surviving via worker: the forwarder's receiver thread sits in sub_io.wait(), neither the
                # kill request nor the master's own exit request is read, every pass runs into its 2 x time-out limit
                ck.fail("via-sub-child-alive-after-terminate:%s:and-terminate-late" % o["members"][0][0], {**ex, "bound": bound})
            else:
                ck.fail("terminate-returns-late:%s" % o["members"][0][0], {**ex, "bound": bound})
        if o["group_len"] != 0:
            ck.fail("group-not-empty-after-terminate", ex)
        if o["alive_after"]:
            ck.fail("local-child-alive-after-terminate:%s" % o["members"][0][0], ex)
        if o["alive_remote_after"]:
            # topology via: the member's process was started on this machine by the (local) master gateway
            ck.fail("via-sub-child-alive-after-terminate:%s" % o["members"][0][0], ex)
    ck.cov["real_groups"] = len(results)
    ck.cov["returned_after_s"] = sorted(round(o.get("returned_after", -1), 2) for o in results)


def part_c(ck, tier, rng):
    import execnet

    for rd in range(2 if tier == "quick" else 10):
        group = execnet.Group()
        try:
            before = set(children_of(os.getpid()))
            group.makegateway("popen//id=x%d" % rd)
            mid = set(children_of(os.getpid()))
            ck.case(("idtaken", rd), nontrivial=True)
            try:
                group.makegateway("popen//id=x%d" % rd)
                ck.fail("makegateway-with-a-taken-id-accepted", {})
            except (ValueError, AssertionError) as e:
                kind = type(e).__name__
            time.sleep(0.3)
            after = set(children_of(os.getpid()))
            extra = sorted(after - mid)
            if extra:
                ck.fail("failed-makegateway-leaves-a-process-behind", {"error_kind": kind, "new_children": extra})
                for p in extra:
                    try:
                        os.kill(p, signal.SIGKILL)
                    except OSError:
                        pass
            # a call that fails AFTER the worker exists (remote configuration step) must leave the worker within reach of
            # terminate(): chdir into a directory that cannot be created / a nice value that is not a number
            for bad in ("popen//chdir=/proc/nonexistent/evh05", "popen//nice=notanumber"):
                b0 = set(children_of(os.getpid()))
                try:
                    group.makegateway(bad)
                    ck.fail("makegateway-bad-config-accepted", {"spec": bad})
                except Exception:  # noqa
                    pass
                started = set(children_of(os.getpid())) - b0
                group.terminate(timeout=2)
                time.sleep(0.3)
                left = sorted(p for p in started if pid_alive(p))
                ck.case(("badconfig", rd, bad), nontrivial=True)
                if left:
                    ck.fail("failed-makegateway-leaves-a-process-behind", {"spec": bad, "children_left_after_terminate": left})
                    for p in left:
                        try:
                            os.kill(p, signal.SIGKILL)
                        except OSError:
                            pass
            # a spec whose interpreter does not exist fails before any process exists
            try:
                group.makegateway("popen//python=/nonexistent/python3")
                ck.fail("makegateway-nonexistent-python-accepted", {})
            except Exception:  # noqa
                pass
            if set(children_of(os.getpid())) - after:
                ck.fail("failed-makegateway-leaves-a-process-behind", {"case": "nonexistent python"})
        finally:
            group.terminate(timeout=2)
    # two OVERLAPPING calls with one explicit id: both pass the test in allocate_id before either registers
    for rd in range(2 if tier == "quick" else 8):
        group = execnet.Group()
        errs = []
        bar = threading.Barrier(2)

        def mk():
            bar.wait()
            try:
                group.makegateway("popen//id=dup")
            except Exception as e:  # noqa
                errs.append(type(e).__name__)

        before = set(children_of(os.getpid()))
        ths = [threading.Thread(target=mk) for _ in range(2)]
        [t.start() for t in ths]
        [t.join() for t in ths]
        time.sleep(0.3)
        started = set(children_of(os.getpid())) - before
        ck.case(("overlap", rd), nontrivial=True)
        group.terminate(timeout=2)
        time.sleep(0.3)
        left = sorted(p for p in started if pid_alive(p))
        if left:
            ck.fail("overlapping-makegateway-same-id-leaks-a-process", {"errors": errs, "children_left": left})
            for p in left:
                try:
                    os.kill(p, signal.SIGKILL)
                except OSError:
                    pass


def part_d(ck, tier, rng):
    """members that were exit()ed before terminate(); terminate() while a local thread is blocked in a send to a stopped worker"""
    import execnet
    from props import xport as X

    for rd, stop in enumerate([True, False] if tier == "quick" else [True, False, True, False]):
        group = execnet.Group()
        gw = group.makegateway("popen//id=ex%d" % rd)
        pid = gw._rinfo().pid
        if stop:
            os.kill(pid, signal.SIGSTOP)          # the worker cannot follow the exit request by itself
        gw.exit()
        t0 = time.time()
        st, _ = X.with_timeout(lambda: group.terminate(timeout=1.0), 20)
        dt = time.time() - t0
        time.sleep(0.3)
        ck.case(("exit-then-terminate", rd, stop), nontrivial=True)
        ck.count("exit_then_terminate")
        left = pid_alive(pid)
        if st != "ok" or dt > 2 * (1.0 + K) + SLACK:
            ck.fail("terminate-returns-late:after-exit", {"stopped": stop, "status": st, "seconds": dt})
        if left:
            ck.fail("local-child-alive-after-terminate:exited-before-terminate", {"stopped": stop, "pid": pid, "terminate_seconds": dt})
            try:
                os.kill(pid, signal.SIGCONT)
                os.kill(pid, signal.SIGKILL)
            except OSError:
                pass
    # a member reached through another gateway that was exit()ed before: it is joined THROUGH its via gateway, which must not be
    # exited in the same pass
    for rd in range(1 if tier == "quick" else 3):
        group = execnet.Group()
        group.makegateway("popen//id=vm%d" % rd)
        sub = group.makegateway("popen//via=vm%d//id=vs%d" % (rd, rd))
        pid = sub._rinfo().pid
        sub.exit()
        t0 = time.time()
        st, val = X.with_timeout(lambda: group.terminate(timeout=1.0), 20)
        dt = time.time() - t0
        time.sleep(0.3)
        ck.case(("via-exit-then-terminate", rd), nontrivial=True)
        ck.count("via_exit_then_terminate")
        if st != "ok":
            ck.fail("terminate-raises-or-hangs:via-member-exited-before", {"status": st, "error": repr(val)[:200], "seconds": dt})
        elif pid_alive(pid) or len(group):
            ck.fail("via-sub-child-alive-after-terminate:exited-before-terminate", {"pid": pid, "group_len": len(group), "seconds": dt})
        if pid_alive(pid):
            try:
                os.kill(pid, signal.SIGKILL)
            except OSError:
                pass
        X.with_timeout(lambda: group.terminate(timeout=1.0), 10)
    # the exit request cannot be sent (the local write side is gone) while the worker cannot end by itself: terminate() still has to join
    # or kill it
    for rd in range(1 if tier == "quick" else 3):
        group = execnet.Group()
        gw = group.makegateway("popen//id=nx%d" % rd)
        pid = gw._rinfo().pid
        os.kill(pid, signal.SIGSTOP)
        gw._io.close_write()                      # what a failed earlier write or an ended local receiver thread leaves behind
        t0 = time.time()
        st, val = X.with_timeout(lambda: group.terminate(timeout=1.0), 20)
        dt = time.time() - t0
        time.sleep(0.3)
        ck.case(("exit-request-unsendable", rd), nontrivial=True)
        ck.count("exit_request_unsendable")
        if st != "ok":
            ck.fail("terminate-raises-or-hangs:exit-request-unsendable", {"status": st, "error": repr(val)[:200], "seconds": dt})
        if pid_alive(pid):
            ck.fail("local-child-alive-after-terminate:exit-request-unsendable", {"pid": pid, "seconds": dt})
            try:
                os.kill(pid, signal.SIGCONT)
                os.kill(pid, signal.SIGKILL)
            except OSError:
                pass
    # the via gateway's process is already dead when terminate() is called: the member routed through it cannot be reached any more;
    # terminate must still return with an empty group (the orphaned worker ends by itself on EOF: C11)
    for rd in range(1 if tier == "quick" else 3):
        group = execnet.Group()
        m = group.makegateway("popen//id=dm%d" % rd)
        sub = group.makegateway("popen//via=dm%d//id=ds%d" % (rd, rd))
        spid = sub._rinfo().pid
        mpid = m._rinfo().pid
        os.kill(mpid, signal.SIGKILL)
        time.sleep(0.3)
        t0 = time.time()
        st, val = X.with_timeout(lambda: group.terminate(timeout=1.0), 20)
        dt = time.time() - t0
        time.sleep(0.5)
        ck.case(("via-master-dead", rd), nontrivial=True)
        ck.count("via_master_dead")
        if st != "ok":
            ck.fail("terminate-raises-or-hangs:via-gateway-already-dead", {"status": st, "error": repr(val)[:200], "seconds": dt})
        elif len(group) or group._gateways_to_join:
            ck.fail("group-not-empty-after-terminate:via-gateway-already-dead", {"group_len": len(group), "tojoin": len(group._gateways_to_join)})
        if pid_alive(spid):
            ck.fail("via-sub-child-alive-after-terminate:via-gateway-already-dead", {"pid": spid, "seconds": dt})
            try:
                os.kill(spid, signal.SIGKILL)
            except OSError:
                pass
        X.with_timeout(lambda: group.terminate(timeout=1.0), 10)
    # the write of the exit request is not covered by the time-out: a stopped worker and a local sender that fills the pipe
    group = execnet.Group()
    gw = group.makegateway("popen//id=full")
    pid = gw._rinfo().pid
    ch = gw.remote_exec("channel.receive()")
    os.kill(pid, signal.SIGSTOP)
    th = threading.Thread(target=lambda: X.with_timeout(lambda: ch.send(b"x" * (4 << 20)), 30), daemon=True)
    th.start()
    time.sleep(0.5)
    t0 = time.time()
    st, _ = X.with_timeout(lambda: group.terminate(timeout=1.0), 8)
    dt = time.time() - t0
    ck.case(("terminate-with-blocked-sender",), nontrivial=True)
    ck.count("terminate_with_blocked_sender")
    if st != "ok":
        ck.fail("terminate-blocks-in-exit-write:stopped-worker-and-blocked-local-sender", {"status": st, "seconds": dt, "timeout": 1.0})
    try:
        os.kill(pid, signal.SIGCONT)
        os.kill(pid, signal.SIGKILL)
    except OSError:
        pass
    th.join(10)


def main(tier, seed, replay=None):
    ck = Check("C05", tier, seed)
    ck.assumptions += [
        "A-kill: SIGKILL ends a local child whatever it does (stopped, busy, ignoring SIGINT) and Popen.wait() then returns; K = %.1f s" % K,
        "A-eof: a dead child's pipe ends close",
        "real layer bounds: rounds * (timeout + K) + %.1f s slack on the loaded sandbox" % SLACK,
        "virtual layer: each shared access between two synchronisation calls is atomic (GIL); virtual clock",
    ]
    ok = ck.prepare(need_model=True)
    rng = ck.rng
    part_a(ck, ok, tier, rng)
    part_b(ck, tier, rng)
    part_c(ck, tier, rng)
    part_d(ck, tier, rng)
    ck.cov["traces_validated_against_impl"] = ck.cov.get("safe_terminate_cases", 0) + ck.cov.get("forest_cases", 0)
    return ck.finish(rule="(a) real safe_terminate on 0-4 scripted members (join time d in {never, 0, 1, T, T+1, 2T, 3T+1, 40}, kill duration k in {0, 1, T, 3T, hangs}) for T in {1, 2, 3, 5} under the virtual clock vs the model (return time, kill decisions); real Group.terminate on stub gateways over generated via forests of 1-6 gateways vs the model's pass count; (b) real groups of 1-3 popen workers (thread / main_thread_only), optionally one of them via a master, in 9 remote states, timeouts {0.2, 1 (, 3)}; (c) makegateway with a taken id / a non-existing interpreter. distinct = distinct scripted member list / forest / (states, timeout, topology).")
