"""C06 -- remote_exec runs exactly the given code with a live channel and clean stdio.
(1) purity check: generated functions (nested defs, lambdas inside, comprehensions, classes, decorators, defaults,
    annotations, global statements, module names shadowing builtins, closures, wrong first parameter) written to
    temp modules; ground truth from the compiler (global loads of the code object and all nested ones, via dis)
    and from executing the shipped source in a fresh namespace; the checker must never accept an impure function.
(2) exec semantics on a real popen gateway: channel bound, __name__, kwargs equal by value, traceback file/line,
    auto-close exactly at the end, explicit close refused, kwargs with a non-function refused before sending.
(3) stdio: fd 0/1 of a real worker are /dev/null, the protocol survives print / os.write(1, ...) of up to 1 MB."""
from __future__ import annotations

import builtins
import dis
import importlib.util
import os
import random
import shutil
import sys
import tempfile
import types

from evh.common import Check, Model
from props import xport as X

PIECES = [
    ("    r = len(str(a)) + sum([1, 2])\n", True),
    ("    r = sorted(kw.items())\n", True),
    ("    def inner(z):\n        return z + loc\n    loc = 3\n    r = inner(a)\n", True),
    ("    r = [i * 2 for i in range(a)]\n", True),
    ("    r = {k: v for k, v in zip('ab', range(2))}\n", True),
    ("    g = lambda q: q + 1\n    r = g(a)\n", True),
    ("    import os as _os\n    r = _os.sep\n", True),
    ("    try:\n        r = int('x')\n    except ValueError as e:\n        r = repr(e)\n", True),
    ("    class K:\n        v = 1\n        def m(self):\n            return self.v\n    r = K().m()\n", None),   # class-body names: the checker may reject (safe)
    ("    r = 'col1\tcol2'.split('\t') + [len('\t')]\n", True),      # real TAB characters inside string literals: the text is shipped as it is
    ("    r = GLOBAL + a\n", False),
    ("    r = os.sep\n", False),
    ("    r = helper(a)\n", False),
    ("    def inner():\n        return GLOBAL\n    r = inner()\n", False),
    ("    r = [GLOBAL for _ in range(1)]\n", False),
    ("    global GLOBAL\n    r = GLOBAL\n", False),
    ("    def inner():\n        global a\n        return a\n    r = inner()\n", False),   # nested 'global' of an outer local: a global load hidden from co_varnames
    # a comprehension variable (inlined into the function's own locals since Python 3.12) that is ALSO used as a global outside it
    ("    ys = [COMPVAR for COMPVAR in range(2)]\n    r = COMPVAR\n", False),
    ("    ys = {COMPVAR: 1 for COMPVAR in 'ab'}\n    r = [COMPVAR, len(ys)]\n", False),
    ("    r = SHADOW(a)\n", "shadow"),
    ("    r = (lambda: SHADOW)()\n", "shadow"),
]
SHADOWS = ["id", "len", "abs", "max", "input", "vars"]
SIGS = [
    ("(channel, a=1, **kw)", True),
    ("(channel, a=1, *args, **kw)", True),
    ("(channel, a: int = 1, **kw)", True),
    ("(chan, a=1, **kw)", "firstarg"),
    ("(a=1, channel=None, **kw)", "firstarg"),
    ("(*, channel, a=1, **kw)", "firstarg"),
    ("(*channel, a=1, **kw)", "firstarg"),
    ("(a=1, *, channel, **kw)", "firstarg"),
    ("(channel, /, a=1, **kw)", True),
    ("(channel, a=GLOBAL, **kw)", False),
    ("(channel, a: Undefined = 1, **kw)", False),
]


def gen_module(rng, k):
    """source of a module with one generated function `f`; returns (source, expectation info)"""
    shadow = rng.choice(SHADOWS) if rng.random() < 0.35 else None
    pieces = [rng.choice(PIECES) for _ in range(rng.randint(1, 3))]
    sig, sigok = rng.choice(SIGS) if rng.random() < 0.3 else SIGS[0]
    deco = rng.random() < 0.1
    lead = "\n" * rng.randint(0, 5)
    body = ""
    for p, _ in pieces:
        body += p.replace("SHADOW", shadow or "abs")
    src = lead + "import os\nGLOBAL = 5\nCOMPVAR = 7\n\ndef helper(x):\n    return x\n\ndef deco(fn):\n    return fn\n\n"
    if shadow:
        src += "def %s(x):\n    return ('shadowed', x)\n\n" % shadow
    src += ("@deco\n" if deco else "") + "def f%s:\n    r = None\n%s    channel.send(r)\n" % (sig, body)
    uses_shadow = shadow is not None and any(e == "shadow" for _, e in pieces)
    return src, {"shadow": shadow, "uses_shadow": uses_shadow, "sigok": sigok, "deco": deco}


def global_loads(code):
    """names looked up in the global/builtin namespace by this code object or any nested one"""
    out = set()
    for ins in dis.get_instructions(code):
        if ins.opname in ("LOAD_GLOBAL", "LOAD_NAME", "STORE_GLOBAL", "DELETE_GLOBAL", "STORE_NAME", "DELETE_NAME"):
            out.add(ins.argval)
    for c in code.co_consts:
        if isinstance(c, types.CodeType):
            out |= global_loads(c)
    return out


class Chan:
    def __init__(self):
        self.sent = []

    def send(self, x):
        self.sent.append(x)


def purity(ck, tier, rng, scratch):
    from execnet import gateway as G

    n = 400 if tier == "quick" else 8000
    acc = rej = 0
    for k in range(n):
        src, info = gen_module(rng, k)
        path = os.path.join(scratch, "m%d.py" % k)
        with open(path, "w") as f:
            f.write(src)
        spec = importlib.util.spec_from_file_location("evh_c06_m%d" % k, path)
        mod = importlib.util.module_from_spec(spec)
        try:
            spec.loader.exec_module(mod)
        except Exception:  # noqa  (a default like Undefined fails at import: not a candidate)
            os.unlink(path)
            continue
        fn = mod.f
        ex = {"module_source": src, "info": info}
        ck.case(("purity", src), nontrivial=True)
        try:
            shipped = G._source_of_function(fn)
            accepted = True
        except ValueError:
            accepted = False
        # ground truth 1: the compiler's view
        loads = global_loads(fn.__code__)
        bad_static = sorted(x for x in loads if x not in builtins.__dict__ or (x in fn.__globals__ and not (x.startswith("__") and x.endswith("__")) and fn.__globals__[x] is not builtins.__dict__.get(x)))
        if accepted:
            acc += 1
            ck.count("purity_accepted")
            co = fn.__code__
            if co.co_argcount < 1 or co.co_varnames[0] != "channel":
                # the worker calls function(channel, **kwargs): the first POSITIONAL parameter must be `channel`
                ck.fail("wrong-first-parameter-accepted", {**ex, "positional_parameters": list(co.co_varnames[:co.co_argcount])})
                os.unlink(path)
                continue
            if bad_static:
                sig = "shadowed-builtin" if all(b in builtins.__dict__ for b in bad_static) else "non-builtin-global"
                ck.fail("impure-function-accepted:" + sig, {**ex, "global_loads_not_builtin_or_shadowed": bad_static})
                os.unlink(path)
                continue
            # ground truth 2: run the shipped source as the worker does and compare with the local call
            c1, c2 = Chan(), Chan()
            try:
                fn(c1, a=3, k=1)
                loc = {"channel": c2, "__name__": "__channelexec__"}
                exec(compile(shipped + "\n", path, "exec"), loc)
                loc["f"](c2, a=3, k=1)
                if repr(c1.sent) != repr(c2.sent):
                    ck.fail("accepted-function-behaves-differently-remotely", {**ex, "local": repr(c1.sent), "remote": repr(c2.sent)})
            except NameError as e:
                ck.fail("accepted-function-raises-NameError-remotely", {**ex, "error": str(e)})
            except Exception:  # noqa
                pass
            # line numbers: the shipped source puts the def on its original line
            if shipped.count("\n", 0, len(shipped) - len(shipped.lstrip("\n"))) != fn.__code__.co_firstlineno - 1:
                ck.fail("shipped-source-line-offset-wrong", ex)
        else:
            rej += 1
            ck.count("purity_rejected")
            if not bad_static and info["sigok"] is True and not info["deco"]:
                ck.count("purity_rejected_though_pure")   # completeness is not required; counted only
        os.unlink(path)
    # hand-written rejections named by the property
    y = 1

    def closure(channel):
        return y

    for name, f in (("lambda", lambda channel: 1), ("closure", closure)):
        try:
            G._source_of_function(f)
            ck.fail("rejects-not:" + name, {"function": name})
        except ValueError:
            pass
    ck.cov["purity_functions"] = acc + rej
    ck.cov["purity_accepted"] = acc


def raising(channel, where):
    channel.send("before")
    if where == 1:
        raise KeyError("first")
    x = [1, 2]
    if where == 2:
        return x[5]
    channel.send("end")


def echo_kwargs(channel, **kw):
    channel.send(kw)


def exec_semantics(ck, tier, rng):
    import execnet
    import inspect
    from execnet.gateway_base import RemoteError

    gw = execnet.makegateway("popen")
    try:
        for rd in range(3 if tier == "quick" else 40):
            # kwargs by value
            vals = [v for v in X.gen_values(rng, 6)]
            kw = {"k%d" % i: v for i, v in enumerate(vals)}
            ch = gw.remote_exec(echo_kwargs, **kw)
            back = ch.receive(X.T)
            ch.waitclose(X.T)
            ck.case(("kwargs", rd), nontrivial=True)
            if X.digest(back) != X.digest(kw):
                ck.fail("kwargs-not-equal-by-value", {"sent": repr(kw)[:300], "got": repr(back)[:300]})
            # traceback names the original file and line
            where = rng.choice([1, 2])
            ch = gw.remote_exec(raising, where=where)
            ck.case(("traceback", rd, where), nontrivial=True)
            try:
                assert ch.receive(X.T) == "before"
                ch.receive(X.T)
                ck.fail("remote-raise-not-reported", {"where": where})
            except RemoteError as e:
                txt = str(e)
                lines, start = inspect.getsourcelines(raising)
                want = start + (3 if where == 1 else 6)
                if ('File "%s", line %d' % (__file__, want)) not in txt and ('c06.py", line %d' % want) not in txt:
                    ck.fail("remote-traceback-lacks-original-file-and-line", {"where": where, "want_line": want, "text": txt[-600:]})
            # the same for a function defined INSIDE another one (shipped after its indentation was removed), with blank lines
            # and comment lines between its statements: every line keeps its number
            def inner_raising(channel, where):
                channel.send("before")

                x = 1

                # a comment line

                if where == 1:
                    raise ValueError("first")   # MARK-1

                y = x + 1
                # another comment

                raise KeyError(y)               # MARK-2

            ch = gw.remote_exec(inner_raising, where=where)
            ck.case(("traceback-inner", rd, where), nontrivial=True)
            try:
                assert ch.receive(X.T) == "before"
                ch.receive(X.T)
                ck.fail("remote-raise-not-reported", {"where": where, "function": "inner"})
            except RemoteError as e:
                txt = str(e)
                lines, start = inspect.getsourcelines(inner_raising)
                want = start + [i for i, ln in enumerate(lines) if ("MARK-%d" % where) in ln][0]
                if ('c06.py", line %d' % want) not in txt:
                    ck.fail("remote-traceback-lacks-original-file-and-line:inner-function", {"where": where, "want_line": want, "text": txt[-600:]})
            # string source: line numbers of the given text (after dedent)
            ch = gw.remote_exec("""
                x = 1
                y = 2
                raise ValueError('line four')
            """)
            try:
                ch.waitclose(X.T)
                ck.fail("remote-raise-not-reported", {"where": "string"})
            except RemoteError as e:
                if "line 4" not in str(e) or "ValueError: line four" not in str(e):
                    ck.fail("string-source-traceback-line-wrong", {"text": str(e)[-400:]})
        # the channel closes by itself (with the error) whatever ends the code: also a BaseException that is no Exception
        for kind, src in (("GeneratorExit", "channel.send('before')\nraise GeneratorExit('ge')"),
                          ("BaseException-subclass", "channel.send('before')\nclass Abort(BaseException):\n    pass\nraise Abort('ab')"),
                          ("SystemExit", "channel.send('before')\nraise SystemExit(3)")):
            ch = gw.remote_exec(src)
            ck.case(("baseexception-body", kind), nontrivial=True)
            st, val = X.with_timeout(lambda ch=ch: (ch.receive(X.T), ch.waitclose(10)), 25)
            if st == "exc" and isinstance(val, RemoteError):
                if kind.split("-")[0] not in str(val) and "Abort" not in str(val):
                    ck.fail("remote-error-text-lacks-the-exception-type:" + kind, {"text": str(val)[-300:]})
            else:
                ck.fail("channel-does-not-close-with-the-error-when-the-body-ends-by:" + kind, {"status": st, "value": repr(val)[:200]})
        # the given text runs as it is: TAB characters inside literals of a source string or a function survive the trip
        def tabbed(channel):
            channel.send(["a	b".split("	"), len("	")])        # (real TABs in this line)

        for label, src in (("string", "channel.send(['a\tb'.split('\t'), len('\t')])".replace("\t", "\t".encode().decode("unicode_escape"))), ("function", tabbed)):
            ch = gw.remote_exec(src)
            ck.case(("tab-literal", label), nontrivial=True)
            st, val = X.with_timeout(lambda ch=ch: ch.receive(X.T), 20)
            if st != "ok" or list(val) != [["a", "b"], 1]:
                ck.fail("remote-code-differs-from-the-given-text:tab-in-literal:" + label, {"status": st, "value": repr(val)[:100]})
        # channel bound, __name__, explicit close refused, auto-close exactly at the end
        ch = gw.remote_exec(X.W_NAME)
        if list(ch.receive(X.T)) != ["__channelexec__", True, "Channel"]:
            ck.fail("channel-or-__name__-not-bound", {})
        ch.waitclose(X.T)
        ch = gw.remote_exec(X.W_CLOSE_INSIDE)
        r = ch.receive(X.T)
        if tuple(r) != ("close-refused", "OSError"):
            ck.fail("explicit-close-inside-not-refused:" + repr(r)[:40], {})
        ch.waitclose(X.T)
        # ... also when the initiating side has closed its end meanwhile
        ch = gw.remote_exec("""
import time
side = channel.receive()
for _ in range(1000):
    if channel.isclosed():
        break
    time.sleep(0.01)
try:
    channel.close()
    side.send(('close-accepted', channel.isclosed()))
except OSError:
    side.send(('close-refused', channel.isclosed()))
""")
        side = gw.newchannel()
        ch.send(side)
        ch.close()
        r = side.receive(X.T)
        ck.case(("close-inside-after-peer-close",), nontrivial=True)
        if tuple(r)[0] != "close-refused":
            ck.fail("explicit-close-inside-not-refused-after-peer-close:" + repr(r)[:40], {})
        ch = gw.remote_exec("channel.send(1)\nchannel.receive()\nchannel.send(2)\n")
        ck.case(("autoclose",), nontrivial=True)
        assert ch.receive(X.T) == 1
        if ch.isclosed():
            ck.fail("channel-closed-before-the-code-finished", {})
        try:
            ch.waitclose(0.3)
            ck.fail("channel-closed-before-the-code-finished", {})
        except ch.TimeoutError:
            pass
        ch.send("go")
        assert ch.receive(X.T) == 2
        ch.waitclose(X.T)
        try:
            ch.receive(X.T)
            ck.fail("no-EOF-after-code-finished", {})
        except EOFError:
            pass
        # kwargs with a non-function: refused locally, nothing sent
        before = gw.remote_status().numchannels
        for src in ("channel.send(1)", X):
            try:
                gw.remote_exec(src, a=1)
                ck.fail("kwargs-with-non-function-accepted", {"source": repr(src)[:40]})
            except TypeError:
                pass
        # stdio: fds 0 and 1 of the worker are /dev/null; noise does not reach the protocol
        ch = gw.remote_exec("import os\nchannel.send([os.readlink('/proc/self/fd/%d' % i) for i in (0, 1)])")
        fds = ch.receive(X.T)
        ch.waitclose(X.T)
        if fds != ["/dev/null", "/dev/null"]:
            ck.fail("worker-stdio-not-devnull:" + repr(fds), {})
        for size in ([10, 70000] if tier == "quick" else [0, 1, 4096, 65536, 70000, 1 << 20]):
            ch = gw.remote_exec(X.W_PRINT % size)
            ck.case(("noise", size), nontrivial=True)
            if ch.receive(X.T) != "after-print":
                ck.fail("stdout-noise-disturbs-the-protocol", {"size": size})
            ch.waitclose(X.T)
            ch = gw.remote_exec("import os, sys\nos.write(1, b'\\x00' * %d)\nos.write(2, b'')\nsys.__stdout__.write('z' * 100)\nsys.__stdout__.flush()\nchannel.send('ok')" % size)
            if ch.receive(X.T) != "ok":
                ck.fail("fd1-noise-disturbs-the-protocol", {"size": size})
            ch.waitclose(X.T)
    finally:
        gw.exit()


def fdtable_differential(ck, ok, tier, rng):
    """the model's init_popen_io on generated descriptor tables vs the real function in a forked child"""
    if not ok:
        return
    cases = []
    for _ in range(60 if tier == "quick" else 600):
        extra = sorted(rng.sample(range(2, 12), rng.randint(0, 6)))
        cases.append(extra)
    try:
        mouts = Model().run([[6, len(e)] + e for e in cases])
    except Exception as e:  # noqa
        ck.broke("correspondence", "modelrun-fdtable", repr(e))
        return
    bad = 0
    for extra, mo in zip(cases, mouts):
        got = real_init_popen_io(extra)
        ck.case(("fdtable", tuple(extra)), nontrivial=bool(extra))
        if got is None:
            ck.broke("correspondence", "fdtable-child-failed", {"extra": extra})
            continue
        if list(mo) != got:
            bad += 1
            if bad <= 3:
                ck.broke("correspondence", "fdtable-model-vs-impl", {"open_before": extra, "model": list(mo), "impl": got})
    ck.cov["fdtable_cases"] = len(cases)


def real_init_popen_io(extra):
    """fork; in the child: fds 0/1 = two pipes, `extra` = open descriptors, everything else closed; run the REAL
    init_popen_io; report [saved stdin fd, saved stdout fd, kind of fd 0, kind of fd 1] through a side pipe"""
    import json

    rr, ww = os.pipe()
    pid = os.fork()
    if pid == 0:
        try:
            os.close(rr)
            side = os.dup(ww)
            side = os.dup2(side, 200)
            p_in_r, p_in_w = os.pipe()
            p_out_r, p_out_w = os.pipe()
            os.dup2(p_in_r, 100)
            os.dup2(p_out_w, 101)
            for fd in range(0, 64):
                try:
                    os.close(fd)
                except OSError:
                    pass
            os.dup2(100, 0)
            os.dup2(101, 1)
            os.close(100)
            os.close(101)
            nul = os.open("/dev/zero", os.O_RDONLY)   # lands on 2 (lowest free)
            for fd in extra:
                if fd != nul:
                    os.dup2(nul, fd)
            if 2 not in extra:
                os.close(nul)
            from execnet import gateway_base as gb

            io = gb.init_popen_io(gb.get_execmodel("thread"))

            def kind(fd):
                try:
                    return os.readlink("/proc/self/fd/%d" % fd)
                except OSError:
                    return "closed"

            a, b = io.infile.fileno(), io.outfile.fileno()
            res = [a, b, 1 if kind(0) == "/dev/null" else 0, 1 if kind(1) == "/dev/null" else 0, 1 if kind(a).startswith("pipe:") else 0, 1 if kind(b).startswith("pipe:") else 0]
            os.write(200, json.dumps(res).encode())
        finally:
            os._exit(0)
    os.close(ww)
    data = b""
    while 1:
        chunk = os.read(rr, 4096)
        if not chunk:
            break
        data += chunk
    os.close(rr)
    os.waitpid(pid, 0)
    try:
        return json.loads(data.decode())
    except Exception:  # noqa
        return None


def main(tier, seed, replay=None):
    ck = Check("C06", tier, seed)
    ck.assumptions += [
        "compile/exec and inspect.getsource are trusted (the shipped text is what the worker compiles)",
        "purity ground truth: LOAD_GLOBAL/LOAD_NAME/STORE_GLOBAL names of the function's code object and all nested code objects (dis), and execution of the shipped source in a fresh namespace",
        "POSIX: dup/open return the lowest free descriptor",
    ]
    ok = ck.prepare(need_model=True)
    rng = ck.rng
    scratch = tempfile.mkdtemp(prefix="evh06-", dir="/var/tmp")
    try:
        purity(ck, tier, rng, scratch)
    finally:
        shutil.rmtree(scratch, ignore_errors=True)
    exec_semantics(ck, tier, rng)
    fdtable_differential(ck, ok, tier, rng)
    ck.cov["traces_validated_against_impl"] = ck.cov.get("fdtable_cases", 0)
    return ck.finish(rule="(1) generated functions: 1-3 body pieces out of 18 (builtins only, nested defs, comprehensions, lambdas, local imports, classes, module globals, nested use of module globals, global statements incl. a nested `global` of an outer local, module-level names shadowing builtins), 7 signatures (wrong first parameter, defaults/annotations naming module globals), decorators, 0-5 leading blank lines -- each in its own temp module; (2) kwargs of generated values of all serialisable types, raising functions and strings, auto-close / explicit close / non-function kwargs on a real popen worker; (3) /proc/self/fd of the worker, stdout and raw fd-1 noise up to 1 MB (thorough), and the real init_popen_io in forked children over generated descriptor tables vs the model. distinct = distinct generated module / value set / table.")
