"""C07 -- channel-layer property: obligations (coq/props/C07.v) + generated programs on the real gateway pair."""
from __future__ import annotations

from props import chan_common as CC

ASSUMPTIONS = ['each shared access between two synchronisation calls is atomic (GIL); the scheduler preempts at every Lock/Event/Queue/pipe operation and, with a budget, at every executed line of execnet', 'both gateways run in one process over scripted pipes (reliable FIFO, oracle-chosen read chunking); exec of worker scripts is real', 'virtual clock: timed waits expire only when no thread can run']


def main(tier, seed, replay=None):
    ck, ok = CC.run_property("C07", tier, seed, replay, ['produce_raise', 'produce_raise', 'callback_raises', 'callback_raises', 'produce', 'consume'], lambda s: s.startswith(('remote-error', 'callback-error', 'callback-did-not-see', 'gateway-lost', 'thread-died', 'after-remote-error')), None, ASSUMPTIONS, extra=EXTRA)
    try:
        from props import chan_model

        chan_model.correspondence(ck, ok, "C07", tier, replay)
    except ImportError:
        pass
    return ck.finish(rule='programs with a failure at every position of generated item streams, in remote bodies and in channel callbacks on the worker side, with the failing channel object kept alive or dropped, next to sibling conversations; random/PCT schedules with line-level preemption.')


EXTRA = None
