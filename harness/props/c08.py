"""C08 -- frames survive any chunking and never interleave: obligations + correspondence.
Also provides the frame-level helpers used by C04."""
from __future__ import annotations

import random

from evh.common import Check, Model
from evh import sched as S


class ChunkReader:
    """infile / socket stand-in: read(n)/recv(n) return between 1 and min(n, oracle) bytes, b'' at the end"""

    def __init__(self, data: bytes, oracle):
        self.data, self.oracle, self.pos, self.i = data, list(oracle), 0, 0
        self.nreads = 0

    def read(self, n):
        self.nreads += 1
        k = n
        if self.i < len(self.oracle):
            k = min(max(1, self.oracle[self.i]), n)
            self.i += 1
        r = self.data[self.pos:self.pos + k]
        self.pos += len(r)
        return r

    recv = read

    def recv_into(self, buf, nbytes=0):
        r = self.read(nbytes or len(buf))
        buf[: len(r)] = r
        return len(r)

    def close(self):
        pass

    def setsockopt(self, *a):
        pass

    def shutdown(self, how):
        pass


class AtomicOut:
    """outfile stand-in: one write call appends the whole data (A-bufw: BufferedWriter.write is atomic)"""

    def __init__(self):
        self.wire = bytearray()
        self.nwrites = 0

    def write(self, data):
        self.nwrites += 1
        self.wire += data
        if getattr(self, "sched", None) is not None:
            self.writers.append(self.sched.me().idx)

    def flush(self):
        pass

    def close(self):
        pass


class PiecewiseSock:
    """socket stand-in whose sendall hands the data to the wire in oracle-sized pieces with a
    scheduling point between pieces (CPython's sendall releases the GIL around each send())"""

    def __init__(self, sched, rng):
        self.wire = bytearray()
        self.sched, self.rng = sched, rng
        self.writers = []

    def sendall(self, data):
        if self.sched is not None:
            self.writers.append(self.sched.me().idx)
        pos = 0
        while pos < len(data):
            k = self.rng.choice([1, 2, 5, 9, 13, 64, 1 << 20])
            self.wire += data[pos:pos + k]
            pos += k
            if self.sched is not None:
                self.sched.yield_point("sendall")

    def setsockopt(self, *a):
        pass

    def shutdown(self, how):
        pass

    def recv(self, n):
        return b""


def gen_msg(rng, big=False):
    ty = rng.choice([0, 1, 2, 3, 4, 5, 6, 7, -128, 127, rng.randint(-128, 127)])
    cid = rng.choice([0, 1, 2, 3, -1, 2**31 - 1, -2**31, rng.randint(-2**31, 2**31 - 1)])
    n = rng.choice([0, 0, 1, 2, 8, 9, 10, 40, 300]) if not big else rng.choice([65535, 65536, 70001])
    return (ty, cid, bytes(rng.getrandbits(8) for _ in range(n)))


def real_encode(msgs, io_kind="popen"):
    from execnet.gateway_base import Message, Popen2IO, get_execmodel

    out = AtomicOut()
    io = Popen2IO(out, ChunkReader(b"", []), get_execmodel("thread"))
    for ty, cid, data in msgs:
        Message(ty, cid, data).to_io(io)
    return bytes(out.wire), out.nwrites


def real_decode(wire, oracle, io_kind):
    """decode with the real Message.from_io over the real Popen2IO / SocketIO read loops"""
    from execnet.gateway_base import Message, Popen2IO, get_execmodel

    em = get_execmodel("thread")
    rd = ChunkReader(wire, oracle)
    if io_kind == "popen":
        io = Popen2IO(AtomicOut(), rd, em)
    else:
        from execnet.gateway_socket import SocketIO

        io = SocketIO(rd, em)
    msgs, end = [], None
    try:
        for _ in range(len(wire) + 2):
            m = Message.from_io(io)
            msgs.append((m.msgcode, m.channelid, m.data))
    except EOFError:
        end = "EOFError"
    except Exception as e:  # noqa
        end = type(e).__name__
    return msgs, end, rd.pos


def enc_case_msgs(msgs):
    c = [len(msgs)]
    for ty, cid, data in msgs:
        c += [ty, cid, len(data)] + list(data)
    return c


def dec_msgs(out, i):
    n = out[i]
    i += 1
    ms = []
    for _ in range(n):
        ty, cid, ln = out[i], out[i + 1], out[i + 2]
        ms.append((ty, cid, bytes(out[i + 3:i + 3 + ln])))
        i += 3 + ln
    return ms, i


def differential(ck, model_ok, tier, replay):
    rng = ck.rng
    cases = []
    if replay and replay["example"].get("msgs") is not None:
        ex = replay["example"]
        cases.append(([(m[0], m[1], bytes(m[2])) for m in ex["msgs"]], ex["cut"], ex["oracle"], ex["io"]))
    elif not replay:
        n = 1500 if tier == "quick" else 40000
        for i in range(n):
            big = i % 499 == 0
            msgs = [gen_msg(rng, big=(big and j == 0)) for j in range(rng.randint(1 if big else 0, 5))]
            total = sum(9 + len(m[2]) for m in msgs)
            cut = -1 if rng.random() < 0.5 else rng.randint(0, total)
            oracle = [rng.choice([4096, 65536, 10**6] if big else [1, 1, 2, 3, 4, 8, 9, 10, 100, 10**6]) for _ in range(rng.randint(0, 60))]
            cases.append((msgs, cut, oracle, rng.choice(["popen", "socket"])))
        # exhaustive over cut offsets and uniform chunk sizes for a few small streams
        for msgs in ([(4, 1, b"ab"), (5, 1, b"")], [(-128, -2**31, b"\x00\xff\n"), (127, 2**31 - 1, b"x" * 11), (0, 0, b"")]):
            total = sum(9 + len(m[2]) for m in msgs)
            for cut in range(total + 1):
                for cs in (1, 2, 3, 9, 10):
                    cases.append((msgs, cut, [cs] * 80, "popen" if (cut + cs) % 2 else "socket"))
    mouts = None
    if model_ok:
        try:
            mouts = Model().run([[8, 0] + enc_case_msgs(m) + [cut] + list(orc) for m, cut, orc, _ in cases])
        except Exception as e:  # noqa
            ck.broke("correspondence", "modelrun-frames", repr(e))
    for idx, (msgs, cut, oracle, io_kind) in enumerate(cases):
        wire0, nwrites = real_encode(msgs)
        wire = wire0 if cut < 0 else wire0[:cut]
        got, end, consumed = real_decode(wire, oracle, io_kind)
        ck.case(("f", tuple(msgs), cut, tuple(oracle[:8]), io_kind), nontrivial=len(msgs) > 0)
        ck.count("frames_io_" + io_kind)
        ck.count("frames_cut" if cut >= 0 else "frames_whole")
        ex = {"msgs": [[m[0], m[1], list(m[2])] for m in msgs] if sum(len(m[2]) for m in msgs) < 400 else "(large)", "cut": cut, "oracle": oracle[:20], "io": io_kind,
              "decoded": len(got), "end": end}
        if idx % 997 == 0:
            ck.sample(ex)
        if nwrites != len(msgs):
            ck.fail("frame-written-with-more-than-one-write-call", ex)
        # the property itself: whole stream -> identical messages; cut stream -> the complete frames before the cut, nothing partial
        bounds, pos = [], 0
        for m in msgs:
            pos += 9 + len(m[2])
            bounds.append(pos)
        nwhole = sum(1 for b in bounds if b <= len(wire))
        if got != msgs[:nwhole]:
            ck.fail("frames-not-read-back-identically:" + io_kind, ex)
        if end not in ("EOFError",):
            # ending is C04's business; here only record it
            ck.count("frames_end_" + str(end))
        if mouts is not None:
            out = mouts[idx]
            n = out[0]
            mwire = bytes(out[1:1 + n])
            mm, i = dec_msgs(out, 1 + n)
            if mwire != wire:
                ck.broke("correspondence", "frame-encoding-model-vs-impl", {"case": ex, "model_wire_len": len(mwire), "impl_wire_len": len(wire)})
            elif mm != got:
                ck.broke("correspondence", "frame-decoding-model-vs-impl", {"case": ex, "model": len(mm)})
    ck.cov["programs"] = ck.cov.get("programs", 0) + len(cases)


def malformed(ck, model_ok, tier, replay):
    """streams that are not frame sequences (negative / huge length fields, garbage): model vs impl"""
    if replay:
        return
    rng = ck.rng
    cases = []
    for _ in range(400 if tier == "quick" else 10000):
        n = rng.randint(0, 40)
        b = bytearray(rng.getrandbits(8) for _ in range(n))
        if n >= 9 and rng.random() < 0.7:
            ln = rng.choice([0, 1, 2, n - 9, n - 8, -1, -5, 2**31 - 1, -2**31])
            b[5:9] = (ln % 2**32).to_bytes(4, "big")
        cases.append((bytes(b), [rng.choice([1, 2, 9, 100]) for _ in range(rng.randint(0, 10))]))
    try:
        mouts = Model().run([[8, 1, len(b)] + list(b) + orc for b, orc in cases]) if model_ok else None
    except Exception as e:  # noqa
        ck.broke("correspondence", "modelrun-decode", repr(e))
        mouts = None
    for idx, (b, orc) in enumerate(cases):
        got, end, _ = real_decode(b, orc, "popen")
        ck.case(("raw", b, tuple(orc)), nontrivial=len(b) >= 9)
        if mouts is not None:
            mm, i = dec_msgs(mouts[idx], 0)
            if mm != got:
                ck.broke("correspondence", "raw-decoding-model-vs-impl", {"bytes": list(b), "oracle": orc, "impl": len(got), "model": len(mm)})
    ck.count("malformed_streams", len(cases))


def interleave(ck, model_ok, tier, replay):
    """2..4 sender threads calling the real BaseGateway._send on one gateway under the deterministic
    scheduler; popen-style IO (atomic buffered write) and socket-style IO (piecewise sendall)"""
    from execnet.gateway_base import BaseGateway, Popen2IO
    from execnet.gateway_socket import SocketIO

    rng = ck.rng
    runs = []
    if replay and replay["example"].get("progs") is not None:
        ex = replay["example"]
        runs.append((ex["io"], [[(m[0], m[1], bytes(m[2])) for m in p] for p in ex["progs"]], ex["schedule"], ex["seed"]))
    elif not replay:
        for k in range(120 if tier == "quick" else 4000):
            nthr = rng.randint(2, 4)
            progs = [[gen_msg(rng) for _ in range(rng.randint(1, 3))] for _ in range(nthr)]
            runs.append((rng.choice(["popen", "socket", "socket"]), progs, None, rng.getrandbits(32)))
    mcases, observed = [], []
    for io_kind, progs, schedule, seed in runs:
        r = random.Random(seed)
        chooser = S.ReplayChooser(schedule) if schedule is not None else (S.RandomChooser(r) if seed % 3 else S.PCTChooser(r, 3, 80))
        sc = S.Sched(chooser, max_steps=50000)
        em = S.SchedExecModel(sc)
        if io_kind == "popen":
            out = AtomicOut()
            out.sched, out.writers = sc, []
            io = Popen2IO(out, ChunkReader(b"", []), em)
            getwire = lambda: bytes(out.wire)
            sock = out
        else:
            sock = PiecewiseSock(sc, random.Random(seed + 1))
            io = SocketIO(sock, em)
            getwire = lambda: bytes(sock.wire)
        gw = BaseGateway(io, "x")
        order = []

        def sender(t, prog):
            for (ty, cid, data) in prog:
                gw._send(ty, cid, data)
                order.append(t)

        for t, prog in enumerate(progs):
            sc.spawn(sender, (t, prog), name=f"s{t}")
        res = sc.run(timeout=30)
        wire = getwire()
        got, end, consumed = real_decode(wire, [], "popen")
        ex = {"io": io_kind, "progs": [[[m[0], m[1], list(m[2])] for m in p] for p in progs], "schedule": sc.trace, "seed": seed, "result": res, "decoded": len(got)}
        ck.case(("il", io_kind, seed), nontrivial=True)
        ck.count("interleave_runs_" + io_kind)
        if len(runs) and (io_kind, progs, schedule, seed) == runs[0]:
            ck.sample(ex)
        if res != "ok":
            ck.broke("correspondence", "interleave-run-" + res, ex)
            continue
        # property: decoded messages are exactly the sent ones, each sender's in its own order
        ok = consumed == len(wire) and sorted(got) == sorted(m for p in progs for m in p)
        if ok:
            for p in progs:
                it = iter(got)
                ok = ok and all(any(m == g for g in it) for m in p)
        if not ok:
            ck.fail("frames-interleaved-on-the-wire:" + io_kind, ex)
            continue
        # model: the wire must be the model's wire for the observed frame order
        sched_obs = list(sock.writers)  # thread that issued each write call, in wire order
        c = [8, 2, len(progs)]
        for p in progs:
            c += enc_case_msgs(p)
        mcases.append(c + sched_obs)
        observed.append((wire, ex))
    if model_ok and mcases:
        try:
            outs = Model().run(mcases)
            for out, (wire, ex) in zip(outs, observed):
                if bytes(out[1:1 + out[0]]) != wire:
                    ck.broke("correspondence", "interleave-wire-model-vs-impl", ex)
        except Exception as e:  # noqa
            ck.broke("correspondence", "modelrun-writers", repr(e))
    ck.cov["traces_validated_against_impl"] = ck.cov.get("traces_validated_against_impl", 0) + len(runs)


def real_transports(ck, tier):
    """thorough only: OS pipes and socketpairs, several OS threads, large payloads"""
    import os
    import socket
    import threading

    from execnet.gateway_base import BaseGateway, Message, Popen2IO, get_execmodel
    from execnet.gateway_socket import SocketIO

    em = get_execmodel("thread")
    for kind in ("pipe", "socketpair"):
        for rnd in range(3):
            if kind == "pipe":
                r, w = os.pipe()
                wio = Popen2IO(os.fdopen(w, "wb"), ChunkReader(b"", []), em)
                rio = Popen2IO(AtomicOut(), os.fdopen(r, "rb"), em)
            else:
                a, b = socket.socketpair()
                wio, rio = SocketIO(a, em), SocketIO(b, em)
            gw = BaseGateway(wio, "x")
            nthr, per, size = 4, 6, 1 << 20
            got = []

            def reader():
                try:
                    while True:
                        m = Message.from_io(rio)
                        got.append((m.msgcode, m.channelid, len(m.data), m.data[:1], m.data[-1:]))
                except Exception as e:  # noqa
                    got.append(("END", type(e).__name__))

            rt = threading.Thread(target=reader, daemon=True)
            rt.start()

            def sender(t):
                for j in range(per):
                    gw._send(4, t * 100 + j, bytes([t * 16 + j]) * size)

            ths = [threading.Thread(target=sender, args=(t,), daemon=True) for t in range(nthr)]
            [t.start() for t in ths]
            [t.join(60) for t in ths]
            wio.close_write()
            rt.join(60)
            want = sorted((4, t * 100 + j, size, bytes([t * 16 + j]), bytes([t * 16 + j])) for t in range(nthr) for j in range(per))
            ck.case(("real", kind, rnd))
            ck.count("real_transport_runs_" + kind)
            if sorted(g for g in got if g[0] != "END") != want:
                ck.fail("frames-interleaved-on-the-wire:real-" + kind, {"kind": kind, "decoded": len(got), "tail": repr(got[-2:])})


W_ACK = """
import zlib
while 1:
    x = channel.receive()
    if x is None:
        break
    channel.send((len(x), zlib.crc32(x)))
"""

W_FLOOD = """
import threading
n, size = channel.receive()
chans = [channel.receive() for i in range(n)]
def run(i, c):
    for j in range(3):
        c.send(bytes([i * 16 + j]) * size)
    c.send(None)
ths = [threading.Thread(target=run, args=(i, c)) for i, c in enumerate(chans)]
[t.start() for t in ths]
[t.join() for t in ths]
"""


OPT_INITIATOR = r"""
import sys, execnet
sizes = [0, 1, 9, 70000]
out = []
group = execnet.Group()
master = group.makegateway("popen//id=m")
for spec in ("popen//python=%s//id=a" % sys.executable, "popen//via=m//id=b", "socket//installvia=m//id=c"):
    try:
        gw = group.makegateway(spec)
        ch = gw.remote_exec("for i in range(%d): channel.send(channel.receive())" % len(sizes))
        ok = True
        for n in sizes:
            ch.send(b"x" * n)
            ok = ok and ch.receive(20) == b"x" * n
        out.append((spec.split("//")[0] + ("/via" if "via=" in spec else ""), "ok" if ok else "corrupt"))
    except BaseException as e:
        out.append((spec, type(e).__name__ + ":" + str(e)[:80]))
print(repr(out))
sys.stdout.flush()
import os
os._exit(0)
"""


def optimized_initiator(ck):
    """the initiating interpreter runs with -O (assert statements compiled away): the handshake byte of every bootstrap variant
    must still be taken off the stream, or the first frame is decoded one byte off"""
    import subprocess
    import sys

    from evh.common import REPO_SRC

    ck.case(("optimized-initiator",), nontrivial=True)
    ck.count("optimized_initiator_runs")
    try:
        p = subprocess.run([sys.executable, "-O", "-c", OPT_INITIATOR], env={**__import__("os").environ, "PYTHONPATH": REPO_SRC}, capture_output=True, text=True, timeout=150)
        res = eval(p.stdout.strip().splitlines()[-1]) if p.stdout.strip() else [("no-output", p.stderr[-200:])]
    except subprocess.TimeoutExpired:
        res = [("all", "hangs")]
    except Exception as e:  # noqa
        ck.broke("correspondence", "optimized-initiator-harness", repr(e)[:200])
        return
    for spec, r in res:
        if r != "ok":
            ck.fail("frames-not-read-back-identically:initiator-under-O:" + str(spec)[:20], {"results": res})
            break


def real_gateways(ck, tier, only=None):
    """real gateways (popen, and a socket one installed through it): several OS threads send frames far larger than a pipe
    buffer at the same time on one connection, initiator -> worker and worker -> initiator; every item must arrive intact on
    its own channel and the gateway must survive"""
    import threading
    import zlib

    import execnet
    from props import xport as X

    sizes = [300000, 2 << 20] if tier == "quick" else [70000, 300000, 2 << 20, 5 << 20]
    group = execnet.Group()
    try:
        gws = [("popen", group.makegateway("popen//id=c08p"))]
        try:
            gws.append(("socket", group.makegateway("socket//installvia=c08p//id=c08s")))
        except Exception as e:  # noqa
            ck.count("real_gateway_socket_unavailable")
        try:
            # the proxied transport: a frame is ONE item on the io channel, whatever its size (C16)
            gws.append(("via", group.makegateway("popen//via=c08p//id=c08v")))
        except Exception as e:  # noqa
            ck.count("real_gateway_via_unavailable")
        if only is not None:
            gws = [g for g in gws if g[0] in only]
        for kind, gw in gws:
            for size in sizes:
                nthr = 4
                bad = []

                def up(t):
                    try:
                        ch = gw.remote_exec(W_ACK)
                        for j in range(3):
                            data = bytes([t * 16 + j]) * size
                            ch.send(data)
                            if ch.receive(60) != (len(data), zlib.crc32(data)):
                                bad.append(("up-ack-differs", t, j))
                        ch.send(None)
                        ch.waitclose(60)
                    except Exception as e:  # noqa
                        bad.append(("up", t, type(e).__name__, str(e)[:80]))

                ths = [threading.Thread(target=up, args=(t,), daemon=True) for t in range(nthr)]
                [t.start() for t in ths]
                [t.join(120) for t in ths]
                if any(t.is_alive() for t in ths):
                    bad.append(("up-senders-blocked",))

                def down():
                    ch = gw.remote_exec(W_FLOOD)
                    ch.send((nthr, size))
                    cs = [gw.newchannel() for _ in range(nthr)]
                    for c in cs:
                        ch.send(c)
                    for i, c in enumerate(cs):
                        for j in range(3):
                            x = c.receive(60)
                            if x != bytes([i * 16 + j]) * size:
                                bad.append(("down-item-differs", i, j, len(x) if isinstance(x, bytes) else repr(x)[:40]))
                        if c.receive(60) is not None:
                            bad.append(("down-end-differs", i))
                    ch.waitclose(60)

                if not bad:
                    st, val = X.with_timeout(down, 150)
                    if st != "ok":
                        bad.append(("down", st, repr(val)[:120]))
                # a second shape: one thread streams large items while another sends many small ones on another channel
                if not bad:
                    def mixed():
                        big = gw.remote_exec(W_ACK)
                        small = gw.remote_exec(W_ACK)
                        res = []

                        def many():
                            try:
                                for j in range(150):
                                    d = bytes([j % 251]) * 10
                                    small.send(d)
                                    if small.receive(60) != (len(d), zlib.crc32(d)):
                                        res.append(("small-ack-differs", j))
                                small.send(None)
                            except Exception as e:  # noqa
                                res.append(("small", type(e).__name__, str(e)[:60]))

                        th = threading.Thread(target=many, daemon=True)
                        th.start()
                        for j in range(4):
                            d = bytes([200 + j]) * size
                            big.send(d)
                            if big.receive(60) != (len(d), zlib.crc32(d)):
                                res.append(("big-ack-differs", j))
                        big.send(None)
                        th.join(120)
                        if th.is_alive():
                            res.append(("small-sender-blocked",))
                        return res

                    st, val = X.with_timeout(mixed, 150)
                    if st != "ok":
                        bad.append(("mixed", st, repr(val)[:120]))
                    elif val:
                        bad += val
                ck.case(("real-gateway", kind, size))
                ck.count("real_gateway_runs_" + kind)
                if bad:
                    ck.fail("frames-interleaved-on-the-wire:real-%s-gateway" % kind, {"kind": kind, "size": size, "threads": nthr, "observed": [list(map(str, b)) for b in bad[:4]]})
                    break
    finally:
        X.with_timeout(lambda: group.terminate(timeout=2.0), 30)


def main(tier, seed, replay=None):
    ck = Check("C08", tier, seed)
    ck.assumptions += [
        "A-bufw: one write() call on CPython's BufferedWriter is atomic with respect to other threads (it holds the buffer lock for the whole call); exercised on real pipes in the thorough tier",
        "sock.sendall is NOT atomic across threads (it releases the GIL around each send()); a lock is required -- modelled by a piecewise sendall with scheduling points",
        "pipes and sockets are reliable FIFO byte streams that may split or coalesce bytes arbitrarily (the chunk oracle)",
        "struct '!bii' packs a signed byte and two signed 32-bit integers big-endian, as modelled by enc_i8/enc_i32",
    ]
    ok = ck.prepare()
    differential(ck, ok, tier, replay)
    malformed(ck, ok, tier, replay)
    interleave(ck, ok, tier, replay)
    if tier == "thorough" and not replay:
        real_transports(ck, tier)
    if not replay or (replay.get("signature") or "").endswith("-gateway"):
        real_gateways(ck, tier)
    if not replay or "initiator-under-O" in (replay.get("signature") or ""):
        optimized_initiator(ck)
    return ck.finish(rule="generated message lists (all type bytes, ids over the signed 32-bit range incl. extremes, payloads 0..300 bytes and 64 KiB boundary sizes) x cut offsets x read-chunk oracles x {Popen2IO, SocketIO} read loops, plus every cut offset x uniform chunk size for two fixed streams; malformed streams with adversarial length fields; 2-4 concurrent senders through the real BaseGateway._send under the scheduler on buffered-file and piecewise-sendall transports; real gateways with large concurrent frames; an initiating interpreter under -O echoing payloads over popen//python=, via= and socket gateways (the bootstrap handshake byte must leave the stream). distinct = distinct (messages, cut, chunking, io) / (io, seed); non-trivial = at least one message.")
