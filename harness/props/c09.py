"""C09 -- WorkerPool: every accepted task exactly once, truthful waits, no lost wake-up.
Real WorkerPool code under the deterministic scheduler (sync-point and line-level preemption)."""
from __future__ import annotations

import random

from evh.common import Check, Model, REPO_SRC
from evh import sched as S


def gen_program(rng):
    backend = rng.choice(["thread", "thread", "main_thread_only"])
    hasprimary = rng.random() < 0.75
    nsp = rng.randint(1, 3) if not (backend == "main_thread_only" and hasprimary) else 1
    spawners = [rng.randint(1, 3 if nsp == 1 else 2) for _ in range(nsp)]
    return {
        "backend": backend,
        "hasprimary": hasprimary,
        "spawners": spawners,                      # tasks per spawner thread
        "shutdown": rng.random() < 0.8,            # a thread calling trigger_shutdown
        "shutdown_after": rng.choice([None, 0, 0, 1]),  # None: free-running; k: after spawner 0 got k replies
        "waiters": rng.randint(0, 2),
        "waiter_timeout": rng.choice([None, None, 5.0]),
        # per-caller time-outs (a short one expires while tasks still run: its bookkeeping must not disturb the others)
        "waiter_timeouts": [rng.choice([None, None, 5.0, 0.004]) for _ in range(2)],
        "task_yields": rng.random() < 0.5,
        "failing_task": rng.random() < 0.3,
        # threads blocked in Reply.get()/waitfinish() of the SAME reply, started the moment the spawn is accepted
        "getters": rng.choice([0, 0, 1, 2, 3]),
        "getter_timeout": rng.choice([None, None, 50.0]),
        # the k-th request for a new thread fails ("can't start new thread": thread limit, interpreter shutdown): that spawn raises,
        # the task is not accepted and must not count as running
        "start_fails": rng.choice([None, None, None, 0, 1]),
    }


def run_program(prog, chooser, line_budget):
    from execnet.gateway_base import WorkerPool

    sc = S.Sched(chooser, line_budget=line_budget, max_steps=60000)
    em = S.SchedExecModel(sc, backend=prog["backend"])
    pool = WorkerPool(em, hasprimary=prog["hasprimary"])
    if prog.get("start_fails") is not None:
        nstart = [0]
        real_start = em.start

        def failing_start(func, args=()):
            if getattr(func, "__name__", "") == "_perform_spawn":
                nstart[0] += 1
                if nstart[0] - 1 == prog["start_fails"]:
                    raise RuntimeError("can't start new thread")
            return real_start(func, args)

        em.start = failing_start
    runs = {}          # task id -> number of executions
    thread_of = {}
    accepted, refused, results = [], [], {}
    errored = []
    waitres = []
    got_k = S.SEvent(sc, "k-replies")
    replies = {}

    finished = {}      # task id -> its function has returned / raised
    fdone = {}         # task id -> event set at the very end of the task FUNCTION (what WorkerGateway._executetask_complete is)
    getres = []

    def task(tid):
        runs[tid] = runs.get(tid, 0) + 1
        thread_of[tid] = sc.me().idx
        try:
            if prog["task_yields"]:
                em.sleep(0.01)
            if prog["failing_task"] and tid % 2:
                # the failing tasks of every other spawner end with a BaseException that is no Exception
                raise (KeyboardInterrupt(tid) if (tid // 100) % 2 == 0 else KeyError(tid))
            return tid * 10
        finally:
            finished[tid] = True
            fdone.setdefault(tid, S.SEvent(sc, f"fdone{tid}")).set()

    def getter(tid, r, g):
        try:
            if g % 2:
                r.waitfinish(prog.get("getter_timeout"))
                getres.append((tid, "finished", finished.get(tid, False)))
            else:
                getres.append((tid, "value", r.get(prog.get("getter_timeout"))))
        except OSError:
            getres.append((tid, "timeout", finished.get(tid, False)))
        except S.Abort:
            raise                      # the scheduler ends a run in which this thread is blocked for good (reported as such)
        except BaseException as e:  # noqa
            getres.append((tid, "exc", type(e).__name__, list(e.args)))

    def spawner(si, n):
        prev = None
        for j in range(n):
            tid = si * 100 + j
            if prog["backend"] == "main_thread_only" and prog["hasprimary"] and prev is not None:
                # the gateway's submission protocol: only after the previous task's function has returned
                # (the function's end, not the reply's: _local_schedulexec waits for the event executetask sets in its finally,
                # which is earlier than Reply.run marking the reply finished)
                fdone.setdefault(prev_tid, S.SEvent(sc, f"fdone{prev_tid}")).wait()
            try:
                r = pool.spawn(task, tid)
            except ValueError:
                refused.append(tid)
                continue
            except RuntimeError:
                errored.append(tid)       # no thread for it: not accepted
                continue
            accepted.append(tid)
            replies[tid] = r
            prev = r
            prev_tid = tid
            for g in range(prog.get("getters", 0)):
                sc.spawn(getter, (tid, r, g), name=f"getter{tid}_{g}")
            if si == 0 and prog["shutdown_after"] is not None and j + 1 >= prog["shutdown_after"]:
                got_k.set()
        if si == 0:
            got_k.set()       # (a spawn that was refused or raised never reaches the line above)

    def shutdown():
        if prog["shutdown_after"]:
            got_k.wait()
        pool.trigger_shutdown()

    def waiter(wi):
        snap = list(accepted)
        tmo = (prog.get("waiter_timeouts") or [prog["waiter_timeout"]] * 2)[wi % 2]
        res = pool.waitall(tmo)
        waitres.append({"snap": snap, "res": res, "unfinished_at_return": [t for t in snap if not done(t)], "clock": sc.clock})

    def done(t):
        r = replies.get(t)
        return r is not None and finished.get(t, False)

    flags = {"primary_exited": not prog["hasprimary"]}

    def primary():
        pool.integrate_as_primary_thread()
        flags["primary_exited"] = True

    if prog["hasprimary"]:
        sc.spawn(primary, name="primary")
    for si, n in enumerate(prog["spawners"]):
        sc.spawn(spawner, (si, n), name=f"spawner{si}")
    if prog["shutdown"]:
        sc.spawn(shutdown, name="shutdown")
    for wi in range(prog["waiters"]):
        sc.spawn(waiter, (wi,), name=f"waiter{wi}")
    if line_budget:
        S.enable_line_preemption(sc, REPO_SRC)
    try:
        res = sc.run(timeout=30)
    finally:
        if line_budget:
            S.disable_line_preemption()
    # replies: value / exception / timeout behaviour (checked outside the scheduler: everything is finished or dead)
    reply_ok = True
    for t, r in replies.items():
        if finished.get(t):
            try:
                v = r.get(timeout=0)
                reply_ok = reply_ok and v == t * 10 and not (prog["failing_task"] and t % 2)
            except KeyError as e:
                reply_ok = reply_ok and prog["failing_task"] and t % 2 == 1 and (t // 100) % 2 == 1 and e.args == (t,)
            except KeyboardInterrupt as e:
                reply_ok = reply_ok and prog["failing_task"] and t % 2 == 1 and (t // 100) % 2 == 0 and e.args == (t,)
            except Exception:  # noqa
                reply_ok = False
        else:
            try:
                r.get(timeout=0.0)
                reply_ok = False
            except OSError:
                pass
            except Exception:  # noqa
                reply_ok = False
    return {
        "result": res, "deadlock": sc.deadlock_info, "accepted": accepted, "refused": refused, "errored": errored, "runs": dict(runs), "thread_of": dict(thread_of),
        "waitres": waitres, "getres": sorted(getres, key=repr), "reply_ok": reply_ok, "schedule": sc.trace, "primary_exited": flags["primary_exited"],
        "shut": pool._shuttingdown, "running_left": len(pool._running), "clock": sc.clock,
        "thread_errors": [repr(t.exc) for t in sc.threads if t.exc is not None],
    }


def check_run(ck, prog, out, ex):
    """the property itself on one observed execution"""
    res = out["result"]
    if res not in ("ok", "deadlock"):
        ck.broke("correspondence", "pool-sched-run-" + str(res), ex)
        return
    for t in out["accepted"]:
        n = out["runs"].get(t, 0)
        if n > 1:
            ck.fail("task-executed-more-than-once", ex)
        if n == 0:
            # every thread is finished or blocked for good: the task will never run
            ck.fail("accepted-task-never-executed" + (":after-shutdown" if out["shut"] else ""), ex)
    for t in out["refused"] + out.get("errored", []):
        if out["runs"].get(t, 0):
            ck.fail("refused-task-executed", ex)
    if out.get("errored") and res == "ok" and out["running_left"]:
        ck.fail("task-whose-thread-could-not-start-still-counts-as-running", ex)
    if out["refused"] and not out["shut"]:
        ck.fail("spawn-refused-without-shutdown", ex)
    for w in out["waitres"]:
        if w["res"] and w["unfinished_at_return"]:
            ck.fail("waitall-true-with-unfinished-task", ex)
    if not out["reply_ok"]:
        ck.fail("reply-does-not-yield-result-or-exception", ex)
    for g in out.get("getres", []):
        t = g[0]
        failing = prog["failing_task"] and t % 2 == 1
        if g[1] == "timeout":
            if g[2]:
                ck.fail("reply-wait-timed-out-although-the-task-finished", ex)
        elif g[1] == "finished":
            if not g[2]:
                ck.fail("reply-waitfinish-returned-before-the-task-finished", ex)
        elif g[1] == "value":
            if failing or g[2] != t * 10:
                ck.fail("reply-get-yields-wrong-value", ex)
        elif not failing or g[3] != [t] or g[2] != ("KeyError" if (t // 100) % 2 == 1 else "KeyboardInterrupt"):
            ck.fail("reply-get-raises-wrong-exception:" + str(g[2]), ex)
    if out["thread_errors"]:
        ck.fail("pool-thread-raised:" + out["thread_errors"][0][:40], ex)
    if res == "deadlock":
        allrun = all(out["runs"].get(t, 0) == 1 for t in out["accepted"])
        if allrun:
            if out["shut"] and not out["primary_exited"]:
                ck.fail("primary-does-not-leave-after-shutdown", ex)
            elif not out["shut"] and not out["primary_exited"] and all(("primary" in d) for d in out["deadlock"] or []):
                pass  # only the integrated primary thread is left waiting for work: no shutdown was requested in this program
            elif any("getter" in d for d in out["deadlock"] or []):
                ck.fail("reply-waiter-never-woken", ex)
            elif any("waiter" in d for d in out["deadlock"] or []) and out["running_left"] == 0:
                ck.fail("waitall-lost-wakeup", ex)
            else:
                ck.fail("pool-deadlock", ex)
    if prog["backend"] == "main_thread_only" and prog["hasprimary"]:
        bad = [t for t, th in out["thread_of"].items() if th != 0]
        if bad:
            ck.fail("main_thread_only-task-not-on-primary-thread", ex)


def main(tier, seed, replay=None):
    ck = Check("C09", tier, seed)
    ck.assumptions += [
        "each shared access of the pool (lock acquire/release, event set/clear/is_set/wait, attribute read/write between them) is one atomic step (GIL); the scheduler preempts at every synchronisation call and, with a budget, at every executed line of gateway_base.py",
        "virtual clock: timed waits expire only when no thread can run",
        "main_thread_only pools with a primary thread are driven by the gateway's submission protocol (next spawn only after the previous task's function returned)",
    ]
    ok = ck.prepare()
    rng = ck.rng
    runs = []
    if replay and replay["example"].get("prog"):
        ex = replay["example"]
        runs.append((ex["prog"], ex["schedule"], ex.get("line_budget", 0), 0))
    elif not replay:
        nprog = 120 if tier == "quick" else 1500
        nsched = 12 if tier == "quick" else 60
        for _ in range(nprog):
            prog = gen_program(rng)
            for k in range(nsched):
                runs.append((prog, None, rng.choice([0, 0, 3, 6]), rng.getrandbits(32)))
    nruns = 0
    for prog, schedule, lb, sd in runs:
        r = random.Random(sd)
        chooser = S.ReplayChooser(schedule) if schedule is not None else (S.PCTChooser(r, depth=rng.choice([2, 3, 4]), est_steps=120) if sd % 4 == 0 else S.RandomChooser(r, line_p=0.15))
        out = run_program(prog, chooser, lb)
        nruns += 1
        ex = {"prog": prog, "schedule": out["schedule"], "line_budget": lb, "outcome": {k: out[k] for k in ("result", "accepted", "refused", "errored", "runs", "waitres", "getres", "primary_exited", "shut", "running_left", "deadlock", "clock")}}
        ck.case(("p", repr(prog), tuple(out["schedule"])), nontrivial=len(out["schedule"]) > 2)
        ck.count("runs_" + prog["backend"] + ("_primary" if prog["hasprimary"] else "_noprimary"))
        ck.count("result_" + str(out["result"]))
        if nruns % 397 == 1:
            ck.sample(ex)
        check_run(ck, prog, out, ex)
    if ck.broken and not ck.failures and not replay:
        # an obligation / correspondence no longer checks: search harder for a concrete failing schedule
        # (more line-level preemptions, programs with waitall callers and several tasks)
        found = False
        for k in range(6000):
            prog = gen_program(rng)
            prog["waiters"] = max(prog["waiters"], 1)
            prog["shutdown_after"] = None
            if sum(prog["spawners"]) < 2:
                prog["spawners"] = [2] if prog["backend"] == "main_thread_only" and prog["hasprimary"] else [1, 1]
            r = random.Random(rng.getrandbits(32))
            chooser = S.RandomChooser(r, line_p=0.3) if k % 2 else S.PCTChooser(r, depth=5, est_steps=200)
            out = run_program(prog, chooser, 10)
            nruns += 1
            ex = {"prog": prog, "schedule": out["schedule"], "line_budget": 10, "outcome": {k2: out[k2] for k2 in ("result", "accepted", "refused", "errored", "runs", "waitres", "getres", "primary_exited", "shut", "running_left", "deadlock", "clock")}}
            ck.case(("search", repr(prog), tuple(out["schedule"])), nontrivial=True)
            check_run(ck, prog, out, ex)
            if ck.failures:
                break
        ck.count("escalated_search_runs", k + 1)
    ck.cov["traces_validated_against_impl"] = nruns
    ck.cov["programs"] = len({repr(p) for p, _, _, _ in runs})
    try:
        from props import c09_model

        c09_model.trace_inclusion(ck, ok, tier, replay)
    except ImportError:
        pass
    return ck.finish(rule="generated pool programs (thread / main_thread_only, with and without an integrated primary thread, 1-3 spawner threads of 1-3 tasks, optional trigger_shutdown free-running or right after the k-th accepted spawn, 0-2 waitall callers with and without time-out, 0-3 threads blocked in get()/waitfinish() of each reply from the moment it is accepted, yielding and failing tasks) x random / PCT schedules at synchronisation points and with 3 or 6 line-level preemptions. distinct = distinct (program, schedule); non-trivial = more than two scheduling decisions.")
