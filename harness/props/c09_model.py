"""C09: trace inclusion -- every outcome observed on the real WorkerPool under the scheduler must be a
terminal outcome of the Coq LTS (model/Pool.v), whose outcomes are enumerated exhaustively (all
interleavings) by the extracted model for each small program."""
from __future__ import annotations

import random

from evh.common import Model
from evh import sched as S
from props.c09 import run_program

PROGS = [
    # backend, hasprimary, spawners, shutdown, waiters(timed flags)
    ("thread", True, [1], True, [False]),
    ("thread", True, [2], True, []),
    ("thread", True, [1, 1], True, []),
    ("thread", True, [2], False, [True]),
    ("thread", False, [2], True, [False]),
    ("thread", False, [1, 1], False, [True]),
    ("main_thread_only", True, [2], True, []),
    ("main_thread_only", True, [2], True, [True]),
    ("main_thread_only", True, [3], False, [False]),
    ("main_thread_only", False, [2], True, [False]),
]


def impl_outcome(prog, out):
    acc = sorted(out["accepted"])
    ref = sorted(out["refused"])
    started = sorted(t for t, n in out["runs"].items() for _ in range(n))
    res_by_waiter = []
    nw = prog["waiters"]
    got = out["waitres"]
    # waiters append in completion order; blocked ones never append
    vals = sorted((1 if w["res"] else 0) for w in got)
    res_by_waiter = vals + [2] * (nw - len(vals))
    prim = 2 if not prog["hasprimary"] else (1 if out["primary_exited"] else 0)
    return (tuple(acc), tuple(ref), tuple(started), tuple(sorted(res_by_waiter)), prim, int(out["shut"]), out["running_left"])


def model_outcomes(raw):
    complete, nstates, nterms = raw[0], raw[1], raw[2]
    i, outs = 3, set()

    def lst():
        nonlocal i
        n = raw[i]
        v = raw[i + 1:i + 1 + n]
        i += 1 + n
        return v

    for _ in range(nterms):
        ln = raw[i]
        i += 1
        end = i + ln
        acc, ref, st, fin = lst(), lst(), lst(), lst()
        nw = raw[i]
        ws = raw[i + 1:i + 1 + nw]
        i += 1 + nw
        prim, shut, nrun = raw[i], raw[i + 1], raw[i + 2]
        i = end
        outs.add((tuple(sorted(acc)), tuple(sorted(ref)), tuple(sorted(st)), tuple(sorted(ws)), prim, shut, nrun))
    return bool(complete), nstates, outs


def trace_inclusion(ck, model_ok, tier, replay):
    if replay or not model_ok:
        return
    rng = ck.rng
    cases = []
    for backend, hasprim, spawners, shutdown, waiters in PROGS:
        progs = []
        for si, n in enumerate(spawners):
            progs.append([si * 100 + j for j in range(n)])
        mto = backend == "main_thread_only"
        c = [9, 0, int(mto), 0, 0, int(mto and hasprim), int(hasprim), int(shutdown), len(waiters)] + [int(t) for t in waiters] + [len(progs)]
        for p in progs:
            c += [len(p)] + p
        cases.append(c)
    try:
        outs = Model().run(cases, timeout=900)
    except Exception as e:  # noqa
        ck.broke("correspondence", "modelrun-pool-explore", repr(e))
        return
    nruns = 0
    states = 0
    for (backend, hasprim, spawners, shutdown, waiters), raw in zip(PROGS, outs):
        complete, nstates, allowed = model_outcomes(raw)
        states += nstates
        if not complete:
            ck.broke("correspondence", "pool-model-exploration-incomplete", {"prog": [backend, hasprim, spawners, shutdown, waiters], "states": nstates})
            continue
        # finite check on the model itself: in every terminal outcome of every interleaving each accepted task started exactly once
        for o in allowed:
            if tuple(o[0]) != tuple(o[2]) or (o[5] and o[4] == 0) or o[6] != 0 or 2 in o[3]:
                if not (2 in o[3] and not o[5] and False):
                    ck.broke("obligation", "pool-model-terminal-outcome-violates-property", {"prog": [backend, hasprim, spawners, shutdown, waiters], "outcome": o})
                    break
        prog = {"backend": backend, "hasprimary": hasprim, "spawners": spawners, "shutdown": shutdown, "shutdown_after": None,
                "waiters": len(waiters), "waiter_timeout": None, "task_yields": True, "failing_task": False}
        # per-waiter time-outs: all timed or all untimed in these programs
        prog["waiter_timeout"] = 5.0 if (waiters and waiters[0]) else None
        for k in range(60 if tier == "quick" else 1500):
            r = random.Random(rng.getrandbits(32))
            chooser = S.PCTChooser(r, depth=r.choice([2, 3, 4]), est_steps=100) if k % 3 == 0 else S.RandomChooser(r, line_p=0.2)
            out = run_program(prog, chooser, r.choice([0, 0, 4]))
            nruns += 1
            if out["result"] not in ("ok", "deadlock"):
                continue
            obs = impl_outcome(prog, out)
            ck.case(("incl", backend, hasprim, tuple(spawners), shutdown, tuple(waiters), tuple(out["schedule"])), nontrivial=True)
            if obs not in allowed:
                ck.broke("correspondence", "pool-outcome-not-in-model", {"prog": prog, "schedule": out["schedule"], "observed": obs, "allowed_sample": sorted(allowed)[:3], "n_allowed": len(allowed)})
    ck.cov["states"] = states
    ck.cov["transitions"] = states
    ck.cov["traces_validated_against_impl"] = ck.cov.get("traces_validated_against_impl", 0) + nruns
    ck.count("pool_inclusion_runs", nruns)
    ck.count("pool_model_states_explored", states)
