"""C10 -- channel-layer property: obligations (coq/props/C10.v) + generated programs on the real gateway pair."""
from __future__ import annotations

from props import chan_common as CC

ASSUMPTIONS = ['each shared access between two synchronisation calls is atomic (GIL); the scheduler preempts at every Lock/Event/Queue/pipe operation and, with a budget, at every executed line of execnet', 'both gateways run in one process over scripted pipes (reliable FIFO, oracle-chosen read chunking); exec of worker scripts is real', 'virtual clock: timed waits expire only when no thread can run']


def main(tier, seed, replay=None):
    ck, ok = CC.run_property("C10", tier, seed, replay, ['produce', 'produce', 'produce_raise', 'consume', 'callback_readopted'], lambda s: s.startswith(('callback-items-differ', 'callback-readopted', 'callback-endmarker', 'receive-after-setcallback', 'endmarker-never-delivered', 'multichannel-')), None, ASSUMPTIONS, extra=EXTRA)
    try:
        from props import chan_model

        chan_model.correspondence(ck, ok, "C10", tier, replay)
        chan_model.multichannel_queue(ck, tier, replay)
        loss_during_replay(ck, tier, replay)
        if not replay:
            gevent_replay(ck, tier)
    except ImportError:
        pass
    return ck.finish(rule='programs whose initiator side installs a callback with endmarker before, between and after the arrival of the items and of the close (early and late setcallback), ending by normal end of the remote_exec or by a remote error; conversations in which the channel object of the callback is dropped and the peer hands the channel back inside an item (a new object for the same id, kept or dropped) while more items follow; random/PCT schedules with line-level preemption; a real gevent worker whose yielding callback replays queued items while more arrive.')


W_GEVENT_REPLAY = """
import gevent
got = []
def cb(x):
    got.append(x)
    gevent.sleep(0.08)                    # the callback yields to the hub: the receiver greenlet may run meanwhile
data = channel.receive()                  # the channel whose items are handed over
channel.receive()                         # "queued": %(k)d items lie in its queue now
data.setcallback(cb, endmarker="END")     # replays the queued items, %(k)d * 0.08 s; more items arrive during that time
deadline = 200
while "END" not in got and deadline:
    gevent.sleep(0.05)
    deadline -= 1
channel.send(got)
"""


def gevent_replay(ck, tier):
    """a REAL worker in the gevent execution model: setcallback replays queued items through a callback that yields to the hub while
    further items arrive -- the receive lock has to hold the receiver greenlet off until the hand-over is complete"""
    import time

    import execnet
    from props import xport as X

    try:
        import gevent  # noqa
    except ImportError:
        ck.count("gevent_not_installed")
        return
    for k, later in ((3, 2), (5, 3)) if tier == "quick" else ((1, 1), (3, 2), (5, 3), (8, 5), (4, 0)):
        ex = {"queued": k, "sent_during_replay": later}
        ck.case(("gevent-replay", k, later), nontrivial=True)
        ck.count("gevent_replay_runs")
        st, gw = X.with_timeout(lambda: execnet.makegateway("popen//execmodel=gevent"), 40)
        if st != "ok":
            ck.broke("correspondence", "gevent-worker-does-not-start", repr(gw)[:200])
            return
        try:
            ch = gw.remote_exec(W_GEVENT_REPLAY % {"k": k})
            data = gw.newchannel()
            ch.send(data)
            for i in range(k):
                data.send(i)
            time.sleep(0.3)
            ch.send("queued")
            time.sleep(0.1)                       # the replay is under way (k * 0.08 s)
            for i in range(k, k + later):
                data.send(i)
                time.sleep(0.02)
            time.sleep(0.08 * k + 0.3)
            data.send("stop")
            data.close()
            got = ch.receive(30)
            want = list(range(k + later)) + ["stop", "END"]
            if got != want:
                ck.fail("callback-items-differ:gevent-worker-replay", {**ex, "got": repr(got)[:200]})
        except Exception as e:  # noqa
            ck.fail("callback-items-differ:gevent-worker-replay:" + type(e).__name__, {**ex, "error": repr(e)[:200]})
        finally:
            gw.exit()
            X.with_timeout(lambda: gw.join(5), 10)


def loss_during_replay(ck, tier, replay=None):
    """the connection is lost while setcallback hands over already queued items (late setcallback) or while the callback works off
    arriving ones: whatever the cut point and the schedule, the callback sees a prefix of the items in order and then the endmarker,
    exactly once and last"""
    import random

    from evh import sched as S

    if replay and not (replay.get("signature") or "").startswith("callback-endmarker-not-last-under-loss"):
        return
    rng = random.Random(ck.seed * 7 + 3)
    jobs = []
    if replay:
        e = replay["example"]
        jobs.append((e["prog"], e["seed"], e["cut"], e["schedule"], e.get("line_budget", 0)))
    else:
        for mode in ("callback_late", "callback_mid", "callback"):
            prog = [{"kind": "produce", "tag": "t0", "items": list(range(5)), "consume": mode}]
            base = CC.run_program(prog, S.RandomChooser(random.Random(1)), 1)
            total = base["w2i_total"]
            for k in sorted(set(range(max(0, total - 40), total, 2)) | {rng.randrange(total) for _ in range(6)}):
                for _ in range(2 if tier == "quick" else 12):
                    jobs.append((prog, rng.getrandbits(30), k, None, rng.choice([0, 8, 16])))
    if not replay and ck.broken and not ck.failures:
        # an obligation broke and nothing failed yet: one targeted preemption at every line of the changed functions, with the stream
        # cut inside the items that arrive while the callback is being installed
        from evh.common import changed_lines

        prog = [{"kind": "produce", "tag": "t0", "items": list(range(5)), "consume": "callback_mid"}]
        base = CC.run_program(prog, S.RandomChooser(random.Random(1)), 1)
        total = base["w2i_total"]
        for where in changed_lines(ck.build_info):
            # cuts inside the FIRST frame that follows the queued items: a complete frame would make the receiver thread wait for the
            # receive lock (held during the hand-over) instead of reaching the end of the stream
            for k in range(max(0, total - 56), max(1, total - 30), 4):
                for nth in (1, 2):
                    jobs.append((prog, rng.getrandbits(30), k, ("demote", where, nth), 10 ** 6))
        ck.count("loss_during_replay_targeted", len(jobs))
    for prog, sd, k, schedule, lb in jobs:
        if ck.failures and isinstance(schedule, tuple):
            break
        if isinstance(schedule, tuple) and schedule[0] == "demote":
            chooser = S.DemoteAtLine(schedule[1], schedule[2], random.Random(sd))
        else:
            chooser = S.ReplayChooser(schedule) if schedule is not None else S.RandomChooser(random.Random(sd), line_p=0.3)
        out = CC.run_program(prog, chooser, sd, cut_w2i=k, cut_both=bool(sd % 2), line_budget=lb)
        ck.case(("loss-during-replay", prog[0]["consume"], k, tuple(out["schedule"][:60])), nontrivial=True)
        ck.count("loss_during_replay_runs")
        o = out["obs"].get(0) or {}
        got = list(o.get("got") or [])
        END = ("END",)
        items = [x for x in got if x != END and x != list(END)]
        ends = [i for i, x in enumerate(got) if x == END or x == list(END)]
        if out["result"] != "stop" or "id" not in o:
            continue
        if items != list(range(len(items))) or len(ends) != 1 or ends[0] != len(got) - 1:
            ck.fail("callback-endmarker-not-last-under-loss:" + prog[0]["consume"], {"prog": prog, "seed": sd, "cut": k, "schedule": out["schedule"], "line_budget": lb, "callback_calls": [str(x) for x in got]})


EXTRA = None
