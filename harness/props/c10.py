"""C10 -- channel-layer property: obligations (coq/props/C10.v) + generated programs on the real gateway pair."""
from __future__ import annotations

from props import chan_common as CC

ASSUMPTIONS = ['each shared access between two synchronisation calls is atomic (GIL); the scheduler preempts at every Lock/Event/Queue/pipe operation and, with a budget, at every executed line of execnet', 'both gateways run in one process over scripted pipes (reliable FIFO, oracle-chosen read chunking); exec of worker scripts is real', 'virtual clock: timed waits expire only when no thread can run']


def main(tier, seed, replay=None):
    ck, ok = CC.run_property("C10", tier, seed, replay, ['produce', 'produce', 'produce_raise', 'consume'], lambda s: s.startswith(('callback-items-differ', 'callback-endmarker', 'receive-after-setcallback', 'endmarker-never-delivered', 'multichannel-')), None, ASSUMPTIONS, extra=EXTRA)
    try:
        from props import chan_model

        chan_model.correspondence(ck, ok, "C10", tier, replay)
        chan_model.multichannel_queue(ck, tier, replay)
    except ImportError:
        pass
    return ck.finish(rule='programs whose initiator side installs a callback with endmarker before, between and after the arrival of the items and of the close (early and late setcallback), ending by normal end of the remote_exec or by a remote error; random/PCT schedules with line-level preemption.')


EXTRA = None
