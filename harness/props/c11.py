"""C11 -- workers never outlive their initiator.
Real processes: an initiating process starts workers with a generated activity and is SIGKILLed (or exits, or closes
the connection) at a generated moment; every worker pid must be gone within t1 + t2 + slack, and the observed time is
compared with the exit_time the Coq ladder model predicts for that activity (0 / t1 / t1 + t2 branches)."""
from __future__ import annotations

import os
import random
import shutil
import signal
import subprocess
import sys
import tempfile
import threading
import time

from evh.common import Check, Model, REPO_SRC

SLACK = 5.0


def pid_alive(pid):
    try:
        os.kill(pid, 0)
    except OSError:
        return False
    try:
        with open("/proc/%d/stat" % pid) as f:
            return f.read().split(")")[-1].split()[0] != "Z"
    except OSError:
        return False


# what the Coq model predicts for each activity: tasks as (ends | None, in_main, swallows)
PREDICT = {
    "idle": [],
    "blocked": [(0, 1, 0)],          # receive() ends with EOFError at once
    "busy": [(None, 1, 0)],
    "sleeping": [(None, 1, 0)],
    "swallow": [(None, 1, 1)],
    "swallow_nostdio": [(None, 1, 1)],
    "threads": [(0, 1, 0)],          # the body blocks in receive(); its daemon threads do not count
    "nonmain_busy": [(0, 1, 0), (None, 0, 0)],
    "lockholder": [(None, 1, 0)],    # sleeping in a callback while holding the receive lock; the interrupt unwinds it
    "lockholder_inflight": [(None, 1, 0)],   # as lockholder, with one more message read by the receiver thread: it waits for the lock and never sees EOF
    "main_idle_other_blocked": [(0, 0, 0)],   # a body outside the main thread that ends at once with EOFError; the main thread is idle in serve()
    "transfer": [(0, 1, 0)],         # send raises OSError once the connection is gone
    "endmarker_raiser": [(None, 1, 0)],   # a callback that raises when it is handed its endmarker by the epilogue; the body sleeps
    "inbound_transfer": [(0, 1, 0)], # receive() raises EOFError when the connection ends, also in the middle of a message
    "callback_sysexit": [(0, 1, 0)], # a callback raised SystemExit in the receiver thread; the body blocks in receive()
    "nondaemon_thread": [],          # the body has ended; a non-daemon thread started by it remains (outside the pool: not modelled)
    "sender": [(0, 1, 0)],           # a stream of small items: unflushed bytes stay in the write buffer when the peer dies
    "sender_swallow": [(0, 1, 0)],
}



# ------------------------------------------------------------------ the ladder under the virtual clock
VBODY = "import evh.pair as _p\n_p.CURRENT.body(channel, %d)\n"


def run_ladder(tasks, backend, seed):
    """tasks: list of (ends | None, swallows) -- task 0 runs in the worker's main thread (the pool's primary thread), the
    others in pool threads.  The REAL WorkerGateway (serve, receiver thread with its epilogue, _terminate_execution,
    WorkerPool) runs in the in-process pair; SIGINT is modelled by an asynchronous KeyboardInterrupt delivered to the
    worker's main thread at its next scheduling point; os._exit is recorded.  Returns the exit time after EOF."""
    import random as _r
    from evh import sched as S
    from evh import pair as P

    sc = S.Sched(S.RandomChooser(_r.Random(seed)), max_steps=1500000)
    pr = P.Pair(sc, remote_backend=backend, seed=seed)
    P.CURRENT = pr
    t_eof = [None]
    started = []
    ended = {}

    def body(channel, k):
        ends, swallows = tasks[k]
        started.append(k)
        while 1:
            try:
                while 1:
                    if ends is not None and t_eof[0] is not None and sc.clock >= t_eof[0] + ends - 1e-9:
                        ended[k] = sc.clock
                        return
                    pr.em_w.sleep(0.25)
            except KeyboardInterrupt:
                if not swallows:
                    raise

    pr.body = body
    rec_kill = pr.gb.os.kill

    def kill(pid, sig):
        rec_kill(pid, sig)
        sc.interrupt(pr.worker_main, KeyboardInterrupt())

    pr.gb.os.kill = kill
    res = {}

    def user():
        for k in range(len(tasks)):
            pr.gw.remote_exec(VBODY % k)
            pr.em_i.sleep(0.3)
        pr.em_i.sleep(1.0)
        t_eof[0] = sc.clock
        pr.i2w.closed = True            # the initiator is gone: the worker reads EOF
        pr.w2i.reader_closed = True
        for _ in range(200):
            pr.em_i.sleep(0.125)
            ex = [e for e in pr.events if e[0] == "_exit"]
            if ex:
                res["exit"] = ex[0][2] - t_eof[0]
                res["how"] = "os._exit"
                break
            if pr.serve_returned:
                res["exit"] = getattr(pr, "serve_returned_at", sc.clock) - t_eof[0]
                res["how"] = "serve returned"
                break
        sc.stop()

    orig_serve = pr._serve

    sc.spawn(user, name="user")
    try:
        r = sc.run(timeout=120)
    finally:
        pr.restore()
    res["result"] = r
    res["started"] = started
    res["events"] = [list(e) for e in pr.events]
    return res


def virtual_layer(ck, ok, tier, rng):
    if not ok:
        return
    cases = []
    for _ in range(40 if tier == "quick" else 800):
        backend = rng.choice(["thread", "thread", "main_thread_only"])
        n = rng.choice([0, 1, 1, 2, 3]) if backend == "thread" else rng.choice([0, 1])
        tasks = [(rng.choice([None, None, 0, 2, 4, 7, 12]), rng.random() < 0.4) for _ in range(n)]
        cases.append((tasks, backend, rng.getrandbits(30)))
    try:
        mouts = Model().run([[11] + [x for k, (e, sw) in enumerate(t) for x in (-1 if e is None else e, 1 if k == 0 else 0, int(sw))] for t, _, _ in cases])
    except Exception as e:  # noqa
        ck.broke("correspondence", "modelrun-ladder", repr(e))
        return
    bad = 0
    for (tasks, backend, sd), mo in zip(cases, mouts):
        out = run_ladder(tasks, backend, sd)
        ex = {"tasks_ends_swallows": tasks, "backend": backend, "seed": sd, "impl": {k: out.get(k) for k in ("exit", "how", "result", "started")}, "model_exit": mo[0]}
        ck.case(("ladder", repr(tasks), backend), nontrivial=bool(tasks))
        ck.count("ladder_" + backend)
        if out.get("exit") is None:
            ck.fail("virtual-worker-never-exits", ex)
            continue
        if out["exit"] > 15 + 0.5:
            ck.fail("virtual-worker-exits-after-t1+t2", ex)
        if abs(out["exit"] - mo[0]) > 0.6:
            bad += 1
            if bad <= 3:
                ck.broke("correspondence", "ladder-model-vs-virtual-worker", ex)
    ck.cov["ladder_virtual_cases"] = len(cases)
    ck.cov["ladder_virtual_mismatches"] = bad


def main(tier, seed, replay=None):
    ck = Check("C11", tier, seed)
    ck.assumptions += [
        "A-eof: the initiator's death closes its ends of the connection, so the worker's receiver reads EOF",
        "A-sigint: SIGINT raises KeyboardInterrupt in the worker's main thread (the initiating process is started with the default SIGINT disposition: a worker that inherits SIG_IGN, e.g. from a background shell job, only has the t1 + t2 bound); A-exit: os._exit ends the process; threads started by the pool do not keep the interpreter alive once serve() returns",
        "A-gil: the receiver thread gets scheduled while other threads compute",
        "real layer: bounds are t1 + t2 + %.0f s slack on a loaded 16-core sandbox" % SLACK,
    ]
    ok = ck.prepare(need_model=True)
    rng = ck.rng
    virtual_layer(ck, ok, tier, rng)
    real_layer(ck, tier, rng)
    return ck.finish(rule="real processes: an initiating process (own interpreter) starts 1-2 popen workers (thread / main_thread_only) with one of 18 activities (idle, blocked in receive, busy loop, sleeping, swallowing KeyboardInterrupt, the same with the worker's standard streams closed, extra daemon threads, a busy body outside the main thread, a callback sleeping while it holds the receive lock, an endless 1 MB transfer, an endless stream of small items with and without swallowing interrupts) and is SIGKILLed / exits / closes the connection / calls Gateway.exit() and exits after the workers reported their pids; every worker pid must be gone after t1 + t2 + slack. distinct = (activity, how, execmodel, workers).")


def real_layer(ck, tier, rng):
    acts = ["idle", "blocked", "busy", "sleeping", "swallow", "swallow_nostdio", "threads", "nonmain_busy", "lockholder", "transfer", "sender", "sender_swallow", "endmarker_raiser", "callback_sysexit", "nondaemon_thread", "inbound_transfer", "lockholder_inflight", "main_idle_other_blocked"]
    hows = ["kill", "kill", "exit", "close", "gwexit"]
    jobs = []
    if tier == "quick":
        for a in acts:
            jobs.append((a, rng.choice(hows), 1, rng.choice(["thread", "main_thread_only"]) if a not in ("nonmain_busy", "main_idle_other_blocked") else "thread"))
        # the orderly end (Gateway.exit(), then the initiator is gone) against bodies that survive the interrupt
        jobs.append(("swallow", "gwexit", 1, rng.choice(["thread", "main_thread_only"])))
        jobs.append((rng.choice(["sender_swallow", "busy", "blocked"]), "gwexit", 1, rng.choice(["thread", "main_thread_only"])))
    else:
        for a in acts:
            for h in ("kill", "exit", "close", "gwexit"):
                for em in ("thread", "main_thread_only"):
                    if a in ("nonmain_busy", "main_idle_other_blocked") and em != "thread":
                        continue
                    jobs.append((a, h, rng.choice([1, 2]), em))
    scratch = tempfile.mkdtemp(prefix="evh11-", dir="/var/tmp")
    helper = os.path.join(os.path.dirname(os.path.abspath(__file__)), "c11_initiator.py")
    results = []
    lock = threading.Lock()

    def one(i, job):
        a, how, n, em = job
        out = os.path.join(scratch, "pids%d" % i)
        env = dict(os.environ)
        env["PYTHONPATH"] = REPO_SRC
        p = subprocess.Popen([sys.executable, helper, out, a, how, str(n), em], env=env, stdout=subprocess.DEVNULL, stderr=subprocess.PIPE,
                             preexec_fn=lambda: signal.signal(signal.SIGINT, signal.SIG_DFL))   # a background shell job would hand down SIG_IGN
        t0 = time.time()
        while not os.path.exists(out) and time.time() - t0 < 30 and p.poll() is None:
            time.sleep(0.05)
        if not os.path.exists(out):
            err = b""
            try:
                p.kill()
                err = p.stderr.read()[-300:]
            except Exception:  # noqa
                pass
            with lock:
                results.append((job, None, "initiator-did-not-start:" + err.decode("utf-8", "replace")))
            return
        pids = list(map(int, open(out).read().split()))
        time.sleep(rng.choice([0.0, 0.1, 0.5]))
        tk = time.time()
        if how == "kill":
            p.send_signal(signal.SIGKILL)
        deadline = tk + 15 + SLACK + (1.0 if how != "kill" else 0)
        gone_at = None
        while time.time() < deadline:
            if not any(pid_alive(x) for x in pids):
                gone_at = time.time() - tk
                break
            time.sleep(0.1)
        left = [x for x in pids if pid_alive(x)]
        for x in left:
            try:
                os.kill(x, signal.SIGKILL)
            except OSError:
                pass
        try:
            p.kill()
            p.wait(5)
        except Exception:  # noqa
            pass
        with lock:
            results.append((job, gone_at, left))

    ths = [threading.Thread(target=one, args=(i, j)) for i, j in enumerate(jobs)]
    batch = 12
    for s in range(0, len(ths), batch):
        for t in ths[s:s + batch]:
            t.start()
        for t in ths[s:s + batch]:
            t.join()
    shutil.rmtree(scratch, ignore_errors=True)
    for job, gone_at, left in results:
        a, how, n, em = job
        ex = {"activity": a, "how": how, "workers": n, "execmodel": em, "gone_after_s": gone_at}
        ck.case(("real", a, how, n, em), nontrivial=True)
        ck.count("real_" + a)
        if gone_at is None and isinstance(left, str):
            ck.broke("correspondence", "c11-" + left[:60], ex)
            continue
        if left:
            ck.fail("worker-outlives-its-initiator:%s:%s%s" % (a, em, ":after-gateway-exit" if how == "gwexit" else ""), {**ex, "pids_left": left})
        ck.sample(ex)
    # the ladder model's prediction for every scenario
    try:
        mouts = Model().run([[11] + [x for (e, m, sw) in PREDICT[j[0]] for x in (-1 if e is None else e, m, sw)] for j, _, _ in results])
        # execmodel thread: a body that arrives while the primary thread is still finishing the previous task (here: _rinfo) runs in
        # a thread of its own -- both placements are behaviours of the code, the model predicts each
        mouts_alt = Model().run([[11] + [x for (e, m, sw) in PREDICT[j[0]] for x in (-1 if e is None else e, 0, sw)] for j, _, _ in results])
    except Exception as e:  # noqa
        ck.broke("correspondence", "modelrun-ladder", repr(e))
        mouts = None
    lad_never = {}
    if mouts:
        try:
            for a_ in ("sender", "sender_swallow", "transfer"):
                for m_ in (1, 0):
                    lad_never[(a_, m_)] = Model().run([[11] + [x for (e, m, sw) in PREDICT[a_] for x in (-1, m_, sw if a_ != "sender_swallow" else 1)]])[0][0]
        except Exception as e:  # noqa
            ck.broke("correspondence", "modelrun-ladder", repr(e))
        for (job, gone_at, left), mo, mo_alt in zip(results, mouts, mouts_alt):
            if gone_at is None or isinstance(left, str):
                continue
            pred = mo[0]
            # exit / close happen in the helper right after it published the pids, up to 0.6 s BEFORE the clock of this side starts
            fits = lambda pr: pr - 0.5 - (0.7 if job[1] != "kill" else 0) <= gone_at <= pr + 2.5 + (1.0 if job[1] != "kill" else 0)  # noqa
            if job[3] == "thread" and not fits(pred) and fits(mo_alt[0]):
                pred = mo_alt[0]
                ck.count("ladder_body_outside_main_thread")
            if job[1] == "close" and job[0] in ("sender", "sender_swallow", "transfer") and not fits(pred):
                # `close`: the helper closes its read side from a thread that competes with its own receiver thread for the
                # buffered reader; until it wins, the worker's sends still succeed and the body ends through the ladder instead
                for alt in (lad_never.get((job[0], 1)), lad_never.get((job[0], 0))):
                    if alt is not None and fits(alt):
                        pred = alt
                        ck.count("ladder_sender_not_cut_off")
                        break
            if job[1] == "gwexit" and job[0] in ("sender", "sender_swallow", "transfer") and not fits(pred):
                # Gateway.exit() while the body streams items: when its send fails depends on how long the exiting initiator still
                # drains its pipe and on the worker's own write buffering (2-7 s observed); the ladder model has no clock for that.
                # The property's bound (gone within 15 s) is checked above; only the model comparison is skipped
                ck.count("ladder_sender_after_gateway_exit_not_modelled")
                continue
            ck.count("ladder_branch_%ds" % pred)
            if not fits(pred):
                ck.broke("correspondence", "ladder-model-vs-real-process", {"activity": job[0], "how": job[1], "execmodel": job[3], "model_exit_s": pred, "observed_s": round(gone_at, 2)})
    ck.cov["real_scenarios"] = len(results)
    ck.cov["gone_after_s"] = {"%s/%s/%s" % (j[0], j[1], j[3]): (round(g, 2) if g is not None else None) for j, g, _ in results}
    ck.cov["traces_validated_against_impl"] = len(results)
