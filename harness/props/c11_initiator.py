"""helper: an initiating process that starts workers with a given activity, reports their pids, and is then killed
from outside (or exits / closes the connection itself).  argv: outfile activity how nworkers execmodel"""
import os
import sys
import time

import execnet

out, activity, how, n, em = sys.argv[1], sys.argv[2], sys.argv[3], int(sys.argv[4]), sys.argv[5]

ACT = {
    "idle": "",
    "blocked": "channel.receive()",
    "busy": "x = 0\nwhile 1:\n    x += 1",
    "sleeping": "import time\ntime.sleep(1000)",
    "swallow": "import time\nwhile 1:\n    try:\n        while 1:\n            time.sleep(0.05)\n    except KeyboardInterrupt:\n        pass",
    # the same with the worker's standard streams gone (closed / None / write-only): nothing on the way to os._exit may need them
    "swallow_nostdio": "import sys, os, time\nsys.stderr.close()\nsys.stdout = None\nos.close(2)\nwhile 1:\n    try:\n        while 1:\n            time.sleep(0.05)\n    except KeyboardInterrupt:\n        pass",
    "threads": "import threading, time\nfor i in range(3):\n    t = threading.Thread(target=time.sleep, args=(1000,))\n    t.daemon = True\n    t.start()\nchannel.receive()",
    "nonmain_busy": "import time\nchannel.send('started')\ntime.sleep(1000)",
    "lockholder": "import time\nc = channel.gateway.newchannel()\nchannel.send(c)\nwhile c._items.qsize() == 0:\n    time.sleep(0.01)\nc.setcallback(lambda x: time.sleep(1000))",
    "lockholder_inflight": "import time\nc = channel.gateway.newchannel()\nchannel.send(c)\nwhile c._items.qsize() == 0:\n    time.sleep(0.01)\nc.setcallback(lambda x: time.sleep(1000))",
    "main_idle_other_blocked": "channel.send('started')\nchannel.receive()",   # runs in a second thread; the main thread's body has ended meanwhile
    "transfer": "data = b'x' * (1 << 20)\nwhile 1:\n    channel.send(data)",
    "endmarker_raiser": "import time\ndef cb(x):\n    if x == 'END':\n        raise ValueError('callback fails on its endmarker')\nc = channel.gateway.newchannel()\nc.setcallback(cb, endmarker='END')\nchannel.send(c)\ntime.sleep(1000)",
    "callback_sysexit": "def cb(x):\n    raise SystemExit(3)\nc = channel.gateway.newchannel()\nc.setcallback(cb)\nchannel.send(c)\nchannel.receive()",
    "nondaemon_thread": "import threading, time\nthreading.Thread(target=time.sleep, args=(1000,)).start()\nchannel.send('started')",
    "inbound_transfer": "while 1:\n    channel.receive()",     # the initiator dies in the middle of a large message to this worker
    "sender": "n = 0\nwhile True:\n    channel.send(n)\n    n += 1",
    "sender_swallow": "n = 0\nwhile True:\n    try:\n        channel.send(n)\n        n += 1\n    except OSError:\n        break\n    except KeyboardInterrupt:\n        pass",
}

pids = []
gws = []
for i in range(n):
    gw = execnet.makegateway("popen//execmodel=%s" % em)
    gws.append(gw)
    pids.append(gw._rinfo().pid)
chans = []
for gw in gws:
    if activity == "main_idle_other_blocked":
        # the first body occupies the main thread until the second one runs in a thread of its own, then it ends: main thread idle again
        c0 = gw.remote_exec("channel.receive()")
        ch = gw.remote_exec(ACT[activity])
        ch.receive(10)
        c0.send(None)
        c0.waitclose(10)
        chans.append(ch)
        continue
    if activity == "nonmain_busy":
        # two bodies: the first occupies the main thread harmlessly, the second runs in another thread
        c0 = gw.remote_exec("channel.receive()")
        chans.append(c0)
    if ACT[activity]:
        ch = gw.remote_exec(ACT[activity])
        chans.append(ch)
        if activity == "lockholder":
            sub = ch.receive(10)
            sub.send(1)
            chans.append(sub)
        if activity == "lockholder_inflight":
            sub = ch.receive(10)
            sub.send(1)
            time.sleep(0.6)          # the worker's body is inside the replay, holding the receive lock
            sub.send(2)              # the worker's receiver thread reads this one and waits for the lock
            chans.append(sub)
        if activity == "endmarker_raiser":
            chans.append(ch.receive(10))
        if activity == "inbound_transfer":
            import threading

            def flood(ch=ch):
                data = b"x" * (8 << 20)
                while 1:
                    ch.send(data)

            threading.Thread(target=flood, daemon=True).start()
        if activity == "callback_sysexit":
            sub = ch.receive(10)
            sub.send(1)              # the worker's callback raises SystemExit in its receiver thread
            chans.append(sub)
        if activity == "nondaemon_thread":
            ch.receive(10)           # the body has ended; a non-daemon thread of its own stays
time.sleep(0.4)
with open(out + ".tmp", "w") as f:
    f.write(" ".join(map(str, pids)))
os.rename(out + ".tmp", out)
if how == "exit":
    os._exit(0)          # the initiating process just goes away
if how == "gwexit":
    # the orderly way: Gateway.exit() sends GATEWAY_TERMINATE and closes the write side; then this process goes away without
    # waiting (no group.terminate(), nobody left to kill the workers)
    for gw in gws:
        gw.exit()
    time.sleep(0.2)
    os._exit(0)
if how == "close":
    import threading

    for gw in gws:
        gw._io.close_write()
    for gw in gws:
        # closing the read side waits for this process's own receiver thread, which sits in a read until the worker is gone:
        # not in line, or the next gateway's connection would stay open that long
        threading.Thread(target=gw._io.close_read, daemon=True).start()
    time.sleep(1000)
time.sleep(1000)         # how == "kill": wait to be SIGKILLed
