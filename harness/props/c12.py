"""C12 -- byte format is dump-format v2, legacy opcodes under the four coercion settings, version byte."""
from __future__ import annotations

import struct
import subprocess

from evh.common import Check, Model, REPO_SRC
from evh import codec as C
from props.c01 import impl_dumps, _Rd
from props.c13 import impl_loads
from evh.fakeio import stub_gateway


# ---- an independent reference encoder for LEGACY streams (what execnet on Python 2 wrote) --------
class Py2Str:
    def __init__(self, b):
        self.b = b


class Py2Unicode:
    def __init__(self, s):
        self.s = s


class Py2Long:
    def __init__(self, z):
        self.z = z


def i4(n):
    return struct.pack("!i", n)


def legacy_encode(v):
    if isinstance(v, Py2Str):
        return b"M" + i4(len(v.b)) + v.b
    if isinstance(v, Py2Unicode):
        u = v.s.encode("utf-8")
        return b"S" + i4(len(u)) + u
    if isinstance(v, Py2Long):
        if -2**31 <= v.z <= 2**31 - 1 and v.z % 2:
            return b"G" + i4(v.z)
        t = str(v.z).encode()
        return b"I" + i4(len(t)) + t
    if v is None:
        return b"L"
    if v is True:
        return b"R"
    if v is False:
        return b"C"
    if isinstance(v, int):
        return b"F" + i4(v)
    if isinstance(v, float):
        return b"D" + struct.pack("!d", v)
    if isinstance(v, str):  # a py3 str inside the stream
        u = v.encode("utf-8")
        return b"N" + i4(len(u)) + u
    if isinstance(v, list):
        return b"K" + i4(len(v)) + b"".join(b"F" + i4(i) + legacy_encode(x) + b"P" for i, x in enumerate(v))
    if isinstance(v, tuple):
        return b"".join(legacy_encode(x) for x in v) + b"@" + i4(len(v))
    if isinstance(v, dict):
        return b"J" + b"".join(legacy_encode(k) + legacy_encode(x) + b"P" for k, x in v.items())
    raise TypeError(v)


def legacy_expect(v, sc):
    """the documented result: PY2STRING -> latin-1 str if py2str_as_py3str else bytes; UNICODE -> str;
    PY3STRING -> bytes if py3str_as_py2str else str; LONG/LONGLONG -> int"""
    if isinstance(v, Py2Str):
        return ("str", v.b.decode("latin-1")) if sc[0] else ("bytes", v.b)
    if isinstance(v, Py2Unicode):
        return ("str", v.s)
    if isinstance(v, Py2Long):
        return ("int", v.z)
    if isinstance(v, str):
        return ("bytes", v.encode("utf-8")) if sc[1] else ("str", v)
    if isinstance(v, list):
        return ("list", tuple(legacy_expect(x, sc) for x in v))
    if isinstance(v, tuple):
        return ("tuple", tuple(legacy_expect(x, sc) for x in v))
    if isinstance(v, dict):
        return ("dict", tuple((legacy_expect(k, sc), legacy_expect(x, sc)) for k, x in v.items()))
    return C.canon(v)


def gen_legacy(rng, depth=2):
    r = rng.random()
    if r < 0.2:
        if rng.random() < 0.4:
            # bytes that happen to be well-formed UTF-8 (what a Python-2 program holding encoded text would send): still latin-1, byte for byte
            return Py2Str("".join(rng.choice(["a", "\u00e9", "\u6f22", "\U0001f600", "\u00ff", "\n"]) for _ in range(rng.choice([1, 2, 5]))).encode("utf-8"))
        return Py2Str(bytes(rng.choice([0x61, 0xe9, 0xff, 0x80, 0x0a, 0x00]) for _ in range(rng.choice([0, 1, 3, 8]))))
    if r < 0.35:
        return Py2Unicode(C.gen_str(rng))
    if r < 0.5:
        return Py2Long(rng.choice([0, 1, -1, 2**31 - 1, -2**31, 2**31, -2**31 - 1, 10**20, -10**30, rng.randint(-10**6, 10**6)]))
    if r < 0.6:
        return C.gen_str(rng)
    if r < 0.7 or depth <= 0:
        return rng.choice([None, True, False, 5, -7, 1.5])
    n = rng.randint(0, 3)
    if r < 0.8:
        return [gen_legacy(rng, depth - 1) for _ in range(n)]
    if r < 0.9:
        return tuple(gen_legacy(rng, depth - 1) for _ in range(n))
    d = {}
    for _ in range(n):
        k = rng.choice([Py2Unicode("k%d" % len(d)), 3 + len(d), "n%d" % len(d)])
        d[k] = gen_legacy(rng, depth - 1)
    return d


def other_interpreters(ck, vals):
    """thorough: the same values dumped by CPython 3.10, 3.11, 3.13 (stand-alone gateway_base.py) give the same bytes"""
    import glob
    import json

    prog = r"""
import sys, json
sys.path.insert(0, %r)
import importlib.util
spec = importlib.util.spec_from_file_location('gb', %r)
gb = importlib.util.module_from_spec(spec); spec.loader.exec_module(gb)
vals = eval(sys.stdin.read(), {'nan': float('nan'), 'inf': float('inf')})
print(json.dumps([gb.dumps(v).hex() for v in vals]))
""" % (REPO_SRC, REPO_SRC + "/execnet/gateway_base.py")
    src = repr(vals)
    want = [impl_dumps(v)[0].hex() for v in vals]
    for py in sorted(glob.glob("/root/.pyenv/versions/3.1[0-3]*/bin/python")):
        try:
            out = subprocess.run([py, "-c", prog], input=src, capture_output=True, text=True, timeout=120)
            got = json.loads(out.stdout)
        except Exception as e:  # noqa
            ck.count("other_interpreter_failed_to_run")
            continue
        ck.count("other_interpreters")
        for v, a, b in zip(vals, want, got):
            ck.case(("interp", py, a))
            if a != b:
                ck.fail("bytes-differ-between-interpreters", {"py": repr(v)[:200], "interp": py})


def main(tier, seed, replay=None):
    ck = Check("C12", tier, seed)
    ck.assumptions += [
        "the reference for 'dump format version 2' is model/CodecSpec.v (literal opcode letters and tables) plus the extracted Ser.save as reference encoder; legacy Python-2 streams come from an independent encoder in this harness",
        "A-ieee, UTF-8 and decimal text as in C01",
    ]
    ok = ck.prepare()
    rng = ck.rng
    # 1. byte-for-byte against the reference encoder (extracted Ser.save)
    vals = []
    if not replay:
        for _ in range(1500 if tier == "quick" else 40000):
            vals.append(C.gen_value(rng, depth=rng.choice([0, 1, 2, 3]), width=3))
        vals += list(C.INTS) + [C.bits_f(b) for b in C.FLOAT_BITS] + C.band_ints(rng, 3 if tier == "quick" else 15) + [10 ** 4000 + 12345]
    elif replay["example"].get("py"):
        vals.append(eval(replay["example"]["py"], {"nan": float("nan"), "inf": float("inf")}))
    if ok and vals:
        try:
            mo = Model().run([[1, 0, 0] + C.to_tokens(v) for v in vals])
            for v, out in zip(vals, mo):
                data, exc = impl_dumps(v)
                ck.case(("b", C.canon(v)), nontrivial=not isinstance(v, (type(None), bool)))
                ex = {"py": repr(v)[:400]}
                if out[0] == 0:
                    mb = bytes(out[2:2 + out[1]])
                    if data != mb:
                        ck.fail("dumps-bytes-differ-from-format-v2" + (":" + exc if exc else ""), {**ex, "impl": (data or b"").hex()[:120], "reference": mb.hex()[:120]})
                elif data is not None:
                    ck.broke("correspondence", "reference-encoder-rejects", ex)
            ck.sample({"py": repr(vals[0])[:200], "bytes": impl_dumps(vals[0])[0].hex()})
        except Exception as e:  # noqa
            ck.broke("correspondence", "modelrun-dumps", repr(e))
    ck.count("byte_exact_values", len(vals))
    # 2. legacy streams under the four settings
    streams = []
    if not replay:
        for _ in range(1200 if tier == "quick" else 30000):
            streams.append(gen_legacy(rng))
    settings = [(False, False), (True, False), (False, True), (True, True)]
    lcases, lmeta = [], []
    for v in streams:
        body = b"\x02" + legacy_encode(v) + b"Q"
        for sc in settings:
            got = impl_loads(body, sc)
            want = ("OK", legacy_expect(v, sc))
            ck.case(("leg", body, sc), nontrivial=True)
            if got != want:
                ck.fail("legacy-stream-loads-differently", {"bytes": list(body), "sc": list(sc), "impl": repr(got)[:200], "want": repr(want)[:200]})
            lcases.append([1, 1, 0, int(sc[0]), int(sc[1]), 0, len(body)] + list(body))
            lmeta.append((body, sc, got))
    if ok and lcases:
        try:
            for out, (body, sc, got) in zip(Model().run(lcases), lmeta):
                m = ("OK", C.from_tokens(out, 1)[0]) if out[0] == 0 else ("EXC", C.EXN[out[1]])
                if m != got:
                    ck.broke("correspondence", "legacy-loads-model-vs-impl", {"bytes": list(body), "sc": list(sc), "impl": repr(got)[:200], "model": repr(m)[:200]})
        except Exception as e:  # noqa
            ck.broke("correspondence", "modelrun-legacy", repr(e))
    ck.count("legacy_streams_x4", len(lcases))
    if streams:
        ck.sample({"legacy_bytes": list(b"\x02" + legacy_encode(streams[0]) + b"Q")[:60]})
    # 3. version byte
    import execnet

    for b in range(256):
        if b == 2:
            continue
        got = impl_loads(bytes([b]) + b"LQ")
        ck.case(("ver", b))
        if got != ("EXC", "LoadError"):
            ck.fail("foreign-version-byte-not-rejected", {"version": b, "impl": repr(got)})
    # 4. strconfig plumbing: defaults of loads(), of gateways/channels, and Channel.reconfigure reaching the peer
    from execnet import gateway_base as gb

    if impl_loads(b"\x02M\x00\x00\x00\x01aQ") != ("OK", ("bytes", b"a")):
        ck.fail("loads-default-coercion-wrong", {})
    ga, ioa = stub_gateway(1)
    gbb, iob = stub_gateway(2)
    cha = ga.newchannel()
    chb = gbb._channelfactory.new(cha.id)
    n0 = len(ioa.written)
    cha.reconfigure(py2str_as_py3str=False, py3str_as_py2str=True)
    cha.send("té")
    for fr in [f for f in ioa.written[n0:] if f]:
        gb.Message.from_io(_Rd(fr)).received(gbb)
    gb.Message(gb.Message.CHANNEL_DATA, cha.id, b"M\x00\x00\x00\x01aQ").received(gbb)
    try:
        a, b2 = chb.receive(timeout=0), chb.receive(timeout=0)
        if (a, b2) != ("té".encode(), b"a"):
            ck.fail("channel-reconfigure-not-applied-by-peer", {"got": repr((a, b2))})
    except Exception as e:  # noqa
        ck.fail("channel-reconfigure-not-applied-by-peer", {"exc": repr(e)})
    ck.case(("reconfigure",))
    # 5. records in one stream: dump(stream, v) k times (+ a trailer); load(stream) gives them back one by one and
    #    leaves the stream position right behind each STOP (C12_stream_of_records / fact load_stream_incremental)
    import io as _io

    class _Raw:
        """a non-seekable reader that only knows read(n) and counts what it handed out"""

        def __init__(self, data):
            self.data, self.pos = data, 0

        def read(self, n):
            if not isinstance(n, int) or n < 0:
                raise TypeError("read(n) with n >= 0 only")
            d = self.data[self.pos:self.pos + n]
            self.pos += len(d)
            return d

    nstreams = 0
    scases, smeta = [], []
    pool = [v for v in vals[:600] if impl_dumps(v)[0] is not None] if vals else []
    for _ in range(0 if not pool else (150 if tier == "quick" else 3000)):
        k = rng.randint(1, 4)
        recs = [rng.choice(pool) for _ in range(k)]
        trailer = rng.choice([b"", b"Q", b"\x02", b"\x02LQ", b"\x00\x00\x00\x05", bytes(rng.randrange(256) for _ in range(rng.randint(1, 6)))])
        parts = [impl_dumps(v)[0] for v in recs]
        buf = _io.BytesIO()
        try:
            for v in recs:
                execnet.dump(buf, v)
        except BaseException as e:  # noqa
            ck.fail("dump-to-stream-raises:" + type(e).__name__, {"py": repr(recs)[:300]})
            continue
        ex = {"py": repr(recs)[:300], "trailer": list(trailer)}
        ck.case(("stream", b"".join(parts), trailer), nontrivial=k > 1 or bool(trailer))
        nstreams += 1
        if buf.getvalue() != b"".join(parts):
            ck.fail("dump-stream-is-not-the-concatenation-of-dumps", ex)
            continue
        whole = b"".join(parts) + trailer
        for mk, nm in ((lambda: _io.BytesIO(whole), "bytesio"), (lambda: _Raw(whole), "raw")):
            st = mk()
            pos = 0
            for v, b in zip(recs, parts):
                try:
                    with C.pylimit():
                        got = C.canon(execnet.load(st))
                except BaseException as e:  # noqa
                    ck.fail("load-from-stream-of-records-raises:" + type(e).__name__, {**ex, "stream": nm, "at": pos})
                    break
                pos += len(b)
                at = st.tell() if nm == "bytesio" else st.pos
                if got != C.canon(v):
                    ck.fail("load-from-stream-gives-another-record", {**ex, "stream": nm, "at": pos, "got": repr(got)[:200]})
                    break
                if at != pos:
                    ck.fail("load-does-not-stop-behind-its-STOP", {**ex, "stream": nm, "expected_pos": pos, "pos": at})
                    break
            else:
                if st.read(len(whole) + 1) != trailer:
                    ck.fail("load-consumed-bytes-after-the-last-record", {**ex, "stream": nm})
        if len(whole) < 4000:
            scases.append([1, 1, 0, 0, 0, 0, len(whole)] + list(whole))
            smeta.append((whole, recs[0], len(whole) - len(parts[0])))
    if ok and scases:
        try:
            for out, (whole, v0, restlen) in zip(Model().run(scases), smeta):
                if out[0] != 0:
                    ck.broke("correspondence", "stream-first-record-model-rejects", {"bytes": list(whole)[:200]})
                    continue
                mv, j = C.from_tokens(out, 1)
                if mv != C.canon(v0) or out[j] != restlen:
                    ck.broke("correspondence", "stream-first-record-model-vs-impl", {"bytes": list(whole)[:200], "model_rest": out[j], "impl_rest": restlen})
        except Exception as e:  # noqa
            ck.broke("correspondence", "modelrun-stream", repr(e))
    ck.count("record_streams", nstreams)
    # 6. the per-channel switch in histories (RECONFIGURE before / after the channel object exists, objects dropped and re-created)
    try:
        from props import chan_model

        chan_model.reconf_correspondence(ck, ok, tier, replay)
    except ImportError:
        pass
    if tier == "thorough" and not replay:
        other_interpreters(ck, [v for v in vals[:300] if "nan" not in repr(v)])
    ck.cov["programs"] = len(vals) + len(lcases)
    ck.cov["disagreements_checked"] = len(vals) + len(lcases)
    return ck.finish(rule="generated values of the supported grammar compared byte-for-byte with the extracted reference encoder; generated legacy streams (PY2STRING, UNICODE, LONG, LONGLONG, PY3STRING inside lists/tuples/dicts) from an independent encoder loaded under all four coercion settings and compared with the documented table and with the model; every foreign version byte; coercion defaults and Channel.reconfigure; streams of 1-4 dumped records plus a trailer read back with load() from a BytesIO and from a read(n)-only reader, comparing values, the stream position after every record and the untouched trailer, and the first record's rest length with the model. distinct = distinct value / (stream, setting).")
