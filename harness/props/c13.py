"""C13 -- loading untrusted bytes: total, typed errors only, no side effects, no prefix loads."""
from __future__ import annotations

import os

import resource
import signal

from evh.common import Check, Model
from evh import codec as C

OPS = b"@ABCDEFGHIJKLMNOPQRST"


class Hang(BaseException):
    pass


def _alarm(sig, frm):
    raise Hang()


def impl_loads(data, sc=(False, False)):
    import execnet

    signal.signal(signal.SIGALRM, _alarm)
    signal.setitimer(signal.ITIMER_REAL, 3.0)
    try:
        with C.pylimit():
            v = execnet.loads(data, py2str_as_py3str=sc[0], py3str_as_py2str=sc[1])
        signal.setitimer(signal.ITIMER_REAL, 0)
        return ("OK", C.canon(v))
    except Hang:
        return ("HANG",)
    except BaseException as e:  # noqa
        signal.setitimer(signal.ITIMER_REAL, 0)
        import execnet as ex

        n = type(e).__name__
        if isinstance(e, ex.DataFormatError):
            n = "LoadError"
        if n == "error":
            n = "struct.error"
        return ("EXC", n)


def corpus(rng, n):
    import execnet

    vals = [None, True, 0, -1, 2**31 - 1, -2**31, 2**31, -2**40, 10**30, 1.5, complex(1, -0.0), b"", b"ab\x00", "", "aé漢\U0001f600",
            [], [1, "x", None], (), (1, (2, 3)), {}, {"k": [1, 2], 3: (4,)}, set(), {1, "a"}, frozenset([1, 2]), [[[]]], {"a": {"b": {"c": b"d"}}},
            [1.0, 2, True, None, "s", b"b", (1,), [2], {3: 4}, {5}, frozenset([6])]]
    for _ in range(n):
        vals.append(C.gen_value(rng, depth=rng.choice([0, 1, 2, 3]), width=3))
    out = []
    for v in vals:
        try:
            with C.pylimit():
                out.append(execnet.dumps(v))
        except Exception:  # noqa
            pass
    return out


def soup(rng):
    b = bytearray([2])
    for _ in range(rng.randint(0, 12)):
        op = rng.choice(OPS)
        b.append(op)
        if chr(op) in "AFGHIKMNS@OEB":
            n = rng.choice([0, 0, 1, 1, 2, 3, 5, -1, -2, -5, 255, 256, 70000, 2**20, 2**20 + 1, 2**31 - 1, -2**31, rng.randint(-8, 8)])
            b += (n % 2**32).to_bytes(4, "big")
            if chr(op) in "AHIMNS":
                k = rng.choice([0, max(n, 0), max(n - 1, 0), max(n, 0) + 1, 3]) if n < 100 else rng.choice([0, 5])
                b += bytes(rng.choice(b"0123456789-+ _a\xc3\xa9\xff\x80\n") for _ in range(k))
        elif chr(op) == "D":
            b += bytes(rng.getrandbits(8) for _ in range(rng.choice([8, 8, 7, 3])))
        elif chr(op) == "T":
            b += bytes(rng.getrandbits(8) for _ in range(rng.choice([16, 16, 15, 8])))
    if rng.random() < 0.8:
        b.append(ord("Q"))
    return bytes(b)


PROBE = r"""
import struct, sys
import execnet
from execnet.gateway_base import opcode, DUMPFORMAT_VERSION as V, DataFormatError
bt = opcode.BUILDTUPLE + struct.pack("!i", 1)
n = int(sys.argv[2])
data = {"dictkey": V + opcode.NEWDICT + opcode.NONE + bt * n + opcode.NONE + opcode.SETITEM + opcode.STOP,
        "setelem": V + opcode.NONE + bt * n + opcode.SET + struct.pack("!i", 1) + opcode.STOP,
        "plain": V + opcode.NONE + bt * n + opcode.STOP}[sys.argv[1]]
try:
    v = execnet.loads(data)
    print("value")
except (DataFormatError, EOFError) as e:
    print("DataFormatError")
except BaseException as e:
    print("other:" + type(e).__name__)
"""


def deep_probe(ck, tier):
    """hostile nesting whose size is justified by the input (5 bytes per level): deep tuples, plain and as dict key / set element, in a
    subprocess (hashing a deep tuple recurses in C)"""
    import subprocess
    import sys

    for shape in ("plain", "dictkey", "setelem"):
        for n in ((1000, 200000) if tier == "quick" else (1000, 50000, 100000, 200000, 400000)):
            p = subprocess.run([sys.executable, "-c", PROBE, shape, str(n)], capture_output=True, text=True, timeout=300,
                               env={**os.environ, "PYTHONPATH": os.environ.get("PYTHONPATH", "")})
            out = p.stdout.strip()
            ck.case(("deep-tuple", shape, n), nontrivial=True)
            ck.count("deep_tuple_probes")
            if p.returncode != 0 or out not in ("value", "DataFormatError"):
                ck.fail("loads-crashes-or-raises-untyped:deep-tuple-%s" % ("as-key" if shape != "plain" else "plain"), {"shape": shape, "levels": n, "bytes": 5 * n + 4, "exit_status": p.returncode, "stdout": out, "stderr": p.stderr[-200:]})


def main(tier, seed, replay=None):
    ck = Check("C13", tier, seed)
    ck.assumptions += [
        "the loader is modelled as the opcode stack machine of Unser.v over a byte list; a pure tree of values is a faithful heap model because the loader never aliases a mutable object",
        "Python == / hash of numbers, strings, tuples, frozensets as in Value.v (py_eq, hashable) decides dict-key and set-member collisions of hostile streams",
        "inputs whose NEWLIST length field exceeds 2^20 are not executed on the implementation (memory demand, tracked as a known finding in the property text itself)",
        "int(bytes) / bytes.decode as modelled in Decimal.v / Utf8.v; CPython's int digit limit (4300) is outside the model",
    ]
    ok = ck.prepare()
    rng = ck.rng
    try:
        resource.setrlimit(resource.RLIMIT_AS, (6 << 30, 6 << 30))
    except Exception:  # noqa
        pass
    inputs = []  # (bytes, kind, strconfig)
    if replay:
        ex = replay["example"]
        inputs.append((bytes(ex["bytes"]), ex.get("kind", "replay"), tuple(ex.get("sc", (False, False)))))
    else:
        dumps = corpus(rng, 30 if tier == "quick" else 400)
        for d in dumps:
            step = 1 if len(d) < 200 else max(1, len(d) // 100)
            for k in range(0, len(d), step):
                inputs.append((d[:k], "prefix", (False, False)))
        for d in dumps:
            if len(d) > 120 and tier == "quick":
                continue
            for i in range(len(d)):
                for nb in set([rng.choice(OPS), rng.choice(OPS), 0, 255, 128, d[i] ^ 1, rng.getrandbits(8)]):
                    if nb != d[i]:
                        inputs.append((d[:i] + bytes([nb]) + d[i + 1:], "subst", (False, False)))
                inputs.append((d[:i] + d[i + 1:], "delete", (False, False)))
                inputs.append((d[:i] + bytes([rng.choice(OPS)]) + d[i:], "insert", (False, False)))
        for _ in range(6000 if tier == "quick" else 200000):
            inputs.append((soup(rng), "soup", rng.choice([(False, False), (True, False), (False, True), (True, True)])))
        for _ in range(1500 if tier == "quick" else 50000):
            n = rng.randint(0, 24)
            inputs.append((bytes([2] if rng.random() < 0.8 else []) + bytes(rng.choice(list(OPS) + [0, 1, 2, 255]) if rng.random() < 0.6 else rng.getrandbits(8) for _ in range(n)), "random", (False, False)))
        cap = 60000 if tier == "quick" else 1500000
        if len(inputs) > cap:
            keep = [x for x in inputs if x[1] == "prefix"]
            rest = [x for x in inputs if x[1] != "prefix"]
            rng.shuffle(rest)
            inputs = keep + rest[: cap - len(keep)]
    for k in ("prefix", "subst", "delete", "insert", "soup", "random"):
        ck.count("inputs_" + k, sum(1 for x in inputs if x[1] == k))
    # model first (it also tells which inputs demand memory)
    mo = None
    if ok:
        try:
            mo = Model().run([[1, 1, 0, int(sc[0]), int(sc[1]), 0, len(b)] + list(b) for b, _, sc in inputs], timeout=1200)
        except Exception as e:  # noqa
            ck.broke("correspondence", "modelrun-loads", repr(e))
    ndis = nhang = 0
    for idx, (b, kind, sc) in enumerate(inputs):
        ck.case(("l", b, sc), nontrivial=len(b) > 1)
        m = None
        if mo is not None:
            out = mo[idx]
            if out[0] == 0:
                mv, _ = C.from_tokens(out, 1)
                m = ("OK", mv)
            else:
                m = ("EXC", C.EXN[out[1]])
            if m == ("EXC", "MemoryDemand"):
                ck.fail("memory-demand-from-length-field", {"bytes": list(b), "kind": kind})
                continue
        got = impl_loads(b, sc)
        ex = {"bytes": list(b), "kind": kind, "sc": list(sc), "impl": repr(got)[:200]}
        ck.count("outcome_" + (got[1] if got[0] == "EXC" else got[0]))
        if idx % 4999 == 0:
            ck.sample(ex)
        # the property itself
        if got[0] == "HANG":
            ck.fail("loads-does-not-terminate", ex)
            nhang += 1
            if nhang >= 3:
                break
        elif got[0] == "EXC" and got[1] not in ("LoadError", "EOFError"):
            ck.fail("loads-raises-" + got[1], ex)
        elif got[0] == "OK":
            if "('other'" in repr(got[1]) or "('channel'" in repr(got[1]):
                ck.fail("loads-returns-non-builtin-value", ex)
            if kind == "prefix":
                ck.fail("strict-prefix-of-valid-dump-loads", ex)
        if m is not None and m != got:
            ndis += 1
            ck.broke("correspondence", "loads-model-vs-impl", {"case": ex, "model": repr(m)[:200]})
    ck.cov["disagreements_checked"] = len(inputs)
    ck.cov["programs"] = len(inputs)
    ck.cov["model_impl_disagreements"] = ndis
    deep_probe(ck, tier)
    return ck.finish(rule="strict prefixes (all, or 100 evenly spaced for long dumps) of valid dumps of a fixed + generated corpus; every single-byte substitution (opcode letters, 0, 255, 128, bit flip, random), deletion and opcode insertion of the shorter dumps; opcode soups with adversarial length fields (negative, 0, off-by-one, 2^20, 2^31-1) under all four string-coercion settings; random bytes. distinct = distinct (bytes, settings); non-trivial = more than one byte.")
