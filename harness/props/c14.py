"""C14 -- main_thread_only: bodies run in the worker's main thread, in order, one at a time; a true
overlap gives the deadlock RemoteError, a remote_exec after the previous channel closed always runs.
Real Gateway + WorkerGateway in one process under the deterministic scheduler with a virtual clock."""
from __future__ import annotations

import random

from evh.common import Check, Model
from evh import sched as S
from evh import pair as P

OUTCOMES = ["ret", "raise", "exit", "int", "block"]
BODY = {
    "ret": "import evh.pair as _p\nchannel.send(('ran', %d, _p.CURRENT.sc.me().idx))\n",
    "raise": "import evh.pair as _p\nchannel.send(('ran', %d, _p.CURRENT.sc.me().idx))\nraise ValueError('boom')\n",
    "exit": "import evh.pair as _p\nchannel.send(('ran', %d, _p.CURRENT.sc.me().idx))\nraise SystemExit(3)\n",
    "int": "import evh.pair as _p\nchannel.send(('ran', %d, _p.CURRENT.sc.me().idx))\nraise KeyboardInterrupt()\n",
    "block": "import evh.pair as _p\nchannel.send(('ran', %d, _p.CURRENT.sc.me().idx))\nchannel.receive()\n",
    "sleep": "import evh.pair as _p\nchannel.send(('ran', %d, _p.CURRENT.sc.me().idx))\nchannel.gateway.execmodel.sleep(40)\n",   # busy without needing its channel
    "blockrel": "import evh.pair as _p\nchannel.send(('ran', %d, _p.CURRENT.sc.me().idx))\nchannel.receive()\n",   # released later by the initiator
}


def run_history(hist, chooser, seed):
    """hist: list of (outcome, wait_prev).  Returns per-exec observations."""
    from execnet.gateway_base import RemoteError, MAIN_THREAD_ONLY_DEADLOCK_TEXT

    sc = S.Sched(chooser, max_steps=200000)
    pr = P.Pair(sc, remote_backend="main_thread_only", seed=seed)
    P.CURRENT = pr
    obs = [None] * len(hist)
    chans = []
    early, closing = {}, {}
    released = []

    def settle(k):
        """what the initiator observes on channel k (bounded virtual wait)"""
        ch = chans[k]
        got = []
        try:
            got.append(ch.receive(timeout=2.5))
            if k in early:
                closing[k] = early[k]
        except EOFError:
            if k not in early:
                return ("eof", None)
            e = early[k]
            return ("deadlock" if MAIN_THREAD_ONLY_DEADLOCK_TEXT in str(e) else "error:" + str(e).strip().splitlines()[-1][:40], None)
        except RemoteError as e:
            return ("deadlock" if MAIN_THREAD_ONLY_DEADLOCK_TEXT in str(e) else "error:" + str(e).strip().splitlines()[-1][:40], None)
        except ch.TimeoutError:
            return ("nothing", None)
        except EOFError:
            return ("eof", None)
        return ("ran", got[0])

    def user():
        for k, (oc, wait_prev) in enumerate(hist):
            if oc in ("CLOSE", "DROP"):
                # the initiator closes / drops ITS end of a running body's channel: the body goes on running, a further request is
                # still an overlapping one
                j = wait_prev
                try:
                    if obs[j] is None:
                        obs[j] = settle(j)          # the body has started
                    if oc == "CLOSE":
                        chans[j].close()
                    else:
                        chans[j] = None
                        import gc

                        gc.collect()
                except Exception as e:  # noqa
                    pass
                chans.append(None)
                pr.em_i.sleep(0.05)
                continue
            if oc == "RELEASE":
                # first everything submitted so far gets its answer (overlapping requests their refusal), then the blocked body
                # of exec `wait_prev` is let go and its channel closes
                j = wait_prev
                for i in range(k):
                    if obs[i] is None and hist[i][0] != "RELEASE":
                        obs[i] = settle(i)
                try:
                    chans[j].send(None)
                    chans[j].waitclose(timeout=10)
                    released.append(j)
                except Exception as e:  # noqa
                    released.append((j, type(e).__name__))
                chans.append(None)
                continue
            if k and wait_prev and hist[k - 1][0] not in ("block", "blockrel", "RELEASE"):
                try:
                    chans[k - 1].waitclose(timeout=10)
                except RemoteError as e:
                    early[k - 1] = e
                except Exception:  # noqa
                    pass
            chans.append(pr.gw.remote_exec(BODY[oc] % k))
            if obs[k] is None:
                pass
        for k in range(len(hist)):
            if hist[k][0] in ("RELEASE", "CLOSE", "DROP"):
                obs[k] = ("released",) if hist[k][0] == "RELEASE" else ("closed-by-initiator",)
            elif obs[k] is None:
                obs[k] = settle(k) if chans[k] is not None else ("ran", None)
        # closing outcome of each finished body
        for k, (oc, _) in enumerate(hist):
            if obs[k][0] == "ran" and oc not in ("block", "blockrel", "sleep"):
                try:
                    if k in closing:
                        raise closing[k]
                    chans[k].waitclose(timeout=10)
                    obs[k] = obs[k] + ("closed-ok",)
                except RemoteError as e:
                    obs[k] = obs[k] + ("closed-error:" + str(e).strip().splitlines()[-1][:30],)
                except Exception as e:  # noqa
                    obs[k] = obs[k] + ("closed-" + type(e).__name__,)
        sc.stop()

    sc.spawn(user, name="user")
    try:
        res = sc.run(timeout=60)
    finally:
        pr.restore()
    return {"result": res, "obs": obs, "main_idx": pr.worker_main.idx, "schedule": sc.trace, "clock": sc.clock, "events": pr.events}


def expected_from_property(hist):
    """deadlock error iff an earlier body is still running (blocked); otherwise the body runs"""
    exp = []
    blocked = False
    for oc, arg in hist:
        if oc == "RELEASE":
            exp.append("released")
            blocked = False
            continue
        if oc in ("CLOSE", "DROP"):
            exp.append("closed-by-initiator")
            continue
        exp.append("deadlock" if blocked else "ran")
        if not blocked and oc in ("block", "blockrel", "sleep"):
            blocked = True
    return exp


def main(tier, seed, replay=None):
    ck = Check("C14", tier, seed)
    ck.assumptions += [
        "A-sched: a runnable main thread reaches the completion-event set() within the 1 s wait -- built into the model (the wait only expires when the main thread cannot move) and into the harness's virtual clock (time advances only when no thread is runnable)",
        "remote bodies are generated from five outcome classes: return, raise, SystemExit, KeyboardInterrupt raised by the body, blocked in channel.receive()",
        "both gateways live in one process over scripted pipes; exec of the body is real",
    ]
    ok = ck.prepare()
    rng = ck.rng
    import sys

    _hook = sys.unraisablehook
    # Channel.__del__ of objects collected after a scheduler run was stopped meets the stopped scheduler: not an observation
    sys.unraisablehook = lambda u: None if isinstance(u.exc_value, S.Abort) else _hook(u)
    hists = []
    if replay and replay["example"].get("hist"):
        hists.append(([tuple(h) for h in replay["example"]["hist"]], replay["example"].get("schedule"), replay["example"].get("seed", 0)))
    elif not replay:
        import itertools

        for n in (1, 2):
            for ocs in itertools.product(OUTCOMES, repeat=n):
                for waits in itertools.product([True, False], repeat=n - 1):
                    hists.append(([(o, w) for o, w in zip(ocs, (False,) + waits)], None, rng.getrandbits(30)))
        for _ in range(60 if tier == "quick" else 1500):
            n = rng.randint(3, 5)
            hists.append(([(rng.choice(OUTCOMES), rng.random() < 0.6) for _ in range(n)], None, rng.getrandbits(30)))
        # a blocked body, overlapping requests (refused), the body is released and ends, then requests that must run again
        for _ in range(40 if tier == "quick" else 800):
            h = [("blockrel", False)] + [(rng.choice(OUTCOMES[:4]), False) for _ in range(rng.randint(0, 2))] + [("RELEASE", 0)]
            h += [(rng.choice(OUTCOMES[:4]), True) for _ in range(rng.randint(1, 2))]
            hists.append((h, None, rng.getrandbits(30)))
        # a blocked body whose channel the initiator closes (or drops) while it runs, then further requests: still overlapping
        for _ in range(20 if tier == "quick" else 400):
            h = [("sleep", False), (rng.choice(["CLOSE", "DROP"]), 0)] + [(rng.choice(OUTCOMES[:4]), False) for _ in range(rng.randint(1, 2))]
            hists.append((h, None, rng.getrandbits(30)))
    has_release = lambda h: any(o in ("RELEASE", "CLOSE", "DROP") for o, _ in h)  # noqa
    mcases = [[14, len(h)] + [x for k, (oc, w) in enumerate(h) for x in (OUTCOMES.index(oc), int(w and k > 0 and h[k - 1][0] != "block"))] if not has_release(h) else [14, 0] for h, _, _ in hists]
    mouts = None
    rel_outs = {}
    if ok:
        try:
            rel_idx = [i for i, (h, _, _) in enumerate(hists) if has_release(h)]
            rcases = []
            for i in rel_idx:
                h = hists[i][0]
                c, nsub = [21], 0
                for k, (oc_, w) in enumerate(h):
                    if oc_ in ("CLOSE", "DROP"):
                        continue
                    if oc_ == "RELEASE":
                        # w is the history index of the blocked exec: its number among the submissions
                        c += [1, sum(1 for o2, _ in h[:w] if o2 != "RELEASE"), 0]
                    else:
                        code = 4 if oc_ in ("block", "blockrel", "sleep") else OUTCOMES.index(oc_)
                        c += [0, code, int(bool(w) and k > 0 and h[k - 1][0] not in ("block", "blockrel", "RELEASE"))]
                        nsub += 1
                rcases.append(c)
            if rcases:
                for i, o_ in zip(rel_idx, Model().run(rcases)):
                    rel_outs[i] = o_
        except Exception as e:  # noqa
            ck.broke("correspondence", "modelrun-exec-release", repr(e))
        try:
            mouts = Model().run(mcases)
        except Exception as e:  # noqa
            ck.broke("correspondence", "modelrun-exec", repr(e))
    for idx, (hist, schedule, sd) in enumerate(hists):
        r = random.Random(sd)
        chooser = S.ReplayChooser(schedule) if schedule is not None else (S.RandomChooser(r) if sd % 2 else S.PCTChooser(r, 3, 300))
        out = run_history(hist, chooser, sd)
        ex = {"hist": [list(h) for h in hist], "schedule": out["schedule"], "seed": sd, "obs": out["obs"], "result": out["result"], "clock": out["clock"]}
        ck.case(("h", tuple(hist), tuple(out["schedule"][:50])), nontrivial=len(hist) > 1)
        ck.count("histories_len_%d" % len(hist))
        if idx % 37 == 0:
            ck.sample(ex)
        if out["result"] not in ("ok", "stop"):
            ck.broke("correspondence", "pair-run-" + str(out["result"]), ex)
            continue
        obs = out["obs"]
        exp = expected_from_property(hist)
        got = [o[0] if o else None for o in obs]
        for k, (g, e) in enumerate(zip(got, exp)):
            if g != e:
                if any(got[i] != exp[i] for i in range(k)):
                    continue  # report the first divergence only: later ones are its consequences
                prev = hist[k - 1][0] if k else None
                if prev == "RELEASE":
                    prev = "released-body"
                if prev in ("CLOSE", "DROP"):
                    prev = "initiator-closed-the-running-bodys-channel"
                if g == "deadlock" and e == "ran":
                    ck.fail(f"false-deadlock-after-{prev}", ex)
                elif e == "deadlock":
                    ck.fail("overlapping-exec-not-refused:" + str(g), ex)
                else:
                    ck.fail("exec-did-not-run:" + str(g), ex)
        ran = [o[1] for o in obs if o and o[0] == "ran"]
        if any(r_[2] != out["main_idx"] for r_ in ran):
            ck.fail("body-not-in-main-thread", ex)
        if [r_[1] for r_ in ran] != sorted(r_[1] for r_ in ran):
            ck.fail("bodies-not-in-submission-order", ex)
        for k, (oc, _) in enumerate(hist):
            if oc in ("RELEASE", "blockrel", "CLOSE", "DROP", "sleep"):
                continue
            if obs[k] and obs[k][0] == "ran" and len(obs[k]) > 2:
                want = {"ret": "closed-ok", "raise": "closed-error", "exit": "closed-error", "int": "closed-error"}[oc]
                if not obs[k][2].startswith(want):
                    ck.fail("channel-end-state-wrong:" + oc, ex)
        if mouts is not None and has_release(hist) and rel_outs.get(idx) is not None:
            # the model with RELEASE under its fair scheduler: same answers, same start order
            mo = rel_outs[idx]
            sep = mo.index(-1)
            mres = ["ran" if x == 0 else "deadlock" if x == 1 else "nothing" for x in mo[:sep]]
            gsub = [g for g, (oc_, _) in zip(got, hist) if oc_ not in ("RELEASE", "CLOSE", "DROP")]
            ck.count("release_histories_vs_model")
            if mres != gsub:
                ck.broke("correspondence", "exec-release-model-vs-impl", {"case": ex, "model": mres, "impl": gsub})
        if mouts is not None and not has_release(hist):
            mo = mouts[idx]
            sep = mo.index(-1)
            mres = ["ran" if x == 0 else "deadlock" if x == 1 else "nothing" for x in mo[:sep]]
            if mres != got:
                ck.broke("correspondence", "exec-model-vs-impl", {"case": ex, "model": mres, "impl": got})
    ck.cov["traces_validated_against_impl"] = len(hists)
    ck.cov["programs"] = len(hists)
    return ck.finish(rule="every history of 1 and 2 remote_exec outcomes over {return, raise, SystemExit, KeyboardInterrupt, blocked} x {submitted after the previous channel closed, submitted at once}, plus random histories of length 3-5, each on a real Gateway/WorkerGateway pair (main_thread_only) under one random or PCT schedule with the virtual clock. distinct = distinct (history, schedule); non-trivial = more than one remote_exec.")
