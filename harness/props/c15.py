"""C15 -- bootstrapping needs nothing installed on the other side.
Obligations: coq/props/C15.v over the regenerated import / definition / use tables.
Dynamic part: real workers started from transmitted source alone on an interpreter that CANNOT import execnet
(python -S -E: no site-packages, no PYTHONPATH) -- explicit python=, via=, a stand-alone socketserver.py, installvia --
run the transcript programs of props/xport.py; transcripts must equal those of the import-bootstrapped popen worker."""
from __future__ import annotations

import os
import random
import shutil
import tempfile

from evh.common import Check, REPO_SRC
from props import xport as X

BARE = "/venv/bin/python -S -E"


def other_interpreters():
    """python3.X executables on this machine whose version differs from the one running the check"""
    import glob
    import subprocess
    import sys

    seen, out = {sys.version_info[:2]}, []
    for pth in sorted(glob.glob("/usr/bin/python3.[0-9]*") + glob.glob("/usr/local/bin/python3.[0-9]*") + glob.glob("/root/.pyenv/versions/3.*/bin/python")):
        if pth.endswith("-config"):
            continue
        try:
            v = subprocess.run([pth, "-S", "-E", "-c", "import sys; print(sys.version_info[0], sys.version_info[1])"], capture_output=True, text=True, timeout=20).stdout.split()
            v = (int(v[0]), int(v[1]))
        except Exception:  # noqa
            continue
        if v not in seen and v >= MIN_PYTHON:
            seen.add(v)
            out.append((pth, "%d_%d" % v))
    return out


def _min_python():
    """requires-python of the package (pyproject.toml)"""
    import re

    try:
        m = re.search(r'requires-python\s*=\s*">=\s*(\d+)\.(\d+)"', open(os.path.join(os.path.dirname(REPO_SRC), "pyproject.toml")).read())
        return (int(m.group(1)), int(m.group(2)))
    except Exception:  # noqa
        return (3, 10)


MIN_PYTHON = _min_python()


def main(tier, seed, replay=None):
    import execnet

    ck = Check("C15", tier, seed)
    ck.assumptions += [
        "an interpreter started with -S -E (no site-packages, PYTHON* ignored) cannot import execnet: verified remotely in every such configuration",
        "the tables of props/C15.v list sys.stdlib_module_names and dir(builtins) of the interpreter running the translator (%s)" % ".".join(map(str, __import__("sys").version_info[:3])),
        "ssh / vagrant specs use the same bootstrap_exec path as python= (regenerated fact c15_bootline_ok); no ssh server in the sandbox",
    ]
    ck.prepare(need_model=False)
    rng = ck.rng
    pseed = rng.getrandbits(30)
    models = ["thread", "main_thread_only"]
    rounds = 1 if tier == "quick" else 12
    scratch = tempfile.mkdtemp(prefix="evh15-", dir="/var/tmp")
    try:
        for rd in range(rounds):
            ps = pseed + rd
            for em in models:
                group = execnet.Group()
                servers = []
                try:
                    basegw = group.makegateway("popen//id=base//execmodel=%s" % em)
                    base = X.run_programs(basegw, random.Random(ps), light=(tier == "quick"))
                    if X.execnet_importable_remotely(basegw) is not True:
                        ck.broke("correspondence", "baseline-worker-cannot-import-execnet", em)
                    configs = []
                    configs.append(("python=", lambda: group.makegateway("popen//id=bare//python=%s//execmodel=%s" % (BARE, em)), False))
                    master = group.makegateway("popen//id=master")
                    configs.append(("via+python=", lambda: group.makegateway("popen//id=viasub//via=master//python=%s//execmodel=%s" % (BARE, em)), False))
                    group.makegateway("popen//id=baremaster//python=%s" % BARE)
                    configs.append(("via-bare-master", lambda: group.makegateway("popen//id=viasub2//via=baremaster//execmodel=%s" % em), "source"))
                    srv = X.StandaloneServer(REPO_SRC, os.path.join(scratch, "srv%d%s" % (rd, em)), BARE.split() + ["-u"])
                    servers.append(srv)
                    if not srv.ok():
                        ck.fail("standalone-socketserver-does-not-start-without-execnet", {"banner": srv.banner.decode("utf-8", "replace")[-400:], "python": BARE})
                    else:
                        configs.append(("socket-standalone", lambda: group.makegateway("socket=127.0.0.1:%d//id=sock//execmodel=%s" % (srv.port, em)), False))
                        # ... and a further worker started THROUGH that source-bootstrapped socket worker (needs the connection above: own server)
                        srv2 = X.StandaloneServer(REPO_SRC, os.path.join(scratch, "srvv%d%s" % (rd, em)), BARE.split() + ["-u"])
                        servers.append(srv2)
                        if srv2.ok():
                            def via_sock(srv2=srv2):
                                group.makegateway("socket=127.0.0.1:%d//id=sockm" % srv2.port)
                                return group.makegateway("popen//via=sockm//id=viasock//execmodel=%s" % em)

                            configs.append(("via-socket-standalone", via_sock, None))
                    if em == "thread":
                        # every other interpreter version installed here, bare: the shipped source may not need anything that
                        # only SOME versions of the standard library have
                        for interp, tag in other_interpreters():
                            configs.append(("python=python%s" % tag, lambda interp=interp, tag=tag: group.makegateway("popen//id=o%s//python=%s -S -E//execmodel=%s" % (tag, interp, em)), False))
                            # ... and the stand-alone socket server run by that interpreter
                            osrv = X.StandaloneServer(REPO_SRC, os.path.join(scratch, "srv%d%s%s" % (rd, em, tag)), [interp, "-S", "-E", "-u"])
                            servers.append(osrv)
                            if not osrv.ok():
                                ck.fail("standalone-socketserver-does-not-start-without-execnet:python" + tag, {"banner": osrv.banner.decode("utf-8", "replace")[-400:], "python": interp})
                            else:
                                configs.append(("socket-standalone-python%s" % tag, lambda osrv=osrv, tag=tag: group.makegateway("socket=127.0.0.1:%d//id=sock%s//execmodel=%s" % (osrv.port, tag, em)), False))
                    configs.append(("socket-installvia", lambda: group.makegateway("socket//id=sockvia//installvia=master//execmodel=%s" % em), None))
                    for name, mk, importable in configs:
                        ex = {"config": name, "execmodel": em, "program_seed": ps}
                        ck.case((name, em, ps), nontrivial=True)
                        ck.count("config_" + name)
                        st, gw = X.with_timeout(mk, 40)
                        if st != "ok":
                            ck.fail("worker-does-not-come-up:" + name, {**ex, "error": "timeout after 40 s" if st == "timeout" else repr(gw)[-300:]})
                            continue

                        def work(gw=gw):
                            imp, loaded = X.execnet_presence(gw)
                            return imp, loaded, X.run_programs(gw, random.Random(ps), light=(tier == "quick"))

                        st, val = X.with_timeout(work, 120)
                        if st != "ok":
                            ck.fail("worker-from-source-fails:" + name, {**ex, "error": "timeout after 120 s" if st == "timeout" else repr(val)[:300]})
                            continue
                        imp, loaded, tr = val
                        if importable is False and imp:
                            ck.broke("correspondence", "bare-interpreter-can-import-execnet:" + name, ex)
                        if importable is not None and loaded:
                            ck.fail("worker-from-source-has-execnet-modules-loaded:" + name, {**ex, "loaded": loaded})
                        ex["importable_remotely"] = imp
                        if tr != base:
                            diffs = [(a, b) for a, b in zip(base, tr) if a != b][:3]
                            ck.fail("transcript-differs-from-import-bootstrapped-worker:%s:%s" % (name, diffs[0][0][0] if diffs else "length"), {**ex, "diffs": repr(diffs)[:1500]})
                        st2, rs = X.with_timeout(gw.remote_status, 30)
                        if st2 == "ok" and rs.execmodel != em:
                            ck.fail("remote-execmodel-not-as-requested:" + name, {**ex, "got": rs.execmodel})
                    if rd == 0:
                        ck.sample({"execmodel": em, "baseline_transcript": repr(base)[:1200]})
                finally:
                    X.with_timeout(lambda: group.terminate(timeout=3), 30)
                    for s in servers:
                        s.stop()
    finally:
        shutil.rmtree(scratch, ignore_errors=True)
    ck.cov["traces_validated_against_impl"] = ck.cases if hasattr(ck, "cases") else 0
    return ck.finish(rule="for each remote execution model of the standard library (thread, main_thread_only): workers started from transmitted source on `python -S -E` (execnet not importable, checked remotely) via python=, via=master + python=, a stand-alone copy of script/socketserver.py run by `python -S -E` (also by every other installed CPython 3.10-3.13), and socket//installvia; 15 transcript programs each (Gateway._rinfo, typed echo of generated values, payloads up to 70 kB, remote error, sub-channels both ways, callbacks on both sides, stdout/fd-1 noise, module and function with kwargs, status) compared with the import-bootstrapped popen worker. distinct = (configuration, execmodel, program seed).")
