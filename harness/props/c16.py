"""C16 -- every transport is observationally equivalent for channel programs.
(A) the proxy byte path: the REAL ChannelFileRead + ProxyIO.read + Message.from_io over generated item splits of
    generated frame streams (every byte value, empty / large payloads, truncations) vs the extracted model;
(B) the transcript programs of props/xport.py on real gateways: popen, popen//python=, socket//installvia,
    popen//via, popen//via//python= x remote execution models, compared with the direct popen transcript;
(C) control operations through the proxy reach the proxied process (kill, wait, close_write)."""
from __future__ import annotations

import os
import random
import struct
import time

from evh.common import Check, Model
from props import xport as X


class FakeChannel:
    def __init__(self, items):
        self.items = list(items)
        self.closed = False

    def receive(self, timeout=None):
        if not self.items:
            raise EOFError()
        return self.items.pop(0)

    def close(self):
        self.closed = True


def impl_master_reads(items):
    """what the real master-side classes read from these io-channel items"""
    from execnet import gateway_base as gb
    from execnet.gateway_io import ProxyIO

    # the real constructor on a stand-in for the channel that carries the proxied stream (proxy_channel IS the io channel; the
    # control channel comes from its gateway)
    class _Gw:
        def newchannel(self):
            return FakeChannel([])

    io_chan = FakeChannel(items)
    io_chan.gateway = _Gw()
    io_chan.send = lambda x: None
    io_chan.makefile = lambda mode="r", proxyclose=False: gb.ChannelFileRead(io_chan, proxyclose=proxyclose)
    pio = ProxyIO(io_chan, gb.get_execmodel("thread"))
    try:
        first = pio.read(1)
    except EOFError:
        first = b""
    except Exception as e:  # noqa
        return b"", ["EXC-first:" + type(e).__name__]
    msgs = []
    while 1:
        try:
            m = gb.Message.from_io(pio)
        except EOFError:
            break
        except struct.error:
            msgs.append("struct.error")
            break
        except Exception as e:  # noqa  (a reader that lets anything else out ends the master's receiver thread without recording EOF)
            msgs.append("EXC:" + type(e).__name__)
            break
        if len(m.data) < 0:
            break
        msgs.append((m.msgcode, m.channelid, bytes(m.data)))
    return bytes(first), msgs


def gen_stream(rng):
    frames = []
    for _ in range(rng.choice([0, 1, 2, 3, 6])):
        ln = rng.choice([0, 0, 1, 2, 9, 10, 300, 5000])
        data = bytes(rng.getrandbits(8) for _ in range(ln)) if ln < 400 else X.payload(rng.randrange(256), ln)
        frames.append((rng.randint(-128, 127), rng.choice([0, 1, 3, -1, 2**31 - 1, -2**31, rng.randint(-2**31, 2**31 - 1)]), data))
    stream = b"1" + b"".join(struct.pack("!bii", t, c, len(d)) + d for t, c, d in frames)
    return frames, stream


def split(rng, stream, mode):
    if mode == "forwarder":
        return None
    if mode == "bytes":
        return [stream[i:i + 1] for i in range(len(stream))]
    cuts = sorted(rng.randrange(len(stream) + 1) for _ in range(rng.choice([0, 1, 2, 5, 12])))
    out, last = [], 0
    for c in cuts + [len(stream)]:
        out.append(stream[last:c])
        last = c
    return out


def part_a(ck, ok, tier, rng):
    if not ok:
        return
    cases = []
    for i in range(300 if tier == "quick" else 6000):
        frames, stream = gen_stream(rng)
        mode = rng.choice(["forwarder", "random", "random", "bytes" if len(stream) < 400 else "random"])
        if mode == "forwarder":
            items = [b"1"] + [struct.pack("!bii", t, c, len(d)) + d for t, c, d in frames]
        else:
            items = split(rng, stream, mode)
        trunc = rng.random() < 0.25 and len(frames) > 0
        if trunc:
            # the io channel ends early: the forwarder forwards whole frames only, so the cut is at a frame boundary
            k = rng.randrange(0, len(frames))
            frames = frames[:k]
            flat = b"1" + b"".join(struct.pack("!bii", t, c, len(d)) + d for t, c, d in frames)
            items = split(rng, flat, "random")
        cases.append((frames, items, trunc))
    try:
        mouts = Model().run([[16, len(items)] + [x for it in items for x in [len(it)] + list(it)] for _, items, _ in cases])
    except Exception as e:  # noqa
        ck.broke("correspondence", "modelrun-proxy", repr(e))
        return
    bad = 0
    for (frames, items, trunc), mo in zip(cases, mouts):
        first, msgs = impl_master_reads(items)
        # decode the model output
        n = mo[0]
        mfirst = bytes(mo[1:1 + n])
        i = 1 + n
        cnt = mo[i]
        i += 1
        mm = []
        for _ in range(cnt):
            ty, cid, ln = mo[i], mo[i + 1], mo[i + 2]
            mm.append((ty, cid, bytes(mo[i + 3:i + 3 + ln])))
            i += 3 + ln
        impl = [m for m in msgs if m != "struct.error"]
        ck.case(("proxy", len(items), len(frames), trunc), nontrivial=len(frames) > 0)
        ck.count("proxy_stream_truncated" if trunc else "proxy_stream_whole")
        if (first, impl) != (mfirst, mm):
            bad += 1
            if bad <= 3:
                ck.broke("correspondence", "proxy-model-vs-impl", {"items": [it.hex() for it in items][:20], "impl": repr((first, impl))[:600], "model": repr((mfirst, mm))[:600]})
        if first != b"1" or impl != frames:
            ck.fail("proxy-read-path-alters-the-stream", {"items": [it.hex() for it in items][:20], "got": repr(impl)[:400], "want": repr(frames)[:400]})
    ck.cov["proxy_cases"] = len(cases)
    ck.cov["proxy_mismatches"] = bad


def pid_alive(pid):
    try:
        os.kill(pid, 0)
    except OSError:
        return False
    try:
        with open("/proc/%d/stat" % pid) as f:
            return f.read().split(")")[-1].split()[0] != "Z"
    except OSError:
        return False


def main(tier, seed, replay=None):
    import execnet

    ck = Check("C16", tier, seed)
    ck.assumptions += [
        "the kernel's pipes and TCP sockets are reliable ordered byte streams (A-stream); real sockets are exercised on 127.0.0.1 only, ssh is not available",
        "a channel program's transcript excludes pids, timing and transport-specific repr() text",
        "gevent / eventlet remote models are exercised only when importable by the worker interpreter",
    ]
    ok = ck.prepare(need_model=True)
    rng = ck.rng
    part_a(ck, ok, tier, rng)
    models = ["thread", "main_thread_only"]
    for extra in ("gevent",):
        try:
            __import__(extra)
            models.append(extra)
        except ImportError:
            pass
    ck.cov["remote_execmodels"] = models
    rounds = 1 if tier == "quick" else 8
    big = 300000 if tier == "quick" else 4000000
    for rd in range(rounds):
        ps = rng.getrandbits(30)
        for em in models:
            group = execnet.Group()
            try:
                basegw = group.makegateway("popen//id=base//execmodel=%s" % em)
                base = X.run_programs(basegw, random.Random(ps), big=big, light=(tier == "quick"))
                group.makegateway("popen//id=master")
                configs = [
                    ("popen//python=", "popen//id=g1//python=/venv/bin/python//execmodel=%s" % em),
                    ("popen//via", "popen//id=g2//via=master//execmodel=%s" % em),
                    ("popen//via//python=", "popen//id=g3//via=master//python=/venv/bin/python//execmodel=%s" % em),
                    ("socket//installvia", "socket//id=g4//installvia=master//execmodel=%s" % em),
                ]
                for name, spec in configs:
                    ex = {"transport": name, "execmodel": em, "program_seed": ps, "big": big}
                    ck.case((name, em, ps), nontrivial=True)
                    ck.count("transport_" + name)
                    def work(spec=spec):
                        gw = group.makegateway(spec)
                        return gw, X.run_programs(gw, random.Random(ps), big=big, light=(tier == "quick"))

                    st, val = X.with_timeout(work, 180)
                    if st != "ok":
                        ck.fail("transport-fails:" + name, {**ex, "error": "timeout after 180 s" if st == "timeout" else repr(val)[:300]})
                        continue
                    gw, tr = val
                    if tr != base:
                        diffs = [(a, b) for a, b in zip(base, tr) if a != b][:3]
                        ck.fail("transcript-differs-from-direct-popen:%s:%s" % (name, diffs[0][0][0] if diffs else "length"), {**ex, "diffs": repr(diffs)[:1500]})
                    if name.startswith("socket"):
                        try:
                            got = gw.remote_status().execmodel
                        except Exception as e:  # noqa  (the gateway died during the programs: reported above as a transcript difference)
                            got = "unavailable:" + type(e).__name__
                            if tr == base:
                                ck.fail("gateway-dead-after-programs:" + name, {**ex, "error": repr(e)[:200]})
                        if got != em and not got.startswith("unavailable"):
                            ck.fail("remote-execmodel-not-as-requested:socket", {**ex, "got": got})
                # (C) control operations through the proxy
                for name, spec in (("direct", "popen//id=c1"), ("via", "popen//id=c2//via=master")):
                    ex = {"control": name, "execmodel": em}
                    gw = group.makegateway(spec)
                    pid = gw._rinfo().pid
                    ck.count("control_" + name)
                    if not pid_alive(pid):
                        ck.broke("correspondence", "control-pid-not-alive-before", ex)
                        continue
                    idle = gw.remote_exec("channel.receive()")      # a conversation that is open when the process dies
                    gw._io.kill()
                    t0 = time.time()
                    while pid_alive(pid) and time.time() - t0 < 5:
                        time.sleep(0.02)
                    if pid_alive(pid):
                        ck.fail("kill-does-not-reach-the-proxied-process:" + name, {**ex, "pid": pid})
                    # the death of the process looks the same on both transports: the connection ended (EOFError), it is not an
                    # error of the conversation
                    seen = []
                    for f in (lambda: idle.receive(10), lambda: idle.waitclose(5), lambda: idle.waitclose(5)):
                        st, v = X.with_timeout(f, 20)
                        seen.append("returns" if st == "ok" else ("blocks" if st == "timeout" else type(v).__name__))
                    if seen != ["EOFError"] * 3 or type(getattr(gw, "_error", None)).__name__ != "EOFError":
                        ck.fail("death-of-the-process-not-reported-as-EOFError:" + name, {**ex, "receive_waitclose_waitclose": seen, "gateway_error": type(getattr(gw, "_error", None)).__name__})
                    rc = gw._io.wait()
                    if rc not in (-9, 247, 137):
                        ck.fail("wait-does-not-report-the-proxied-process:%s:%r" % (name, rc), ex)
                    try:
                        gw.exit()
                    except Exception:  # noqa
                        pass
                for name, spec in (("direct", "popen//id=d1"), ("via", "popen//id=d2//via=master")):
                    gw = group.makegateway(spec)
                    pid = gw._rinfo().pid
                    gw.exit()   # GATEWAY_TERMINATE + close_write
                    rc = gw._io.wait()   # the next control request: must wait for the process and report its status
                    if pid_alive(pid):
                        ck.fail("wait-after-exit-returns-while-the-proxied-process-lives:" + name, {"control": name, "execmodel": em, "pid": pid, "rc": rc})
                    if rc != 0:
                        ck.fail("wait-after-exit-does-not-report-status-0:%s:%r" % (name, rc), {"control": name, "execmodel": em})
                    t0 = time.time()
                    while pid_alive(pid) and time.time() - t0 < 10:
                        time.sleep(0.02)
                    if pid_alive(pid):
                        ck.fail("exit-close_write-does-not-end-the-proxied-process:" + name, {"control": name, "execmodel": em, "pid": pid})
                # (D) exit with data in flight: a slow remote consumer acknowledges every item; the initiator sends a burst far larger
                # than a pipe buffer and exits the gateway at once: the exit request travels BEHIND the data on every transport
                acks = {}
                for name, spec in (("direct", "popen//id=e1"), ("via", "popen//id=e2//via=master"), ("socket", "socket//id=e3//installvia=master")):
                    try:
                        gw = group.makegateway(spec)
                    except Exception as e:  # noqa
                        ck.count("inflight_unavailable_" + name)
                        continue
                    if name == "socket":
                        to = getattr(getattr(gw._io, "sock", None), "gettimeout", lambda: None)()
                        ck.count("socket_timeout_probes")
                        if to is not None:
                            # a time-out left on the connection's socket: a peer that is silent for that long looks like an ended
                            # stream to the receiver thread (and a slow sendall is cut short) -- unlike on a pipe
                            ck.fail("socket-gateway-works-on-a-socket-with-a-timeout", {"timeout": to, "execmodel": em})
                    got = []
                    ch = gw.remote_exec("import time\ndef cb(x):\n    time.sleep(0.03)\n    channel.send(len(x))\nsub = channel.gateway.newchannel()\nsub.setcallback(cb)\nchannel.send(sub)\nsub.waitclose()")
                    ch.setcallback(got.append)
                    t0 = time.time()
                    while not got and time.time() - t0 < 10:
                        time.sleep(0.01)
                    if not got:
                        ck.broke("correspondence", "inflight-setup-failed", {"transport": name, "execmodel": em})
                        continue
                    sub = got.pop(0)
                    nitems, size = 8, 256 * 1024
                    for i in range(nitems):
                        sub.send(b"x" * size)
                    gw.exit()
                    X.with_timeout(lambda: (gw.join(10), gw._io.wait()), 30)
                    time.sleep(0.3)
                    acks[name] = list(got)
                    ck.count("inflight_" + name)
                    ck.case(("inflight", name, em), nontrivial=True)
                for name, a in acks.items():
                    if a != acks.get("direct", a):
                        ck.fail("exit-overtakes-data-in-flight:" + name, {"transport": name, "execmodel": em, "acks": a, "acks_direct_popen": acks.get("direct")})
                if acks.get("direct") is not None and acks["direct"] != [256 * 1024] * 8:
                    ck.fail("exit-overtakes-data-in-flight:direct", {"execmodel": em, "acks": acks["direct"]})
            finally:
                X.with_timeout(lambda: group.terminate(timeout=3), 30)
    if not replay:
        # (E) several threads sending at once through the proxy (frames far larger than an io-channel item would have to be to
        # invite splitting): every item intact on its own channel, exactly as on a direct gateway
        from props import c08

        c08.real_gateways(ck, tier, only=("via",))
    ck.cov["traces_validated_against_impl"] = ck.cov.get("proxy_cases", 0)
    return ck.finish(rule="(A) generated frame streams (payloads 0..5000 bytes over all byte values, extreme ids and types) behind the bootstrap byte, split into io-channel items as the forwarder does, at random cut points, or one byte per item, a quarter of them truncated at a random byte: the real ChannelFileRead/ProxyIO.read/Message.from_io vs the extracted model; (B) 15 transcript programs (Gateway._rinfo, typed echo of generated values, payloads up to 300 kB quick / 4 MB thorough, remote error, sub-channels, callbacks, stdout noise, module/function exec, status) on popen//python=, popen//via, popen//via//python=, socket//installvia x remote execution models vs direct popen; (C) kill / wait / exit through the proxy vs direct, and what an open conversation sees when the (proxied) process is killed. distinct = (stream shape) resp. (transport, execmodel, program seed).")
