"""C17 -- RSync: generated source trees x prior target states x delete x 1-3 targets x working directories x
modify-then-resync steps on the REAL RSync over real popen gateways (temp dirs under /var/tmp); the final
trees are walked with lstat/readlink and compared (a) with the property itself and (b) with the extracted
Coq model run on the same trees (configuration read from the source by tools/gen_facts.py)."""
from __future__ import annotations

import os
import random
import shutil
import stat
import tempfile
import threading

from evh.common import Check, Model

NAMES = ["a", "b c", "ü", "d.txt", "sub", "x y", "é€", "l1", "l2", "deep", "z", "m.bin"]
FMODES = [0o400, 0o444, 0o600, 0o644, 0o640, 0o755, 0o700, 0o777, 0o500, 0o604] + ([0o000, 0o000, 0o200, 0o004] if os.geteuid() == 0 else [])   # all permissions withdrawn: root still reads the source
DMODES = [0o755, 0o700, 0o500, 0o555, 0o750, 0o711]
MTIMES = [1000000000.0, 1234567890.5, 1234567890.25, 1600000000.123456, 1600000000.623456, 1500000000.000001, 946684800.0, 1700000001.75]   # incl. pairs within one second
# absolute link texts that do NOT lead into the source tree; {SRC} = the source directory: siblings that share its name as a prefix, and
# a path that leaves it again through ".."
OUTS = ["/nonexistent/out0", "/var/tmp", "/etc/hostname", "{SRC}.bak/data.txt", "{SRC}2", "{SRC}/../outside.txt"]


# ---------------------------------------------------------------- trees as python values
# ("f", bytes, mode, mtime_float) | ("d", mode, {nameidx: node}) | ("l", kind, payload)
#    kind: "rel" [comps: -1 | nameidx] | "absin" [nameidx...] | "absout" k | "dest" [nameidx...]

def gen_tree(rng, depth=0, allow_links=True):
    n = rng.choice([0, 1, 2, 3, 4]) if depth else rng.choice([1, 2, 3, 5])
    ents = {}
    for nm in rng.sample(range(len(NAMES)), min(n, len(NAMES))):
        r = rng.random()
        if r < 0.22 and depth < 3:
            ents[nm] = gen_tree(rng, depth + 1, allow_links)
        elif r < 0.36 and allow_links:
            ents[nm] = gen_link(rng)
        else:
            ents[nm] = gen_file(rng)
    return ("d", rng.choice(DMODES), ents)


def gen_file(rng):
    ln = rng.choice([0, 1, 2, 5, 17, 100, 100, 300] + ([4000] if rng.random() < 0.1 else []))
    return ("f", bytes(rng.getrandbits(8) for _ in range(ln)), rng.choice(FMODES), rng.choice(MTIMES))


def gen_link(rng):
    r = rng.random()
    if r < 0.5:
        comps = [rng.choice([-1, -1] + list(range(len(NAMES)))) if rng.random() < 0.35 else rng.randrange(len(NAMES)) for _ in range(rng.randint(1, 3))]
        return ("l", "rel", comps)
    if r < 0.8:
        return ("l", "absin", [rng.randrange(len(NAMES)) for _ in range(rng.randint(0, 2))])
    return ("l", "absout", rng.randrange(len(OUTS)))


def mutate(rng, t, quick_violations):
    """a prior target state derived from the source tree"""
    if t[0] == "d":
        ents = {}
        for nm, x in t[2].items():
            r = rng.random()
            if r < 0.12:
                continue                                   # missing at the target
            if r < 0.2:
                ents[nm] = rng.choice([gen_file(rng), gen_tree(rng, 2), gen_link(rng)])   # another kind / unrelated
            else:
                ents[nm] = mutate(rng, x, quick_violations)
        for nm in range(len(NAMES)):
            if nm not in t[2] and rng.random() < 0.12:
                ents[nm] = rng.choice([gen_file(rng), gen_tree(rng, 2), gen_link(rng), ("l", "absout", 1)])   # unrelated extra entry (also a link to a directory)
        return ("d", rng.choice([t[1], t[1], rng.choice(DMODES)]), ents)
    if t[0] == "f":
        c, m, mt = t[1], t[2], t[3]
        r = rng.random()
        if r < 0.3:
            return t
        if r < 0.45:
            return ("f", c, rng.choice(FMODES), mt)                       # mode only
        if r < 0.6:
            return ("f", c, rng.choice([m, rng.choice(FMODES)]), rng.choice(MTIMES))   # same content, other mtime
        if r < 0.75:
            return ("f", c + b"x", m, rng.choice([mt, rng.choice(MTIMES)]))   # other size
        if r < 0.9 and c:
            c2 = bytes([c[0] ^ 1]) + c[1:]
            return ("f", c2, m, rng.choice(MTIMES + [mt]))                     # same size, other content
        if c and quick_violations:
            c2 = bytes([c[0] ^ 1]) + c[1:]
            return ("f", c2, rng.choice([m, rng.choice(FMODES)]), mt)       # same size AND mtime, other content
        return t
    return rng.choice([t, gen_link(rng), gen_file(rng)])


def materialise(root, t, srcroot, destroot):
    """create tree t at path root (root must not exist)"""
    if t[0] == "f":
        with open(root, "wb") as f:
            f.write(t[1])
        os.chmod(root, t[2])
        os.utime(root, (t[3], t[3]))
    elif t[0] == "d":
        os.makedirs(root)
        for nm, x in t[2].items():
            materialise(os.path.join(root, NAMES[nm]), x, srcroot, destroot)
        os.chmod(root, t[1])
    else:
        os.symlink(link_text(t, srcroot, destroot), root)


def link_text(t, srcroot, destroot):
    k, p = t[1], t[2]
    if k == "rel":
        return "/".join(".." if c < 0 else NAMES[c] for c in p)
    if k == "absin":
        return os.path.join(srcroot, *[NAMES[c] for c in p])
    if k == "dest":
        return os.path.join(destroot, *[NAMES[c] for c in p])
    return OUTS[p].replace("{SRC}", srcroot)


class Unknown(Exception):
    pass


def name_idx(s):
    try:
        return NAMES.index(s)
    except ValueError:
        raise Unknown("name " + repr(s))


def parse_link(text, srcroot, destroot):
    for i, o in enumerate(OUTS):
        if text == o.replace("{SRC}", srcroot):
            return ("l", "absout", i)
    if destroot and (text == destroot or text.startswith(destroot + "/")):
        rest = text[len(destroot):].strip("/")
        return ("l", "dest", [name_idx(c) for c in rest.split("/") if c])
    if text == srcroot or text.startswith(srcroot + "/"):
        rest = text[len(srcroot):].strip("/")
        return ("l", "absin", [name_idx(c) for c in rest.split("/") if c])
    if text.startswith("/"):
        if text in OUTS:
            return ("l", "absout", OUTS.index(text))
        raise Unknown("link " + text)
    return ("l", "rel", [-1 if c == ".." else name_idx(c) for c in text.split("/")])


def walk(path, srcroot, destroot):
    st = os.lstat(path)
    if stat.S_ISREG(st.st_mode):
        with open(path, "rb") as f:
            return ("f", f.read(), st.st_mode & 0o7777, st.st_mtime)
    if stat.S_ISDIR(st.st_mode):
        return ("d", st.st_mode & 0o7777, {name_idx(n): walk(os.path.join(path, n), srcroot, destroot) for n in os.listdir(path)})
    if stat.S_ISLNK(st.st_mode):
        try:
            return parse_link(os.readlink(path), srcroot, destroot)
        except Unknown:
            # a link text that corresponds to nothing the generator can produce (e.g. a mangled one): compared as it is
            return ("l", "other", os.readlink(path))
    raise Unknown("kind " + path)


class MT:
    """mtime floats <-> model numbers"""

    def __init__(self):
        self.t = {}

    def idx(self, f):
        return self.t.setdefault(f, len(self.t) + 1)


def enc(t, mt):
    if t[0] == "f":
        return [0, t[2], mt.idx(t[3]), len(t[1])] + list(t[1])
    if t[0] == "d":
        out = [1, t[1], len(t[2])]
        for nm in sorted(t[2]):
            out += [nm] + enc(t[2][nm], mt)
        return out
    k, p = t[1], t[2]
    if k == "absout":
        return [2, 2, p]
    if k == "other":
        return [2, 2, 900 + (sum(map(ord, p)) % 97)]      # some absolute text outside everything the generator knows
    return [2, {"rel": 0, "absin": 1, "dest": 3}[k], len(p)] + list(p)


def dec(l, i, mtinv):
    tag = l[i]
    if tag == 0:
        mode, mti, ln = l[i + 1], l[i + 2], l[i + 3]
        return ("f", bytes(l[i + 4:i + 4 + ln]), mode, mtinv.get(mti, ("?", mti))), i + 4 + ln
    if tag == 1:
        mode, n = l[i + 1], l[i + 2]
        i += 3
        ents = {}
        for _ in range(n):
            nm = l[i]
            x, i = dec(l, i + 1, mtinv)
            ents[nm] = x
        return ("d", mode, ents), i
    kind, k = l[i + 1], l[i + 2]
    if kind == 2:
        return ("l", "absout", k), i + 3
    p = list(l[i + 3:i + 3 + k])
    return ("l", {0: "rel", 1: "absin", 3: "dest"}[kind], p), i + 3 + k


def show(t, ind=0):
    if t is None:
        return "<absent>"
    if t[0] == "f":
        return "file(%d bytes %s.., mode %o, mtime %r)" % (len(t[1]), t[1][:4].hex(), t[2], t[3])
    if t[0] == "l":
        return "link(%s %r)" % (t[1], t[2])
    return ("dir(mode %o){" % t[1]) + ", ".join("%s: %s" % (NAMES[k], show(v)) for k, v in sorted(t[2].items())) + "}"


# ---------------------------------------------------------------- the property, stated directly
def expected_link(t):
    """where the copy of a source link must point (cwd independent): relative texts unchanged; absolute texts into
    the source tree -> the corresponding place in the target tree; absolute texts elsewhere unchanged"""
    if t[1] == "absin" and t[2]:
        return ("l", "dest", list(t[2]))
    return t


def diff_equal(src, res, path=""):
    """list of (signature, path) where the target does not carry the source entry"""
    out = []
    if res is None:
        return [("entry-missing-at-target", path)]
    if src[0] == "f":
        if res[0] != "f":
            return [("file-became-" + res[0], path)]
        if res[1] != src[1]:
            out.append(("file-content-differs", path))
        if res[2] != src[2]:
            out.append(("file-mode-differs:%o->%o" % (src[2], res[2]), path))
        if res[3] != src[3]:
            out.append(("file-mtime-differs", path))
    elif src[0] == "d":
        if res[0] != "d":
            return [("dir-became-" + res[0], path)]
        if res[1] != (src[1] | 0o700):
            out.append(("dir-mode-differs:%o->%o" % (src[1], res[1]), path))
        for nm, x in src[2].items():
            out += diff_equal(x, res[2].get(nm), path + "/" + NAMES[nm])
    else:
        if res != expected_link(src):
            out.append(("link-%s-not-corresponding:%s" % (src[1], res[1] if res[0] == "l" else res[0]), path))
    return out


def diff_others(src, prior, res, delete, path=""):
    out = []
    if src[0] != "d" or res is None or res[0] != "d":
        return out
    pents = prior[2] if (prior is not None and prior[0] == "d") else {}
    for nm in res[2]:
        if nm not in src[2]:
            if delete:
                out.append(("delete-left-an-unrelated-entry", path + "/" + NAMES[nm]))
            elif res[2][nm] != pents.get(nm):
                out.append(("unrelated-entry-changed", path + "/" + NAMES[nm]))
    if not delete:
        for nm in pents:
            if nm not in src[2] and nm not in res[2]:
                out.append(("unrelated-entry-removed", path + "/" + NAMES[nm]))
    for nm, x in src[2].items():
        out += diff_others(x, pents.get(nm), res[2].get(nm), delete, path + "/" + NAMES[nm])
    return out


def quick_violation(src, prior):
    """a target file with the same size and mtime as the source file but other content (the receiver's quick check
    skips it): the open finding"""
    if src[0] == "f":
        return prior is not None and prior[0] == "f" and len(prior[1]) == len(src[1]) and prior[3] == src[3] and prior[1] != src[1]
    if src[0] == "d" and prior is not None and prior[0] == "d":
        return any(quick_violation(x, prior[2].get(nm)) for nm, x in src[2].items())
    return False


# ---------------------------------------------------------------- running the real thing
class Rec:
    def __init__(self):
        self.sent = {}


def run_sync(execnet, gws, srcdir, targets, cwd, reuse=None, variant=(False, False)):
    """targets: list of (gateway index, destdir, delete).  returns per target list of transferred rel paths.
    reuse: a list holding the RSync object of the previous step of this case (the same object gets its targets added again and
    send() called again -- what send()'s own error message about a second call suggests), or None for a new object per step"""
    from execnet.rsync import RSync

    rec = {}

    class R(RSync):
        def _report_send_file(self, gateway, modified_rel_path):
            self.rec.setdefault(gateway.id, []).append(modified_rel_path)

    err = []

    def job():
        old = os.getcwd()
        try:
            os.chdir(cwd)
            if reuse:
                r = reuse[0]
            else:
                # variant: a progress callback (documented constructor argument) / the destination spelled with a trailing slash
                r = R(srcdir, callback=(lambda *a: None) if variant[0] else None, verbose=False)
                if reuse is not None:
                    reuse.append(r)
            r.rec = rec
            for gi, dest, delete in targets:
                if variant[1]:
                    dest = dest + "/"
                if delete:
                    r.add_target(gws[gi], dest, delete=True)
                else:
                    r.add_target(gws[gi], dest)
            r.send()
        except BaseException as e:  # noqa
            import traceback
            err.append(repr(e)[:300] + " @ " + " <- ".join("%s:%d" % (os.path.basename(f.filename), f.lineno) for f in traceback.extract_tb(e.__traceback__)[-3:]))
        finally:
            os.chdir(old)

    th = threading.Thread(target=job, daemon=True)
    th.start()
    th.join(90)
    if th.is_alive():
        return None, ["hang"]
    return [rec.get(gws[gi].id, []) for gi, _, _ in targets], err


def main(tier, seed, replay=None):
    import execnet

    ck = Check("C17", tier, seed)
    ck.assumptions += [
        "the harness runs as root on a POSIX file system: no permission failures, symlinks available; umask 022",
        "md5 does not collide on the generated contents (the model's H is instantiated by the identity)",
        "source trees do not change while send() runs",
        "file names come from a fixed table (spaces, non-ASCII); contents are random bytes up to 4000 bytes; mtimes from a table incl. sub-second values",
    ]
    ok = ck.prepare(need_model=True)
    rng = ck.rng
    facts = ck.build_info.get("facts", {}).get("facts", {})
    fme = 1 if facts.get("rsync_file_mode_exact") == "true" else 0
    rla = 1 if facts.get("rsync_rel_links_asis") == "true" else 0
    base = tempfile.mkdtemp(prefix="evh17-", dir="/var/tmp")
    os.umask(0o022)
    gws = [execnet.makegateway("popen") for _ in range(3)]
    ncases = 0
    mcases = []   # (model input, observed tree, observed transfers, example)
    try:
        if replay and replay.get("example", {}).get("case"):
            specs = [replay["example"]["case"]]
        elif replay:
            specs = []
        else:
            specs = [None] * (150 if tier == "quick" else 4000)
        for ci, spec in enumerate(specs):
            crng = random.Random(spec["seed"]) if spec else random.Random(rng.getrandbits(40))
            cs = spec["seed"] if spec else None
            if spec is None:
                cs = crng.getrandbits(40)
                crng = random.Random(cs)
            case = {"seed": cs}
            cdir = os.path.join(base, "c%d" % ci)
            srcdir = os.path.join(cdir, "src dir")
            src = gen_tree(crng)
            materialise(srcdir, src, srcdir, None)
            ntargets = crng.choice([1, 1, 2, 3])
            targets = []
            for ti in range(ntargets):
                dest = os.path.join(cdir, "dest%d" % ti, "t")
                kind = crng.choice(["absent", "mutated", "mutated", "equal", "unrelated", "file"])
                if kind == "absent":
                    prior = None
                elif kind == "equal":
                    prior = src
                elif kind == "unrelated":
                    prior = gen_tree(crng)
                elif kind == "file":
                    prior = gen_file(crng)
                else:
                    prior = mutate(crng, src, quick_violations=crng.random() < 0.3)
                os.makedirs(os.path.dirname(dest))
                if prior is not None:
                    materialise(dest, prior, srcdir, dest)
                targets.append((ti, dest, crng.random() < 0.5))
            subdirs = [nm for nm, x in src[2].items() if x[0] == "d"]
            cwdk = crng.choice(["elsewhere", "src", "sub" if subdirs else "src", "elsewhere"])
            if cwdk == "elsewhere":
                cwd, cwdm = "/", None
            elif cwdk == "src":
                cwd, cwdm = srcdir, []
            else:
                cwd, cwdm = os.path.join(srcdir, NAMES[subdirs[0]]), [subdirs[0]]
            steps = crng.choice([1, 1, 2, 3])
            reuse = [] if crng.random() < 0.5 else None
            variant = (crng.random() < 0.3, crng.random() < 0.3)
            for step in range(steps):
                if step:
                    # modify the source, then resync (or resync unchanged)
                    if crng.random() < 0.5:
                        shutil.rmtree(srcdir)
                        src = mutate(crng, src, quick_violations=False)
                        if src[0] != "d":
                            src = ("d", 0o755, {0: src})
                        materialise(srcdir, src, srcdir, None)
                        if cwdm:
                            if not os.path.isdir(cwd):
                                cwd, cwdm = srcdir, []
                mt = MT()
                srcw = walk(srcdir, srcdir, None)
                priors = []
                for ti, dest, delete in targets:
                    priors.append(walk(dest, srcdir, dest) if os.path.lexists(dest) else None)
                trs, err = run_sync(execnet, gws, srcdir, targets, cwd, reuse, variant)
                ck.count("rsync_object_reused" if reuse is not None and step else "rsync_object_new")
                ncases += 1
                ck.count("syncs")
                ck.count("cwd_" + cwdk)
                ck.count("targets_%d" % ntargets)
                for (ti, dest, delete), prior, k in zip(targets, priors, range(ntargets)):
                    ex = {"case": case, "step": step, "target": ti, "delete": delete, "cwd": cwdk, "src": show(srcw), "prior": show(prior), "rsync_object_reused": bool(reuse is not None and step), "progress_callback": variant[0], "dest_trailing_slash": variant[1]}
                    ck.case((cs, step, ti), nontrivial=True)
                    if err:
                        ck.fail("send-raised-or-hung:" + err[0][:60], ex)
                        continue
                    try:
                        res = walk(dest, srcdir, dest)
                    except Unknown as e:
                        ck.fail("target-holds-unexpected-entry:" + str(e)[:40], ex)
                        continue
                    ex["result"] = show(res)
                    ex["transfers"] = trs[k]
                    qv = quick_violation(srcw, prior)
                    for sig, p in diff_equal(srcw, res):
                        if sig == "file-content-differs" and qv:
                            ck.fail("quick-check-skips-same-size-same-mtime-file", {**ex, "path": p})
                        else:
                            ck.fail(sig, {**ex, "path": p})
                    for sig, p in diff_others(srcw, prior, res, delete):
                        ck.fail(sig, {**ex, "path": p})
                    if prior is not None and not diff_equal(srcw, prior) and not (delete and diff_others(srcw, prior, prior, True)):
                        # the target already carried the source: nothing may be transferred or changed
                        ck.count("resync_of_equal_tree")
                        if trs[k]:
                            ck.fail("resync-transfers-content", ex)
                        if res != prior:
                            ck.fail("resync-changes-the-target", ex)
                    # model
                    inp = [17, fme, rla, int(delete)] + ([-1] if cwdm is None else [len(cwdm)] + cwdm) + enc(srcw, mt) + ([0] if prior is None else [1] + enc(prior, mt))
                    mcases.append((inp, res, [[name_idx(c) for c in p.split("/")] for p in trs[k]], dict(mt.t), ex))
            if ci % 10 == 0:
                ck.sample({"case": case, "src": show(src)})
            shutil.rmtree(cdir, ignore_errors=True)
    finally:
        for g in gws:
            try:
                g.exit()
            except Exception:  # noqa
                pass
        shutil.rmtree(base, ignore_errors=True)
    # correspondence with the model
    if ok and mcases:
        try:
            mouts = Model().run([m[0] for m in mcases])
        except Exception as e:  # noqa
            ck.broke("correspondence", "modelrun-rsync", repr(e))
            mouts = None
        bad = 0
        if mouts:
            for (inp, res, trs, mtt, ex), mo in zip(mcases, mouts):
                mtinv = {v: k for k, v in mtt.items()}
                try:
                    mres, i = dec(mo, 0, mtinv)
                    n = mo[i]
                    i += 1
                    mtrs = []
                    for _ in range(n):
                        ln = mo[i]
                        mtrs.append(list(mo[i + 1:i + 1 + ln]))
                        i += 1 + ln
                except Exception as e:  # noqa
                    mres, mtrs = ("undecodable", repr(e), mo[:20]), None
                if mres != res or (mtrs is None) or sorted(mtrs) != sorted(trs):
                    bad += 1
                    if bad <= 3:
                        ck.broke("correspondence", "rsync-model-vs-impl", {**ex, "model": show(mres) if isinstance(mres, tuple) and mres[0] in "fdl" else str(mres), "model_transfers": mtrs, "impl_transfers": trs})
            ck.cov["model_cases"] = len(mcases)
            ck.cov["model_mismatches"] = bad
    ck.cov["traces_validated_against_impl"] = len(mcases)
    ck.cov["model_cfg_from_facts"] = {"file_mode_exact": fme, "rel_links_asis": rla}
    return ck.finish(rule="generated source trees (names with spaces and non-ASCII, empty/binary files up to 4000 bytes, 14 file modes (000 included), 6 dir modes, 6 mtimes incl. sub-second, nesting <= 3, relative links with '..', absolute links into the source tree, absolute links elsewhere) x prior target states (absent, equal, mutated per entry: missing / other kind / mode only / mtime only / other size / same size other content / same size+mtime other content, unrelated extras, unrelated tree, a file in place of the directory) x delete x 1-3 targets x cwd in {/, source dir, a source subdirectory} x 1-3 modify-then-resync steps (half of the cases through ONE RSync object whose targets are added again; 30 % with a progress callback, 30 % with the destination spelled with a trailing slash); real RSync over 3 real popen gateways. distinct = (tree seed, step, target).")
