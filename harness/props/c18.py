"""C18 -- channel-layer property: obligations (coq/props/C18.v) + generated programs on the real gateway pair."""
from __future__ import annotations

from props import chan_common as CC

ASSUMPTIONS = ['each shared access between two synchronisation calls is atomic (GIL); the scheduler preempts at every Lock/Event/Queue/pipe operation and, with a budget, at every executed line of execnet', 'both gateways run in one process over scripted pipes (reliable FIFO, oracle-chosen read chunking); exec of worker scripts is real', 'virtual clock: timed waits expire only when no thread can run']


def main(tier, seed, replay=None):
    ck, ok = CC.run_property("C18", tier, seed, replay, ['subchannel', 'subchannel', 'subchannel_dropped', 'produce', 'consume', 'consume_eof', 'status', 'both_drop_cb', 'sendonly_roundtrip'], lambda s: s.startswith(('channel-id-parity', 'subchannel-', 'channel-over-channel', 'channel-over-dropped-carrier', 'channel-tables-not-back', 'channel-id-handed-out-twice', 'reconfigure-', 'channel-of-another-gateway')), None, ASSUMPTIONS, extra=EXTRA)
    try:
        from props import chan_model

        chan_model.correspondence(ck, ok, "C18", tier, replay)
        chan_model.ids_correspondence(ck, ok, tier, replay)
        chan_model.reconf_correspondence(ck, ok, tier, replay)
        if not replay:
            foreign_channel(ck)
    except ImportError:
        pass
    return ck.finish(rule='programs where both sides create channels concurrently (remote_exec, newchannel on the worker and on the initiator), channels travel over channels in both directions and every conversation is closed; afterwards the channel and callback tables of both gateways must be empty; random/PCT schedules with line-level preemption.')


def foreign_channel(ck):
    """a channel of gateway A sent through a channel of gateway B (real gateways): it must be refused, or at least not end up
    connected to an independently created channel of B that happens to have the same id"""
    import execnet
    from props import xport as X

    g = execnet.Group()
    try:
        a = g.makegateway("popen//id=xa")
        b = g.makegateway("popen//id=xb")
        own_b = b.newchannel()
        chb = b.remote_exec("c = channel.receive()\nc.send('to-whom')\nchannel.send('sent')")
        foreign = a.newchannel()
        while foreign.id < chb.id:            # give it the id of an existing, independently created channel of B (the exec channel)
            foreign = a.newchannel()
        ck.case(("foreign-channel", foreign.id == chb.id), nontrivial=True)
        try:
            chb.send(foreign)
        except Exception:  # noqa  (refused: fine)
            return
        got = []
        try:
            for _ in range(2):
                got.append(chb.receive(5))
        except Exception as e:  # noqa
            got.append(type(e).__name__)
        if "to-whom" in got:
            ck.fail("channel-of-another-gateway-cross-connected", {"foreign_id": foreign.id, "exec_channel_id": chb.id, "exec_channel_got": got})
    except Exception as e:  # noqa
        ck.broke("correspondence", "foreign-channel-probe", repr(e)[:200])
    finally:
        X.with_timeout(lambda: g.terminate(timeout=2), 20)


EXTRA = None
