"""C18 -- channel-layer property: obligations (coq/props/C18.v) + generated programs on the real gateway pair."""
from __future__ import annotations

from props import chan_common as CC

ASSUMPTIONS = ['each shared access between two synchronisation calls is atomic (GIL); the scheduler preempts at every Lock/Event/Queue/pipe operation and, with a budget, at every executed line of execnet', 'both gateways run in one process over scripted pipes (reliable FIFO, oracle-chosen read chunking); exec of worker scripts is real', 'virtual clock: timed waits expire only when no thread can run']


def main(tier, seed, replay=None):
    ck, ok = CC.run_property("C18", tier, seed, replay, ['subchannel', 'subchannel', 'subchannel_dropped', 'produce', 'consume', 'consume_eof', 'status', 'both_drop_cb', 'sendonly_roundtrip'], lambda s: s.startswith(('channel-id-parity', 'subchannel-', 'channel-over-channel', 'channel-over-dropped-carrier', 'channel-tables-not-back', 'channel-id-handed-out-twice', 'reconfigure-')), None, ASSUMPTIONS, extra=EXTRA)
    try:
        from props import chan_model

        chan_model.correspondence(ck, ok, "C18", tier, replay)
        chan_model.ids_correspondence(ck, ok, tier, replay)
        chan_model.reconf_correspondence(ck, ok, tier, replay)
    except ImportError:
        pass
    return ck.finish(rule='programs where both sides create channels concurrently (remote_exec, newchannel on the worker and on the initiator), channels travel over channels in both directions and every conversation is closed; afterwards the channel and callback tables of both gateways must be empty; random/PCT schedules with line-level preemption.')


EXTRA = None
