"""C19 -- channel files vs files over the concatenation: obligations + correspondence."""
from __future__ import annotations

import io as _io
import itertools

from evh.common import Check, Model
from evh.fakeio import stub_gateway


def splits(s, rng=None, empties=True):
    """all ways to cut s into consecutive items, optionally with empty items inserted"""
    n = len(s)
    for mask in range(1 << max(n - 1, 0)):
        cuts = [i + 1 for i in range(n - 1) if mask >> i & 1]
        parts, prev = [], 0
        for c in cuts + [n]:
            parts.append(s[prev:c])
            prev = c
        if n == 0:
            parts = []
        yield parts
        if empties:
            yield [s[:0]] + parts
            if parts:
                yield parts[:1] + [s[:0]] + parts[1:] + [s[:0]]


def impl_run(items, ops, through_gateway, proxyclose=False):
    """run ops on a real ChannelFileRead; returns list of results or ('EXC', name)"""
    from execnet import gateway_base as gb

    if through_gateway:
        gw, _ = stub_gateway()
        ch = gw.newchannel()
        for it in items:
            gw._channelfactory._local_receive(ch.id, gb.dumps_internal(it))
        gw._channelfactory._local_close(ch.id)
    else:
        class FakeChan:
            def __init__(self, its):
                self.its = list(its)
                self.closed = 0
                self.id = 1
            def receive(self):
                if self.its:
                    return self.its.pop(0)
                raise EOFError
            def close(self):
                self.closed += 1
            def isclosed(self):
                return bool(self.closed)
        ch = FakeChan(items)
    f = gb.ChannelFileRead(ch, proxyclose=proxyclose)
    out = []
    for op in ops:
        try:
            out.append(f.read(op[1]) if op[0] == "read" else f.readline())
        except Exception as e:  # noqa
            out.append(("EXC", type(e).__name__))
            break
    return out


def ref_run(items, ops, isbytes):
    f = _io.BytesIO(b"".join(items)) if isbytes else _io.StringIO("".join(items), newline="\n")
    return [f.read(op[1]) if op[0] == "read" else f.readline() for op in ops]


def encode(items, ops, isbytes):
    c = [19, 1 if isbytes else 0, len(items)]
    for it in items:
        syms = list(it) if isbytes else [ord(ch) for ch in it]
        c += [len(syms)] + syms
    c.append(len(ops))
    for op in ops:
        c += [0, op[1]] if op[0] == "read" else [1]
    return c


def decode(out, isbytes):
    res, i = [], 0
    while i < len(out):
        n = out[i]
        syms = out[i + 1:i + 1 + n]
        res.append(bytes(syms) if isbytes else "".join(map(chr, syms)))
        i += 1 + n
    return res


def write_side(ck):
    """makefile('w'): each write one item, flush harmless, write after close -> OSError,
    close closes the channel iff proxyclose"""
    from execnet import gateway_base as gb

    n = 0
    for proxyclose in (False, True):
        for payloads in ([], ["a"], ["", "xy\n", "z"], [b"\x00\xff", b""], ["漢", "é"]):
            gw, io = stub_gateway()
            ch = gw.newchannel()
            f = ch.makefile("w", proxyclose=proxyclose)
            for p in payloads:
                f.write(p)
                f.flush()
            frames = [gb.Message.from_io(_Rd(b)) for b in io.written]
            got = [(m.msgcode, m.channelid, gb.loads_internal(m.data)) for m in frames]
            want = [(gb.Message.CHANNEL_DATA, ch.id, p) for p in payloads]
            n += 1
            ck.case(("w", proxyclose, tuple(payloads)))
            if got != want:
                ck.fail("write-not-one-item-per-write", {"payloads": payloads, "got": got})
            f.close()
            if ch.isclosed() != proxyclose:
                ck.fail("close-vs-proxyclose", {"proxyclose": proxyclose, "isclosed": ch.isclosed()})
            if proxyclose:
                try:
                    f.write("late")
                    ck.fail("write-after-close-accepted", {"proxyclose": True})
                except OSError:
                    pass
                except Exception as e:  # noqa
                    ck.fail("write-after-close-wrong-exc:" + type(e).__name__, {})
            else:
                ch.close()
                try:
                    f.write("late")
                    ck.fail("write-after-close-accepted", {"proxyclose": False})
                except OSError:
                    pass
    ck.count("write_side_cases", n)


class _Rd:
    def __init__(self, b):
        self.b = b
    def read(self, n):
        r, self.b = self.b[:n], self.b[n:]
        if len(r) < n:
            raise EOFError("short")
        return r


def main(tier, seed, replay=None):
    ck = Check("C19", tier, seed)
    ck.assumptions += [
        "channel.receive() yields the sent items in order then raises EOFError repeatedly (C02/C03)",
        "Python str/bytes slicing, concatenation, len, find as modelled by firstn/skipn/++/length on lists",
        "reference file = io.StringIO(newline='\\n') / io.BytesIO",
        "read(n) with n < 0 is outside the statement (signature requires a count)",
    ]
    ok = ck.prepare()
    rng = ck.rng
    cases = []
    if replay:
        ex = replay["example"]
        isb = ex["bytes"]
        items = [bytes(x) if isb else x for x in ex["items"]]
        cases.append((items, [tuple(o) for o in ex["ops"]], isb, False))
    else:
        maxlen = 4 if tier == "quick" else 6
        ops_alpha = [("read", 0), ("read", 1), ("read", 2), ("read", 3), ("readline",)]
        # exhaustive part: all strings over {a,\n} up to maxlen (plus b at length<=3), all splits, op sequences up to 3
        for n in range(maxlen + 1):
            for tup in itertools.product("a\n" if n > 3 else "ab\n", repeat=n):
                s = "".join(tup)
                for parts in splits(s):
                    for k in (1, 2, 3):
                        for ops in itertools.product(ops_alpha, repeat=k):
                            if k == 3 and rng.random() > (0.08 if tier == "quick" else 0.5):
                                continue
                            for isb in (False, True):
                                if isb and rng.random() > 0.5:
                                    continue
                                its = [p.encode() for p in parts] if isb else list(parts)
                                cases.append((its, list(ops) + [("readline",), ("read", 1)], isb, False))
        # random longer streams, unicode, through the real channel queue
        nrand = 3000 if tier == "quick" else 60000
        for _ in range(nrand):
            isb = rng.random() < 0.4
            nit = rng.randint(0, 8)
            items = []
            for _i in range(nit):
                ln = rng.choice([0, 0, 1, 1, 2, 3, 5, 9, 30])
                if isb:
                    items.append(bytes(rng.choice([10, 10, 13, 0, 97, 255, 98]) for _ in range(ln)))
                else:
                    items.append("".join(rng.choice("\n\n\rab é漢\U0001f600 \x0b\x0c\x1c\x85") for _ in range(ln)))
            ops = []
            for _i in range(rng.randint(1, 10)):
                ops.append(("readline",) if rng.random() < 0.45 else ("read", rng.choice([0, 1, 1, 2, 3, 4, 7, 50])))
            cases.append((items, ops, isb, rng.random() < 0.3))
    if len(cases) > (60000 if tier == "quick" else 600000):
        rng.shuffle(cases)
        cases = cases[: (60000 if tier == "quick" else 600000)]
    ck.count("cases_text", sum(1 for c in cases if not c[2]))
    ck.count("cases_bytes", sum(1 for c in cases if c[2]))
    ck.count("cases_with_empty_items", sum(1 for c in cases if any(len(i) == 0 for i in c[0])))
    ck.count("cases_through_real_channel_queue", sum(1 for c in cases if c[3]))
    # implementation vs reference file (direct monitor) and vs extracted model (correspondence)
    model_out = None
    if ok:
        try:
            model_out = Model().run([encode(i, o, b) for (i, o, b, g) in cases])
        except Exception as e:  # noqa
            ck.broke("correspondence", "modelrun", repr(e))
    ndis = 0
    for idx, (items, ops, isb, gwy) in enumerate(cases):
        got = impl_run(items, ops, gwy, proxyclose=bool(idx % 2))   # the reads are the same whoever owns the channel
        want = ref_run(items, ops, isb)
        canon = (tuple(items), tuple(ops), isb)
        ck.case(canon, nontrivial=len(items) > 0)
        ex = {"items": [list(i) if isb else i for i in items], "ops": [list(o) for o in ops], "bytes": isb, "got": repr(got), "want": repr(want)}
        if idx % 9973 == 0:
            ck.sample(ex)
        if not items:
            # with no item at all the code cannot know the stream kind and returns "" -- an empty result
            got = [type(w)() if (not isinstance(g, tuple) and len(g) == 0) else g for g, w in zip(got, want)]
        if got != want:
            kind = "bytes" if isb else "text"
            uses_rl = any(o[0] == "readline" for o in ops)
            exc = [g for g in got if isinstance(g, tuple)]
            sig = f"chanfile-differs-from-file:{kind}:{'readline' if uses_rl else 'read'}" + (":" + exc[0][1] if exc else "")
            ck.fail(sig, ex)
        if model_out is not None:
            m = decode(model_out[idx], isb)
            if m != got:
                ndis += 1
                if m == want and got != want:
                    pass  # the implementation is wrong here and the monitor above has reported it
                else:
                    ck.broke("correspondence", "chanfile-model-vs-impl", {"case": ex, "model": repr(m)})
    ck.cov["disagreements_checked"] = len(cases)
    ck.cov["programs"] = len(cases)
    ck.cov["model_impl_disagreements"] = ndis
    if not replay:
        write_side(ck)
    return ck.finish(rule="exhaustive: every string over {a,b,\\n} up to length 3 / {a,\\n} up to %d, every split into items (with empty items inserted), op sequences up to length 3 (length-3 subsampled) followed by readline+read(1); plus random longer unicode/bytes streams, 30%% of them through a real Channel queue. distinct = distinct (items, ops, kind); non-trivial = at least one item." % (4 if tier == "quick" else 6))
