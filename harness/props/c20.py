"""C20 -- XSpec parsing and group id uniqueness: obligations + correspondence."""
from __future__ import annotations

from evh.common import Check, Model

ALPHA = list("abpx_=:/ é漢1") + ["env:", "id", "popen", "//", "env", "_"]


def gen_token(rng, kind):
    n = rng.choice([0, 1, 1, 2, 2, 3, 5])
    return "".join(rng.choice(ALPHA) for _ in range(n))


def well_formed_kvs(rng):
    """kvs that satisfy the property's own hypotheses (plus the documented boundary)"""
    n = rng.randint(1, 6)
    kvs, seen = [], set()
    for _ in range(n * 3):
        if len(kvs) >= n:
            break
        k = "".join(rng.choice("abpxidenv: é漢1/_") for _ in range(rng.randint(1, 6)))
        if rng.random() < 0.25:
            k = "env:" + k
        if rng.random() < 0.15:
            k = rng.choice(["popen", "python", "id", "chdir", "execmodel", "via", "socket", "ssh", "nice", "env"])
        if not k or "=" in k or "//" in k or k[0] == "_" or k in seen:
            continue
        v = None
        if rng.random() < 0.7:
            v = "".join(rng.choice("ab=:/ é漢1_") for _ in range(rng.randint(0, 6)))
            if "//" in v:
                continue
        seen.add(k)
        kvs.append((k, v))
    return kvs


def piece(k, v):
    return k if v is None else k + "=" + v


def impl_parse(s):
    from execnet.xspec import XSpec

    try:
        sp = XSpec(s)
    except Exception as e:  # noqa
        return ("EXC", type(e).__name__), None
    attrs = [(k, v) for k, v in vars(sp).items() if k not in ("_spec", "env")]
    return ("OK", attrs, list(sp.env.items())), sp


def model_decode(out):
    if out[0] == 1:
        return ("EXC", {1: "ValueError", 2: "AttributeError", 3: "IndexError"}[out[1]])
    i = 1

    def kvs():
        nonlocal i
        n = out[i]
        i += 1
        res = []
        for _ in range(n):
            ln = out[i]
            k = "".join(map(chr, out[i + 1:i + 1 + ln]))
            i += 1 + ln
            if out[i] == 0:
                v = True
                i += 1
            else:
                ln = out[i + 1]
                v = "".join(map(chr, out[i + 2:i + 2 + ln]))
                i += 2 + ln
            res.append((k, v))
        return res

    a = kvs()
    e = kvs()
    return ("OK", a, e)


def xspec_part(ck, model_ok, tier, replay):
    from execnet.xspec import XSpec

    rng = ck.rng
    cases = []  # (string, kvs or None, expect)
    if replay and replay["example"].get("spec") is not None:
        ex = replay["example"]
        cases.append((ex["spec"], [tuple(x) for x in ex["kvs"]] if ex.get("kvs") else None, ex.get("expect")))
    elif not replay:
        n = 6000 if tier == "quick" else 150000
        for _ in range(n):
            r = rng.random()
            if r < 0.45:
                kvs = well_formed_kvs(rng)
                if not kvs:
                    continue
                cases.append(("//".join(piece(k, v) for k, v in kvs), kvs, "ok"))
            elif r < 0.65:
                kvs = well_formed_kvs(rng)
                if not kvs:
                    continue
                k, v = rng.choice(kvs)
                v2 = rng.choice([None, "z", v])
                pos = rng.randint(0, len(kvs))
                kvs2 = kvs[:pos] + [(k, v2)] + kvs[pos:]
                cases.append(("//".join(piece(k, v) for k, v in kvs2), kvs2, "dup"))
            else:
                cases.append(("".join(rng.choice(ALPHA) for _ in range(rng.randint(0, 9))), None, None))
        # all short strings over a tiny alphabet, exhaustively
        import itertools

        for ln in range(0, 5 if tier == "quick" else 6):
            for tup in itertools.product("a=/_:", repeat=ln):
                cases.append(("".join(tup), None, None))
    mouts = None
    if model_ok:
        try:
            mouts = Model().run([[20, 0] + [ord(c) for c in s] for s, _, _ in cases])
        except Exception as e:  # noqa
            ck.broke("correspondence", "modelrun-xspec", repr(e))
    ck.count("xspec_wellformed", sum(1 for c in cases if c[2] == "ok"))
    ck.count("xspec_dup", sum(1 for c in cases if c[2] == "dup"))
    ck.count("xspec_raw", sum(1 for c in cases if c[2] is None))
    for idx, (s, kvs, expect) in enumerate(cases):
        got, sp = impl_parse(s)
        ck.case(("x", s), nontrivial=len(s) > 0)
        if idx % 4001 == 0:
            ck.sample({"spec": s, "impl": repr(got)})
        ex = {"spec": s, "kvs": kvs, "expect": expect, "impl": repr(got)}
        if mouts is not None:
            m = model_decode(mouts[idx])
            if m != got:
                ck.broke("correspondence", "xspec-model-vs-impl", {"case": ex, "model": repr(m)})
        ck.count("xspec_outcome_" + (got[1] if got[0] == "EXC" else "ok"))
        # direct monitor of the property
        if expect == "ok":
            nonfinal_slash = any(piece(k, v).endswith("/") for k, v in kvs[:-1])
            if nonfinal_slash:
                ck.count("xspec_boundary_ambiguous_text")
                continue
            if any(k == "env" for k, _ in kvs):
                if got != ("EXC", "ValueError"):
                    ck.fail("xspec-key-env-accepted-unexpectedly", ex)
                else:
                    ck.fail("xspec-key-env-rejected", ex)
                continue
            want_attrs = [(k, True if v is None else v) for k, v in kvs if not k.startswith("env:")]
            want_env = [(k[4:], True if v is None else v) for k, v in kvs if k.startswith("env:")]
            if got != ("OK", want_attrs, want_env):
                ck.fail("xspec-wellformed-not-parsed-faithfully", ex)
                continue
            ok = str(sp) == s and sp == XSpec(s) and hash(sp) == hash(XSpec(s)) and not (sp != XSpec(s)) and sp != XSpec("popen//id=zzq") \
                and all(getattr(sp, k) == v for k, v in want_attrs if k.isidentifier()) and sp.zz_absent is None
            if not ok:
                ck.fail("xspec-str-eq-hash-getattr", ex)
            # ... also after a group has worked with the spec: allocate_id / makegateway store id and execmodel on it, the TEXT is
            # what it compares, hashes and prints by
            try:
                import execnet.multi as _multi

                g_ = _multi.Group()
                sp2 = XSpec(s)
                if not any(k in ("id", "execmodel") for k, _ in kvs):
                    g_.allocate_id(sp2)
                    sp2.execmodel = "thread"
                    fresh = XSpec(s)
                    if not (sp2 == fresh and fresh == sp2 and not (sp2 != fresh) and hash(sp2) == hash(fresh) and str(sp2) == s and sp2 in {fresh} and [fresh].index(sp2) == 0):
                        ck.fail("xspec-compares-by-more-than-its-text-after-id-allocation", ex)
                atexit_unregister(g_)
            except Exception as e:  # noqa
                ck.fail("xspec-compares-by-more-than-its-text-after-id-allocation:" + type(e).__name__, ex)
        elif expect == "dup":
            if any(piece(k, v).endswith("/") for k, v in kvs[:-1]):
                continue
            if any(k == "env" for k, _ in kvs):
                continue
            if got != ("EXC", "ValueError"):
                kinds = "env" if any(k.startswith("env:") and sum(1 for k2, _ in kvs if k2 == k) > 1 for k, _ in kvs) else "plain"
                ck.fail(f"xspec-duplicate-{kinds}-key-accepted", ex)


class _StubIO:
    def wait(self):
        return 0

    def kill(self):
        pass


class StubGw:
    def __init__(self, spec):
        self.id = spec.id
        self.spec = spec
        self._io = _StubIO()

    def join(self, timeout=None):
        pass

    def exit(self):
        # as Gateway.exit: a gateway that is no longer a member does nothing
        if self not in self._group:
            return
        self._group._unregister(self)

    def __eq__(self, other):
        return self is other

    def __hash__(self):
        return id(self)


def idnum(s, table):
    if s.startswith("gw") and s[2:].isdigit():
        return int(s[2:])
    fixed = {"a": -1, "b": -2, "c": -3}
    if s in fixed:
        return fixed[s]
    return table.setdefault(s, -(len(table) + 10))


def group_part(ck, model_ok, tier, replay):
    import execnet.multi as multi
    from execnet import gateway_bootstrap, gateway_io

    rng = ck.rng
    started = []
    orig = (gateway_io.create_io, gateway_bootstrap.bootstrap)
    gateway_io.create_io = lambda spec, execmodel: started.append(spec.id) or object()
    gateway_bootstrap.bootstrap = lambda io, spec: StubGw(spec)
    try:
        hist = []
        if replay and replay["example"].get("ops") is not None:
            hist.append([tuple(o) for o in replay["example"]["ops"]])
        elif not replay:
            for _ in range(1500 if tier == "quick" else 30000):
                ops = []
                nmk = 0
                for _i in range(rng.randint(1, 9)):
                    if nmk and rng.random() < 0.35:
                        ops.append(("exit", rng.randrange(nmk)))      # also of a gateway that has exited before (stale object)
                    else:
                        ops.append(("make", rng.choice([None, None, "a", "b", "gw0", "gw1", "gw2"])))
                        nmk += 1
                hist.append(ops)
        mcases, impl_res = [], []
        for ops in hist:
            table = {}
            group = multi.Group()
            outcomes, gws_made = [], []
            dup_seen = False

            class _Foreign(dict):
                def __missing__(self, k):
                    self[k] = StubGw(type("S", (), {"id": k})())
                    return self[k]

            foreign = _Foreign()
            for op in ops:
                if op[0] == "make":
                    del started[:]
                    spec = "popen" if op[1] is None else "popen//id=" + op[1]
                    try:
                        gw = group.makegateway(spec)
                        outcomes.append([4, idnum(gw.id, table)])
                        gws_made.append(gw)
                    except ValueError:
                        outcomes.append([5, 1 if started else 0])
                        gws_made.append(None)
                    except AssertionError:
                        outcomes.append([5, 1 if started else 0])
                        gws_made.append(None)
                else:
                    gw = gws_made[op[1]]
                    if gw is not None:
                        live = any(g is gw for g in group._gateways)
                        try:
                            gw.exit()
                        except Exception as e:  # noqa
                            ck.fail("group-exit-of-a-%s-gateway-raises:%s" % ("live" if live else "stale", type(e).__name__), {"ops": ops, "id": gw.id})
                        if live:
                            outcomes[op[1]] = [6, 0]
                ids = [g.id for g in group]
                if len(set(ids)) != len(ids):
                    dup_seen = True
                # lookup by id / index / membership agree with iteration order
                for i, g in enumerate(group):
                    try:
                        bad = group[i] is not g or group[g.id] is not g or g.id not in group
                    except (KeyError, IndexError):
                        bad = True
                    if bad:
                        ck.fail("group-lookup-disagrees", {"ops": ops})
                if "nope" in group:
                    ck.fail("group-lookup-disagrees", {"ops": ops})
                # membership of a gateway OBJECT is identity: an exited gateway whose id was taken again, or a gateway of
                # another group with the same id, is not a member
                for g in gws_made:
                    if g is not None and (g in group) != any(m is g for m in group):
                        ck.fail("group-membership-of-a-stale-gateway-object", {"ops": ops, "id": g.id})
                if len(group) and (foreign[group[0].id] in group):
                    ck.fail("group-membership-of-a-foreign-gateway-object", {"ops": ops, "id": group[0].id})
            if dup_seen:
                ck.fail("group-duplicate-live-id", {"ops": ops})
            leaked = [o for o in outcomes if o[0] == 5 and o[1] == 1]
            final = [idnum(g.id, table) for g in group]
            impl_res.append((final, outcomes))
            # model case
            wants = [o[1] for o in ops if o[0] == "make"]
            c = [20, 1, len(wants)]
            for w in wants:
                c += [0] if w is None else [1, idnum(w, table)]
            t = 0
            for op in ops:
                if op[0] == "make":
                    c += [0, t]
                    t += 1
                else:
                    c += [2, op[1]]
            mcases.append(c)
            ck.case(("g", tuple(ops)), nontrivial=len(ops) > 1)
            ck.count("group_leaks_seen_sequential", len(leaked))
            atexit_unregister(group)
        if hist:
            ck.sample({"group_ops": hist[0], "impl_final_ids_and_outcomes": impl_res[0]})
        if model_ok and mcases:
            try:
                mo = Model().run(mcases)
            except Exception as e:  # noqa
                ck.broke("correspondence", "modelrun-group", repr(e))
                mo = None
            if mo:
                for ops, (final, outcomes), out in zip(hist, impl_res, mo):
                    n = out[0]
                    mg = out[1:1 + n]
                    rest = out[1 + n:]
                    h = rest[0]
                    rest = rest[1 + h + 1:]
                    mpcs = [rest[i:i + 2] for i in range(0, len(rest), 2)]
                    if mg != final or mpcs != outcomes:
                        ck.broke("correspondence", "group-model-vs-impl", {"ops": ops, "impl": [final, outcomes], "model": [mg, mpcs]})
    finally:
        gateway_io.create_io, gateway_bootstrap.bootstrap = orig


def lookup_under_churn(ck, tier):
    """membership of a gateway that is live all the time, looked up while another thread removes and re-adds a DIFFERENT member
    (what exit() / makegateway of other gateways do): it must never be missed -- allocate_id and _register rely on this lookup"""
    import threading
    import time

    import execnet.multi as multi

    class _Spec:
        via = None

    class _G:
        def __init__(self, id):
            self.id, self.spec = id, _Spec()

    group = multi.Group()
    atexit_unregister(group)
    first, keep = _G("a"), _G("keep")
    group._gateways += [first, keep]
    stop, miss, n = [False], [0], [0]

    def churn():
        gws = group._gateways
        while not stop[0]:
            gws.remove(first)          # what _unregister does to the member list
            gws.insert(0, first)

    def look():
        while not stop[0]:
            n[0] += 1
            if "keep" not in group or group["keep"] is not keep:
                miss[0] += 1

    ths = [threading.Thread(target=churn, daemon=True), threading.Thread(target=look, daemon=True)]
    [t.start() for t in ths]
    time.sleep(2.5 if tier == "quick" else 15)
    stop[0] = True
    [t.join(10) for t in ths]
    ck.case(("lookup-under-churn",), nontrivial=True)
    ck.cov["lookups_under_churn"] = n[0]
    if miss[0]:
        ck.fail("group-lookup-misses-a-live-gateway-during-unregister-of-another", {"lookups": n[0], "misses": miss[0]})


def atexit_unregister(group):
    import atexit

    try:
        atexit.unregister(group._cleanup_atexit)
    except Exception:  # noqa
        pass
    group._gateways[:] = []


def main(tier, seed, replay=None):
    ck = Check("C20", tier, seed)
    ck.assumptions += [
        "Python str.split('//'), str.find('='), slicing, dict insertion order as modelled on code-point lists",
        "assert statements are effective (the interpreter is not run with -O)",
        "boundary of the statement: a non-final key[=value] piece that ends in '/' makes the text ambiguous (C20_ambiguous_example); such texts are outside the parse theorem",
        "gateway creation is replaced by stubs in the group part (ids, registration and lookup are what is checked here; processes are C05)",
    ]
    ok = ck.prepare()
    xspec_part(ck, ok, tier, replay)
    group_part(ck, ok, tier, replay)
    if not replay:
        lookup_under_churn(ck, tier)
    try:
        from props import c20_sched  # concurrent part (needs the scheduler)

        c20_sched.run(ck, tier, replay)
    except ImportError:
        pass
    return ck.finish(rule="XSpec: generated well-formed key/value lists (unique keys), the same with one repeated key, random strings over an alphabet with '=', ':', '/', '_', space, unicode, and every string over {a,=,/,_,:} up to length 4 -- real XSpec vs extracted model vs the property itself. Group: random sequential makegateway(explicit|auto id)/exit histories with stub gateways vs the extracted id model. distinct = distinct text / history; non-trivial = non-empty text / more than one operation.")
