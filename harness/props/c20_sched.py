"""C20, concurrent part: real Group.makegateway calls (stub gateways) from several threads under
the deterministic scheduler with line-level preemption inside multi.py; every observed outcome
must be a terminal state of the id model (trace inclusion on final states) and must satisfy the
property itself (no duplicate live ids, distinct automatic ids)."""
from __future__ import annotations

import random

from evh.common import Model, REPO_SRC
from evh import sched as S
from props.c20 import StubGw, idnum, atexit_unregister


def one_run(wants, chooser, line_budget, terminators=0):
    import execnet.multi as multi
    from execnet import gateway_bootstrap, gateway_io

    sc = S.Sched(chooser, line_budget=line_budget, max_steps=20000)
    started = []
    orig = (gateway_io.create_io, gateway_bootstrap.bootstrap)
    gateway_io.create_io = lambda spec, execmodel: started.append(spec.id) or object()
    gateway_bootstrap.bootstrap = lambda io, spec: StubGw(spec)
    group = multi.Group()
    atexit_unregister(group)
    orig_st = multi.safe_terminate
    if terminators:
        multi.safe_terminate = lambda *a, **k: None      # stub gateways have no process to wait for / kill
    group._autoidlock = S.SLock(sc, "autoidlock")  # the Group's own threading.Lock, made schedulable
    outcomes = [None] * len(wants)
    table = {}

    def worker(i, want):
        spec = "popen" if want is None else "popen//id=" + want
        try:
            gw = group.makegateway(spec)
            outcomes[i] = [4, idnum(gw.id, table)]
        except (ValueError, AssertionError) as e:
            outcomes[i] = [5, type(e).__name__]

    def terminator():
        group.terminate(timeout=None)

    try:
        for i, w in enumerate(wants):
            sc.spawn(worker, (i, w), name=f"mk{i}")
        for i in range(terminators):
            sc.spawn(terminator, name=f"term{i}")
        S.enable_line_preemption(sc, REPO_SRC)
        res = sc.run(timeout=30)
    finally:
        S.disable_line_preemption()
        gateway_io.create_io, gateway_bootstrap.bootstrap = orig
        multi.safe_terminate = orig_st
    ids = [g.id for g in group._gateways]
    final = [idnum(i, table) for i in ids]
    return res, final, outcomes, ids, sc.trace, table


def run(ck, tier, replay):
    rng = ck.rng
    progs = [[None, None], [None, None, None], ["a", "a"], ["a", None, "a"], ["gw0", None], ["gw1", None, None], ["b", "a", "b"]]
    nsched = 40 if tier == "quick" else 1500
    if replay and replay["example"].get("wants") is not None:
        progs = [replay["example"]["wants"]]
        nsched = 1
    elif replay:
        return
    # model: all terminal states per program
    table0 = {}
    mcases = []
    for wants in progs:
        c = [20, 2, 0, len(wants)]
        tb = {}
        for w in wants:
            c += [0] if w is None else [1, idnum(w, tb)]
        mcases.append(c)
    finals_by_prog = None
    try:
        outs = Model().run(mcases)
        finals_by_prog = []
        for out in outs:
            n, i, fs = out[0], 1, set()
            for _ in range(n):
                ln = out[i]; g = tuple(out[i + 1:i + 1 + ln]); i += 1 + ln
                ln = out[i]; p = tuple(out[i + 1:i + 1 + ln]); i += 1 + ln
                fs.add((g, p))
            finals_by_prog.append(fs)
    except Exception as e:  # noqa
        ck.broke("correspondence", "modelrun-group-all", repr(e))
    nruns = 0
    for pi, wants in enumerate(progs):
        for k in range(nsched):
            if replay:
                chooser = S.ReplayChooser(replay["example"]["schedule"])
            else:
                r = random.Random(rng.random())
                chooser = S.RandomChooser(r, line_p=0.25) if k % 3 else S.PCTChooser(r, depth=3, est_steps=60)
            res, final, outcomes, ids, trace, table = one_run(wants, chooser, line_budget=6)
            nruns += 1
            ex = {"wants": wants, "schedule": trace, "result": res, "final_ids": ids, "outcomes": outcomes}
            ck.case(("gs", tuple(wants), tuple(trace)), nontrivial=len(trace) > 0)
            if k == 0 and pi < 2:
                ck.sample(ex)
            if res != "ok":
                ck.broke("correspondence", "group-sched-run-" + res, ex)
                continue
            if len(set(ids)) != len(ids):
                ck.fail("group-duplicate-live-id", ex)
            autos = [o[1] for o, w in zip(outcomes, wants) if w is None and o and o[0] == 4]
            if len(set(autos)) != len(autos):
                ck.fail("group-duplicate-auto-id", ex)
            if all(w is None for w in wants) and any(o[0] == 5 for o in outcomes):
                ck.fail("group-auto-id-collision", ex)
            if finals_by_prog is not None:
                # compare on (registered ids, which calls succeeded with which id / failed)
                pcs = []
                for o in outcomes:
                    pcs += [4, o[1]] if o[0] == 4 else [5, -1]
                obs = (tuple(final), tuple(pcs))
                norm = {(g, tuple(x if (j % 2 == 0 or p[j - 1] == 4) else -1 for j, x in enumerate(p))) for g, p in finals_by_prog[pi]}
                if obs not in norm:
                    ck.broke("correspondence", "group-sched-outcome-not-in-model", {"case": ex, "observed": obs})
    # the same with Group.terminate() running next to the makegateway calls (no model inclusion: the id model has no terminate):
    # automatic ids stay distinct and no request for an automatic id fails, whenever the terminate happens
    if not replay or replay["example"].get("terminators"):
        tprogs = [([None, None], 1), ([None, None, None], 1), ([None, "a", None], 2)] if not replay else [(replay["example"]["wants"], replay["example"]["terminators"])]
        for wants, nt in tprogs:
            for k in range(nsched):
                if replay:
                    chooser = S.ReplayChooser(replay["example"]["schedule"])
                else:
                    r = random.Random(rng.random())
                    chooser = S.RandomChooser(r, line_p=0.25) if k % 3 else S.PCTChooser(r, depth=3, est_steps=80)
                res, final, outcomes, ids, trace, table = one_run(wants, chooser, line_budget=6, terminators=nt)
                nruns += 1
                ex = {"wants": wants, "terminators": nt, "schedule": trace, "result": res, "final_ids": ids, "outcomes": outcomes}
                ck.case(("gst", tuple(wants), nt, tuple(trace)), nontrivial=len(trace) > 0)
                if res != "ok":
                    ck.broke("correspondence", "group-sched-run-" + res, ex)
                    continue
                if len(set(ids)) != len(ids):
                    ck.fail("group-duplicate-live-id", ex)
                autos = [o[1] for o, w in zip(outcomes, wants) if w is None and o and o[0] == 4]
                if len(set(autos)) != len(autos):
                    ck.fail("group-duplicate-auto-id", ex)
                if any(o is None or o[0] == 5 for o, w in zip(outcomes, wants) if w is None):
                    ck.fail("group-auto-id-collision", ex)
        ck.count("group_sched_runs_with_terminate", 3 * nsched)
    ck.count("group_sched_runs", nruns)
    ck.cov["traces_validated_against_impl"] = ck.cov.get("traces_validated_against_impl", 0) + nruns
